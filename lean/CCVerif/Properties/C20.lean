import CCVerif.Lemmas.Strings
/-!
# C20 — UTF-8 string utilities and interval algebra agree with their definitions

Property theorems about the model `CCVerif.Model.Strings` (a transcription of
`ccl/cclCommons/include/ccl/Strings.hpp`). All statements are for every string / every range,
no size bound. Hypotheses are exactly the documented preconditions of the C++:
well-formed UTF-8 (`s = encode cps` with scalar values), `start ≤ finish` for ranges.
-/
namespace CCVerif.Strings
open StrRange

/-! ## UTF-8 iteration -/

private theorem iterAllGo_end (data : Bytes) (fuel bp : Nat) : iterAllGo data fuel ⟨none, bp⟩ = [] := by
  cases fuel <;> simp [iterAllGo]

private theorem iterAllGo_spec (cps : List Nat) (hv : ∀ c ∈ cps, validCp c) :
    ∀ fuel i, i < cps.length → cps.length - i ≤ fuel →
      iterAllGo (encode cps) fuel ⟨some i, byteOffset cps i⟩ =
        (List.range' i (cps.length - i)).map (fun j => (j, byteOffset cps j)) := by
  intro fuel
  induction fuel with
  | zero => intro i h1 h2; omega
  | succ fuel ih =>
    intro i h1 h2
    have hlen : cps.length - i = (cps.length - (i+1)) + 1 := by omega
    rw [hlen, List.range'_succ, List.map_cons]
    simp only [iterAllGo]
    rw [next_encode cps i h1 hv]
    by_cases h3 : i + 1 < cps.length
    · rw [if_pos h3, ih (i+1) h3 (by omega)]
    · rw [if_neg h3, iterAllGo_end]
      have : cps.length - (i+1) = 0 := by omega
      rw [this]; simp

/-- **iter_enumerates**: stepping from `UTF8Begin` to `UTF8End` over well-formed text visits
every code point once, in order, each with its correct byte offset. -/
theorem iter_enumerates (cps : List Nat) (hv : ∀ c ∈ cps, validCp c) :
    iterAll (encode cps) = (List.range cps.length).map (fun i => (i, byteOffset cps i)) := by
  unfold iterAll
  have h0 := mkIter_encode cps 0 hv
  rw [show ((0:Nat):Int) = 0 from rfl] at h0
  rw [h0]
  by_cases hn : 0 < cps.length
  · rw [if_pos hn, iterAllGo_spec cps hv _ 0 hn (by have := encode_length_ge cps; omega)]
    simp [List.range_eq_range']
  · have : cps = [] := by cases cps <;> simp_all
    subst this; simp [iterAllGo, encode]

private theorem sizeCpGo_end (data : Bytes) (fuel bp acc : Nat) : sizeCpGo data fuel ⟨none, bp⟩ acc = acc := by
  cases fuel <;> simp [sizeCpGo, Iter.isEnd]

private theorem sizeCpGo_spec (cps : List Nat) (hv : ∀ c ∈ cps, validCp c) :
    ∀ fuel i acc, i < cps.length → cps.length - i ≤ fuel →
      sizeCpGo (encode cps) fuel ⟨some i, byteOffset cps i⟩ acc = acc + (cps.length - i) := by
  intro fuel
  induction fuel with
  | zero => intro i acc h1 h2; omega
  | succ fuel ih =>
    intro i acc h1 h2
    simp only [sizeCpGo, Iter.isEnd, Option.isNone_some, Bool.false_eq_true, if_false]
    rw [next_encode cps i h1 hv]
    by_cases h3 : i + 1 < cps.length
    · rw [if_pos h3, ih (i+1) (acc+1) h3 (by omega)]; omega
    · rw [if_neg h3, sizeCpGo_end]; omega

/-- **sizeCp_encode**: `SizeInCodePoints` of well-formed text is the number of code points. -/
theorem sizeCp_encode (cps : List Nat) (hv : ∀ c ∈ cps, validCp c) :
    sizeCp (encode cps) = cps.length := by
  unfold sizeCp
  have h0 := mkIter_encode cps 0 hv
  rw [show ((0:Nat):Int) = 0 from rfl] at h0
  rw [h0]
  by_cases hn : 0 < cps.length
  · rw [if_pos hn, sizeCpGo_spec cps hv _ 0 0 hn (by have := encode_length_ge cps; omega)]; omega
  · have : cps = [] := by cases cps <;> simp_all
    subst this; simp [sizeCpGo, encode, Iter.isEnd]

/-! ## Substr -/

private theorem drop_take_encode (cps : List Nat) (a b : Nat) (hab : a ≤ b) (hb : b ≤ cps.length) :
    ((encode cps).drop (byteOffset cps a)).take (byteOffset cps b - byteOffset cps a)
      = encode ((cps.drop a).take (b - a)) := by
  have hsplit : cps = cps.take a ++ ((cps.drop a).take (b - a) ++ cps.drop b) := by
    have h1 : (cps.drop a).take (b - a) ++ cps.drop b = cps.drop a := by
      have : cps.drop b = (cps.drop a).drop (b - a) := by
        rw [List.drop_drop]; congr 1; omega
      rw [this, List.take_append_drop]
    rw [h1, List.take_append_drop]
  have hb' : byteOffset cps b = byteOffset cps a + (encode ((cps.drop a).take (b - a))).length := by
    unfold byteOffset
    have : cps.take b = cps.take a ++ (cps.drop a).take (b - a) := by
      have := List.take_add (l := cps) (i := a) (j := b - a)
      rw [show a + (b - a) = b by omega] at this
      exact this
    rw [this, encode_append, List.length_append]
  rw [hb', Nat.add_sub_cancel_left]
  conv => lhs; arg 2; arg 2; rw [hsplit, encode_append, encode_append]
  unfold byteOffset
  rw [List.drop_left, List.take_left]

/-- **substr_spec** (in range): for `a < b ≤ n`, `Substr` returns the encoding of code points
`a .. b-1`. -/
theorem substr_spec (cps : List Nat) (hv : ∀ c ∈ cps, validCp c) (a b : Nat)
    (hab : a < b) (hb : b ≤ cps.length) :
    substr (encode cps) (a : Int) (b : Int) = encode ((cps.drop a).take (b - a)) := by
  unfold substr
  have hb1 : ((b : Int) - 1) = ((b - 1 : Nat) : Int) := by omega
  have ha' : a < cps.length := by omega
  have hb' : b - 1 < cps.length := by omega
  rw [hb1, mkIter_encode cps a hv, mkIter_encode cps (b-1) hv, if_pos ha', if_pos hb']
  simp only [Iter.isEnd, Option.isNone_some, Bool.or_self, Bool.false_eq_true, if_false]
  rw [next_encode cps (b-1) (by omega) hv]
  have hb2 : b - 1 + 1 = b := by omega
  rw [hb2]
  by_cases h3 : b < cps.length
  · rw [if_pos h3]
    simp only [Option.isNone_some, Bool.false_eq_true, if_false]
    have hle : byteOffset cps a ≤ byteOffset cps b := by
      unfold byteOffset
      have : cps.take b = cps.take a ++ (cps.drop a).take (b - a) := by
        have := List.take_add (l := cps) (i := a) (j := b - a)
        rw [show a + (b - a) = b by omega] at this
        exact this
      rw [this, encode_append, List.length_append]; omega
    rw [if_pos hle]
    exact drop_take_encode cps a b (by omega) hb
  · rw [if_neg h3]
    simp only [Option.isNone_none, if_true]
    have hbn : b = cps.length := by omega
    have := drop_take_encode cps a b (by omega) hb
    rw [byteOffset_ge cps b (by omega)] at this
    rw [← this, List.take_of_length_le]
    simp

/-- **substr_empty**: an empty range gives the empty string. -/
theorem substr_empty (cps : List Nat) (hv : ∀ c ∈ cps, validCp c) (a : Nat) :
    substr (encode cps) (a : Int) (a : Int) = [] := by
  unfold substr
  cases a with
  | zero =>
    have : mkIter (encode cps) (((0:Nat):Int) - 1) = ⟨none, 0⟩ := by
      unfold mkIter; simp
    rw [this]; simp [Iter.isEnd]
  | succ a =>
    have hb1 : (((a+1 : Nat) : Int) - 1) = ((a : Nat) : Int) := by omega
    rw [hb1, mkIter_encode cps (a+1) hv, mkIter_encode cps a hv]
    by_cases h1 : a + 1 < cps.length
    · have h2 : a < cps.length := by omega
      rw [if_pos h1, if_pos h2]
      simp only [Iter.isEnd, Option.isNone_some, Bool.or_self, Bool.false_eq_true, if_false]
      rw [next_encode cps a h2 hv, if_pos h1]
      simp
    · rw [if_neg h1]; simp [Iter.isEnd]

/-- **substr_out_of_range**: the code returns the empty view for any range that reaches the end
marker (`start ≥ n` or `finish > n`) — it does not clamp. Stated exactly as the code behaves. -/
theorem substr_out_of_range (cps : List Nat) (hv : ∀ c ∈ cps, validCp c) (a b : Nat)
    (h : cps.length ≤ a ∨ cps.length < b ∨ b = 0) :
    substr (encode cps) (a : Int) (b : Int) = [] := by
  unfold substr
  rcases h with h | h | h
  · have h' : ¬ a < cps.length := by omega
    rw [mkIter_encode cps a hv, if_neg h']; simp [Iter.isEnd]
  · have hb1 : ((b : Int) - 1) = ((b - 1 : Nat) : Int) := by omega
    have h' : ¬ b - 1 < cps.length := by omega
    rw [hb1, mkIter_encode cps (b-1) hv, if_neg h']; simp [Iter.isEnd]
  · subst h
    have : mkIter (encode cps) (((0:Nat):Int) - 1) = ⟨none, 0⟩ := by unfold mkIter; simp
    rw [this]; simp [Iter.isEnd]

/-! ## SplitBySymbol -/

private theorem splitGo_length' (d : Nat) (s cur : Bytes) :
    (splitGo d s cur).length = s.count d + 1 := by
  induction s generalizing cur with
  | nil => simp [splitGo]
  | cons c rest ih =>
    unfold splitGo
    split
    · next h => subst h; simp [ih]
    · next h => rw [ih]; simp [List.count_cons]; intro e; exact absurd e h

private theorem splitGo_join (d : Nat) (s cur : Bytes) :
    List.intercalate [d] (splitGo d s cur) = cur.reverse ++ s := by
  induction s generalizing cur with
  | nil => simp [splitGo, List.intercalate]
  | cons c rest ih =>
    unfold splitGo
    split
    · next h =>
      subst h
      have := ih []
      cases hsp : splitGo c rest [] with
      | nil => exact absurd (congrArg List.length hsp) (by rw [splitGo_length']; simp)
      | cons p ps =>
        rw [hsp] at this
        simp only [List.reverse_nil, List.nil_append] at this
        rw [← this]
        simp [List.intercalate, List.intersperse]
    · next h => rw [ih]; simp

/-- **splitBy_join**: joining the pieces with the delimiter gives back the text. -/
theorem splitBy_join (s : Bytes) (d : Nat) : List.intercalate [d] (splitBy s d) = s := by
  unfold splitBy; rw [splitGo_join]; simp

private theorem splitGo_nodelim (d : Nat) (s cur : Bytes) (hc : d ∉ cur) :
    ∀ p ∈ splitGo d s cur, d ∉ p := by
  induction s generalizing cur with
  | nil => simp [splitGo]; exact hc
  | cons c rest ih =>
    unfold splitGo
    split
    · intro p hp
      rcases List.mem_cons.1 hp with rfl | hp
      · simpa using hc
      · exact ih [] (by simp) p hp
    · next h =>
      apply ih
      simp; exact ⟨fun e => h e.symm, hc⟩

/-- **splitBy_nodelim**: no piece contains the delimiter. -/
theorem splitBy_nodelim (s : Bytes) (d : Nat) : ∀ p ∈ splitBy s d, d ∉ p :=
  splitGo_nodelim d s [] (by simp)

/-- **splitBy_length**: number of pieces = number of delimiters + 1 (also for the empty and the
all-delimiter string). -/
theorem splitBy_length (s : Bytes) (d : Nat) : (splitBy s d).length = s.count d + 1 :=
  splitGo_length' d s []

/-! ## TrimWhitespace -/

/-- **trim_spec**: `TrimWhitespace` removes exactly the maximal whitespace prefix and suffix:
for every decomposition `ws1 ++ core ++ ws2` with `ws1`, `ws2` whitespace and `core` empty or
beginning and ending with a non-whitespace byte, the result is `core`. -/
theorem trim_spec (ws1 core ws2 : Bytes)
    (h1 : ∀ b ∈ ws1, isSpace b = true) (h2 : ∀ b ∈ ws2, isSpace b = true)
    (hc : core = [] → ws2 = [])
    (hfirst : ∀ b, core.head? = some b → isSpace b = false)
    (hlast : ∀ b, core.getLast? = some b → isSpace b = false) :
    trim (ws1 ++ core ++ ws2) = core := by
  by_cases hcore : core = []
  · -- all whitespace
    subst hcore
    have hw2 := hc rfl
    subst hw2
    simp only [List.append_nil]
    by_cases hw : ws1 = []
    · subst hw; simp [trim]
    · have hlen : 0 < ws1.length := List.length_pos_iff.2 hw
      have hall : ∀ i, i ≤ ws1.length - 1 → isSpace (ws1.getD i 0) = true := by
        intro i hi
        have hi' : i < ws1.length := by omega
        rw [List.getD_eq_getElem?_getD, List.getElem?_eq_getElem hi']
        exact h1 _ (List.getElem_mem hi')
      unfold trim
      have hne : ws1.isEmpty = false := by cases ws1 <;> simp_all
      simp only [hne, Bool.false_eq_true, if_false]
      by_cases hone : ws1.length = 1
      · -- single whitespace byte
        have e0 : ws1.length - 1 = 0 := by omega
        rw [e0]
        have hs0 := hall 0 (by omega)
        have hst : trimStart ws1 0 (ws1.length + 1) 0 = 1 := by
          rw [show ws1.length + 1 = 1 + 1 by omega]
          unfold trimStart
          rw [hs0]; simp
        rw [hst]
        have hen : trimEnd ws1 1 (ws1.length + 1) 0 = 0 := by
          rw [show ws1.length + 1 = 1 + 1 by omega]
          unfold trimEnd
          simp
        rw [hen]; simp
      · have hge : 1 ≤ ws1.length - 1 := by omega
        have hst := trimStart_allspace ws1 (ws1.length - 1) hall (ws1.length + 1) 0 (by omega) (by omega)
        rw [hst]
        have hs := hall (ws1.length - 1) (Nat.le_refl _)
        have hen : trimEnd ws1 (ws1.length - 1) (ws1.length + 1) (ws1.length - 1) = ws1.length - 1 - 1 := by
          rw [show ws1.length + 1 = ws1.length + 1 from rfl]
          unfold trimEnd
          have hne0 : (ws1.length - 1 != 0) = true := by simp; omega
          simp only [hs, hne0, Bool.and_self, if_true]
          rw [if_neg (by omega)]
        rw [hen]
        have : ws1.length - 1 > ws1.length - 1 - 1 := by omega
        simp [this]
  · -- non-empty core
    have hclen : 0 < core.length := List.length_pos_iff.2 hcore
    let text := ws1 ++ core ++ ws2
    let k := ws1.length
    let t := ws1.length + core.length - 1
    have hn : text.length = ws1.length + core.length + ws2.length := by simp [text]; omega
    have hget1 : ∀ i, i < k → isSpace (text.getD i 0) = true := by
      intro i hi
      have : text.getD i 0 = ws1[i]'hi := by
        simp only [text, List.append_assoc]
        rw [List.getD_eq_getElem?_getD, List.getElem?_append_left hi, List.getElem?_eq_getElem hi]; rfl
      rw [this]; exact h1 _ (List.getElem_mem hi)
    have hgetk : isSpace (text.getD k 0) = false := by
      have hk' : k < text.length := by omega
      have : text.getD k 0 = core[0]'hclen := by
        simp only [text, List.append_assoc, k]
        rw [List.getD_eq_getElem?_getD, List.getElem?_append_right (Nat.le_refl _), Nat.sub_self,
            List.getElem?_append_left hclen, List.getElem?_eq_getElem hclen]; rfl
      rw [this]
      apply hfirst
      cases core with
      | nil => exact absurd rfl hcore
      | cons c cs => rfl
    have hgett : isSpace (text.getD t 0) = false := by
      have hidx : t - ws1.length = core.length - 1 := by omega
      have hlt : core.length - 1 < core.length := by omega
      have : text.getD t 0 = core[core.length - 1]'hlt := by
        simp only [text, List.append_assoc, t]
        rw [List.getD_eq_getElem?_getD, List.getElem?_append_right (by omega)]
        rw [show ws1.length + core.length - 1 - ws1.length = core.length - 1 by omega]
        rw [List.getElem?_append_left hlt, List.getElem?_eq_getElem hlt]; rfl
      rw [this]
      apply hlast
      rw [List.getLast?_eq_getElem?]
      exact List.getElem?_eq_getElem hlt
    have hget2 : ∀ i, t < i → i ≤ text.length - 1 → isSpace (text.getD i 0) = true := by
      intro i hi1 hi2
      have hi3 : i - (ws1.length + core.length) < ws2.length := by omega
      have : text.getD i 0 = ws2[i - (ws1.length + core.length)]'hi3 := by
        simp only [text]
        rw [List.getD_eq_getElem?_getD, List.getElem?_append_right (by simp; omega)]
        simp only [List.length_append]
        rw [List.getElem?_eq_getElem hi3]; rfl
      rw [this]; exact h2 _ (List.getElem_mem hi3)
    have htne : text.isEmpty = false := by
      cases hte : text with
      | nil => rw [hte] at hn; simp at hn; omega
      | cons _ _ => rfl
    show trim text = core
    unfold trim
    simp only [htne, Bool.false_eq_true, if_false]
    have hst := trimStart_found text k (text.length - 1) hget1 hgetk (by omega) (text.length + 1) 0 (by omega) (by omega)
    rw [hst]
    have hen := trimEnd_found text k t (text.length - 1) hget2 hgett (by omega) (text.length + 1) (text.length - 1) (by omega) (Nat.le_refl _) (by omega)
    rw [hen]
    have hkt : ¬ k > t := by omega
    simp only [hkt, if_false]
    have hlen : t - k + 1 = core.length := by omega
    rw [hlen]
    simp only [text, k, List.append_assoc]
    rw [List.drop_left, List.take_left]


/-- the reference definition: drop the maximal whitespace prefix and suffix -/
def trimRef (s : Bytes) : Bytes := ((s.dropWhile isSpace).reverse.dropWhile isSpace).reverse

private theorem mem_takeWhile_sp (l : Bytes) (x : Nat) (h : x ∈ l.takeWhile isSpace) : isSpace x = true := by
  induction l with
  | nil => simp at h
  | cons y ys ih =>
    simp only [List.takeWhile_cons] at h
    split at h
    · rcases List.mem_cons.1 h with rfl | h'
      · assumption
      · exact ih h'
    · simp at h

private theorem getLast?_append_ne (a b : Bytes) (h : b ≠ []) : (a ++ b).getLast? = b.getLast? := by
  induction a with
  | nil => rfl
  | cons x xs ih =>
    cases hxb : xs ++ b with
    | nil => simp at hxb; exact absurd hxb.2 h
    | cons y ys => rw [List.cons_append, hxb, List.getLast?_cons_cons, ← hxb, ih]

private theorem head_dropWhile (l : Bytes) (b : Nat) (h : (l.dropWhile isSpace).head? = some b) : isSpace b = false := by
  induction l with
  | nil => simp at h
  | cons x xs ih =>
    simp only [List.dropWhile_cons] at h
    split at h
    · exact ih h
    · simp at h; subst h; simpa using ‹¬isSpace x = true›

/-- **trim_eq_trimRef**: for every byte string, `TrimWhitespace` is the reference trimming. -/
theorem trim_eq_trimRef (s : Bytes) : trim s = trimRef s := by
  let a := s.takeWhile isSpace
  let r := s.dropWhile isSpace
  let b := (r.reverse.takeWhile isSpace).reverse
  let core := (r.reverse.dropWhile isSpace).reverse
  have hr : r = core ++ b := by
    have := List.takeWhile_append_dropWhile (p := isSpace) (l := r.reverse)
    have h2 := congrArg List.reverse this
    simp only [List.reverse_append, List.reverse_reverse] at h2
    exact h2.symm
  have hs : s = a ++ core ++ b := by
    have := (List.takeWhile_append_dropWhile (p := isSpace) (l := s)).symm
    rw [List.append_assoc, ← hr]; exact this
  have ha : ∀ x ∈ a, isSpace x = true := fun x hx => mem_takeWhile_sp s x hx
  have hb : ∀ x ∈ b, isSpace x = true := by
    intro x hx
    have : x ∈ r.reverse.takeWhile isSpace := by simpa [b] using hx
    exact mem_takeWhile_sp _ x this
  have hfirst : ∀ x, core.head? = some x → isSpace x = false := by
    intro x hx
    apply head_dropWhile s x
    show r.head? = some x
    rw [hr]
    cases hc : core with
    | nil => rw [hc] at hx; simp at hx
    | cons c cs => rw [hc] at hx; simpa using hx
  have hlast : ∀ x, core.getLast? = some x → isSpace x = false := by
    intro x hx
    apply head_dropWhile r.reverse x
    have : core.getLast? = (r.reverse.dropWhile isSpace).head? := by simp [core, List.getLast?_reverse]
    rw [← this]; exact hx
  have hc : core = [] → b = [] := by
    intro hcn
    have hrb : r = b := by rw [hr, hcn]; simp
    cases hrr : r with
    | nil => rw [hrr] at hrb; exact hrb.symm
    | cons x xs =>
      have hx : isSpace x = true := hb x (by rw [← hrb, hrr]; simp)
      have := head_dropWhile s x (by show r.head? = some x; rw [hrr]; rfl)
      rw [hx] at this; cases this
  have := trim_spec a core b ha hb hc hfirst hlast
  rw [← hs] at this
  rw [this]
  rfl

/-- trimming is idempotent -/
theorem trim_idempotent (s : Bytes) : trim (trim s) = trim s := by
  rw [trim_eq_trimRef s, trim_eq_trimRef]
  unfold trimRef
  generalize hc : ((s.dropWhile isSpace).reverse.dropWhile isSpace) = c
  have h1 : c.dropWhile isSpace = c := by
    cases hcc : c with
    | nil => rfl
    | cons x xs =>
      have := head_dropWhile (s.dropWhile isSpace).reverse x (by rw [hc, hcc]; rfl)
      simp [List.dropWhile_cons, this]
  have h2 : c.reverse.dropWhile isSpace = c.reverse := by
    cases hrr : c.reverse with
    | nil => rfl
    | cons x xs =>
      -- the head of c.reverse is the last byte of c; c is a suffix-reversal of dropWhile: its last is head of dropWhile s
      have hx : isSpace x = false := by
        have hlast : c.getLast? = some x := by
          rw [← List.head?_reverse, hrr]; rfl
        -- c = (dropWhile s).reverse.dropWhile, so c is a suffix of (dropWhile s).reverse; its last element is the head of dropWhile s
        have hsuf : c <:+ (s.dropWhile isSpace).reverse := by rw [← hc]; exact List.dropWhile_suffix _
        obtain ⟨pre, hpre⟩ := hsuf
        have hne : c ≠ [] := by intro e; rw [e] at hlast; simp at hlast
        have : ((s.dropWhile isSpace).reverse).getLast? = some x := by
          rw [← hpre, getLast?_append_ne _ _ hne]; exact hlast
        rw [List.getLast?_reverse] at this
        exact head_dropWhile s x this
      simp [List.dropWhile_cons, hx]
  rw [h2, List.reverse_reverse, h1]


/-! ## IsInteger -/

/-- **isInteger_spec**: `-?[0-9]+`. -/
theorem isInteger_spec (s : Bytes) :
    isInteger s = true ↔
      (s ≠ [] ∧ s.all isDigit = true) ∨ (∃ r, s = 45 :: r ∧ r ≠ [] ∧ r.all isDigit = true) := by
  cases s with
  | nil => simp [isInteger]
  | cons c rest =>
    unfold isInteger
    by_cases hc : c = 45
    · subst hc
      simp only [if_true]
      cases rest with
      | nil => simp [isDigit]
      | cons x xs => simp [isDigit]
    · simp only [if_neg hc]
      constructor
      · intro h; exact Or.inl ⟨by simp, h⟩
      · rintro (⟨_, h⟩ | ⟨r, h, _⟩)
        · exact h
        · simp at h; exact absurd h.1 hc

/-! ## Interval algebra (point-set semantics) -/

/-- `p` lies in the half-open range. -/
def inR (r : StrRange) (p : Int) : Prop := r.start ≤ p ∧ p < r.finish
def Valid (r : StrRange) : Prop := r.start ≤ r.finish

theorem containsPos_iff (r : StrRange) (p : Int) : r.containsPos p = true ↔ inR r p := by
  simp [containsPos, inR]

theorem contains_nonempty_iff (r s : StrRange) (hs : s.start < s.finish) :
    r.contains s = true ↔ ∀ p, inR s p → inR r p := by
  have hne : s.empty = false := by simp [StrRange.empty]; omega
  simp only [contains, hne, inR]
  constructor
  · intro h p hp; simp at h; omega
  · intro h
    have h1 := h s.start ⟨by omega, hs⟩
    have h2 := h (s.finish - 1) ⟨by omega, by omega⟩
    simp; omega

/-- documented rule for an empty argument: containment of its position. -/
theorem contains_empty (r s : StrRange) (hs : s.start = s.finish) :
    r.contains s = r.containsPos s.finish := by
  simp [contains, StrRange.empty, hs]

theorem before_after_dual (r s : StrRange) : r.isBefore s = s.isAfter r := by
  simp [isBefore, isAfter]

theorem sharesBorder_symm (r s : StrRange) : r.sharesBorder s = s.sharesBorder r := by
  simp [sharesBorder, Bool.or_comm]

theorem sharesBorder_iff (r s : StrRange) :
    r.sharesBorder s = true ↔ r.finish = s.start ∨ s.finish = r.start := by
  simp [sharesBorder, meets]

theorem overlaps_symm (r s : StrRange) : r.overlaps s = s.overlaps r := by
  unfold overlaps
  by_cases h1 : r.start = s.start
  · simp [h1]
  · have h1' : ¬ s.start = r.start := fun e => h1 e.symm
    by_cases h2 : r.start < s.start
    · have : ¬ s.start < r.start := by omega
      simp [h1, h1', h2, this]
    · have : s.start < r.start := by omega
      simp [h1, h1', h2, this]

/-- for non-empty ranges `Overlaps` is exactly "the point sets intersect". -/
theorem overlaps_iff (r s : StrRange) (hr : r.start < r.finish) (hs : s.start < s.finish) :
    r.overlaps s = true ↔ ∃ p, inR r p ∧ inR s p := by
  unfold overlaps inR
  by_cases h1 : r.start = s.start
  · simp only [h1, if_true, true_iff]; exact ⟨s.start, by omega⟩
  · by_cases h2 : r.start < s.start
    · simp only [h1, h2, if_true, if_false, decide_eq_true_eq]
      constructor
      · intro h; exact ⟨s.start, by omega⟩
      · rintro ⟨p, hp⟩; omega
    · simp only [h1, h2, if_false, decide_eq_true_eq]
      constructor
      · intro h; exact ⟨r.start, by omega⟩
      · rintro ⟨p, hp⟩; omega

theorem starts_iff (r s : StrRange) : r.starts s = true ↔ r.start = s.start ∧ r.finish < s.finish := by
  simp [starts]
theorem finishes_iff (r s : StrRange) : r.finishes s = true ↔ r.finish = s.finish ∧ s.start < r.start := by
  simp [finishes]
theorem during_iff (r s : StrRange) : r.isDuring s = true ↔ s.start < r.start ∧ r.finish < s.finish := by
  simp [isDuring]
theorem before_iff (r s : StrRange) : r.isBefore s = true ↔ r.finish < s.start := by simp [isBefore]
theorem after_iff (r s : StrRange) : r.isAfter s = true ↔ s.finish < r.start := by simp [isAfter]
theorem meets_iff (r s : StrRange) : r.meets s = true ↔ r.finish = s.start := by simp [meets]

/-- `Starts`, `Finishes`, `IsDuring` imply strict containment of point sets. -/
theorem starts_finishes_during_contained (r s : StrRange) (hr : Valid r)
    (h : r.starts s = true ∨ r.finishes s = true ∨ r.isDuring s = true) :
    (∀ p, inR r p → inR s p) ∧ r ≠ s := by
  simp only [starts_iff, finishes_iff, during_iff] at h
  unfold inR; unfold Valid at hr
  refine ⟨fun p hp => by omega, ?_⟩
  intro e; subst e; omega

/-- for valid ranges: before / after / meets exclude overlap of non-empty ranges. -/
theorem before_excludes_overlap (r s : StrRange) (hr : Valid r) (h : r.isBefore s = true) :
    r.overlaps s = false ∧ r.meets s = false ∧ r.isAfter s = false ∨ ¬ Valid s := by
  simp only [before_iff] at h
  unfold Valid at *
  by_cases hs : s.start ≤ s.finish
  · left
    have h1 : ¬ r.start = s.start := by omega
    have h2 : r.start < s.start := by omega
    simp [overlaps, meets, isAfter, h1, h2]; omega
  · right; exact hs

/-- **intersect_spec**: `some t` is exactly the point-set intersection (and a valid range);
`none` means the ranges are separated by a gap. -/
theorem intersect_some (r s t : StrRange) (hr : Valid r) (hs : Valid s) (h : r.intersect s = some t) :
    Valid t ∧ ∀ p, inR t p ↔ (inR r p ∧ inR s p) := by
  unfold intersect at h
  split at h
  · cases h
  · next hc =>
    simp [isBefore, isAfter] at hc
    injection h with h; subst h
    unfold Valid inR at *
    simp only
    refine ⟨by omega, fun p => by omega⟩

theorem intersect_none (r s : StrRange) (h : r.intersect s = none) :
    (r.finish < s.start ∨ s.finish < r.start) ∧ ∀ p, ¬ (inR r p ∧ inR s p) := by
  unfold intersect at h
  split at h
  · next hc =>
    simp [isBefore, isAfter] at hc
    unfold inR
    exact ⟨by omega, fun p => by omega⟩
  · cases h

private def mstep (bounds rng : StrRange) : StrRange :=
  ⟨min rng.start bounds.start, max rng.finish bounds.finish⟩

private theorem mstep_facts (b x : StrRange) :
    (mstep b x).start ≤ b.start ∧ (mstep b x).start ≤ x.start ∧
    b.finish ≤ (mstep b x).finish ∧ x.finish ≤ (mstep b x).finish ∧
    ((mstep b x).start = b.start ∨ (mstep b x).start = x.start) ∧
    ((mstep b x).finish = b.finish ∨ (mstep b x).finish = x.finish) := by
  simp only [mstep]
  refine ⟨by omega, by omega, by omega, by omega, by omega, by omega⟩

private theorem merge_fold (l : List StrRange) (b : StrRange) :
    ((l.foldl mstep b).start ≤ b.start ∧ b.finish ≤ (l.foldl mstep b).finish) ∧
    (∀ r ∈ l, (l.foldl mstep b).start ≤ r.start ∧ r.finish ≤ (l.foldl mstep b).finish) ∧
    ((l.foldl mstep b).start = b.start ∨ ∃ r ∈ l, (l.foldl mstep b).start = r.start) ∧
    ((l.foldl mstep b).finish = b.finish ∨ ∃ r ∈ l, (l.foldl mstep b).finish = r.finish) := by
  induction l generalizing b with
  | nil => simp
  | cons x xs ih =>
    simp only [List.foldl_cons]
    obtain ⟨⟨h1, h2⟩, h3, h4, h5⟩ := ih (mstep b x)
    obtain ⟨f1, f2, f3, f4, f5, f6⟩ := mstep_facts b x
    generalize List.foldl mstep (mstep b x) xs = m at *
    generalize mstep b x = y at *
    refine ⟨⟨Int.le_trans h1 f1, Int.le_trans f3 h2⟩, ?_, ?_, ?_⟩
    · intro r hr
      rcases List.mem_cons.1 hr with rfl | hr
      · exact ⟨Int.le_trans h1 f2, Int.le_trans f4 h2⟩
      · exact h3 r hr
    · rcases h4 with h4 | ⟨r, hr, h4⟩
      · rcases f5 with f5 | f5
        · left; rw [h4, f5]
        · right; exact ⟨x, by simp, by rw [h4, f5]⟩
      · right; exact ⟨r, by simp [hr], h4⟩
    · rcases h5 with h5 | ⟨r, hr, h5⟩
      · rcases f6 with f6 | f6
        · left; rw [h5, f6]
        · right; exact ⟨x, by simp, by rw [h5, f6]⟩
      · right; exact ⟨r, by simp [hr], h5⟩

private theorem merge_eq (b : StrRange) (rest : List StrRange) : merge (b :: rest) = rest.foldl mstep b := rfl

/-- **merge_spec**: `Merge` covers every member and its end points are end points of members
(so it is the smallest covering range); `Merge [] = ⟨0,0⟩`. -/
theorem merge_spec (l : List StrRange) (hne : l ≠ []) :
    (∀ r ∈ l, (merge l).start ≤ r.start ∧ r.finish ≤ (merge l).finish) ∧
    (∃ r ∈ l, (merge l).start = r.start) ∧ (∃ r ∈ l, (merge l).finish = r.finish) := by
  cases l with
  | nil => exact absurd rfl hne
  | cons b rest =>
    obtain ⟨⟨h1, h2⟩, h3, h4, h5⟩ := merge_fold rest b
    rw [merge_eq]
    refine ⟨?_, ?_, ?_⟩
    · intro r hr
      rcases List.mem_cons.1 hr with rfl | hr
      · exact ⟨h1, h2⟩
      · exact h3 r hr
    · rcases h4 with h4 | ⟨r, hr, h4⟩
      · exact ⟨b, by simp, h4⟩
      · exact ⟨r, by simp [hr], h4⟩
    · rcases h5 with h5 | ⟨r, hr, h5⟩
      · exact ⟨b, by simp, h5⟩
      · exact ⟨r, by simp [hr], h5⟩

theorem merge_nil : merge [] = ⟨0, 0⟩ := rfl

/-! ## Non-vacuity: the hypotheses are met by concrete non-trivial inputs -/

-- "a¬∀𝔸": 1-, 2-, 3- and 4-byte code points
example : (∀ c ∈ [0x61, 0xAC, 0x2200, 0x1D538], validCp c) := by simp [validCp]
example : iterAll (encode [0x61, 0xAC, 0x2200, 0x1D538]) = [(0,0),(1,1),(2,3),(3,6)] := by decide
example : substr (encode [0x61, 0xAC, 0x2200, 0x1D538]) 1 3 = encode [0xAC, 0x2200] := by decide
example : Valid ⟨1, 4⟩ ∧ Valid ⟨2, 6⟩ ∧ (StrRange.intersect ⟨1,4⟩ ⟨2,6⟩ = some ⟨2,4⟩) := by
  refine ⟨by simp [Valid], by simp [Valid], by decide⟩

end CCVerif.Strings
