import CCVerif.Lemmas.Refs
/-!
# C17 — text references: found, resolved, written back, kept aligned

Property theorems about the model `CCVerif.Model.Refs` (a transcription of `Reference.cpp`,
`RefsManager.cpp`, `ManagedText.cpp`, `Morphology.cpp`, `LexicalTerm.cpp` of `ccl/cclLang`)
against the specification `CCVerif.Model.RefsSpec`. All statements are for every well-formed
UTF-8 text `encode cps` (every list of scalar values `cps`), every term context, no size bound.

The model is parametric in a `Variant` (which of the three repairs of `Reference.cpp` are
applied); `Variant.current` is the code as it is in `/repo` = all three repaired (commits "fix: a
reference directly after an '@' is found", "fix: an empty last field of an entity reference no
longer terminates the process", "fix: a collaboration offset outside int16_t makes the text not
a reference"). The plain-named theorems (`extractAll_spec`, `resolve_spec`, `referals_spec`,
`translateRaw_spec`, `no_fault`, …) are about `Variant.current`, at full strength, without
hypotheses on the text. Theorems named `…_of_variant` hold for every variant and carry, per
repair that is *not* applied, the hypothesis that excludes the inputs on which the old code left
the property — they document exactly what each repair was needed for. `…_observed` are closed
facts (checked by `decide`) about the old code `Variant.asIs` on the four inputs that used to
fail; the harness replays these inputs on the implementation in every run.
-/
namespace CCVerif.Refs
open CCVerif.Strings CCVerif.Refs.Spec

/-! ## ExtractAll: the references found are exactly the well-formed candidates, in order -/

/-- the references the specification finds, in the shape `ExtractAll` returns them. -/
def specRefs (cps : List Nat) : List Ref :=
  (refsOf cps).map (fun x => ⟨x.2.2, ⟨(x.1 : Int), (x.2.1 : Int)⟩, []⟩)

/-- **parse_of_variant**: `Reference::Parse` on the bytes of one candidate (any byte string)
returns exactly what the reference grammar `refOf` says — entity / collaboration / not a
reference — given, only for the repairs not applied, that the spelling is not in the class on
which the old code faulted (`emptyLastField`) or changed the offset (`offsetOutOfRange`). -/
theorem parse_of_variant (v : Variant) (b : Bytes)
    (h1 : v.fixEmptyLast = false → emptyLastField b = false)
    (h2 : v.fixRange = false → offsetOutOfRange b = false) :
    parse v b = .ok (refOf b) :=
  parse_spec v b h1 h2

/-- **morphology_set_semantics**: `Morphology(tags)` (trim, table look-up, insertion into the
ordered `std::set`) is the set of known grammemes named by the tags, in enumerator order:
unknown names and `UNKN` are dropped, repetitions and order do not matter. -/
theorem morphology_set_semantics (tags : List Bytes) : morphOfTags tags = formOf tags :=
  morphOfTags_eq_formOf tags

/-- hypothesis needed while `fixEmptyLast` / `fixRange` are not applied: no candidate of the text is
spelled in the class on which the old `Parse` faulted or changed the offset. -/
def candidatesParseClean (v : Variant) (cps : List Nat) : Prop :=
  (v.fixEmptyLast = false → ∀ se ∈ cands cps, emptyLastField (encode (slice cps se.1 se.2)) = false) ∧
  (v.fixRange = false → ∀ se ∈ cands cps, offsetOutOfRange (encode (slice cps se.1 se.2)) = false)

private theorem collect_spec (v : Variant) (cps : List Nat) (cs : List (Nat × Nat))
    (h1 : v.fixEmptyLast = false → ∀ se ∈ cs, emptyLastField (encode (slice cps se.1 se.2)) = false)
    (h2 : v.fixRange = false → ∀ se ∈ cs, offsetOutOfRange (encode (slice cps se.1 se.2)) = false) :
    collect v cps cs = .ok ((cs.filterMap (fun se =>
      match refOf (encode (slice cps se.1 se.2)) with
      | some d => some (se.1, se.2, d)
      | none => none)).map (fun x => (⟨x.2.2, ⟨(x.1 : Int), (x.2.1 : Int)⟩, []⟩ : Ref))) := by
  induction cs with
  | nil => rfl
  | cons se rest ih =>
    have ih' := ih (fun hf x hx => h1 hf x (by simp [hx])) (fun hf x hx => h2 hf x (by simp [hx]))
    unfold collect
    rw [parse_spec v _ (fun hf => h1 hf se (by simp)) (fun hf => h2 hf se (by simp)), ih']
    simp only [List.filterMap_cons]
    cases refOf (encode (slice cps se.1 se.2)) with
    | none => rfl
    | some d => rfl

/-- **extractAll_of_variant**: on well-formed text `ExtractAll` returns exactly the candidates of
`Cands` that are references of the grammar, in order, with their code-point ranges — for every
variant, given (only for the repairs not applied) that the text avoids the defect's inputs. -/
theorem extractAll_of_variant (v : Variant) (cps : List Nat) (hv : ∀ c ∈ cps, validCp c)
    (hscan : v.fixScan = false → hasAtAt cps = false)
    (hparse : candidatesParseClean v cps) :
    extractAll v (encode cps) = .ok (specRefs cps) := by
  rw [extractAll_encode v cps hv]
  have hlen := encode_length_ge cps
  have hc : candsL v.fixScan ((encode cps).length + 1) cps 0 = cands cps := by
    cases hfix : v.fixScan with
    | true => exact candsL_spec _ cps 0 (by omega)
    | false => rw [candsL_bug_eq _ cps 0 (hscan hfix)]; exact candsL_spec _ cps 0 (by omega)
  rw [hc, collect_spec v cps (cands cps) hparse.1 hparse.2]
  rfl

/-- **extractAll_spec**: for every well-formed text, `ExtractAll` of the current code returns
exactly the candidates of `Cands` that are references of the grammar, in left-to-right order,
with their code-point ranges. -/
theorem extractAll_spec (cps : List Nat) (hv : ∀ c ∈ cps, validCp c) :
    extractAll Variant.current (encode cps) = .ok (specRefs cps) :=
  extractAll_of_variant _ cps hv (fun h => by simp [Variant.current, Variant.repaired] at h)
    ⟨fun h => by simp [Variant.current, Variant.repaired] at h, fun h => by simp [Variant.current, Variant.repaired] at h⟩

/-! ### the inputs on which the old code (`Variant.asIs`) left the property -/

/-- `x@@{X1|nomn,sing}` as code points. -/
def cexAtAt : List Nat := [120, 64, 64, 123, 88, 49, 124, 110, 111, 109, 110, 44, 115, 105, 110, 103, 125]
/-- `a @{X1|nomn|} b` -/
def cexEmptyLast : List Nat := [97, 32, 64, 123, 88, 49, 124, 110, 111, 109, 110, 124, 125, 32, 98]
/-- `@{99999999999|x}` -/
def cexStoi : List Nat := [64, 123, 57, 57, 57, 57, 57, 57, 57, 57, 57, 57, 57, 124, 120, 125]
/-- `@{65537|x} @{X1|nomn}` -/
def cexInt16 : List Nat := [64, 123, 54, 53, 53, 51, 55, 124, 120, 125, 32, 64, 123, 88, 49, 124, 110, 111, 109, 110, 125]

/-- what the old code did on `x@@{X1|nomn,sing}` and what the specification finds: the
candidate `[2,17)` is a well-formed entity reference, but `ReferenceStart` stepped over the second
`@` and `ExtractAll` returned nothing (repaired by `fixScan`; `extractAll_spec` now covers it). -/
theorem extractAll_atat_observed :
    extractAll Variant.asIs (encode cexAtAt) = .ok [] ∧
    specRefs cexAtAt = [⟨.entity [88, 49] [25, 30], ⟨2, 17⟩, []⟩] := by
  decide

/-! ## The candidates / found references are ordered, disjoint and delimited by `@{` … `}` -/

/-- **cands_ordered_delimited**: the specified candidates are non-empty ranges inside the text,
strictly increasing and pairwise disjoint (each starts at or after the end of the previous
one), and each delimits text that starts with `@{` and ends with `}`. -/
theorem cands_ordered_delimited (cps : List Nat) :
    SortedFrom cps.length 0 (cands cps) ∧ ∀ se ∈ cands cps, Delimited cps se :=
  cands_sorted cps

/-- **refs_ordered_delimited**: the same for the references found (a sub-sequence of the
candidates), hence for the result of `ExtractAll` by `extractAll_of_variant`. -/
theorem refs_ordered_delimited (cps : List Nat) :
    SortedFrom cps.length 0 ((refsOf cps).map (fun x => (x.1, x.2.1))) ∧
    ∀ x ∈ refsOf cps, Delimited cps (x.1, x.2.1) ∧ refOf (encode (slice cps x.1 x.2.1)) = some x.2.2 := by
  refine ⟨SortedFrom_sublist _ _ _ _ (refsOf_ranges_sublist cps) (cands_sorted cps).1, ?_⟩
  intro x hx
  unfold refsOf at hx
  rw [List.mem_filterMap] at hx
  obtain ⟨se, hse, hm⟩ := hx
  cases hr : refOf (encode (slice cps se.1 se.2)) with
  | none => rw [hr] at hm; simp at hm
  | some d =>
    rw [hr] at hm
    simp only [Option.some.injEq] at hm
    subst hm
    exact ⟨(cands_sorted cps).2 se hse, hr⟩

/-! ## Resolve: gaps byte-for-byte, references replaced, ranges delimit the replacements -/

/-- **resolve_of_variant**: on well-formed text `Resolve` returns the text in which every found
reference is replaced by its resolution and everything else is kept byte-for-byte
(`weave`), and records for every reference the range of its replacement (`wovenRefs`). -/
theorem resolve_of_variant (v : Variant) (ctx : Ctx) (cps : List Nat) (hv : ∀ c ∈ cps, validCp c)
    (hscan : v.fixScan = false → hasAtAt cps = false)
    (hparse : candidatesParseClean v cps) :
    resolve v ctx (encode cps) = .ok (resolveSpec ctx cps) := by
  unfold resolve
  rw [extractAll_of_variant v cps hv hscan hparse]
  simp only
  have h1 : specRefs cps = (refsOf cps).map rawRef := rfl
  rw [h1, resolveAll_spec ctx (refsOf cps)]
  have h2 : attach (refsOf cps) (resolutions ctx ((refsOf cps).map (fun x => x.2.2))) = resolvedItems ctx cps := rfl
  rw [h2, generateResolved_encode cps hv _ (resolvedItems_sorted ctx cps)]
  rfl

/-- **resolve_spec**: for every well-formed text and every context, `Resolve` of the current code
returns the specified resolved text (gaps byte-for-byte, every found reference replaced by its
resolution) and the specified ranges. -/
theorem resolve_spec (ctx : Ctx) (cps : List Nat) (hv : ∀ c ∈ cps, validCp c) :
    resolve Variant.current ctx (encode cps) = .ok (resolveSpec ctx cps) :=
  resolve_of_variant _ ctx cps hv (fun h => by simp [Variant.current, Variant.repaired] at h)
    ⟨fun h => by simp [Variant.current, Variant.repaired] at h, fun h => by simp [Variant.current, Variant.repaired] at h⟩

/-- every resolution is well-formed UTF-8 (true when the terms of the context are). -/
def ResolutionsWellFormed (ctx : Ctx) (cps : List Nat) : Prop :=
  ∀ x ∈ resolvedItems ctx cps, ∃ r : List Nat, (∀ c ∈ r, validCp c) ∧ x.text = encode r

private theorem resolutionsFrom_ne_nil (ctx : Ctx) (all : List RefData) :
    ∀ (ds : List RefData) (i : Nat), ∀ t ∈ resolutionsFrom ctx all i ds, t ≠ [] := by
  intro ds
  induction ds with
  | nil => intro i t ht; simp [resolutionsFrom] at ht
  | cons d rest ih =>
    intro i t ht
    simp only [resolutionsFrom, List.mem_cons] at ht
    rcases ht with rfl | ht
    · unfold resolutionOf
      cases d with
      | entity n f => exact resolveEntity_ne_nil ctx n f
      | collab nom off => exact resolveCollab_ne_nil nom off _
    · exact ih (i + 1) t ht

private theorem attach_text_mem : ∀ (xs : List (Nat × Nat × RefData)) (ts : List Bytes),
    ∀ x ∈ attach xs ts, x.text ∈ ts
  | [], ts, x, hx => by cases ts <;> simp [attach] at hx
  | _ :: _, [], x, hx => by simp [attach] at hx
  | y :: xs, t :: ts, x, hx => by
    simp only [attach, List.mem_cons] at hx
    rcases hx with rfl | hx
    · simp
    · exact List.mem_cons_of_mem _ (attach_text_mem xs ts x hx)

private theorem textsAre_of (items : List Found)
    (hw : ∀ x ∈ items, ∃ r : List Nat, (∀ c ∈ r, validCp c) ∧ x.text = encode r)
    (hne : ∀ x ∈ items, x.text ≠ []) : ∃ rs, TextsAre items rs := by
  induction items with
  | nil => exact ⟨[], trivial⟩
  | cons x rest ih =>
    obtain ⟨rs, hrs⟩ := ih (fun y hy => hw y (by simp [hy])) (fun y hy => hne y (by simp [hy]))
    obtain ⟨r, hr1, hr2⟩ := hw x (by simp)
    refine ⟨r :: rs, hr2, ?_, hr1, hrs⟩
    intro e; subst e
    exact hne x (by simp) (by rw [hr2]; rfl)

/-- **resolutions_wellFormed**: when the terms of the context have well-formed texts, every
resolution is well-formed UTF-8 (entity names and nominals are cut out of the text at ASCII
delimiters; the messages and offsets are ASCII). -/
theorem resolutions_wellFormed (ctx : Ctx) (hctx : CtxWellFormed ctx) (cps : List Nat)
    (hv : ∀ c ∈ cps, validCp c) : ResolutionsWellFormed ctx cps := by
  intro x hx
  have ht := attach_text_mem _ _ x hx
  obtain ⟨j, d, hd, e⟩ := resolutionsFrom_mem ctx _ _ 0 _ ht
  obtain ⟨y, hy, rfl⟩ := List.mem_map.1 hd
  obtain ⟨hdel, href⟩ := (refs_ordered_delimited cps).2 y hy
  have hname : WfBytes y.2.2.nameBytes :=
    cand_fields_wf cps hv (y.1, y.2.1) hdel _ (refOf_fields _ _ href)
  show WfBytes x.text
  rw [e]
  unfold resolutionOf
  cases hdd : y.2.2 with
  | entity n f =>
    rw [hdd] at hname
    exact resolveEntity_wf ctx hctx n f hname
  | collab nom off =>
    rw [hdd] at hname
    exact resolveCollab_wf nom off _ hname

/-- **resolved_ranges_delimit**: in the specified result of `Resolve` every recorded range
delimits exactly the reference's resolution in the resolved text
(`Substr(resolved, ref.position) = ref.resolvedText`), and the recorded ranges are what
`GenerateResolved` computes (by `resolve_of_variant`). -/
theorem resolved_ranges_delimit (ctx : Ctx) (hctx : CtxWellFormed ctx) (cps : List Nat)
    (hv : ∀ c ∈ cps, validCp c) :
    ∀ ref ∈ (resolveSpec ctx cps).2,
      substr (resolveSpec ctx cps).1 ref.pos.start ref.pos.finish = ref.resolved := by
  have hw := resolutions_wellFormed ctx hctx cps hv
  have hne : ∀ x ∈ resolvedItems ctx cps, x.text ≠ [] := by
    intro x hx
    exact resolutionsFrom_ne_nil ctx _ _ 0 _ (attach_text_mem _ _ x hx)
  obtain ⟨rs, hrs⟩ := textsAre_of _ hw hne
  intro ref href
  have := wovenRefs_delimit cps hv (resolvedItems ctx cps) rs 0 0 [] hrs (resolvedItems_sorted ctx cps)
    (by simp) (by simp) ref href
  simp only [List.nil_append] at this
  unfold resolveSpec
  simp only
  rw [weave_eq_encode cps _ rs 0 hrs]
  exact this

/-! ## Writing the references back restores the text up to canonical spelling -/

private theorem resolutionsFrom_length (ctx : Ctx) (all : List RefData) :
    ∀ (ds : List RefData) (i : Nat), (resolutionsFrom ctx all i ds).length = ds.length := by
  intro ds
  induction ds with
  | nil => intro i; rfl
  | cons d rest ih => intro i; simp [resolutionsFrom, ih]

private theorem canonItems_attach : ∀ (xs : List (Nat × Nat × RefData)) (ts : List Bytes),
    ts.length = xs.length →
    canonItems (attach xs ts) = xs.map (fun x => (⟨x.1, x.2.1, x.2.2, x.2.2.toString⟩ : Found))
  | [], [], _ => rfl
  | [], _ :: _, h => by simp at h
  | _ :: _, [], h => by simp at h
  | x :: xs, t :: ts, h => by
    have := canonItems_attach xs ts (by simpa using h)
    simp only [canonItems, attach, List.map_cons] at this ⊢
    rw [this]

/-- **outputRefs_resolve**: `OutputRefs` over the resolved text with the recorded ranges gives
back the original text with every found reference in its canonical spelling (`canon`) and
everything else byte-for-byte. -/
theorem outputRefs_resolve (ctx : Ctx) (hctx : CtxWellFormed ctx) (cps : List Nat)
    (hv : ∀ c ∈ cps, validCp c) :
    outputRefs (resolveSpec ctx cps).2 (resolveSpec ctx cps).1 = canon cps := by
  have hw := resolutions_wellFormed ctx hctx cps hv
  have hne : ∀ x ∈ resolvedItems ctx cps, x.text ≠ [] := by
    intro x hx
    exact resolutionsFrom_ne_nil ctx _ _ 0 _ (attach_text_mem _ _ x hx)
  obtain ⟨rs, hrs⟩ := textsAre_of _ hw hne
  have hW : ∀ y ∈ weaveCp cps 0 (cpItems (resolvedItems ctx cps) rs), validCp y :=
    valid_weaveCp cps hv _ 0 (cpItems_valid _ rs hrs)
  unfold resolveSpec outputRefs outputRefsIn
  simp only
  rw [weave_eq_encode cps _ rs 0 hrs, sizeCp_encode _ hW]
  have := outputGo_woven cps hv (weaveCp cps 0 (cpItems (resolvedItems ctx cps) rs))
    (resolvedItems ctx cps) rs 0 0 [] [] hrs (resolvedItems_sorted ctx cps) hW (by simp) (by simp)
  simp only [List.length_nil, Int.natCast_zero, List.nil_append] at this
  rw [this]
  unfold canon resolvedItems
  rw [canonItems_attach]
  unfold resolutions
  rw [resolutionsFrom_length, List.length_map]

/-- **canon_no_refs**: a text without references is its own canonical form. -/
theorem canon_no_refs (cps : List Nat) (h : refsOf cps = []) : canon cps = encode cps := by
  unfold canon; rw [h]; simp [weave]

/-- `a @{X{|nomn,}} b` -/
def exBraceName : List Nat := [97, 32, 64, 123, 88, 123, 124, 110, 111, 109, 110, 44, 125, 125, 32, 98]

/-- **canon_not_idempotent_observed**: the canonical spelling is not always itself a reference.
`a @{X{|nomn,}} b` contains the entity reference `X{` / {nomn}; its canonical spelling
`@{X{|nomn}` has an unbalanced brace, so the written-back text `a @{X{|nomn} b` contains no
reference any more (holds for the specification and, by `extractAll_of_variant`, for every
variant of the code; replayed on the implementation by the harness' fixed cases). This is why
idempotence of `canon` is not claimed. -/
theorem canon_not_idempotent_observed :
    (refsOf exBraceName).length = 1 ∧
    canon exBraceName = encode [97, 32, 64, 123, 88, 123, 124, 110, 111, 109, 110, 125, 32, 98] ∧
    refsOf [97, 32, 64, 123, 88, 123, 124, 110, 111, 109, 110, 125, 32, 98] = [] := by
  decide

/-! ## Mentioned entities = the entity references -/

/-- **referals_of_variant**: `Referals` lists exactly the names of the found entity references. -/
theorem referals_of_variant (v : Variant) (cps : List Nat) (hv : ∀ c ∈ cps, validCp c)
    (hscan : v.fixScan = false → hasAtAt cps = false) (hparse : candidatesParseClean v cps) :
    referals v (encode cps) = .ok (referalsSpec cps) := by
  unfold referals referalsSpec
  rw [extractAll_of_variant v cps hv hscan hparse]
  simp only [specRefs, List.filterMap_map]
  congr 1

/-- **referals_spec**: the set of mentioned entities is exactly the entity references. -/
theorem referals_spec (cps : List Nat) (hv : ∀ c ∈ cps, validCp c) :
    referals Variant.current (encode cps) = .ok (referalsSpec cps) :=
  referals_of_variant _ cps hv (fun h => by simp [Variant.current, Variant.repaired] at h)
    ⟨fun h => by simp [Variant.current, Variant.repaired] at h, fun h => by simp [Variant.current, Variant.repaired] at h⟩

/-! ## No fault: malformed or unresolvable references never make a model function stuck

`Outcome.stuck` can only originate in `parse` (`ExtractMorpho`'s `at(0)` and `std::stoi`); every
other model function (`resolveAll`, `generateResolved`, `insertRef`, `eraseIn`, `outputRefsIn`,
`firstIn`, `findMaster`, `translateStep`) is a total function without a `stuck` result. The
theorems are for *arbitrary byte strings*, not only well-formed UTF-8. -/

private theorem extractGo_ok (v : Variant) (b : Bytes)
    (hp : ∀ s e, (parse v (substr b s e)).isOk = true) :
    ∀ fuel start, (extractGo v b fuel start).isOk = true := by
  intro fuel
  induction fuel with
  | zero => intro start; rfl
  | succ fuel ih =>
    intro start
    unfold extractGo
    cases nextReference v b start with
    | none => rfl
    | some r =>
      simp only
      have h1 := hp r.start r.finish
      cases hpr : parse v (substr b r.start r.finish) with
      | stuck f => rw [hpr] at h1; simp [Outcome.isOk] at h1
      | ok p =>
        simp only
        have h2 := ih r.finish
        cases hrest : extractGo v b fuel r.finish with
        | stuck f => rw [hrest] at h2; simp [Outcome.isOk] at h2
        | ok rest => cases p <;> rfl

/-- all four entry points that can observe a fault return normally -/
def NoFault (v : Variant) (b : Bytes) : Prop :=
  (extractAll v b).isOk = true ∧ (∀ ctx, (resolve v ctx b).isOk = true) ∧
  (∀ tr, (translateRaw v tr b).isOk = true) ∧ (referals v b).isOk = true

private theorem noFault_of_parse (v : Variant) (b : Bytes)
    (hp : ∀ s e, (parse v (substr b s e)).isOk = true) : NoFault v b := by
  have h := extractGo_ok v b hp (b.length + 1) 0
  unfold NoFault resolve translateRaw referals extractAll
  cases hx : extractGo v b (b.length + 1) 0 with
  | stuck f => rw [hx] at h; simp [Outcome.isOk] at h
  | ok refs => simp [Outcome.isOk]

/-- **no_fault_of_variant**: with `fixEmptyLast` and `fixRange` no byte string — malformed UTF-8,
malformed, nested, adjacent markers, any offset — makes `ExtractAll`, `Resolve`, `TranslateRaw` or
`Referals` fault, in any context. -/
theorem no_fault_of_variant (v : Variant) (h1 : v.fixEmptyLast = true) (h2 : v.fixRange = true)
    (b : Bytes) : NoFault v b := by
  apply noFault_of_parse
  intro s e
  rw [parse_spec v _ (fun h => by rw [h1] at h; cases h) (fun h => by rw [h2] at h; cases h)]
  rfl

/-- **no_fault**: the current code never faults: for every byte string (malformed UTF-8,
malformed / nested / adjacent markers, any offset), every context and every translator,
`ExtractAll`, `Resolve`, `TranslateRaw` and `Referals` return normally. -/
theorem no_fault (b : Bytes) : NoFault Variant.current b :=
  no_fault_of_variant _ rfl rfl b

/-- the old code: `a @{X1|nomn|} b` ⇒ `std::out_of_range` inside the `noexcept` `ExtractMorpho`
(`std::terminate`); `@{99999999999|x}` ⇒ `std::out_of_range` from `std::stoi` (repaired by
`fixEmptyLast` / `fixRange`; `no_fault` now covers them). -/
theorem no_fault_observed :
    extractAll Variant.asIs (encode cexEmptyLast) = .stuck .terminate ∧
    extractAll Variant.asIs (encode cexStoi) = .stuck .stoiRange := by
  decide

/-- the context `X1 ↦ "Test"` -/
def cexCtx : Ctx := fun n => if n = [88, 49] then some ⟨[84, 101, 115, 116], []⟩ else none

/-- the old code on `@{65537|x} @{X1|nomn}`: the offset does not fit `int16_t`
and was silently reduced to 1, so the old code resolved the first candidate as a
collaboration with the following entity reference (`x Test`) and `OutputRefs` re-spells it
`@{1|x}`; by the grammar it is not a reference and the text must stay intact. -/
theorem resolve_int16_observed :
    (resolve Variant.asIs cexCtx (encode cexInt16)).map (fun r => (r.1, outputRefs r.2 r.1))
      = .ok ([120, 32, 84, 101, 115, 116],
             [64, 123, 49, 124, 120, 125, 32, 64, 123, 88, 49, 124, 110, 111, 109, 110, 125]) ∧
    (resolveSpec cexCtx cexInt16).1 = [64, 123, 54, 53, 53, 51, 55, 124, 120, 125, 32, 84, 101, 115, 116] := by
  decide

/-! ## Alignment: established by Resolve, preserved by every sequence of Insert / EraseIn -/

private theorem slice_mid (A r B : List Nat) : slice (A ++ r ++ B) A.length (A.length + r.length) = r := by
  unfold slice
  rw [List.append_assoc, List.drop_left' rfl, Nat.add_sub_cancel_left, List.take_left' rfl]

private theorem wovenRefs_aligned (cps : List Nat) :
    ∀ (items : List Found) (rs : List (List Nat)) (c : Nat) (sh : Int) (P : List Nat),
      TextsAre items rs → SortedFrom cps.length c (items.map foundRange) →
      (P.length : Int) = (c : Int) + sh →
      AlignedFrom (P ++ weaveCp cps c (cpItems items rs)) P.length (wovenRefs sh items)
  | [], [], _, _, _, _, _, _ => trivial
  | [], _ :: _, _, _, _, h, _, _ => absurd h (by simp [TextsAre])
  | _ :: _, [], _, _, _, h, _, _ => absurd h (by simp [TextsAre])
  | x :: xs, r :: rs, c, sh, P, ht, hs, hlen => by
    obtain ⟨htext, hne, hvr, ht'⟩ := ht
    obtain ⟨h1, h2, h3, h4⟩ := hs
    simp only [foundRange] at h1 h2 h3 h4
    have hsl := slice_length cps c x.s h1 (by omega)
    have hsz : sizeCp x.text = r.length := by rw [htext]; exact sizeCp_encode r hvr
    have hrpos : 0 < r.length := by cases r with | nil => exact absurd rfl hne | cons _ _ => simp
    simp only [wovenRefs, cpItems, weaveCp]
    refine ⟨P.length + (x.s - c), P.length + (x.s - c) + r.length, ?_, by omega, by omega,
      by simp [hsl]; omega, ?_, ?_⟩
    · rw [hsz]; simp only [StrRange.mk.injEq]; constructor <;> omega
    · simp only
      rw [htext]
      congr 1
      rw [show P ++ (slice cps c x.s ++ r ++ weaveCp cps x.e (cpItems xs rs))
            = (P ++ slice cps c x.s) ++ r ++ weaveCp cps x.e (cpItems xs rs) by simp,
        show P.length + (x.s - c) = (P ++ slice cps c x.s).length by simp [hsl]]
      exact (slice_mid _ _ _).symm
    · have := wovenRefs_aligned cps xs rs x.e
        (sh + ((sizeCp x.text : Int) - ((x.e : Int) - (x.s : Int)))) (P ++ slice cps c x.s ++ r) ht' h4
        (by simp only [List.length_append, hsl, hsz]; omega)
      rw [show (P ++ slice cps c x.s ++ r).length = P.length + (x.s - c) + r.length by
        simp only [List.length_append, hsl]] at this
      rw [show P ++ (slice cps c x.s ++ r ++ weaveCp cps x.e (cpItems xs rs))
            = P ++ slice cps c x.s ++ r ++ weaveCp cps x.e (cpItems xs rs) by simp]
      exact this

/-- **resolve_aligned**: the state `Resolve` leaves behind is aligned with the resolved text: the
ranges are ordered, disjoint, inside the text, and each delimits exactly its resolution. -/
theorem resolve_aligned (ctx : Ctx) (hctx : CtxWellFormed ctx) (cps : List Nat)
    (hv : ∀ c ∈ cps, validCp c) :
    ∃ W : List Nat, (∀ y ∈ W, validCp y) ∧
      (resolveSpec ctx cps).1 = encode W ∧ AlignedFrom W 0 (resolveSpec ctx cps).2 := by
  have hw := resolutions_wellFormed ctx hctx cps hv
  have hne : ∀ x ∈ resolvedItems ctx cps, x.text ≠ [] := by
    intro x hx
    exact resolutionsFrom_ne_nil ctx _ _ 0 _ (attach_text_mem _ _ x hx)
  obtain ⟨rs, hrs⟩ := textsAre_of _ hw hne
  refine ⟨weaveCp cps 0 (cpItems (resolvedItems ctx cps) rs), ?_, ?_, ?_⟩
  · exact valid_weaveCp cps hv _ 0 (cpItems_valid _ rs hrs)
  · unfold resolveSpec; simp only; exact weave_eq_encode cps _ rs 0 hrs
  · have := wovenRefs_aligned cps (resolvedItems ctx cps) rs 0 0 [] hrs (resolvedItems_sorted ctx cps) (by simp)
    unfold resolveSpec
    simpa using this

/-- **aligned_check**: the executable predicate that the harness evaluates on the implementation's
state (`Substr(text, position) == resolvedText` for every reference, ranges ordered) holds of
every aligned state. -/
theorem aligned_check (T : List Nat) (hT : ∀ y ∈ T, validCp y) :
    ∀ (refs : List Ref) (lo : Nat), AlignedFrom T lo refs →
      orderedFrom (lo : Int) refs = true ∧
      refs.all (fun r => substr (encode T) r.pos.start r.pos.finish == r.resolved) = true := by
  intro refs
  induction refs with
  | nil => intro lo _; simp [orderedFrom]
  | cons x rest ih =>
    intro lo ha
    obtain ⟨s, e, h1, h2, h3, h4, h5, h6⟩ := ha
    obtain ⟨i1, i2⟩ := ih e h6
    constructor
    · simp only [orderedFrom, h1, Bool.and_eq_true, decide_eq_true_eq]
      exact ⟨⟨by omega, by omega⟩, i1⟩
    · simp only [List.all_cons, Bool.and_eq_true, beq_iff_eq]
      refine ⟨?_, i2⟩
      rw [h1, h5]
      exact substr_spec T hT s e h3 h4

/-- **insert_aligned**: `Insert` keeps an aligned state aligned when the caller inserts the returned
reference's resolved text at the insertion point. -/
theorem insert_aligned (ctx : Ctx) (T : List Nat) (refs : List Ref) (d : RefData) (w : Nat)
    (hw : w ≤ T.length) (ha : AlignedFrom T 0 refs) (refs' : List Ref) (idx : Nat)
    (hins : insertRef ctx refs d (w : Int) = some (refs', idx))
    (rr : List Nat) (hrv : ∀ c ∈ rr, validCp c)
    (hres : ∀ r, refs'[idx]? = some r → r.resolved = encode rr) :
    AlignedFrom (T.take w ++ rr ++ T.drop w) 0 refs' := by
  exact insertRef_aligned ctx T refs d w hw ha refs' idx hins rr hrv hres

/-- **erase_aligned**: `EraseIn` keeps an aligned state aligned when the caller erases the returned
(possibly expanded) range from the text. -/
theorem erase_aligned (T : List Nat) (refs : List Ref) (a b : Nat) (expand : Bool)
    (hab : a ≤ b) (hb : b ≤ T.length) (ha : AlignedFrom T 0 refs) (R : StrRange) (refs' : List Ref)
    (h : eraseIn refs ⟨(a : Int), (b : Int)⟩ expand = some (R, refs')) :
    ∃ a' b' : Nat, R = ⟨(a' : Int), (b' : Int)⟩ ∧ a' ≤ b' ∧ b' ≤ T.length ∧
      AlignedFrom (T.take a' ++ T.drop b') 0 refs' :=
  eraseIn_aligned T refs a b expand hab hb ha R refs' h

/-- one accepted edit of the manager together with what the caller does to the text. -/
inductive EditStep (ctx : Ctx) : List Nat × List Ref → List Nat × List Ref → Prop
  | ins (T : List Nat) (refs : List Ref) (d : RefData) (w : Nat) (refs' : List Ref) (idx : Nat) (rr : List Nat) :
      w ≤ T.length → insertRef ctx refs d (w : Int) = some (refs', idx) → (∀ c ∈ rr, validCp c) →
      (∀ r, refs'[idx]? = some r → r.resolved = encode rr) →
      EditStep ctx (T, refs) (T.take w ++ rr ++ T.drop w, refs')
  | erase (T : List Nat) (refs : List Ref) (a b : Nat) (expand : Bool) (a' b' : Nat) (refs' : List Ref) :
      a ≤ b → b ≤ T.length → eraseIn refs ⟨(a : Int), (b : Int)⟩ expand = some (⟨(a' : Int), (b' : Int)⟩, refs') →
      EditStep ctx (T, refs) (T.take a' ++ T.drop b', refs')

/-- any finite sequence of accepted edits (a rejected `Insert` / `EraseIn` changes nothing). -/
inductive EditSteps (ctx : Ctx) : List Nat × List Ref → List Nat × List Ref → Prop
  | refl (s : List Nat × List Ref) : EditSteps ctx s s
  | step (s t u : List Nat × List Ref) : EditSteps ctx s t → EditStep ctx t u → EditSteps ctx s u

/-- **edits_aligned**: the alignment invariant is preserved by every insert/erase sequence. -/
theorem edits_aligned (ctx : Ctx) (s t : List Nat × List Ref) (h : EditSteps ctx s t)
    (ha : AlignedFrom s.1 0 s.2) : AlignedFrom t.1 0 t.2 := by
  induction h with
  | refl => exact ha
  | step t u _ hstep ih =>
    cases hstep with
    | ins T refs d w refs' idx rr hw hins hrv hres =>
      exact insert_aligned ctx T refs d w hw ih refs' idx hins rr hrv hres
    | erase T refs a b expand a' b' refs' hab hb her =>
      obtain ⟨a2, b2, hR, _, _, hal⟩ := erase_aligned T refs a b expand hab hb ih _ refs' her
      simp only [StrRange.mk.injEq] at hR
      have e1 : a' = a2 := by omega
      have e2 : b' = b2 := by omega
      subst e1; subst e2
      exact hal

/-! ## TranslateRaw: only the name bytes of the affected references change -/

/-- the found entity references spell their name inside their own range (right after `@{`). -/
private theorem refsOf_namesInside (cps : List Nat) : NamesInside cps (refsOf cps) := by
  intro x hx n f hd
  have := ((refs_ordered_delimited cps).2 x hx).2
  rw [hd] at this
  exact Nat.le_of_lt (refOf_entity_length _ n f this)

/-- **translateRaw_of_variant**: `TranslateRaw` rewrites exactly the entity references whose name
the translator maps to a different name, and in these only the bytes of the name (the first
field, right after `@{`) are replaced by the new name; every other byte — the tags of the
renamed references as typed, the other references, the gaps — stays untouched
(`translateSpec` / `translatedItem`). The replacement is done by byte offsets derived from
code-point positions, right to left; the new names may be arbitrary bytes. -/
theorem translateRaw_of_variant (v : Variant) (tr : Bytes → Option Bytes) (cps : List Nat)
    (hv : ∀ c ∈ cps, validCp c)
    (hscan : v.fixScan = false → hasAtAt cps = false) (hparse : candidatesParseClean v cps) :
    translateRaw v tr (encode cps) = .ok (translateSpec tr cps) := by
  unfold translateRaw
  rw [extractAll_of_variant v cps hv hscan hparse]
  simp only
  have h1 : specRefs cps = (refsOf cps).map rawRef := rfl
  rw [h1, List.foldl_reverse]
  have := translate_foldr tr cps hv (refsOf cps) 0 (refs_ordered_delimited cps).1 (refsOf_namesInside cps)
  simp only [List.take_zero, encode, List.nil_append] at this
  rw [this]
  rfl

/-- **translateRaw_spec**: `TranslateRaw` of the current code changes only the name bytes of the
affected entity references (`translateSpec`: gaps byte-for-byte, every found reference replaced
by `translatedItem`). -/
theorem translateRaw_spec (tr : Bytes → Option Bytes) (cps : List Nat) (hv : ∀ c ∈ cps, validCp c) :
    translateRaw Variant.current tr (encode cps) = .ok (translateSpec tr cps) :=
  translateRaw_of_variant _ tr cps hv (fun h => by simp [Variant.current, Variant.repaired] at h)
    ⟨fun h => by simp [Variant.current, Variant.repaired] at h, fun h => by simp [Variant.current, Variant.repaired] at h⟩

/-- **translateRaw_name_only**: for a found entity reference with name `n` that the translator maps
to `n' ≠ n`: its original bytes are `@{` ++ `n` ++ `|`… and what `TranslateRaw` puts in its place
(`translatedItem`, the piece woven into `translateSpec` = the result of `TranslateRaw` by
`translateRaw_spec`) is `@{` ++ `n'` ++ the *same* bytes after the name — the tags keep their
spelling and order, nothing is re-spelled canonically. -/
theorem translateRaw_name_only (tr : Bytes → Option Bytes) (cps : List Nat)
    (x : Nat × Nat × RefData) (hx : x ∈ refsOf cps) (n : Bytes) (f : Morph) (n' : Bytes)
    (hd : x.2.2 = .entity n f) (htr : tr n = some n') (hne : n' ≠ n) :
    ∃ tl, encode (slice cps x.1 x.2.1) = [cAt, cOpen] ++ n ++ cBar :: tl ∧
      (translatedItem tr cps x).text = [cAt, cOpen] ++ n' ++ cBar :: tl := by
  obtain ⟨hdel, href⟩ := (refs_ordered_delimited cps).2 x hx
  rw [hd] at href
  obtain ⟨_, tl, hsplit, hlen⟩ := refOf_entity_prefix _ n f href
  have h2 := cand_take2 cps (x.1, x.2.1) hdel
  simp only at h2
  rw [h2] at hsplit
  refine ⟨tl, hsplit, ?_⟩
  unfold translatedItem
  simp only [hd, htr, if_neg hne]
  rw [h2]
  congr 1
  conv => lhs; rw [hsplit]
  rw [show 2 + n.length = ([cAt, cOpen] ++ n).length by simp; omega, List.drop_left]

/-- `@{X1|nomn,sing}` (tags in typed, non-canonical order) -/
def exRename : List Nat := [64, 123, 88, 49, 124, 110, 111, 109, 110, 44, 115, 105, 110, 103, 125]
/-- the translator `X1 ↦ X2` -/
def exRenameTr : Bytes → Option Bytes := fun n => if n = [88, 49] then some [88, 50] else none

/-- **translateRaw_name_only_example**: `@{X1|nomn,sing}` under `X1 ↦ X2` becomes
`@{X2|nomn,sing}` — the tags keep their typed order (the canonical spelling would be
`@{X2|sing,nomn}`). -/
theorem translateRaw_name_only_example :
    translateRaw Variant.current exRenameTr (encode exRename) =
      .ok [64, 123, 88, 50, 124, 110, 111, 109, 110, 44, 115, 105, 110, 103, 125] ∧
    (RefData.entity [88, 50] [25, 30]).toString =
      [64, 123, 88, 50, 124, 115, 105, 110, 103, 44, 110, 111, 109, 110, 125] := by
  decide

-- non-vacuity of `translateRaw_name_only` on this input
example : (0, 15, RefData.entity [88, 49] [25, 30]) ∈ refsOf exRename ∧
    exRenameTr [88, 49] = some [88, 50] := by decide

/-! ## FirstIn -/

/-- **firstIn_spec**: `FirstIn(range)` is the first reference (in list order) with
`finish ≥ range.start`, provided it starts at or before `range.finish`; otherwise none. -/
theorem firstIn_spec (range : StrRange) : ∀ (refs : List Ref) (i : Nat),
    firstInGo range refs i =
      match refs.findIdx? (fun r => decide (range.start ≤ r.pos.finish)) with
      | none => none
      | some j => if range.finish < (refs.getD j ⟨.collab [] 0, ⟨0, 0⟩, []⟩).pos.start then none else some (i + j) := by
  intro refs
  induction refs with
  | nil => intro i; rfl
  | cons x rest ih =>
    intro i
    unfold firstInGo
    simp only [StrRange.isAfter, StrRange.isBefore, List.findIdx?_cons]
    by_cases h1 : range.start > x.pos.finish
    · have h1' : ¬ (range.start ≤ x.pos.finish) := by omega
      simp only [h1, decide_true, if_true, h1', decide_false, Bool.false_eq_true, if_false]
      rw [ih (i + 1)]
      cases rest.findIdx? (fun r => decide (range.start ≤ r.pos.finish)) with
      | none => rfl
      | some j =>
        simp only [Option.map_some, List.getD_cons_succ]
        split <;> simp <;> omega
    · have h1' : range.start ≤ x.pos.finish := by omega
      simp only [h1, decide_false, Bool.false_eq_true, if_false, h1', decide_true, if_true, List.getD_cons_zero,
        Nat.add_zero]
      by_cases h2 : range.finish < x.pos.start <;> simp [h2]

/-! ## Non-vacuity: the hypotheses of the theorems are met by concrete non-trivial inputs -/

/-- `42 @{X1|sing,nomn} 43 @{-1|basic} é` -/
def exText : List Nat :=
  [52, 50, 32, 64, 123, 88, 49, 124, 115, 105, 110, 103, 44, 110, 111, 109, 110, 125, 32, 52, 51, 32,
   64, 123, 45, 49, 124, 98, 97, 115, 105, 99, 125, 32, 233]

example : ∀ c ∈ exText, validCp c := by simp [exText, validCp]
example : hasAtAt exText = false := by decide
-- the hypotheses of the `…_of_variant` theorems for the old code are met by this text
example : candidatesParseClean Variant.asIs exText :=
  ⟨fun _ => by decide, fun _ => by decide⟩
example : cands exText = [(3, 18), (22, 33)] ∧ (specRefs exText).length = 2 := by decide
example : CtxWellFormed cexCtx := by
  intro n t h
  unfold cexCtx at h
  split at h
  · injection h with h; subst h
    exact ⟨wf_ascii _ (by decide), by simp⟩
  · cases h
-- resolved: `42 Test 43 basic é`, ranges [3,7) and [11,16); written back: the original text
example : resolveSpec cexCtx exText =
    ([52, 50, 32, 84, 101, 115, 116, 32, 52, 51, 32, 98, 97, 115, 105, 99, 32, 195, 169],
     [⟨.entity [88, 49] [25, 30], ⟨3, 7⟩, [84, 101, 115, 116]⟩,
      ⟨.collab [98, 97, 115, 105, 99] (-1), ⟨11, 16⟩, [98, 97, 115, 105, 99]⟩]) := by decide
example : canon exText = encode exText := by decide
-- an insert followed by an erase are accepted edit steps from an aligned state
example : EditStep cexCtx ([97, 98], []) ([97] ++ [84, 101, 115, 116] ++ [98],
    [⟨.entity [88, 49] [30], ⟨1, 5⟩, [84, 101, 115, 116]⟩]) :=
  EditStep.ins [97, 98] [] (.entity [88, 49] [30]) 1 _ 0 [84, 101, 115, 116] (by decide) (by decide)
    (by simp [validCp]) (by intro r hr; simp at hr; subst hr; decide)
example : EditStep cexCtx ([97, 84, 101, 115, 116, 98], [⟨.entity [88, 49] [30], ⟨1, 5⟩, [84, 101, 115, 116]⟩])
    ([97] ++ [98], []) :=
  EditStep.erase [97, 84, 101, 115, 116, 98] _ 1 5 false 1 5 [] (by decide) (by decide) (by decide)
-- its candidates are not in a fault class of the old code
example : emptyLastField (encode (slice exText 3 18)) = false ∧ offsetOutOfRange (encode (slice exText 22 33)) = false := by
  decide

end CCVerif.Refs
