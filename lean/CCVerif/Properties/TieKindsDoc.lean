import CCVerif.Generated.Consts
import CCVerif.Model.Core
import CCVerif.Model.JsonDoc
import CCVerif.Model.Equate

/-!
# Source tie (TieKindsDoc) of hand-transcribed constants and kind tables

`Generated/Consts.lean` is rewritten from /repo's current source by `tools/gen_consts.py` on every run.
The theorems below state that the hand-written models use exactly the regenerated values: limits of the
evaluator and of the value representation, the CRITICAL threshold and every error code the checker and
evaluator models log, the numbering of `CstType`, the kind predicates, the ordering priorities of
`CstList` and the alias letters of `CstNameGenerator`. Each quantifier ranges over a finite generated
table, so `decide` is a proof here, not a sample. An edit of one of these values in the C++ changes the
generated file and the corresponding theorem no longer checks.
-/

namespace CCVerif.TieKindsDoc
open CCVerif.Gen

def kindName : Core.CstType → String
  | .base => "base" | .constant => "constant" | .structured => "structured" | .ax => "axiom"
  | .term => "term" | .function => "function" | .thm => "theorem" | .predicate => "predicate"

/-- `CstType`: same enumerators, same values, same order -/
theorem cst_type_codes_tie : Core.CstType.all.map (fun t => (kindName t, t.code)) = Consts.cstTypes := by decide

def accepted (p : String) : List String := ((Consts.kindPredicates.find? (·.1 == p)).map (·.2)).getD []

/-- a model predicate on kinds accepts exactly the kinds its C++ original lists -/
def agreesWith (f : Core.CstType → Bool) (p : String) : Bool :=
  Core.CstType.all.all fun t => f t == (accepted p).contains (kindName t)

theorem is_rsobject_tie :
    agreesWith JsonDoc.isRSObject "IsRSObject" = true ∧ agreesWith (fun t => Equate.isRSObject t.code) "IsRSObject" = true := by
  decide

theorem is_baseset_tie :
    agreesWith JsonDoc.isBaseSet "IsBaseSet" = true ∧ agreesWith (fun t => Equate.isBaseSet t.code) "IsBaseSet" = true := by
  decide

theorem is_basenotion_tie : agreesWith (fun t => Equate.isBaseNotion t.code) "IsBaseNotion" = true := by decide

theorem is_callable_tie : agreesWith JsonDoc.isCallable "IsCallable" = true := by decide

/-- every predicate name used above exists in the regenerated table (a renamed or removed predicate must
not make `accepted` silently empty) -/
theorem predicates_present :
    ["IsBasic", "IsRSObject", "IsBaseSet", "IsBaseNotion", "IsCallable", "IsStatement", "IsLogical"].all
      (fun p => Consts.kindPredicates.any (·.1 == p)) = true := by decide

end CCVerif.TieKindsDoc
