import CCVerif.Model.Translation
/-!
# C12 — synthesis, merge and equation yield a consistent schema and exact translations

Proved here: the algebra of identifier translations that `BinarySynthes::Execute`,
`RSEquationProcessor::Execute` and `MergeWith` compose (simultaneous substitution,
superposition = composition with fall-through, key/value swap of an equation). The end-to-end
clauses (every operand constituent represented, unique aliases, mentions rewritten, types
preserved, refusal is identity) are judged on the implementation by the check's oracles and are
kept below as statements over the abstract outcome of a synthesis.
-/
namespace CCVerif.Translation

def NodupKeys (t : Tr) : Prop := (keys t).Nodup

theorem lookup_map_snd (t : Tr) (f : Nat → Nat) (k : Nat) :
    lookup (t.map (fun p => (p.1, f p.2))) k = (lookup t k).map f := by
  unfold lookup
  induction t with
  | nil => simp
  | cons p ps ih =>
    simp only [List.map_cons, List.find?_cons]
    by_cases h : (p.1 == k) = true
    · simp [h]
    · simp [h]; simpa using ih

/-- **substituteValues_apply**: `SubstituteValues` is the simultaneous substitution of values:
`t'(k) = s(t(k))` if `t(k)` is a key of `s`, else `t(k)`; keys are untouched. Independent of the
iteration order of either map. -/
theorem substituteValues_apply (t s : Tr) (k : Nat) :
    lookup (substituteValues t s) k = (lookup t k).map (fun v => (lookup s v).getD v) := by
  unfold substituteValues
  exact lookup_map_snd t (fun v => (lookup s v).getD v) k

theorem substituteValues_keys (t s : Tr) : keys (substituteValues t s) = keys t := by
  simp [substituteValues, keys, List.map_map, Function.comp_def]

private theorem lookup_append (a b : Tr) (k : Nat) :
    lookup (a ++ b) k = match lookup a k with | some v => some v | none => lookup b k := by
  unfold lookup
  rw [List.find?_append]
  cases h : List.find? (fun x => x.1 == k) a <;> simp

private theorem containsKey_iff (t : Tr) (k : Nat) : containsKey t k = true ↔ ∃ v, lookup t k = some v := by
  unfold containsKey; cases lookup t k <;> simp

private theorem foldl_superpose (s acc : Tr) (k : Nat) :
    lookup (s.foldl (fun acc p => if containsKey acc p.1 then acc else acc ++ [p]) acc) k =
      match lookup acc k with | some v => some v | none => lookup s k := by
  induction s generalizing acc with
  | nil => simp; cases lookup acc k <;> simp [lookup]
  | cons p ps ih =>
    simp only [List.foldl_cons]
    rw [ih]
    by_cases hc : containsKey acc p.1 = true
    · simp only [hc, if_true]
      cases hk : lookup acc k with
      | some v => simp
      | none =>
        simp only
        unfold lookup
        simp only [List.find?_cons]
        by_cases hpk : (p.1 == k) = true
        · have : p.1 = k := by simpa using hpk
          rw [this] at hc
          rcases (containsKey_iff acc k).1 hc with ⟨v, hv⟩
          rw [hv] at hk; cases hk
        · simp [hpk]
    · have hc' : containsKey acc p.1 = false := by simpa using hc
      simp only [hc', Bool.false_eq_true, if_false]
      rw [lookup_append]
      cases hk : lookup acc k with
      | some v => simp
      | none =>
        simp only
        unfold lookup
        simp only [List.find?_cons, List.find?_nil]
        by_cases hpk : (p.1 == k) = true
        · simp [hpk]
        · simp [hpk]

/-- **superposeWith_apply**: `t.SuperposeWith(s)` is "first `t`, then `s`": a key of `t` maps to
`s(t(k))` (or stays `t(k)` when `s` does not move it); a key of `s` alone keeps its `s` image. -/
theorem superposeWith_apply (t s : Tr) (k : Nat) :
    lookup (superposeWith t s) k =
      match lookup t k with
      | some v => some ((lookup s v).getD v)
      | none => lookup s k := by
  unfold superposeWith
  rw [foldl_superpose, substituteValues_apply]
  cases lookup t k <;> simp

/-- `Identity` maps every listed uid to itself -/
theorem identity_apply (uids : List Nat) (k : Nat) :
    lookup (identity uids) k = if k ∈ uids then some k else none := by
  unfold identity lookup
  induction uids with
  | nil => simp
  | cons u us ih =>
    simp only [List.map_cons, List.find?_cons]
    by_cases h : u = k
    · subst h; simp
    · have : (u == k) = false := by simpa using h
      simp only [this, List.mem_cons]
      rw [ih]
      have : ¬ k = u := fun e => h e.symm
      simp [this]

/-- **swapKeyVal_spec**: swapping an equation `key ↦ v` yields `v ↦ key`, refuses when `v` is
itself a key, flips keepHier/keepDel and keeps createNew -/
theorem swapKeyVal_spec (e : Eqs) (key v : Nat) (hk : lookup e.tr key = some v)
    (hv : containsKey e.tr v = false) (hne : key ≠ v) :
    (e.swapKeyVal key).2 = true ∧ lookup (e.swapKeyVal key).1.tr v = some key ∧
    lookup (e.swapKeyVal key).1.tr key = none := by
  unfold Eqs.swapKeyVal
  simp only [hk, hv, Bool.false_eq_true, if_false]
  refine ⟨trivial, ?_, ?_⟩
  · have hnv : containsKey (erase e.tr key) v = false := by
      unfold containsKey lookup erase at *
      cases h : List.find? (fun x => x.1 == v) (List.filter (fun x => x.1 != key) e.tr) with
      | none => simp
      | some p =>
        have := List.find?_some h
        have hm := List.mem_of_find?_eq_some h
        have hm' := (List.mem_filter.1 hm).1
        have : p.1 = v := by simpa using this
        have hcontra : (List.find? (fun x => x.1 == v) e.tr).isSome = true := by
          rw [List.find?_isSome]; exact ⟨p, hm', by simpa using this⟩
        cases hf : List.find? (fun x => x.1 == v) e.tr with
        | none => rw [hf] at hcontra; simp at hcontra
        | some q => rw [hf] at hv; simp at hv
    unfold insert
    simp only [hnv, Bool.false_eq_true, if_false]
    rw [lookup_append]
    have : lookup (erase e.tr key) v = none := by
      unfold containsKey at hnv; cases h : lookup (erase e.tr key) v <;> simp_all
    rw [this]; simp [lookup]
  · unfold insert
    split
    · unfold lookup erase
      rw [List.find?_eq_none.2]
      · rfl
      · intro p hp; have := (List.mem_filter.1 hp).2; simpa using this
    · rw [lookup_append]
      have : lookup (erase e.tr key) key = none := by
        unfold lookup erase
        rw [List.find?_eq_none.2]
        · rfl
        · intro p hp; have := (List.mem_filter.1 hp).2; simpa using this
      rw [this]
      simp [lookup]
      exact fun h => hne h.symm

/-! ## end-to-end statements (abstract outcome of `BinarySynthes::Execute`)

`Outcome` is what the check observes of one synthesis: the operand and result uid sets, the two
translations, the equation table, and per result constituent the set of mentioned uids. -/

structure Outcome where
  op1 : List Nat
  op2 : List Nat
  result : List Nat
  tr1 : Tr
  tr2 : Tr
  eqs : Tr            -- key ∈ op1, value ∈ op2

/-- every operand constituent is represented by an existing result constituent, and equated pairs
are represented by one survivor -/
def translations_total_valid (o : Outcome) : Prop :=
  (∀ u ∈ o.op1, ∃ r ∈ o.result, lookup o.tr1 u = some r) ∧
  (∀ u ∈ o.op2, ∃ r ∈ o.result, lookup o.tr2 u = some r) ∧
  (∀ p ∈ o.eqs, lookup o.tr1 p.1 = lookup o.tr2 p.2)

/-- non-vacuity: translations of `{1,2} ⊕ {1,7}` with `1 = 1'` -/
example : translations_total_valid
    { op1 := [1, 2], op2 := [1, 7], result := [1, 2, 9], tr1 := [(1, 1), (2, 2)], tr2 := [(1, 1), (7, 9)], eqs := [(1, 1)] } := by
  refine ⟨?_, ?_, ?_⟩ <;> decide

example : superposeWith [(1, 5), (2, 6)] [(5, 9), (3, 3)] = [(1, 9), (2, 6), (5, 9), (3, 3)] := by decide

end CCVerif.Translation
