import CCVerif.Model.Translation
import CCVerif.Model.Dedup
import CCVerif.Lemmas.Dedup
import CCVerif.Model.Merge
import CCVerif.Lemmas.Merge
import CCVerif.Model.Equate
import CCVerif.Lemmas.Equate
import CCVerif.Model.Synth
import CCVerif.Lemmas.Synth
import CCVerif.Lemmas.SynthExact
import CCVerif.Lemmas.SynthCorrectFrag
import CCVerif.Lemmas.SynthCorrectHomFrag
import CCVerif.Lemmas.SynthCorrectCompose
import CCVerif.Lemmas.SynthCorrectRank
import CCVerif.Lemmas.CheckerHomCompose
import CCVerif.Lemmas.CheckerHomAnalysis
import CCVerif.Lemmas.CheckerCallView
/-!
# C12 — synthesis, merge and equation yield a consistent schema and exact translations

Proved here: the algebra of identifier translations that `BinarySynthes::Execute`,
`RSEquationProcessor::Execute` and `MergeWith` compose (simultaneous substitution,
superposition = composition with fall-through, key/value swap of an equation). The end-to-end
clauses (every operand constituent represented, unique aliases, mentions rewritten, types
preserved, refusal is identity) are judged on the implementation by the check's oracles and are
kept below as statements over the abstract outcome of a synthesis.

Second part (namespace `CCVerif.Dedup`): the first piece of the pipeline itself,
`RSForm::DeleteDuplicatesInternal` (model `Model/Dedup.lean`, tied to the code by the harness line
`c12 dups`): termination, validity of the returned translation, partition of the uids, no copies
left, exactness of the rewritten definitions and texts, idempotence.

Third part (namespace `CCVerif.Merge`): `rsOperationFacet::MergeWith` (model `Model/Merge.lean`,
harness line `c12 mergeM`): every operand constituent is represented by a new constituent of the
result, uids and aliases stay unique, the schema's own constituents are untouched; the copy's
content is the operand's content renamed once — except for a constituent that mentions itself
(`merge_exact_counterexample`, a defect of the code, recorded finding C12-merge-self-mention).

Fourth and fifth part (namespaces `CCVerif.Equate`, `CCVerif.Synth`): `RSEquationProcessor::Execute`
and `BinarySynthes`. End-to-end exactness through the whole pipeline (`MergeWith`,
`DeleteDuplicates` | `TranslateEquations` + `Equate`, `ResetAliases`, substitution of the
translations): `resetAliases_exact`, `renamed_trans`, `equate_exact` (texts included),
`synth_exact` (every operand constituent: same kind, content renamed once by the final renaming;
equated pairs: which side's content the survivor carries, per kind and text mode),
`synth_nothing_else`, `synth_aliases_canonical`. Helper lemmas: Lemmas/SynthExact.lean.

Sixth part (namespace `CCVerif.SynthCorrect`, end of the file): the SEMANTIC clause — the analysis of
the result for any lawful, equivariant, content-only analysis of the generic schema machine
(Lemmas/SynthCorrect*.lean).
-/
namespace CCVerif.Translation

def NodupKeys (t : Tr) : Prop := (keys t).Nodup

theorem lookup_map_snd (t : Tr) (f : Nat → Nat) (k : Nat) :
    lookup (t.map (fun p => (p.1, f p.2))) k = (lookup t k).map f := by
  unfold lookup
  induction t with
  | nil => simp
  | cons p ps ih =>
    simp only [List.map_cons, List.find?_cons]
    by_cases h : (p.1 == k) = true
    · simp [h]
    · simp [h]; simpa using ih

/-- **substituteValues_apply**: `SubstituteValues` is the simultaneous substitution of values:
`t'(k) = s(t(k))` if `t(k)` is a key of `s`, else `t(k)`; keys are untouched. Independent of the
iteration order of either map. -/
theorem substituteValues_apply (t s : Tr) (k : Nat) :
    lookup (substituteValues t s) k = (lookup t k).map (fun v => (lookup s v).getD v) := by
  unfold substituteValues
  exact lookup_map_snd t (fun v => (lookup s v).getD v) k

theorem substituteValues_keys (t s : Tr) : keys (substituteValues t s) = keys t := by
  simp [substituteValues, keys, List.map_map, Function.comp_def]

private theorem lookup_append (a b : Tr) (k : Nat) :
    lookup (a ++ b) k = match lookup a k with | some v => some v | none => lookup b k := by
  unfold lookup
  rw [List.find?_append]
  cases h : List.find? (fun x => x.1 == k) a <;> simp

private theorem containsKey_iff (t : Tr) (k : Nat) : containsKey t k = true ↔ ∃ v, lookup t k = some v := by
  unfold containsKey; cases lookup t k <;> simp

private theorem foldl_superpose (s acc : Tr) (k : Nat) :
    lookup (s.foldl (fun acc p => if containsKey acc p.1 then acc else acc ++ [p]) acc) k =
      match lookup acc k with | some v => some v | none => lookup s k := by
  induction s generalizing acc with
  | nil => simp; cases lookup acc k <;> simp [lookup]
  | cons p ps ih =>
    simp only [List.foldl_cons]
    rw [ih]
    by_cases hc : containsKey acc p.1 = true
    · simp only [hc, if_true]
      cases hk : lookup acc k with
      | some v => simp
      | none =>
        simp only
        unfold lookup
        simp only [List.find?_cons]
        by_cases hpk : (p.1 == k) = true
        · have : p.1 = k := by simpa using hpk
          rw [this] at hc
          rcases (containsKey_iff acc k).1 hc with ⟨v, hv⟩
          rw [hv] at hk; cases hk
        · simp [hpk]
    · have hc' : containsKey acc p.1 = false := by simpa using hc
      simp only [hc', Bool.false_eq_true, if_false]
      rw [lookup_append]
      cases hk : lookup acc k with
      | some v => simp
      | none =>
        simp only
        unfold lookup
        simp only [List.find?_cons, List.find?_nil]
        by_cases hpk : (p.1 == k) = true
        · simp [hpk]
        · simp [hpk]

/-- **superposeWith_apply**: `t.SuperposeWith(s)` is "first `t`, then `s`": a key of `t` maps to
`s(t(k))` (or stays `t(k)` when `s` does not move it); a key of `s` alone keeps its `s` image. -/
theorem superposeWith_apply (t s : Tr) (k : Nat) :
    lookup (superposeWith t s) k =
      match lookup t k with
      | some v => some ((lookup s v).getD v)
      | none => lookup s k := by
  unfold superposeWith
  rw [foldl_superpose, substituteValues_apply]
  cases lookup t k <;> simp

/-- `Identity` maps every listed uid to itself -/
theorem identity_apply (uids : List Nat) (k : Nat) :
    lookup (identity uids) k = if k ∈ uids then some k else none := by
  unfold identity lookup
  induction uids with
  | nil => simp
  | cons u us ih =>
    simp only [List.map_cons, List.find?_cons]
    by_cases h : u = k
    · subst h; simp
    · have : (u == k) = false := by simpa using h
      simp only [this, List.mem_cons]
      rw [ih]
      have : ¬ k = u := fun e => h e.symm
      simp [this]

/-- **swapKeyVal_spec**: swapping an equation `key ↦ v` yields `v ↦ key`, refuses when `v` is
itself a key, flips keepHier/keepDel and keeps createNew -/
theorem swapKeyVal_spec (e : Eqs) (key v : Nat) (hk : lookup e.tr key = some v)
    (hv : containsKey e.tr v = false) (hne : key ≠ v) :
    (e.swapKeyVal key).2 = true ∧ lookup (e.swapKeyVal key).1.tr v = some key ∧
    lookup (e.swapKeyVal key).1.tr key = none := by
  unfold Eqs.swapKeyVal
  simp only [hk, hv, Bool.false_eq_true, if_false]
  refine ⟨trivial, ?_, ?_⟩
  · have hnv : containsKey (erase e.tr key) v = false := by
      unfold containsKey lookup erase at *
      cases h : List.find? (fun x => x.1 == v) (List.filter (fun x => x.1 != key) e.tr) with
      | none => simp
      | some p =>
        have := List.find?_some h
        have hm := List.mem_of_find?_eq_some h
        have hm' := (List.mem_filter.1 hm).1
        have : p.1 = v := by simpa using this
        have hcontra : (List.find? (fun x => x.1 == v) e.tr).isSome = true := by
          rw [List.find?_isSome]; exact ⟨p, hm', by simpa using this⟩
        cases hf : List.find? (fun x => x.1 == v) e.tr with
        | none => rw [hf] at hcontra; simp at hcontra
        | some q => rw [hf] at hv; simp at hv
    unfold insert
    simp only [hnv, Bool.false_eq_true, if_false]
    rw [lookup_append]
    have : lookup (erase e.tr key) v = none := by
      unfold containsKey at hnv; cases h : lookup (erase e.tr key) v <;> simp_all
    rw [this]; simp [lookup]
  · unfold insert
    split
    · unfold lookup erase
      rw [List.find?_eq_none.2]
      · rfl
      · intro p hp; have := (List.mem_filter.1 hp).2; simpa using this
    · rw [lookup_append]
      have : lookup (erase e.tr key) key = none := by
        unfold lookup erase
        rw [List.find?_eq_none.2]
        · rfl
        · intro p hp; have := (List.mem_filter.1 hp).2; simpa using this
      rw [this]
      simp [lookup]
      exact fun h => hne h.symm

/-! ## end-to-end statements (abstract outcome of `BinarySynthes::Execute`)

`Outcome` is what the check observes of one synthesis: the operand and result uid sets, the two
translations, the equation table, and per result constituent the set of mentioned uids. -/

structure Outcome where
  op1 : List Nat
  op2 : List Nat
  result : List Nat
  tr1 : Tr
  tr2 : Tr
  eqs : Tr            -- key ∈ op1, value ∈ op2

/-- every operand constituent is represented by an existing result constituent, and equated pairs
are represented by one survivor -/
def translations_total_valid (o : Outcome) : Prop :=
  (∀ u ∈ o.op1, ∃ r ∈ o.result, lookup o.tr1 u = some r) ∧
  (∀ u ∈ o.op2, ∃ r ∈ o.result, lookup o.tr2 u = some r) ∧
  (∀ p ∈ o.eqs, lookup o.tr1 p.1 = lookup o.tr2 p.2)

/-- non-vacuity: translations of `{1,2} ⊕ {1,7}` with `1 = 1'` -/
example : translations_total_valid
    { op1 := [1, 2], op2 := [1, 7], result := [1, 2, 9], tr1 := [(1, 1), (2, 2)], tr2 := [(1, 1), (7, 9)], eqs := [(1, 1)] } := by
  refine ⟨?_, ?_, ?_⟩ <;> decide

example : superposeWith [(1, 5), (2, 6)] [(5, 9), (3, 3)] = [(1, 9), (2, 6), (5, 9), (3, 3)] := by decide

end CCVerif.Translation

/-! ## `RSForm::DeleteDuplicatesInternal` (model `CCVerif.Dedup.dedup`)

`dedup l = some (r, tr)`: `r` is the content of the schema afterwards (in `List()` order), `tr`
the returned translation. `image tr u` is `tr(u)` for a key and `u` otherwise; `finalAlias l r tr`
is the renaming of mentions "alias of an original constituent ↦ alias of its image"
(`finalAlias_spec`). -/
namespace CCVerif.Dedup
open CCVerif.Translation

/-- the hypothesis of the theorems: pairwise distinct uids and pairwise distinct aliases -/
def WF (l : Schema) : Prop := (uids l).Nodup ∧ (aliases l).Nodup

/-- three identical terms `D1 D2 D3`, before them an axiom about the first and one about the last
(identical only after the terms were merged: a cascade that needs a second pass), and two empty
base sets (never merged) -/
def exampleSchema : Schema :=
  [ { uid := 10, alias := "X1", kind := 1, definition := [], rest := [[], [], []] },
    { uid := 11, alias := "X2", kind := 1, definition := [], rest := [[], [], []] },
    { uid := 21, alias := "A1", kind := 5, definition := [.mention "D1", .sym "=", .mention "D1"], rest := [[], [], []] },
    { uid := 22, alias := "A2", kind := 5, definition := [.mention "D3", .sym "=", .mention "D3"], rest := [[], [], []] },
    { uid := 31, alias := "D1", kind := 6, definition := [.mention "X1", .sym "\\", .mention "X1"], rest := [[], [], []] },
    { uid := 32, alias := "D2", kind := 6, definition := [.mention "X1", .sym "\\", .mention "X1"], rest := [[], [], []] },
    { uid := 33, alias := "D3", kind := 6, definition := [.mention "X1", .sym "\\", .mention "X1"], rest := [[], [], []] } ]

/-- what the model computes on it: `D1` erases `D2`, then `D3` (visited next) erases `D1`; in the
second pass `A1` (now `D3=D3`) erases `A2` -/
def exampleResult : Schema × Tr :=
  ( [ { uid := 10, alias := "X1", kind := 1, definition := [], rest := [[], [], []] },
      { uid := 11, alias := "X2", kind := 1, definition := [], rest := [[], [], []] },
      { uid := 21, alias := "A1", kind := 5, definition := [.mention "D3", .sym "=", .mention "D3"], rest := [[], [], []] },
      { uid := 33, alias := "D3", kind := 6, definition := [.mention "X1", .sym "\\", .mention "X1"], rest := [[], [], []] } ],
    [(32, 33), (31, 33), (22, 21)] )

/-- non-vacuity of the two hypotheses shared by all theorems below (`WF l`, `dedup l = some (r, tr)`) -/
example : WF exampleSchema ∧ dedup exampleSchema = some exampleResult :=
  ⟨by unfold WF; decide, by decide⟩
/-- the induced renaming on this instance: `D1`, `D2` become `D3`; `A2` becomes `A1`; a foreign name stays -/
example : (["D1", "D2", "D3", "A2", "X1", "Q7"].map (finalAlias exampleSchema exampleResult.1 exampleResult.2)) =
    ["D3", "D3", "D3", "A1", "X1", "Q7"] := by decide

/-- **dedup_terminates**: the fuel of the model (`length + 1` passes, each over at most `length`
constituents) is never exhausted — the `while (flag)` of the code terminates on every schema,
because every pass that raises the flag has erased a constituent. -/
theorem dedup_terminates (l : Schema) : ∃ r tr, dedup l = some (r, tr) := by
  rcases loop_total (l.length + 1) l [] (Nat.lt_succ_self _) with ⟨⟨r, tr⟩, h⟩
  exact ⟨r, tr, h⟩

private theorem dedup_inv {l r : Schema} {tr : Tr} (hw : WF l) (h : dedup l = some (r, tr)) : Inv l r tr :=
  loop_inv hw.1 _ _ _ _ _ (inv_init l hw.1 hw.2) h

/-- **dedup_translation_valid** (a): every key of the returned translation is a uid that was in
the schema and is not any more, every value is a uid that is still there (no dangling value; the
defect repaired in 3ea486b and re-introduced by seeded change C12-1 breaks exactly this), and no
uid is a key twice. -/
theorem dedup_translation_valid {l r : Schema} {tr : Tr} (hw : WF l) (h : dedup l = some (r, tr)) :
    (∀ p ∈ tr, p.1 ∈ uids l ∧ p.1 ∉ uids r ∧ p.2 ∈ uids r) ∧ (keys tr).Nodup := by
  have hi := dedup_inv hw h
  have hnd := hi.nodupAll hw.1
  refine ⟨fun p hp => ⟨?_, ?_, hi.vals p hp⟩, (List.nodup_append.1 hnd).1⟩
  · exact hi.part.mem_iff.1 (List.mem_append_left _ (List.mem_map.2 ⟨p, hp, rfl⟩))
  · intro hr
    exact (List.nodup_append.1 hnd).2.2 p.1 (List.mem_map.2 ⟨p, hp, rfl⟩) p.1 hr rfl

example : ∃ l r tr, WF l ∧ dedup l = some (r, tr) ∧ tr ≠ [] :=
  ⟨exampleSchema, exampleResult.1, exampleResult.2, by unfold WF; decide, by decide, by decide⟩

/-- **dedup_pinned_counterexample**: the code before repair 3ea486b (`translation.Insert(copy,
original)`, model `dedupPinned`) violates (a) on three identical terms: it returns
`{2 ↦ 1, 1 ↦ 3}`, whose value `1` has been erased. Regression witness for the repaired defect. -/
theorem dedup_pinned_counterexample :
    ∃ l r tr, WF l ∧ dedupPinned l = some (r, tr) ∧ ∃ p ∈ tr, p.2 ∉ uids r :=
  ⟨[ { uid := 1, alias := "D1", kind := 6, definition := [.mention "X1"], rest := [] },
     { uid := 2, alias := "D2", kind := 6, definition := [.mention "X1"], rest := [] },
     { uid := 3, alias := "D3", kind := 6, definition := [.mention "X1"], rest := [] } ],
   [ { uid := 3, alias := "D3", kind := 6, definition := [.mention "X1"], rest := [] } ],
   [(2, 1), (1, 3)], by unfold WF; decide, by decide, (2, 1), by decide, by decide⟩

/-- **dedup_partition** (b): the keys of the translation together with the surviving uids are the
original uids, each exactly once; the survivors keep their relative order. -/
theorem dedup_partition {l r : Schema} {tr : Tr} (hw : WF l) (h : dedup l = some (r, tr)) :
    (keys tr ++ uids r).Perm (uids l) ∧ (keys tr ++ uids r).Nodup ∧ (uids r).Sublist (uids l) := by
  have hi := dedup_inv hw h
  exact ⟨hi.part, hi.nodupAll hw.1, hi.order⟩

/-- **dedup_represented**: every constituent the schema had is represented by an existing one:
its image under the returned translation is the uid of a constituent of the result. -/
theorem dedup_represented {l r : Schema} {tr : Tr} (hw : WF l) (h : dedup l = some (r, tr)) :
    ∀ u ∈ uids l, image tr u ∈ uids r := by
  have hvalid := dedup_translation_valid hw h
  have hpart := dedup_partition hw h
  intro w hwm
  by_cases hkw : w ∈ keys tr
  · rcases CCVerif.Equate.lookup_isSome_of_key hkw with ⟨v, hv⟩
    have := (hvalid.1 _ (CCVerif.Equate.mem_of_lookup hv)).2.2
    unfold image; rw [hv]; exact this
  · rw [CCVerif.Equate.image_of_not_key hkw]
    rcases List.mem_append.1 (hpart.1.mem_iff.2 hwm) with h1 | h1
    · exact absurd h1 hkw
    · exact h1

/-- **dedup_no_duplicates** (c): afterwards no constituent that has any content (definition,
convention or text) is identical to another one. (Constituents without any content — bare base
sets — are never merged by the code: `!rsCst1.IsEmpty() || !textCst1.IsEmpty()`.) -/
theorem dedup_no_duplicates {l r : Schema} {tr : Tr} (h : dedup l = some (r, tr)) :
    ∀ a ∈ r, ∀ b ∈ r, a.uid ≠ b.uid → a.isEmpty = false →
      ¬ (a.kind = b.kind ∧ a.definition = b.definition ∧ a.rest = b.rest) := by
  intro a ha b hb hne hemp hsame
  rcases loop_noCopies _ _ _ _ _ h a ha with he | hn
  · rw [he] at hemp; cases hemp
  · have := findCopy_none hn b hb (fun e => hne e.symm)
    rw [(same_iff a b).2 hsame] at this
    cases this

example : ∃ l r tr, dedup l = some (r, tr) ∧ ∃ a ∈ r, a.isEmpty = false :=
  ⟨exampleSchema, exampleResult.1, exampleResult.2, by decide, by decide⟩

/-- **finalAlias_spec**: the renaming used in `dedup_exact`: a name that is no alias of the
original schema is left alone; the alias of an original constituent becomes the alias of the
constituent its uid is translated to. -/
theorem finalAlias_spec {l r : Schema} {tr : Tr} (hw : WF l) (h : dedup l = some (r, tr)) :
    (∀ a, a ∉ aliases l → finalAlias l r tr a = a) ∧
    (∀ c0 ∈ l, ∀ s ∈ r, s.uid = image tr c0.uid → finalAlias l r tr c0.alias = s.alias) := by
  have hi := dedup_inv hw h
  constructor
  · intro a ha
    unfold finalAlias
    have : l.find? (fun c0 => c0.alias == a) = none := by
      apply List.find?_eq_none.2
      intro x hx hxa
      exact ha (List.mem_map.2 ⟨x, hx, by simpa using hxa⟩)
    rw [this]
  · intro c0 hc0 s hs hsu
    unfold finalAlias
    have h1 := find?_of_mem_nodup (·.alias) l c0 hw.2 hc0
    rw [h1]
    show (match List.find? (fun s => s.uid == image tr c0.uid) r with
      | some s => s.alias
      | none => c0.alias) = s.alias
    rw [← hsu, find?_of_mem_nodup (·.uid) r s hi.nodupU hs]

/-- **dedup_exact** (d, for every original constituent, removed or not): its image under the
translation is in the result, has the same kind, and carries exactly the original definition
(and convention / texts) with every mention renamed by `finalAlias`. For a removed constituent
this says that the survivor it is translated to really is "the same concept". -/
theorem dedup_exact {l r : Schema} {tr : Tr} (hw : WF l) (h : dedup l = some (r, tr)) :
    ∀ c0 ∈ l, ∃ s ∈ r, s.uid = image tr c0.uid ∧ s.kind = c0.kind ∧
      s.definition = c0.definition.map (renTok (finalAlias l r tr)) ∧
      s.rest = c0.rest.map (·.map (renTok (finalAlias l r tr))) :=
  (dedup_inv hw h).repr

/-- **dedup_survivors** (d): every constituent of the result is an original one with the same
uid, alias and kind whose definition (convention, texts) is the original one with each mention
renamed to the alias of its image. -/
theorem dedup_survivors {l r : Schema} {tr : Tr} (hw : WF l) (h : dedup l = some (r, tr)) :
    ∀ s ∈ r, ∃ c0 ∈ l, c0.uid = s.uid ∧ c0.alias = s.alias ∧ c0.kind = s.kind ∧
      s.definition = c0.definition.map (renTok (finalAlias l r tr)) ∧
      s.rest = c0.rest.map (·.map (renTok (finalAlias l r tr))) := by
  intro s hs
  have hi := dedup_inv hw h
  rcases hi.kept s hs with ⟨c0, hc0, hu, ha⟩
  rcases hi.repr c0 hc0 with ⟨s2, hs2, hu2, hk2, hd2, hr2⟩
  have hnk : c0.uid ∉ keys tr := by rw [hu]; exact hi.not_key hw.1 hs
  have himg : image tr c0.uid = c0.uid := by
    unfold image
    have : containsKey tr c0.uid = false := by
      cases hck : containsKey tr c0.uid with
      | false => rfl
      | true => exact absurd ((containsKey_iff_mem_keys tr c0.uid).1 hck) hnk
    rw [lookup_eq_none_of_not_key tr c0.uid this]; rfl
  have : s2 = s := eq_of_mem_nodup (·.uid) r s2 s hi.nodupU hs2 hs (by rw [hu2, himg, hu])
  subst this
  exact ⟨c0, hc0, hu, ha, hk2.symm, hd2, hr2⟩

/-- **dedup_idempotent** (e): running it again on the result changes nothing and returns the
empty translation. -/
theorem dedup_idempotent {l r : Schema} {tr : Tr} (h : dedup l = some (r, tr)) :
    dedup r = some (r, []) :=
  loop_of_noCopies r.length r [] (loop_noCopies _ _ _ _ _ h)

example : dedup exampleResult.1 = some (exampleResult.1, []) := by decide

end CCVerif.Dedup

/-! ## `rsOperationFacet::MergeWith` (model `CCVerif.Merge.mergeWith`)

`mergeWith g freshs a b = some (r, tr)`: `a` the schema before, `b` the operand (`schema2`), `r`
the schema afterwards, `tr` the returned translation (operand uid ↦ uid of the copy). `g` is the
name rule, `freshs` the uids the random generator handed out; both are arbitrary (a run in which
either would hand out something taken is `none`). -/
namespace CCVerif.Merge
open CCVerif.Translation CCVerif.Dedup

/-- the final translation of the inserted constituents -/
private def fin (st : MState) (s : Cst) : Cst :=
  if st.inserted.contains s.uid then s.rename (ctxFn st.repl) else s

private theorem fin_uid (st : MState) (s : Cst) : (fin st s).uid = s.uid := by unfold fin; split <;> rfl
private theorem fin_alias (st : MState) (s : Cst) : (fin st s).alias = s.alias := by unfold fin; split <;> rfl
private theorem fin_kind (st : MState) (s : Cst) : (fin st s).kind = s.kind := by unfold fin; split <;> rfl

private theorem fin_nil (st : MState) (h : st.repl.isEmpty = true) (s : Cst) : fin st s = s := by
  unfold fin
  split
  · have : st.repl = [] := by simpa using h
    rw [this]; exact rename_id_eq s _ ctxFn_nil
  · rfl

private theorem merge_unfold {g : Names} {freshs : List Nat} {a b r : Schema} {tr : Tr}
    (ha : WF a) (hb : WF b) (h : mergeWith g freshs a b = some (r, tr)) :
    ∃ st, MInv a b st ∧ st.a.length = a.length + b.length ∧ r = st.a.map (fin st) ∧ tr = trOf b st := by
  unfold mergeWith at h
  split at h
  · cases h
  · rename_i st hst
    have hi : MInv a b st := by
      have := minv_fold b [] _ st (minv_init a freshs ha.1 ha.2) (by simpa using hb.1) (by simpa using hb.2) hst
      simpa using this
    simp only [Option.some.injEq, Prod.mk.injEq] at h
    refine ⟨st, hi, merge_length hst, ?_, ?_⟩
    · rw [← h.1]
      split
      · rename_i he
        rw [List.map_congr_left (g := id) (fun s _ => fin_nil st he s)]; simp
      · rfl
    · rw [← h.2]
      have hk : keys ((uids b).zip st.inserted) = uids b := keys_zip _ _ (by simpa [uids] using hi.len)
      rw [foldl_insert_pairs _ [] (by show (keys ((uids b).zip st.inserted)).Nodup; rw [hk]; exact hb.1)]
      rfl

/-- a schema `X1, D1, D2` and an operand `X1, D1, D2, D3` whose `D1` has a convention that names
`D1` itself and a definition text with a reference to its own term (the probe run on the code) -/
def exampleA : Schema :=
  [ { uid := 1, alias := "X1", kind := 1, definition := [], rest := [[], [], []] },
    { uid := 2, alias := "D1", kind := 6, definition := [.mention "X1", .sym "\\", .mention "X1"], rest := [[], [], []] },
    { uid := 3, alias := "D2", kind := 6, definition := [.mention "D1", .sym "\\", .mention "X1"], rest := [[], [], []] } ]
def exampleB : Schema :=
  [ { uid := 1, alias := "X1", kind := 1, definition := [], rest := [[], [], []] },
    { uid := 12, alias := "D1", kind := 6, definition := [.mention "X1", .sym "\\", .mention "X1"],
      rest := [[.mention "D1", .sym " is the first one"], [.sym "first"], [.sym "the @{", .mention "D1", .sym "|nomn,sing} itself"]] },
    { uid := 13, alias := "D2", kind := 6, definition := [.mention "X1", .sym "\\", .mention "D1"], rest := [[], [], []] },
    { uid := 14, alias := "D3", kind := 6, definition := [.mention "X1", .sym "\\", .mention "D2"], rest := [[], [], [.sym "third"]] } ]

/-- the result with the self-mentions of the copy `D3` spelled `self` -/
def exampleMergedWith (self : String) : Schema × Tr :=
  ( [ { uid := 1, alias := "X1", kind := 1, definition := [], rest := [[], [], []] },
      { uid := 77, alias := "X2", kind := 1, definition := [], rest := [[], [], []] },
      { uid := 2, alias := "D1", kind := 6, definition := [.mention "X1", .sym "\\", .mention "X1"], rest := [[], [], []] },
      { uid := 3, alias := "D2", kind := 6, definition := [.mention "D1", .sym "\\", .mention "X1"], rest := [[], [], []] },
      { uid := 12, alias := "D3", kind := 6, definition := [.mention "X2", .sym "\\", .mention "X2"],
        rest := [[.mention self, .sym " is the first one"], [.sym "first"], [.sym "the @{", .mention self, .sym "|nomn,sing} itself"]] },
      { uid := 13, alias := "D4", kind := 6, definition := [.mention "X2", .sym "\\", .mention "D3"], rest := [[], [], []] },
      { uid := 14, alias := "D5", kind := 6, definition := [.mention "X2", .sym "\\", .mention "D4"], rest := [[], [], [.sym "third"]] } ],
    [(1, 77), (12, 12), (13, 13), (14, 14)] )

/-- what the model (and the repaired code) give: the copy of the operand's `D1` is `D3` and speaks of itself as `D3` -/
def exampleMerged : Schema × Tr := exampleMergedWith "D3"

/-- non-vacuity of the hypotheses shared by the theorems below -/
example : WF exampleA ∧ WF exampleB ∧ mergeWith realNames [77] exampleA exampleB = some exampleMerged :=
  ⟨by unfold WF; decide, by unfold WF; decide, by decide⟩

/-- **merge_represented**: every constituent of the operand is represented by an existing
constituent of the result — the returned translation maps its uid to the uid of a constituent
that is in the result, is new (not one of the schema's own), and has the same kind; the keys of
the translation are exactly the operand's uids, in list order. -/
theorem merge_represented {g : Names} {freshs : List Nat} {a b r : Schema} {tr : Tr}
    (ha : WF a) (hb : WF b) (h : mergeWith g freshs a b = some (r, tr)) :
    (∀ c2 ∈ b, ∃ s ∈ r, lookup tr c2.uid = some s.uid ∧ s.uid ∉ uids a ∧ s.kind = c2.kind) ∧
    keys tr = uids b := by
  rcases merge_unfold ha hb h with ⟨st, hi, _, rfl, rfl⟩
  refine ⟨?_, keys_zip _ _ (by simpa [uids] using hi.len)⟩
  intro c2 hc2
  rcases hi.repr c2 hc2 with ⟨s, hs, hl, hin, hk, -⟩
  refine ⟨fin st s, List.mem_map.2 ⟨s, hs, rfl⟩, ?_, ?_, ?_⟩
  · rw [fin_uid]; exact hl
  · rw [fin_uid]; exact hi.newU _ hin
  · rw [fin_kind]; exact hk

/-- **merge_consistent**: afterwards uids and aliases are still pairwise distinct, and every
constituent the schema had is still there, unchanged. -/
theorem merge_consistent {g : Names} {freshs : List Nat} {a b r : Schema} {tr : Tr}
    (ha : WF a) (hb : WF b) (h : mergeWith g freshs a b = some (r, tr)) :
    WF r ∧ (∀ s ∈ a, s ∈ r) ∧ r.length = a.length + b.length := by
  rcases merge_unfold ha hb h with ⟨st, hi, hlen, rfl, rfl⟩
  have hu : uids (st.a.map (fin st)) = uids st.a := by
    simp only [uids, List.map_map]; apply List.map_congr_left; intro s _; exact fin_uid st s
  have hal : aliases (st.a.map (fin st)) = aliases st.a := by
    simp only [aliases, List.map_map]; apply List.map_congr_left; intro s _; exact fin_alias st s
  refine ⟨⟨?_, ?_⟩, ?_, ?_⟩
  · show (uids (st.a.map (fin st))).Nodup
    rw [hu]; exact hi.nodupU
  · show (aliases (st.a.map (fin st))).Nodup
    rw [hal]; exact hi.nodupA
  · intro s hs
    refine List.mem_map.2 ⟨s, hi.frame s hs, ?_⟩
    have : s.uid ∉ st.inserted := fun hin => hi.newU _ hin (List.mem_map.2 ⟨s, hs, rfl⟩)
    simp [fin, this]
  · rw [List.length_map]; exact hlen

/-! ### exactness of the copied content -/

/-- `m` is *the* renaming of a merge: the alias of an operand constituent goes to the alias of the
constituent that represents it, every other name stays -/
def IsMergeRenaming (b r : Schema) (tr : Tr) (m : String → String) : Prop :=
  (∀ c2 ∈ b, ∀ s ∈ r, lookup tr c2.uid = some s.uid → m c2.alias = s.alias) ∧
  (∀ x, x ∉ aliases b → m x = x)

/-- **merge_exact**: the clause of the property "every mention of a renamed constituent is
rewritten to its image" for `MergeWith`: the representative of an operand constituent carries the
operand's definition, convention and texts with every mention renamed ONCE by the renaming of the
merge — self-mentions, conventions and text references included. -/
theorem merge_exact {g : Names} {freshs : List Nat} {a b r : Schema} {tr : Tr} {m : String → String}
    (ha : WF a) (hb : WF b) (h : mergeWith g freshs a b = some (r, tr)) (hm : IsMergeRenaming b r tr m) :
    ∀ c2 ∈ b, ∀ s ∈ r, lookup tr c2.uid = some s.uid →
      s.definition = c2.definition.map (renTok m) ∧ s.rest = c2.rest.map (·.map (renTok m)) := by
  rcases merge_unfold ha hb h with ⟨st, hi, _, rfl, rfl⟩
  intro c2 hc2 s' hs' hl
  rcases List.mem_map.1 hs' with ⟨s, hs, rfl⟩
  rcases hi.repr c2 hc2 with ⟨s0, hs0, hl0, hin0, _, _, hd0, hr0⟩
  have hsu : s.uid = s0.uid := by
    have := hl.symm.trans hl0
    rw [fin_uid] at this
    exact Option.some.inj this
  have : s = s0 := eq_of_mem_nodup (·.uid) st.a s s0 hi.nodupU hs hs0 hsu
  subst this
  have hfin : fin st s = s.rename (ctxFn st.repl) := by simp [fin, hin0]
  have hagree : ∀ x, ctxFn st.repl x = m x := by
    intro x
    by_cases hx : x ∈ aliases b
    · rcases List.mem_map.1 hx with ⟨c, hc, rfl⟩
      rcases hi.repr c hc with ⟨sc, hsc, hlc, _, _, hctxc, -⟩
      have := hm.1 c hc (fin st sc) (List.mem_map.2 ⟨sc, hsc, rfl⟩) (by rw [fin_uid]; exact hlc)
      rw [hctxc, this, fin_alias]
    · rw [hm.2 x hx, ctxFn_not_key]
      exact fun hk => hx (hi.keysRepl _ hk)
  rw [hfin, rename_definition, rename_rest, hd0, hr0]
  constructor
  · exact List.map_congr_left (fun t _ => renTok_congr hagree t)
  · apply List.map_congr_left
    intro ts _
    exact List.map_congr_left (fun t _ => renTok_congr hagree t)

/-- the renaming of the merge on the example: operand aliases `X1 D1 D2 D3` ↦ `X2 D3 D4 D5` -/
def exampleRenaming (x : String) : String :=
  if x = "X1" then "X2" else if x = "D1" then "D3" else if x = "D2" then "D4" else if x = "D3" then "D5" else x

private theorem exampleRenaming_stays : ∀ x, x ∉ aliases exampleB → exampleRenaming x = x := by
  intro x hx
  have h1 : x ≠ "X1" := fun e => hx (by subst e; decide)
  have h2 : x ≠ "D1" := fun e => hx (by subst e; decide)
  have h3 : x ≠ "D2" := fun e => hx (by subst e; decide)
  have h4 : x ≠ "D3" := fun e => hx (by subst e; decide)
  simp [exampleRenaming, h1, h2, h3, h4]

private theorem exampleRenaming_is (self : String) (h : self = "D3" ∨ self = "D5") :
    IsMergeRenaming exampleB (exampleMergedWith self).1 (exampleMergedWith self).2 exampleRenaming := by
  refine ⟨?_, exampleRenaming_stays⟩
  rcases h with rfl | rfl <;> decide

/-- non-vacuity of `merge_exact`: a renaming of the merge exists on the example, and the operand's
`D1` (which mentions itself) is represented -/
example : IsMergeRenaming exampleB exampleMerged.1 exampleMerged.2 exampleRenaming ∧
    ∃ c2 ∈ exampleB, ∃ s ∈ exampleMerged.1, lookup exampleMerged.2 c2.uid = some s.uid ∧
      Tok.mention c2.alias ∈ c2.rest.flatten :=
  ⟨exampleRenaming_is "D3" (Or.inl rfl), exampleB[1], by decide, exampleMerged.1[4], by decide, by decide, by decide⟩

/-- **merge_renaming_exists**: the renaming of a merge exists (the hypothesis of `merge_exact` is
always satisfiable): the substitution `MergeWith` applies to the copies. -/
theorem merge_renaming_exists {g : Names} {freshs : List Nat} {a b r : Schema} {tr : Tr}
    (ha : WF a) (hb : WF b) (h : mergeWith g freshs a b = some (r, tr)) :
    ∃ m, IsMergeRenaming b r tr m := by
  rcases merge_unfold ha hb h with ⟨st, hi, _, rfl, rfl⟩
  refine ⟨ctxFn st.repl, ?_, fun x hx => ctxFn_not_key _ _ (fun hk => hx (hi.keysRepl _ hk))⟩
  intro c2 hc2 s' hs' hl
  rcases List.mem_map.1 hs' with ⟨s, hs, rfl⟩
  rcases hi.repr c2 hc2 with ⟨s0, hs0, hl0, _, _, hctx, _, _⟩
  have hsu : s.uid = s0.uid := by
    have := hl.symm.trans hl0
    rw [fin_uid] at this
    exact Option.some.inj this
  have : s = s0 := eq_of_mem_nodup (·.uid) st.a s s0 hi.nodupU hs hs0 hsu
  subst this
  rw [hctx, fin_alias]

example : ∃ m, IsMergeRenaming exampleB exampleMerged.1 exampleMerged.2 m :=
  merge_renaming_exists (g := realNames) (freshs := [77]) (a := exampleA) (by unfold WF; decide) (by unfold WF; decide) (by decide)

/-- **merge_pinned_counterexample**: the code before repair d6a760d (model `mergeWithPinned`:
`RSCore::InsertCopy(target, source)` renames the copy's own alias `D1 ↦ D3` inside its content,
then `MergeWith` applied `{D1↦D3, D2↦D4, D3↦D5}` to the same content) violates the clause: the
copy `D3` of the operand's `D1` ends with "D5 is the first one" / "@{D5|…}" — it names the copy of
the operand's `D3` instead of itself. Regression witness (probe on the unrepaired library: same texts). -/
theorem merge_pinned_counterexample :
    ∃ (a b r : Schema) (tr : Tr) (m : String → String), WF a ∧ WF b ∧
      mergeWithPinned realNames [77] a b = some (r, tr) ∧ IsMergeRenaming b r tr m ∧
      ∃ c2 ∈ b, ∃ s ∈ r, lookup tr c2.uid = some s.uid ∧ s.rest ≠ c2.rest.map (·.map (renTok m)) :=
  ⟨exampleA, exampleB, (exampleMergedWith "D5").1, (exampleMergedWith "D5").2, exampleRenaming,
    by unfold WF; decide, by unfold WF; decide, by decide, exampleRenaming_is "D5" (Or.inr rfl),
    exampleB[1], by decide, (exampleMergedWith "D5").1[4], by decide, by decide, by decide⟩

end CCVerif.Merge

/-! ## `RSEquationProcessor::Execute` (model `CCVerif.Equate.equate`)

`equate semOk l eqs = some (r, tr)`: the table `eqs` was admissible for the schema `l` (structural
check `precheck` of the model and the semantic verdict `semOk`), `r` is the schema afterwards, `tr`
the translation `Ops().Equate` returns; `none` = refused. Keys of a table are distinct (a map):
hypothesis `(tkeys eqs).Nodup`. -/
namespace CCVerif.Equate
open CCVerif.Translation CCVerif.Dedup CCVerif.Merge

private theorem image_superpose (t s : Tr) (u : Nat) : image (superposeWith t s) u = image s (image t u) := by
  unfold image
  rw [superposeWith_apply]
  cases lookup t u <;> simp

private theorem equate_unfold {semOk : Bool} {l r : Schema} {eqs : List Entry} {tr : Tr}
    (h : equate semOk l eqs = some (r, tr)) :
    precheck l eqs = true ∧ semOk = true ∧
      ∃ trD, dedup (beforeDedup l eqs) = some (r, trD) ∧ tr = superposeWith (eqTr eqs) trD := by
  unfold equate at h
  split at h
  · cases h
  · rename_i hc
    simp only [Bool.not_eq_true, Bool.not_eq_false', Bool.and_eq_true] at hc
    split at h
    · cases h
    · rename_i r' trD hd
      simp only [Option.some.injEq, Prod.mk.injEq] at h
      exact ⟨hc.1, hc.2, trD, by rw [← h.1]; exact hd, h.2.symm⟩

private theorem wf_beforeDedup {l : Schema} (hw : WF l) (eqs : List Entry) : WF (beforeDedup l eqs) := by
  constructor
  · rw [uids_beforeDedup]; exact List.Nodup.sublist List.filter_sublist hw.1
  · exact List.Nodup.sublist (aliases_beforeDedup_sublist l eqs) hw.2

/-- a schema with two identical terms and an axiom about each; the table equates `D2` with `D1`
(keeping the texts of the deleted one) -/
def exampleSchema : Schema :=
  [ { uid := 1, alias := "X1", kind := 1, definition := [], rest := [[], [], []] },
    { uid := 2, alias := "D1", kind := 6, definition := [.mention "X1", .sym "∪", .mention "X1"], rest := [[], [.sym "one"], []] },
    { uid := 3, alias := "D2", kind := 6, definition := [.mention "X1", .sym "∪", .mention "X1"], rest := [[], [.sym "two"], [.sym "see @{", .mention "D2", .sym "|nomn,sing}"]] },
    { uid := 4, alias := "A1", kind := 5, definition := [.mention "D1", .sym "=", .mention "D1"], rest := [[], [], []] },
    { uid := 5, alias := "A2", kind := 5, definition := [.mention "D2", .sym "=", .mention "D2"], rest := [[], [], []] } ]
def exampleTable : List Entry := [{ key := 3, value := 2, mode := 2 }]

/-- `D2` is removed, `D1` takes its texts (renamed), and the axioms — identical now — are merged -/
def exampleEquated : Schema × Tr :=
  ( [ { uid := 1, alias := "X1", kind := 1, definition := [], rest := [[], [], []] },
      { uid := 2, alias := "D1", kind := 6, definition := [.mention "X1", .sym "∪", .mention "X1"], rest := [[], [.sym "two"], [.sym "see @{", .mention "D1", .sym "|nomn,sing}"]] },
      { uid := 4, alias := "A1", kind := 5, definition := [.mention "D1", .sym "=", .mention "D1"], rest := [[], [], []] } ],
    [(3, 2), (5, 4)] )

/-- non-vacuity of the hypotheses shared by the theorems below -/
example : WF exampleSchema ∧ (tkeys exampleTable).Nodup ∧ precheck exampleSchema exampleTable = true ∧
    equate true exampleSchema exampleTable = some exampleEquated :=
  ⟨by unfold WF; decide, by decide, by decide, by decide⟩

/-- **equate_accepts / refuses**: the model executes exactly the tables that pass both parts of
the admissibility check; a refused table yields nothing (the schema is not touched). -/
theorem equate_accepts_iff (semOk : Bool) (l : Schema) (eqs : List Entry) :
    (∃ r tr, equate semOk l eqs = some (r, tr)) ↔ (precheck l eqs = true ∧ semOk = true) := by
  constructor
  · rintro ⟨r, tr, h⟩
    have := equate_unfold h
    exact ⟨this.1, this.2.1⟩
  · rintro ⟨h1, h2⟩
    rcases dedup_terminates (beforeDedup l eqs) with ⟨r, trD, hd⟩
    refine ⟨r, superposeWith (eqTr eqs) trD, ?_⟩
    unfold equate
    simp [h1, h2, hd]

/-- **equate_refused_structurally**: an empty table, a key that is its own value, a key or value
that is not in the schema, a value that is also a key: refused whatever the analysis says. -/
theorem equate_refused_structurally (semOk : Bool) (l : Schema) (eqs : List Entry)
    (h : eqs = [] ∨ ∃ e ∈ eqs, e.key = e.value ∨ e.key ∉ uids l ∨ e.value ∉ uids l ∨ e.value ∈ tkeys eqs) :
    equate semOk l eqs = none := by
  cases he : equate semOk l eqs with
  | none => rfl
  | some p =>
    exfalso
    have hp := (equate_unfold (r := p.1) (tr := p.2) he).1
    rcases h with rfl | ⟨e, hem, hbad⟩
    · simp [precheck] at hp
    · have := precheck_entry hp hem
      rcases hbad with h1 | h1 | h1 | h1
      · exact this.2.2.1 h1
      · exact h1 this.1
      · exact h1 this.2.1
      · exact this.2.2.2 h1

example : equate true exampleSchema [{ key := 2, value := 2 }] = none := by decide

/-- **equate_represented**: after an accepted equation every constituent the schema had is
represented by an existing constituent (`image tr u` is the uid of a constituent of the result);
the key of every equation is gone and key and value are represented by ONE survivor; every entry
of the returned translation maps a removed uid to a surviving one. -/
theorem equate_represented {semOk : Bool} {l r : Schema} {eqs : List Entry} {tr : Tr}
    (hw : WF l) (hk : (tkeys eqs).Nodup) (h : equate semOk l eqs = some (r, tr)) :
    (∀ u ∈ uids l, image tr u ∈ uids r) ∧
    (∀ e ∈ eqs, e.key ∉ uids r ∧ image tr e.key = image tr e.value) ∧
    (∀ p ∈ tr, p.1 ∈ uids l ∧ p.1 ∉ uids r ∧ p.2 ∈ uids r) := by
  rcases equate_unfold h with ⟨hpre, _, trD, hd, rfl⟩
  have hw3 := wf_beforeDedup hw eqs
  have hvalid := dedup_translation_valid hw3 hd
  have hpart := dedup_partition hw3 hd
  -- the image under the duplicates' translation of anything that entered the removal survives
  have himgD : ∀ w ∈ uids (beforeDedup l eqs), image trD w ∈ uids r := by
    intro w hwm
    by_cases hkw : w ∈ keys trD
    · rcases lookup_isSome_of_key hkw with ⟨v, hv⟩
      have := (hvalid.1 _ (mem_of_lookup hv)).2.2
      unfold image; rw [hv]; exact this
    · rw [image_of_not_key hkw]
      have := hpart.1.mem_iff.2 hwm
      rcases List.mem_append.1 this with h1 | h1
      · exact absurd h1 hkw
      · exact h1
  have hmem3 : ∀ w, w ∈ uids (beforeDedup l eqs) ↔ (w ∈ uids l ∧ w ∉ tkeys eqs) := by
    intro w; rw [uids_beforeDedup, List.mem_filter]; simp
  have hsub : ∀ w ∈ uids r, w ∈ uids (beforeDedup l eqs) := fun w hwr => hpart.2.2.subset hwr
  have himgE : ∀ e ∈ eqs, image (eqTr eqs) e.key = e.value := by
    intro e he; unfold image; rw [lookup_eqTr hk he]; rfl
  have hval3 : ∀ e ∈ eqs, e.value ∈ uids (beforeDedup l eqs) := by
    intro e he
    have := precheck_entry hpre he
    exact (hmem3 _).2 ⟨this.2.1, this.2.2.2⟩
  refine ⟨?_, ?_, ?_⟩
  · intro u hu
    rw [image_superpose]
    by_cases huk : u ∈ tkeys eqs
    · rcases List.mem_map.1 huk with ⟨e, he, rfl⟩
      rw [himgE e he]; exact himgD _ (hval3 e he)
    · rw [image_of_not_key (t := eqTr eqs) (by rw [keys_eqTr eqs hk]; exact huk)]
      exact himgD _ ((hmem3 u).2 ⟨hu, huk⟩)
  · intro e he
    constructor
    · intro hr
      exact ((hmem3 _).1 (hsub _ hr)).2 (List.mem_map.2 ⟨e, he, rfl⟩)
    · rw [image_superpose, image_superpose, himgE e he,
        image_of_not_key (t := eqTr eqs) (by rw [keys_eqTr eqs hk]; exact (precheck_entry hpre he).2.2.2)]
  · intro p hp
    rcases mem_superposeWith hp with ⟨q, hq, rfl⟩ | hp
    · rcases mem_eqTr hk hq with ⟨e, he, rfl⟩
      have hpe := precheck_entry hpre he
      refine ⟨hpe.1, ?_, himgD _ (hval3 e he)⟩
      intro hr
      exact ((hmem3 _).1 (hsub _ hr)).2 (List.mem_map.2 ⟨e, he, rfl⟩)
    · have := hvalid.1 p hp
      exact ⟨((hmem3 _).1 this.1).1, this.2.1, this.2.2⟩

/-- **equate_consistent**: uids and aliases of the result are pairwise distinct; every constituent
of the result is one the schema had, with the same uid, alias and kind, in the same relative order;
its definition is the original one with every mention renamed — first by the substitution of the
table (alias of a key ↦ alias of its value), then by the renaming the duplicate removal induces. -/
theorem equate_consistent {semOk : Bool} {l r : Schema} {eqs : List Entry} {tr : Tr}
    (hw : WF l) (h : equate semOk l eqs = some (r, tr)) :
    WF r ∧ (uids r).Sublist (uids l) ∧
    ∃ trD, ∀ s ∈ r, ∃ c0 ∈ l, c0.uid = s.uid ∧ c0.alias = s.alias ∧ c0.kind = s.kind ∧
      s.definition = c0.definition.map
        (renTok (fun x => finalAlias (beforeDedup l eqs) r trD (ctxFn (nameSubst l eqs) x))) := by
  rcases equate_unfold h with ⟨_, _, trD, hd, rfl⟩
  have hw3 := wf_beforeDedup hw eqs
  have hpart := dedup_partition hw3 hd
  have hsurv := dedup_survivors hw3 hd
  have hsubl : (uids r).Sublist (uids l) := by
    refine hpart.2.2.trans ?_
    rw [uids_beforeDedup]; exact List.filter_sublist
  refine ⟨⟨List.Nodup.sublist hsubl hw.1, ?_⟩, hsubl, trD, ?_⟩
  · -- aliases: every survivor keeps the alias of the constituent of `beforeDedup` with its uid
    have hnd := (List.nodup_append.1 hpart.2.1).2.1
    have : aliases r = (r.map fun s => s.alias) := rfl
    rw [this, List.Nodup, List.pairwise_map]
    have hU : List.Pairwise (fun a b => a.uid ≠ b.uid) r := by
      have := hnd; unfold uids at this; rwa [List.Nodup, List.pairwise_map] at this
    refine hU.imp_of_mem ?_
    intro a b ha hb hne hal
    rcases hsurv a ha with ⟨ca, hca, hua, haa, -⟩
    rcases hsurv b hb with ⟨cb, hcb, hub, hab, -⟩
    have : ca = cb := eq_of_mem_nodup (·.alias) _ ca cb hw3.2 hca hcb (by show ca.alias = cb.alias; rw [haa, hab, hal])
    exact hne (by rw [← hua, ← hub, this])
  · intro s hs
    rcases hsurv s hs with ⟨c3, hc3, hu3, ha3, hk3, hd3, -⟩
    rcases (mem_beforeDedup hc3).2 with ⟨c0, hc0, hu0, ha0, hk0, hd0⟩
    refine ⟨c0, hc0, hu0.trans hu3, ha0.trans ha3, hk0.trans hk3, ?_⟩
    rw [hd3, hd0, List.map_map]
    apply List.map_congr_left
    intro t _
    simp only [Function.comp]
    rw [renTok_comp]; rfl

end CCVerif.Equate

/-! ## `BinarySynthes` (model `CCVerif.Synth.synth`)

`synth g freshs semOk op1 op2 eqs = .ok r tr1 tr2`: the synthesis of the operands `op1`, `op2` with
the table `eqs` (keys in `op1`, values in `op2`) was defined and gave the schema `r` and the
translations `tr1`, `tr2`. -/
namespace CCVerif.Synth
open CCVerif.Translation CCVerif.Dedup CCVerif.Merge CCVerif.Equate

private theorem lookup_subst_identity (us : List Nat) (s : Tr) (u : Nat) (hu : u ∈ us) :
    lookup (substituteValues (identity us) s) u = some (image s u) := by
  rw [substituteValues_apply, identity_apply]
  simp [hu, image]

private theorem lookup_subst_of (t s : Tr) (u w : Nat) (h : lookup t u = some w) :
    lookup (substituteValues t s) u = some (image s w) := by
  rw [substituteValues_apply, h]; rfl

private theorem synth_finish {g : Names} {op1 op2 m e r : Schema} {trM trE tr1 tr2 : Tr} {eqs : List Entry}
    (hw1 : WF op1) (hw2 : WF op2) (hmerge : ∃ freshs, mergeWith g freshs op1 op2 = some (m, trM))
    (hwe : WF e) (himg : ∀ u ∈ uids m, image trE u ∈ uids e)
    (hpairs : ∀ e0 ∈ eqs, image trE e0.key = image trE (image trM e0.value))
    (hkeys : ∀ e0 ∈ eqs, e0.key ∈ uids op1) (hvals : ∀ e0 ∈ eqs, e0.value ∈ uids op2)
    (hr : resetAliases g e = some r)
    (h1 : tr1 = substituteValues (identity (uids op1)) trE) (h2 : tr2 = substituteValues trM trE) :
    translations_total_valid
      { op1 := uids op1, op2 := uids op2, result := uids r, tr1 := tr1, tr2 := tr2,
        eqs := eqs.map fun e => (e.key, e.value) } ∧ WF r := by
  rcases hmerge with ⟨freshs, hm⟩
  have hcons := merge_consistent hw1 hw2 hm
  have hrep := merge_represented hw1 hw2 hm
  have hur := uids_resetAliases hr
  have hop2 : ∀ u ∈ uids op2, ∃ w ∈ uids m, lookup trM u = some w := by
    intro u hu
    rcases List.mem_map.1 hu with ⟨c2, hc2, rfl⟩
    rcases hrep.1 c2 hc2 with ⟨s, hs, hl, -⟩
    exact ⟨s.uid, List.mem_map.2 ⟨s, hs, rfl⟩, hl⟩
  subst h1 h2
  refine ⟨⟨?_, ?_, ?_⟩, ⟨?_, aliases_resetAliases_nodup hwe.2 hr⟩⟩
  · intro u hu
    refine ⟨image trE u, ?_, lookup_subst_identity _ _ _ hu⟩
    show image trE u ∈ uids r
    rw [hur]
    rcases List.mem_map.1 hu with ⟨c, hc, rfl⟩
    exact himg _ (List.mem_map.2 ⟨c, hcons.2.1 c hc, rfl⟩)
  · intro u hu
    rcases hop2 u hu with ⟨w, hw, hl⟩
    refine ⟨image trE w, ?_, lookup_subst_of _ _ _ _ hl⟩
    show image trE w ∈ uids r
    rw [hur]; exact himg w hw
  · intro p hp
    rcases List.mem_map.1 hp with ⟨e0, he0, rfl⟩
    show lookup (substituteValues (identity (uids op1)) trE) e0.key = lookup (substituteValues trM trE) e0.value
    rcases hop2 _ (hvals e0 he0) with ⟨w, _, hl⟩
    have himv : image trM e0.value = w := by unfold image; rw [hl]; rfl
    rw [lookup_subst_of _ _ _ _ hl, lookup_subst_identity _ _ _ (hkeys e0 he0), hpairs e0 he0, himv]
  · show (uids r).Nodup
    rw [hur]; exact hwe.1

/-- two operands over one base set: `D1 := X1∪X1` in each, an axiom in the second; the table
equates the base sets and the two terms -/
def exampleOp1 : Schema :=
  [ { uid := 1, alias := "X1", kind := 1, definition := [], rest := [[], [], []] },
    { uid := 2, alias := "D1", kind := 6, definition := [.mention "X1", .sym "∪", .mention "X1"], rest := [[], [.sym "union"], []] } ]
def exampleOp2 : Schema :=
  [ { uid := 11, alias := "X1", kind := 1, definition := [], rest := [[], [], []] },
    { uid := 12, alias := "D1", kind := 6, definition := [.mention "X1", .sym "∪", .mention "X1"], rest := [[], [], []] },
    { uid := 13, alias := "A1", kind := 5, definition := [.mention "D1", .sym "=", .mention "D1"], rest := [[], [], []] } ]
def exampleEqs : List Entry := [{ key := 1, value := 11 }, { key := 2, value := 12 }]

/-- the result keeps the second operand's side of each pair (renamed back to `X1`, `D1` by `ResetAliases`) -/
def exampleSynth : Res :=
  .ok [ { uid := 11, alias := "X1", kind := 1, definition := [], rest := [[], [], []] },
        { uid := 12, alias := "D1", kind := 6, definition := [.mention "X1", .sym "∪", .mention "X1"], rest := [[], [], []] },
        { uid := 13, alias := "A1", kind := 5, definition := [.mention "D1", .sym "=", .mention "D1"], rest := [[], [], []] } ]
      [(1, 11), (2, 12)] [(11, 11), (12, 12), (13, 13)]

/-- non-vacuity of the hypotheses of `synth_total_valid` -/
example : WF exampleOp1 ∧ WF exampleOp2 ∧ (tkeys exampleEqs).Nodup ∧
    synth realNames [] true exampleOp1 exampleOp2 exampleEqs = exampleSynth :=
  ⟨by unfold WF; decide, by unfold WF; decide, by decide, by decide⟩

/-- **synth_total_valid**: the end-to-end clauses of the property for a synthesis that was defined
and executed, for all operands with pairwise distinct uids and aliases and every table (keys
distinct, as in a map): every constituent of either operand is represented by an existing
constituent of the result (`tr1`, `tr2` are total on the operands and their values are uids of
the result), the two sides of every equation are represented by ONE constituent, and the uids and
the aliases of the result are pairwise distinct. -/
theorem synth_total_valid {g : Names} {freshs : List Nat} {semOk : Bool} {op1 op2 r : Schema}
    {eqs : List Entry} {tr1 tr2 : Tr}
    (hw1 : WF op1) (hw2 : WF op2) (hk : (tkeys eqs).Nodup)
    (h : synth g freshs semOk op1 op2 eqs = .ok r tr1 tr2) :
    translations_total_valid
      { op1 := uids op1, op2 := uids op2, result := uids r, tr1 := tr1, tr2 := tr2,
        eqs := eqs.map fun e => (e.key, e.value) } ∧ WF r := by
  unfold synth at h
  cases hm : mergeWith g freshs op1 op2 with
  | none => rw [hm] at h; cases h
  | some p =>
    obtain ⟨m, trM⟩ := p
    rw [hm] at h
    simp only at h
    have hcons := merge_consistent hw1 hw2 hm
    by_cases hempty : eqs.isEmpty = true
    · simp only [hempty, if_true] at h
      have he : eqs = [] := by simpa using hempty
      cases hd : dedup m with
      | none => rw [hd] at h; cases h
      | some q =>
        obtain ⟨e, trE⟩ := q
        rw [hd] at h
        simp only at h
        cases hr : resetAliases g e with
        | none => rw [hr] at h; cases h
        | some r' =>
          rw [hr] at h
          simp only [Res.ok.injEq] at h
          obtain ⟨rfl, rfl, rfl⟩ := h
          have hpart := dedup_partition hcons.1 hd
          have hwe : WF e := by
            constructor
            · exact (List.nodup_append.1 hpart.2.1).2.1
            · -- survivors keep their aliases
              have hsurv := dedup_survivors hcons.1 hd
              have hnd := (List.nodup_append.1 hpart.2.1).2.1
              show (e.map fun s => s.alias).Nodup
              rw [List.Nodup, List.pairwise_map]
              have hU : List.Pairwise (fun a b => a.uid ≠ b.uid) e := by
                have := hnd; unfold uids at this; rwa [List.Nodup, List.pairwise_map] at this
              refine hU.imp_of_mem ?_
              intro a b ha hb hne hal
              rcases hsurv a ha with ⟨ca, hca, hua, haa, -⟩
              rcases hsurv b hb with ⟨cb, hcb, hub, hab, -⟩
              have : ca = cb := eq_of_mem_nodup (·.alias) _ ca cb hcons.1.2 hca hcb
                (by show ca.alias = cb.alias; rw [haa, hab, hal])
              exact hne (by rw [← hua, ← hub, this])
          exact synth_finish hw1 hw2 ⟨freshs, hm⟩ hwe (dedup_represented hcons.1 hd)
            (by intro e0 he0; rw [he] at he0; cases he0) (by intro e0 he0; rw [he] at he0; cases he0)
            (by intro e0 he0; rw [he] at he0; cases he0) hr rfl rfl
    · have hne : eqs.isEmpty = false := by simpa using hempty
      simp only [hne, Bool.false_eq_true, if_false] at h
      split at h
      · cases h
      · rename_i hall
        have hall' : ∀ e0 ∈ eqs, e0.key ∈ uids op1 ∧ e0.value ∈ uids op2 := by
          intro e0 he0
          simp only [Bool.not_eq_true, Bool.not_eq_false', List.all_eq_true, Bool.and_eq_true] at hall
          have := hall e0 he0
          exact ⟨by simpa using this.1, by simpa using this.2⟩
        cases hq : equate semOk m (translateEquations m trM eqs) with
        | none => rw [hq] at h; cases h
        | some q =>
          obtain ⟨e, trE⟩ := q
          rw [hq] at h
          simp only at h
          cases hr : resetAliases g e with
          | none => rw [hr] at h; cases h
          | some r' =>
            rw [hr] at h
            simp only [Res.ok.injEq] at h
            obtain ⟨rfl, rfl, rfl⟩ := h
            have hte := translateEquations_keeps m trM eqs hk
            have hrepE := equate_represented hcons.1 hte.1 hq
            have hconE := equate_consistent hcons.1 hq
            refine synth_finish hw1 hw2 ⟨freshs, hm⟩ hconE.1 hrepE.1 ?_
              (fun e0 he0 => (hall' e0 he0).1) (fun e0 he0 => (hall' e0 he0).2) hr rfl rfl
            intro e0 he0
            rcases hte.2 e0 he0 with ⟨e', he', ⟨hk', hv'⟩ | ⟨hk', hv'⟩⟩
            · have := (hrepE.2.1 e' he').2
              rw [hk', hv'] at this; exact this
            · have := (hrepE.2.1 e' he').2
              rw [hk', hv'] at this; exact this.symm

/-! ### end-to-end exactness: the stages -/

private theorem image_of_lookup {t : Tr} {k v : Nat} (h : lookup t k = some v) : image t k = v := by
  unfold image; rw [h]; rfl

/-- the duplicate removal as one stage -/
private theorem dedup_stage {l r : Schema} {tr : Tr} (hw : WF l) (h : dedup l = some (r, tr)) :
    StageExact l r tr [] (finalAlias l r tr) ∧ ∀ x ∈ aliases r, x ∈ aliases l := by
  have hsurv := dedup_survivors hw h
  have hpart := dedup_partition hw h
  have hspec := finalAlias_spec hw h
  have hnd := List.nodup_append.1 hpart.2.1
  have hi : Inv l r tr := loop_inv hw.1 _ _ _ _ _ (inv_init l hw.1 hw.2) h
  refine ⟨⟨hi.nodupU, hi.nodupA, ?_, hspec.1, ?_, ?_, ?_, dedup_represented hw h⟩, ?_⟩
  · intro c hc s hs hsu; exact hspec.2 c hc s hs hsu
  · intro c hc _
    exact dedup_exact hw h c hc
  · intro q hq; cases hq
  · intro s hs
    rcases hsurv s hs with ⟨c0, hc0, hu, -⟩
    refine ⟨c0, hc0, hu, (fun hx => by cases hx), ?_⟩
    rw [image_of_not_key]; exact hu
    intro hk; exact hnd.2.2 c0.uid hk c0.uid (hu ▸ List.mem_map.2 ⟨s, hs, rfl⟩) rfl
  · intro x hx
    rcases List.mem_map.1 hx with ⟨s, hs, rfl⟩
    rcases hsurv s hs with ⟨c0, hc0, -, ha, -⟩
    exact List.mem_map.2 ⟨c0, hc0, ha⟩

/-- an accepted equation (with its duplicate removal) as one stage -/
private theorem equate_stage {semOk : Bool} {l r : Schema} {eqs : List Entry} {tr : Tr}
    (hw : WF l) (hk : (tkeys eqs).Nodup) (h : equate semOk l eqs = some (r, tr)) :
    ∃ Q, StageExact l r tr eqs Q ∧ ∀ x ∈ aliases r, x ∈ aliases l := by
  have hrepE := equate_represented hw hk h
  rcases equate_unfold h with ⟨hpre, _, trD, hd, rfl⟩
  have hw3 := wf_beforeDedup hw eqs
  rcases dedup_stage hw3 hd with ⟨hst, hsub⟩
  have himgK : ∀ e ∈ eqs, image (superposeWith (eqTr eqs) trD) e.key = image trD e.value := by
    intro e he
    rw [image_superpose]; congr 1; exact image_of_lookup (lookup_eqTr hk he)
  have himgN : ∀ u, u ∉ tkeys eqs → image (superposeWith (eqTr eqs) trD) u = image trD u := by
    intro u hu
    rw [image_superpose, image_of_not_key (t := eqTr eqs) (by rw [keys_eqTr eqs hk]; exact hu)]
  have hctxN : ∀ c ∈ l, c.uid ∉ tkeys eqs → ctxFn (nameSubst l eqs) c.alias = c.alias := by
    intro c hc hnk
    apply ctxFn_nameSubst_other
    intro k hkl hkk hal
    have : k = c := eq_of_mem_nodup (·.alias) l k c hw.2 hkl hc hal
    exact hnk (this ▸ hkk)
  refine ⟨fun x => finalAlias (beforeDedup l eqs) r trD (ctxFn (nameSubst l eqs) x),
    ⟨hst.nodupU, hst.nodupA, ?_, ?_, ?_, fun q hq => (hrepE.2.1 q hq).2, ?_, hrepE.1⟩, ?_⟩
  · -- aliases
    intro c hc s hs hsu
    by_cases hck : c.uid ∈ tkeys eqs
    · rcases List.mem_map.1 hck with ⟨e, he, hek⟩
      have hpe := precheck_entry hpre he
      rcases findUid_of_uid hw.1 hpe.2.1 with ⟨v, hv, hvu, hfv⟩
      have hfk : findUid l e.key = some c := by rw [hek]; exact findUid_of_mem hw.1 hc
      show finalAlias _ r trD (ctxFn (nameSubst l eqs) c.alias) = s.alias
      rw [ctxFn_nameSubst_key hw.2 hk he hfk hfv]
      rcases mem_beforeDedup_of hw.1 hpre hk hv (by rw [hvu]; exact hpe.2.2.2) with ⟨v3, hv3, hu3, ha3, -⟩
      rw [← ha3]
      apply hst.aliasOf v3 hv3 s hs
      rw [hsu, ← hek, himgK e he, hu3, hvu]
    · show finalAlias _ r trD (ctxFn (nameSubst l eqs) c.alias) = s.alias
      rw [hctxN c hc hck]
      rcases mem_beforeDedup_of hw.1 hpre hk hc hck with ⟨c3, hc3, hu3, ha3, -⟩
      rw [← ha3]
      apply hst.aliasOf c3 hc3 s hs
      rw [hsu, himgN _ hck, hu3]
  · -- other names
    intro x hx
    show finalAlias _ r trD (ctxFn (nameSubst l eqs) x) = x
    rw [ctxFn_nameSubst_other (fun k hkl _ hal => hx (List.mem_map.2 ⟨k, hkl, hal⟩))]
    exact hst.off x (fun hm => hx ((aliases_beforeDedup_sublist l eqs).subset hm))
  · -- content
    intro c hc hnk
    rcases mem_beforeDedup_of hw.1 hpre hk hc hnk with ⟨c3, hc3, hu3, _, hk3, hd3, hr3⟩
    rcases hst.content c3 hc3 (by simp [tkeys]) with ⟨s, hs, hsu, hsk, hsd, hsr⟩
    refine ⟨s, hs, ?_, hsk.trans hk3, ?_, ?_⟩
    · rw [hsu, hu3, himgN _ hnk]
    · rw [hsd, hd3, map_renTok_comp]; rfl
    · have : textsAfter (beforeDedup l eqs) [] c3 = c3.rest := rfl
      rw [hsr, this, hr3, map_map_renTok_comp]; rfl
  · -- nothing else
    intro s hs
    rcases hst.kept s hs with ⟨c3, hc3, hu3, _, himg3⟩
    clear hsub
    rcases mem_beforeDedup hc3 with ⟨hnk3, c0, hc0, hu0, -⟩
    refine ⟨c0, hc0, hu0.trans hu3, by rw [hu0]; exact hnk3, ?_⟩
    rw [himgN _ (by rw [hu0]; exact hnk3), hu0]; exact himg3
  · intro x hx
    exact (aliases_beforeDedup_sublist l eqs).subset (hsub x hx)

/-- `ResetAliases` after a stage: still one stage, with the renaming composed -/
private theorem reset_stage {g : Names} {m e r : Schema} {trE : Tr} {tq : List Entry} {Q : String → String}
    (hst : StageExact m e trE tq Q) (hsub : ∀ x ∈ aliases e, x ∈ aliases m)
    (hr : resetAliases g e = some r) :
    (∃ R, StageExact m r trE tq R) ∧ aliases r = canonical g (r.map (·.kind)) [] := by
  rcases resetAliases_eq hst.nodupA hr with ⟨ρ, rfl, hoff, hcan⟩
  have hur : uids (e.map (substAliases ρ)) = uids e := uids_resetAliases hr
  refine ⟨?_, by rw [hcan]; simp [List.map_map, Function.comp_def, substAliases_kind]⟩
  refine ⟨fun x => ρ (Q x), ?_, aliases_resetAliases_nodup hst.nodupA hr, ?_, ?_, ?_, hst.pairs, ?_, ?_⟩
  · rw [hur]; exact hst.nodupU
  · intro c hc s hs hsu
    rcases List.mem_map.1 hs with ⟨s0, hs0, rfl⟩
    show ρ (Q c.alias) = ρ s0.alias
    rw [hst.aliasOf c hc s0 hs0 hsu]
  · intro x hx
    show ρ (Q x) = x
    rw [hst.off x hx]
    exact hoff x (fun hm => hx (hsub x hm))
  · intro c hc hnk
    rcases hst.content c hc hnk with ⟨s0, hs0, hsu, hsk, hsd, hsr⟩
    refine ⟨substAliases ρ s0, List.mem_map.2 ⟨s0, hs0, rfl⟩, hsu, hsk, ?_, ?_⟩
    · show s0.definition.map (renTok ρ) = _
      rw [hsd, map_renTok_comp]; rfl
    · show s0.rest.map (·.map (renTok ρ)) = _
      rw [hsr, map_map_renTok_comp]; rfl
  · intro s hs
    rcases List.mem_map.1 hs with ⟨s0, hs0, rfl⟩
    exact hst.kept s0 hs0
  · rw [hur]; exact hst.img

/-- what the merge does to the second operand, in one place -/
private theorem merge_facts {g : Names} {freshs : List Nat} {op1 op2 m : Schema} {trM : Tr}
    (hw1 : WF op1) (hw2 : WF op2) (hm : mergeWith g freshs op1 op2 = some (m, trM)) :
    ∃ m1, IsMergeRenaming op2 m trM m1 ∧
      ∀ c2 ∈ op2, ∃ s ∈ m, lookup trM c2.uid = some s.uid ∧ s.uid ∉ uids op1 ∧
        s.alias ∉ aliases op1 ∧ Renamed m1 c2 s := by
  rcases merge_renaming_exists hw1 hw2 hm with ⟨m1, hm1⟩
  have hrep := merge_represented hw1 hw2 hm
  have hcons := merge_consistent hw1 hw2 hm
  refine ⟨m1, hm1, ?_⟩
  intro c2 hc2
  rcases hrep.1 c2 hc2 with ⟨s, hs, hl, hnew, hkind⟩
  have hex := merge_exact hw1 hw2 hm hm1 c2 hc2 s hs hl
  refine ⟨s, hs, hl, hnew, ?_, hkind, hex.1, hex.2⟩
  intro hal
  rcases List.mem_map.1 hal with ⟨a, ha, haa⟩
  have : a = s := eq_of_mem_nodup (·.alias) m a s hcons.1.2 (hcons.2.1 a ha) hs haa
  exact hnew (this ▸ List.mem_map.2 ⟨a, ha, rfl⟩)

/-- a defined synthesis, taken apart: the merge, then ONE stage (duplicate removal, or equation
with the translated table) followed by `ResetAliases`, and the two translations -/
private theorem synth_unfold {g : Names} {freshs : List Nat} {semOk : Bool} {op1 op2 r : Schema}
    {eqs : List Entry} {tr1 tr2 : Tr}
    (hw1 : WF op1) (hw2 : WF op2) (hk : (tkeys eqs).Nodup)
    (h : synth g freshs semOk op1 op2 eqs = .ok r tr1 tr2) :
    ∃ m trM trE tq R, mergeWith g freshs op1 op2 = some (m, trM) ∧ StageExact m r trE tq R ∧
      tr1 = substituteValues (identity (uids op1)) trE ∧ tr2 = substituteValues trM trE ∧
      ((eqs = [] ∧ tq = []) ∨
        (tq = translateEquations m trM eqs ∧ precheck m tq = true ∧
          ∀ e0 ∈ eqs, e0.key ∈ uids op1 ∧ e0.value ∈ uids op2)) ∧
      aliases r = canonical g (r.map (·.kind)) [] := by
  unfold synth at h
  cases hm : mergeWith g freshs op1 op2 with
  | none => rw [hm] at h; cases h
  | some p =>
    obtain ⟨m, trM⟩ := p
    rw [hm] at h
    simp only at h
    have hcons := merge_consistent hw1 hw2 hm
    by_cases hempty : eqs.isEmpty = true
    · simp only [hempty, if_true] at h
      have he : eqs = [] := by simpa using hempty
      cases hd : dedup m with
      | none => rw [hd] at h; cases h
      | some q =>
        obtain ⟨e, trE⟩ := q
        rw [hd] at h
        simp only at h
        cases hr : resetAliases g e with
        | none => rw [hr] at h; cases h
        | some r' =>
          rw [hr] at h
          simp only [Res.ok.injEq] at h
          obtain ⟨rfl, rfl, rfl⟩ := h
          rcases dedup_stage hcons.1 hd with ⟨hst, hsub⟩
          rcases reset_stage hst hsub hr with ⟨⟨R, hR⟩, hcan⟩
          exact ⟨m, trM, trE, [], R, rfl, hR, rfl, rfl, Or.inl ⟨he, rfl⟩, hcan⟩
    · have hne : eqs.isEmpty = false := by simpa using hempty
      simp only [hne, Bool.false_eq_true, if_false] at h
      split at h
      · cases h
      · rename_i hall
        have hall' : ∀ e0 ∈ eqs, e0.key ∈ uids op1 ∧ e0.value ∈ uids op2 := by
          intro e0 he0
          simp only [Bool.not_eq_true, Bool.not_eq_false', List.all_eq_true, Bool.and_eq_true] at hall
          have := hall e0 he0
          exact ⟨by simpa using this.1, by simpa using this.2⟩
        cases hq : equate semOk m (translateEquations m trM eqs) with
        | none => rw [hq] at h; cases h
        | some q =>
          obtain ⟨e, trE⟩ := q
          rw [hq] at h
          simp only at h
          cases hr : resetAliases g e with
          | none => rw [hr] at h; cases h
          | some r' =>
            rw [hr] at h
            simp only [Res.ok.injEq] at h
            obtain ⟨rfl, rfl, rfl⟩ := h
            have hte := translateEquations_keeps m trM eqs hk
            rcases equate_stage hcons.1 hte.1 hq with ⟨Q, hst, hsub⟩
            rcases reset_stage hst hsub hr with ⟨⟨R, hR⟩, hcan⟩
            exact ⟨m, trM, trE, _, R, rfl, hR, rfl, rfl, Or.inr ⟨rfl, (equate_unfold hq).1, hall'⟩, hcan⟩

/-- **resetAliases_exact**: `RSCore::ResetAliases` is itself an exact renaming. There is ONE
function `ρ` on names such that the result is the schema itself, constituent by constituent in the
same order, with the same uid and kind, the alias `ρ(alias)`, and definition, convention and texts
with every mention renamed once by `ρ`; `ρ` leaves every name alone that is no alias of the schema;
the new aliases are the canonical numbering (in list order each constituent gets the name the rule
generates for its kind given the names handed out before it) and are pairwise distinct. -/
theorem resetAliases_exact {g : Names} {l r : Schema} (hA : (aliases l).Nodup)
    (h : resetAliases g l = some r) :
    ∃ ρ : String → String, (∀ x, x ∉ aliases l → ρ x = x) ∧
      r.length = l.length ∧
      (∀ i (h1 : i < l.length) (h2 : i < r.length),
        r[i].uid = l[i].uid ∧ r[i].alias = ρ l[i].alias ∧ Renamed ρ l[i] r[i]) ∧
      aliases r = canonical g (l.map (·.kind)) [] ∧ (aliases r).Nodup := by
  rcases resetAliases_eq hA h with ⟨ρ, rfl, hoff, hcan⟩
  refine ⟨ρ, hoff, by simp, ?_, hcan, aliases_resetAliases_nodup hA h⟩
  intro i h1 h2
  simp only [List.getElem_map]
  exact ⟨rfl, rfl, substAliases_renamed ρ _⟩

/-- **renamed_trans**: the composition of exact renamings is exact. -/
theorem renamed_trans {f g : String → String} {a b c : Cst} (h1 : Renamed g a b) (h2 : Renamed f b c) :
    Renamed (fun x => f (g x)) a c := h1.trans h2

example (ρ : String → String) (c : Cst) : Renamed (fun x => ρ (ρ x)) c (substAliases ρ (substAliases ρ c)) :=
  renamed_trans (substAliases_renamed ρ c) (substAliases_renamed ρ _)

/-- non-vacuity of `resetAliases_exact`, and the canonical numbering on an instance (the aliases
`X7 D5 D2` become `X1 D1 D2`, the mention of `D5` follows) -/
example : ∃ l r, (aliases l).Nodup ∧ resetAliases realNames l = some r ∧
    aliases r = ["X1", "D1", "D2"] ∧ canonical realNames [1, 6, 6] [] = ["X1", "D1", "D2"] ∧
    ∃ s ∈ r, Tok.mention "D1" ∈ s.definition :=
  ⟨[ { uid := 5, alias := "X7", kind := 1, definition := [], rest := [] },
     { uid := 3, alias := "D5", kind := 6, definition := [.mention "X7"], rest := [] },
     { uid := 9, alias := "D2", kind := 6, definition := [.mention "D5", .sym "\\", .mention "X7"], rest := [] } ],
   [ { uid := 5, alias := "X1", kind := 1, definition := [], rest := [] },
     { uid := 3, alias := "D1", kind := 6, definition := [.mention "X1"], rest := [] },
     { uid := 9, alias := "D2", kind := 6, definition := [.mention "D1", .sym "\\", .mention "X1"], rest := [] } ],
   by decide, by decide, by decide, by decide,
   { uid := 9, alias := "D2", kind := 6, definition := [.mention "D1", .sym "\\", .mention "X1"], rest := [] },
   by decide, by decide⟩

/-- **equate_exact**: the clause "every mention of a removed or renamed constituent is rewritten
to its image" for `Equate`, texts included (`StageExact`, Lemmas/SynthExact.lean): there is a
renaming `Q` (alias of a constituent ↦ alias of its image, every other name stays) such that the
image of every constituent that is no key has its kind, its definition with every mention renamed
once by `Q`, and — renamed once by `Q` — the texts `textsAfter l eqs c`: its own convention, term
text and definition text, except that every equation with this constituent as value, in table
order, puts the deleted constituent's term text and definition text there (keepDel) or the new
term text (createNew); the deleted constituent's texts are read off the ORIGINAL schema. Key and
value of an equation have one image; every constituent of the result is the image of itself. -/
theorem equate_exact {semOk : Bool} {l r : Schema} {eqs : List Entry} {tr : Tr}
    (hw : WF l) (hk : (tkeys eqs).Nodup) (h : equate semOk l eqs = some (r, tr)) :
    ∃ Q, StageExact l r tr eqs Q :=
  let ⟨Q, hQ, _⟩ := equate_stage hw hk h
  ⟨Q, hQ⟩

/-- on the example: `D1` is the value of the keepDel equation and takes the texts of `D2` -/
example : textsAfter Equate.exampleSchema exampleTable Equate.exampleSchema[1] =
    [[], [.sym "two"], [.sym "see @{", .mention "D2", .sym "|nomn,sing}"]] := by decide

/-! ### end-to-end exactness: the theorem -/

/-- the values of a table -/
def tvalues (eqs : List Entry) : List Nat := eqs.map (·.value)

/-- `TranslateEquations` turns the equation `k = v` round (the constituent of operand 1 survives):
the kinds differ, `k` is no base set and `v` is a base notion -/
def swapNeeded (k v : Cst) : Bool := k.kind != v.kind && !isBaseSet k.kind && isBaseNotion v.kind

/-- `F1`, `F2` are *the* final renamings of a synthesis, for the mentions inside operand 1 and
operand 2: the alias of an operand constituent goes to the alias of the constituent of the result
its uid is translated to. A name `x` that is no alias of the operand (a mention that resolves to
nothing there) is treated as the merge treats it: inside operand 2 it is read as a name of the
merged schema (`F2 = F1 ∘ m1`, `m1` the renaming of the merge, identity on such `x`), and a name of
the merged schema that is neither an alias of operand 1 nor the alias of a copy stays. -/
structure IsSynthRenaming (op1 op2 r : Schema) (tr1 tr2 : Tr) (F1 F2 : String → String) : Prop where
  alias1 : ∀ c ∈ op1, ∀ s ∈ r, lookup tr1 c.uid = some s.uid → F1 c.alias = s.alias
  alias2 : ∀ c ∈ op2, ∀ s ∈ r, lookup tr2 c.uid = some s.uid → F2 c.alias = s.alias
  other : ∃ m1 : String → String, (∀ x, F2 x = F1 (m1 x)) ∧ (∀ x, x ∉ aliases op2 → m1 x = x) ∧
    (∀ c ∈ op2, m1 c.alias ∉ aliases op1) ∧
    (∀ x, x ∉ aliases op1 → (∀ c ∈ op2, m1 c.alias ≠ x) → F1 x = x)

/-- every entry of the table handed to `Equate` is an equation of the synthesis with its value
translated into the merged schema, as it is or turned round -/
private theorem tq_entry {trM : Tr} {eqs tq : List Entry} (hT : Tracks (substEqs trM eqs) tq)
    {e : Entry} (he : e ∈ tq) :
    ∃ e0 ∈ eqs, e = { e0 with value := image trM e0.value } ∨
      e = swapped { e0 with value := image trM e0.value } := by
  rcases hT.origin e he with h1 | ⟨e1, h1, rfl⟩
  · rcases List.mem_map.1 h1 with ⟨e0, he0, rfl⟩
    exact ⟨e0, he0, Or.inl rfl⟩
  · rcases List.mem_map.1 h1 with ⟨e0, he0, rfl⟩
    exact ⟨e0, he0, Or.inr rfl⟩

/-- everything the three end-to-end theorems need, in one place -/
private theorem synth_core {g : Names} {freshs : List Nat} {semOk : Bool} {op1 op2 r : Schema}
    {eqs : List Entry} {tr1 tr2 : Tr}
    (hw1 : WF op1) (hw2 : WF op2) (hk : (tkeys eqs).Nodup)
    (h : synth g freshs semOk op1 op2 eqs = .ok r tr1 tr2) :
    ∃ m trM trE tq R m1, mergeWith g freshs op1 op2 = some (m, trM) ∧ StageExact m r trE tq R ∧
      IsMergeRenaming op2 m trM m1 ∧
      (∀ c ∈ op1, c ∈ m ∧ lookup tr1 c.uid = some (image trE c.uid)) ∧
      (∀ c2 ∈ op2, ∃ s' ∈ m, lookup trM c2.uid = some s'.uid ∧ s'.uid ∉ uids op1 ∧
        s'.alias ∉ aliases op1 ∧ Renamed m1 c2 s' ∧ lookup tr2 c2.uid = some (image trE s'.uid)) ∧
      (∀ e0 ∈ eqs, e0.key ∈ uids op1 ∧ e0.value ∈ uids op2) ∧
      (∀ e ∈ tq, ∃ e0 ∈ eqs, e = { e0 with value := image trM e0.value } ∨
        e = swapped { e0 with value := image trM e0.value }) ∧
      (∀ e0 ∈ eqs, (needsSwap m { e0 with value := image trM e0.value } = false ∧
          { e0 with value := image trM e0.value } ∈ tq) ∨
        (needsSwap m { e0 with value := image trM e0.value } = true ∧
          swapped { e0 with value := image trM e0.value } ∈ tq)) ∧
      (tkeys tq).Nodup ∧ (∀ e ∈ tq, e.value ∉ tkeys tq) := by
  rcases synth_unfold hw1 hw2 hk h with ⟨m, trM, trE, tq, R, hm, hR, rfl, rfl, hcase, -⟩
  rcases merge_facts hw1 hw2 hm with ⟨m1, hm1, hcopy⟩
  have hcons := merge_consistent hw1 hw2 hm
  refine ⟨m, trM, trE, tq, R, m1, hm, hR, hm1, ?_, ?_, ?_⟩
  · intro c hc
    exact ⟨hcons.2.1 c hc, lookup_subst_identity _ _ _ (List.mem_map.2 ⟨c, hc, rfl⟩)⟩
  · intro c2 hc2
    rcases hcopy c2 hc2 with ⟨s', hs', hl, h1, h2, h3⟩
    exact ⟨s', hs', hl, h1, h2, h3, lookup_subst_of _ _ _ _ hl⟩
  · rcases hcase with ⟨rfl, rfl⟩ | ⟨rfl, hpre, hall⟩
    · exact ⟨(fun _ h => by cases h), (fun _ h => by cases h), (fun _ h => by cases h), List.nodup_nil,
        (fun _ h => by cases h)⟩
    · have hvalnew : ∀ e0 ∈ eqs, image trM e0.value ∉ uids op1 := by
        intro e0 he0
        rcases List.mem_map.1 (hall e0 he0).2 with ⟨v, hv, hvu⟩
        rcases hcopy v hv with ⟨v', _, hl, hnew, -⟩
        rw [← hvu, image_of_lookup hl]; exact hnew
      have hdisj : ∀ e1 ∈ substEqs trM eqs, e1.value ∉ tkeys eqs := by
        intro e1 he1 hmem
        rcases List.mem_map.1 he1 with ⟨e0, he0, rfl⟩
        rcases List.mem_map.1 hmem with ⟨e2, he2, h2⟩
        have h2' : e2.key = image trM e0.value := h2
        exact hvalnew e0 he0 (by rw [← h2']; exact (hall e2 he2).1)
      rcases translateEquations_tracks m trM eqs hk hdisj with ⟨hT, hT2⟩
      refine ⟨hall, fun e he => tq_entry hT he, ?_, hT.nodup, fun e he => (precheck_entry hpre he).2.2.2⟩
      intro e0 he0
      have hmem : ({ e0 with value := image trM e0.value } : Entry) ∈ substEqs trM eqs :=
        List.mem_map.2 ⟨e0, he0, rfl⟩
      cases hns : needsSwap m { e0 with value := image trM e0.value } with
      | false => exact Or.inl ⟨rfl, hT2 _ hmem hns⟩
      | true =>
        refine Or.inr ⟨rfl, ?_⟩
        rcases hT.present _ hmem with h1 | h1
        · have := precheckFor_not_needsSwap (precheck_for hpre h1)
          rw [hns] at this; cases this
        · exact h1

/-- **synth_exact**: the end-to-end clause of the property for a synthesis that was defined and
executed — through the whole pipeline `MergeWith`, (`DeleteDuplicates` | `TranslateEquations` +
`Equate`), `ResetAliases`, substitution of the translations — for all operands with pairwise
distinct uids and aliases and every table with distinct keys. There are final renamings `F1`, `F2`
(`IsSynthRenaming`: operand alias ↦ alias of the image in the result) such that

* a constituent of operand 1 that is no key of the table, and a constituent of operand 2 that is no
  value, is represented by a constituent of the result of the same kind whose definition,
  convention and texts are its own with every mention renamed ONCE by the final renaming;
* the two sides `k` (operand 1), `v` (operand 2) of an equation are represented by ONE constituent
  `s`. It carries kind, definition and convention of `v` (renamed by `F2`) — unless the equation
  is turned round (`swapNeeded`: kinds differ, `k` no base set, `v` a base notion), then those of
  `k` (renamed by `F1`). Term text and definition text (`pairTexts`, places 1 and 2 of `rest`):
  keepHier (mode 1) those of `v`, keepDel (mode 2) those of `k`, createNew (3) the new term text
  (renamed as a text of the merged schema) and the survivor's definition text — each renamed by the
  final renaming of the operand it comes from. For the not-turned case the texts clause asks that
  no other equation has the same value (then the last one in the iteration order of the hash map
  would win: `equate_exact`). -/
theorem synth_exact {g : Names} {freshs : List Nat} {semOk : Bool} {op1 op2 r : Schema}
    {eqs : List Entry} {tr1 tr2 : Tr}
    (hw1 : WF op1) (hw2 : WF op2) (hk : (tkeys eqs).Nodup)
    (h : synth g freshs semOk op1 op2 eqs = .ok r tr1 tr2) :
    ∃ F1 F2, IsSynthRenaming op1 op2 r tr1 tr2 F1 F2 ∧
      (∀ c ∈ op1, c.uid ∉ tkeys eqs → ∃ s ∈ r, lookup tr1 c.uid = some s.uid ∧ Renamed F1 c s) ∧
      (∀ c ∈ op2, c.uid ∉ tvalues eqs → ∃ s ∈ r, lookup tr2 c.uid = some s.uid ∧ Renamed F2 c s) ∧
      (∀ e0 ∈ eqs, ∀ k ∈ op1, ∀ v ∈ op2, k.uid = e0.key → v.uid = e0.value →
        ∃ s ∈ r, lookup tr1 k.uid = some s.uid ∧ lookup tr2 v.uid = some s.uid ∧
          (swapNeeded k v = false →
            s.kind = v.kind ∧ s.definition = v.definition.map (renTok F2) ∧
            (∀ i, i ≠ 1 → i ≠ 2 → s.rest[i]? = (v.rest.map (·.map (renTok F2)))[i]?) ∧
            ((∀ e' ∈ eqs, e'.value = e0.value → e' = e0) →
              s.rest = pairTexts (v.rest.map (·.map (renTok F2))) (k.rest.map (·.map (renTok F1)))
                e0.mode (e0.arg.map (renTok F1)))) ∧
          (swapNeeded k v = true →
            s.kind = k.kind ∧ s.definition = k.definition.map (renTok F1) ∧
            s.rest = pairTexts (k.rest.map (·.map (renTok F1))) (v.rest.map (·.map (renTok F2)))
              (flipMode e0.mode) (e0.arg.map (renTok F1)))) := by
  rcases synth_core hw1 hw2 hk h with
    ⟨m, trM, trE, tq, R, m1, hm, hR, hm1, h1, h2, hall, hentry, hpresent, hnd, hvk⟩
  have hcons := merge_consistent hw1 hw2 hm
  have hinj : ∀ {x y u : Nat}, lookup trM x = some u → lookup trM y = some u → x = y :=
    fun hx hy => mergeWith_injective hw1.1 hw1.2 hw2.1 hw2.2 hm hx hy
  -- the image of a value of the table under the merge
  have hval : ∀ e0 ∈ eqs, ∃ v ∈ op2, v.uid = e0.value ∧ ∃ v' ∈ m, lookup trM v.uid = some v'.uid ∧
      image trM e0.value = v'.uid ∧ v'.uid ∉ uids op1 := by
    intro e0 he0
    rcases List.mem_map.1 (hall e0 he0).2 with ⟨v, hv, hvu⟩
    rcases h2 v hv with ⟨v', hv', hl, hnew, -⟩
    exact ⟨v, hv, hvu, v', hv', hl, by rw [← hvu, image_of_lookup hl], hnew⟩
  -- entries of the translated table: keys and values
  have hshape : ∀ e ∈ tq, ∃ e0 ∈ eqs,
      (e.key = e0.key ∧ e.value = image trM e0.value) ∨ (e.key = image trM e0.value ∧ e.value = e0.key) := by
    intro e he
    rcases hentry e he with ⟨e0, he0, rfl | rfl⟩
    · exact ⟨e0, he0, Or.inl ⟨rfl, rfl⟩⟩
    · exact ⟨e0, he0, Or.inr ⟨rfl, rfl⟩⟩
  have hK1 : ∀ c ∈ op1, c.uid ∉ tkeys eqs → c.uid ∉ tkeys tq ∧ ∀ e ∈ tq, e.value ≠ c.uid := by
    intro c hc hnk
    have hcu : c.uid ∈ uids op1 := List.mem_map.2 ⟨c, hc, rfl⟩
    have key : ∀ e ∈ tq, e.key ≠ c.uid ∧ e.value ≠ c.uid := by
      intro e he
      rcases hshape e he with ⟨e0, he0, ⟨ha, hb⟩ | ⟨ha, hb⟩⟩
      · rcases hval e0 he0 with ⟨_, _, _, v', _, _, himg, hnew⟩
        exact ⟨fun x => hnk (List.mem_map.2 ⟨e0, he0, ha.symm.trans x⟩),
          fun x => hnew (by rw [← himg, ← hb, x]; exact hcu)⟩
      · rcases hval e0 he0 with ⟨_, _, _, v', _, _, himg, hnew⟩
        exact ⟨fun x => hnew (by rw [← himg, ← ha, x]; exact hcu),
          fun x => hnk (List.mem_map.2 ⟨e0, he0, hb.symm.trans x⟩)⟩
    exact ⟨fun hmem => by
      rcases List.mem_map.1 hmem with ⟨e, he, hek⟩
      exact (key e he).1 hek, fun e he => (key e he).2⟩
  have hK2 : ∀ c2 ∈ op2, c2.uid ∉ tvalues eqs → ∀ s' ∈ m, lookup trM c2.uid = some s'.uid →
      s'.uid ∉ uids op1 → s'.uid ∉ tkeys tq ∧ ∀ e ∈ tq, e.value ≠ s'.uid := by
    intro c2 hc2 hnv s' hs' hl hnew'
    have key : ∀ e ∈ tq, e.key ≠ s'.uid ∧ e.value ≠ s'.uid := by
      intro e he
      rcases hshape e he with ⟨e0, he0, ⟨ha, hb⟩ | ⟨ha, hb⟩⟩
      · rcases hval e0 he0 with ⟨v, _, hvu, v', _, hlv, himg, _⟩
        refine ⟨fun x => hnew' (by rw [← x, ha]; exact (hall e0 he0).1), fun x => hnv ?_⟩
        have : v.uid = c2.uid := hinj hlv (by rw [← himg, ← hb, x]; exact hl)
        exact List.mem_map.2 ⟨e0, he0, by rw [← hvu, this]⟩
      · rcases hval e0 he0 with ⟨v, _, hvu, v', _, hlv, himg, _⟩
        refine ⟨fun x => hnv ?_, fun x => hnew' (by rw [← x, hb]; exact (hall e0 he0).1)⟩
        have : v.uid = c2.uid := hinj hlv (by rw [← himg, ← ha, x]; exact hl)
        exact List.mem_map.2 ⟨e0, he0, by rw [← hvu, this]⟩
    exact ⟨fun hmem => by
      rcases List.mem_map.1 hmem with ⟨e, he, hek⟩
      exact (key e he).1 hek, fun e he => (key e he).2⟩
  refine ⟨R, fun x => R (m1 x), ⟨?_, ?_, m1, fun _ => rfl, hm1.2, ?_, ?_⟩, ?_, ?_, ?_⟩
  · -- alias1
    intro c hc s hs hl
    refine hR.aliasOf c (h1 c hc).1 s hs ?_
    have := hl.symm.trans (h1 c hc).2
    exact Option.some.inj this
  · -- alias2
    intro c hc s hs hl
    rcases h2 c hc with ⟨s', hs', hlM, _, _, _, hl2⟩
    show R (m1 c.alias) = s.alias
    rw [hm1.1 c hc s' hs' hlM]
    refine hR.aliasOf s' hs' s hs ?_
    exact Option.some.inj (hl.symm.trans hl2)
  · intro c hc
    rcases h2 c hc with ⟨s', hs', hlM, _, hna, _, _⟩
    rw [hm1.1 c hc s' hs' hlM]; exact hna
  · intro x hx1 hx2
    apply hR.off
    intro hmem
    rcases List.mem_map.1 hmem with ⟨s, hs, rfl⟩
    rcases mergeWith_origin hw1.1 hw1.2 hw2.1 hw2.2 hm s hs with ho | ⟨c2, hc2, hl⟩
    · exact hx1 (List.mem_map.2 ⟨s, ho, rfl⟩)
    · exact hx2 c2 hc2 (hm1.1 c2 hc2 s hs hl)
  · -- operand 1, not equated
    intro c hc hnk
    rcases hK1 c hc hnk with ⟨hnk', hnv'⟩
    rcases hR.content c (h1 c hc).1 hnk' with ⟨s, hs, hsu, hsk, hsd, hsr⟩
    refine ⟨s, hs, by rw [hsu]; exact (h1 c hc).2, hsk, hsd, ?_⟩
    rw [hsr, textsAfter_of_not_value hnv']
  · -- operand 2, not equated
    intro c hc hnv
    rcases h2 c hc with ⟨s', hs', hlM, hnew, _, hren, hl2⟩
    rcases hK2 c hc hnv s' hs' hlM hnew with ⟨hnk', hnv'⟩
    rcases hR.content s' hs' hnk' with ⟨s, hs, hsu, hsk, hsd, hsr⟩
    refine ⟨s, hs, by rw [hsu]; exact hl2, ?_⟩
    have : Renamed R s' s := ⟨hsk, hsd, by rw [hsr, textsAfter_of_not_value hnv']⟩
    exact hren.trans this
  · -- equated pairs
    intro e0 he0 k hk1 v hv2 hku hvu
    rcases h2 v hv2 with ⟨v', hv', hlM, hnew, _, hren, hl2⟩
    have hkm := (h1 k hk1).1
    have himg : image trM e0.value = v'.uid := by rw [← hvu]; exact image_of_lookup hlM
    have hfk : findUid m e0.key = some k := by rw [← hku]; exact findUid_of_mem hcons.1.1 hkm
    have hfv : findUid m v'.uid = some v' := findUid_of_mem hcons.1.1 hv'
    have hns : needsSwap m { e0 with value := image trM e0.value } = swapNeeded k v := by
      unfold needsSwap swapNeeded
      show (match findUid m e0.key, findUid m (image trM e0.value) with
        | some k, some v => k.kind != v.kind && !isBaseSet k.kind && isBaseNotion v.kind
        | _, _ => false) = _
      rw [himg, hfk, hfv]
      show (k.kind != v'.kind && !isBaseSet k.kind && isBaseNotion v'.kind) = _
      rw [hren.1]
    -- the common image
    have hks : image trE k.uid ∈ uids r := hR.img k.uid (List.mem_map.2 ⟨k, hkm, rfl⟩)
    rcases List.mem_map.1 hks with ⟨s, hs, hsu⟩
    have huniq : ∀ s2 ∈ r, s2.uid = s.uid → s2 = s :=
      fun s2 hs2 h' => eq_of_mem_nodup (·.uid) r s2 s hR.nodupU hs2 hs h'
    have hpair : image trE k.uid = image trE v'.uid := by
      rcases hpresent e0 he0 with ⟨_, hin⟩ | ⟨_, hin⟩
      · have := hR.pairs _ hin
        simp only at this
        rw [hku, this, himg]
      · have := hR.pairs _ hin
        simp only [swapped] at this
        rw [hku, ← this, himg]
    refine ⟨s, hs, by rw [hsu]; exact (h1 k hk1).2, by rw [hsu, hpair]; exact hl2, ?_, ?_⟩
    · -- not turned round: the constituent of operand 2 survives
      intro hsw
      have hin : ({ e0 with value := image trM e0.value } : Entry) ∈ tq := by
        rcases hpresent e0 he0 with ⟨_, hin⟩ | ⟨hns', _⟩
        · exact hin
        · rw [hns, hsw] at hns'; cases hns'
      have hnk' : v'.uid ∉ tkeys tq := by
        have := hvk _ hin
        simp only at this
        rw [himg] at this; exact this
      rcases hR.content v' hv' hnk' with ⟨s2, hs2, hsu2, hsk2, hsd2, hsr2⟩
      have : s2 = s := huniq s2 hs2 (by rw [hsu2, hsu, hpair])
      subst this
      refine ⟨hsk2.trans hren.1, ?_, ?_, ?_⟩
      · rw [hsd2, hren.2.1, map_renTok_comp]; rfl
      · intro i hi1 hi2
        have hcomp : (v.rest.map (·.map (renTok m1))).map (·.map (renTok R)) =
            v.rest.map (·.map (renTok fun x => R (m1 x))) := map_map_renTok_comp R m1 v.rest
        rw [hsr2, List.getElem?_map, textsAfter_getElem? m tq v' i hi1 hi2, hren.2.2,
          ← List.getElem?_map, hcomp]
      · intro hone
        have hu : ∀ e ∈ tq, e.value = v'.uid → e = { e0 with value := image trM e0.value } := by
          intro e he hev
          rcases hentry e he with ⟨e1, he1, rfl | rfl⟩
          · rcases hval e1 he1 with ⟨v1, _, hvu1, v1', _, hlv1, himg1, _⟩
            have hev' : image trM e1.value = v'.uid := hev
            have : v1.uid = v.uid := hinj hlv1 (by rw [← himg1, hev']; exact hlM)
            have : e1 = e0 := hone e1 he1 (by rw [← hvu1, this, hvu])
            subst this; rfl
          · exfalso
            have hev' : e1.key = v'.uid := hev
            exact hnew (by rw [← hev']; exact (hall e1 he1).1)
        rw [hsr2, textsAfter_unique hnd hin himg hfk hu, map_pairTexts]
        show pairTexts _ _ e0.mode (e0.arg.map (renTok R)) = _
        rw [hren.2.2, map_map_renTok_comp]; rfl
    · -- turned round: the constituent of operand 1 survives
      intro hsw
      have hin : swapped { e0 with value := image trM e0.value } ∈ tq := by
        rcases hpresent e0 he0 with ⟨hns', _⟩ | ⟨_, hin⟩
        · rw [hns, hsw] at hns'; cases hns'
        · exact hin
      have hnk' : k.uid ∉ tkeys tq := by
        have := hvk _ hin
        simp only [swapped] at this
        rw [hku]; exact this
      rcases hR.content k hkm hnk' with ⟨s2, hs2, hsu2, hsk2, hsd2, hsr2⟩
      have : s2 = s := huniq s2 hs2 (by rw [hsu2, hsu])
      subst this
      refine ⟨hsk2, hsd2, ?_⟩
      have hu : ∀ e ∈ tq, e.value = k.uid → e = swapped { e0 with value := image trM e0.value } := by
        intro e he hev
        rcases hentry e he with ⟨e1, he1, rfl | rfl⟩
        · exfalso
          rcases hval e1 he1 with ⟨_, _, _, v1', _, _, himg1, hnew1⟩
          have hev' : image trM e1.value = k.uid := hev
          exact hnew1 (by rw [← himg1, hev']; exact List.mem_map.2 ⟨k, hk1, rfl⟩)
        · have hev' : e1.key = k.uid := hev
          have : e1 = e0 := entry_eq_of_key hk he1 he0 (by rw [hev', hku])
          subst this; rfl
      have hfd : findUid m (swapped { e0 with value := image trM e0.value }).key = some v' := by
        show findUid m (image trM e0.value) = some v'
        rw [himg]; exact hfv
      rw [hsr2, textsAfter_unique hnd hin (by show e0.key = k.uid; exact hku.symm) hfd hu, map_pairTexts]
      show pairTexts _ _ (flipMode e0.mode) (e0.arg.map (renTok R)) = _
      rw [hren.2.2, map_map_renTok_comp]; rfl

/-- **synth_nothing_else**: the 'nothing else' half — every constituent of the result of a
synthesis is the image of a constituent of operand 1 or of operand 2 (under the returned
translations); nothing is created. -/
theorem synth_nothing_else {g : Names} {freshs : List Nat} {semOk : Bool} {op1 op2 r : Schema}
    {eqs : List Entry} {tr1 tr2 : Tr}
    (hw1 : WF op1) (hw2 : WF op2) (hk : (tkeys eqs).Nodup)
    (h : synth g freshs semOk op1 op2 eqs = .ok r tr1 tr2) :
    ∀ s ∈ r, (∃ c ∈ op1, lookup tr1 c.uid = some s.uid) ∨ (∃ c ∈ op2, lookup tr2 c.uid = some s.uid) := by
  rcases synth_core hw1 hw2 hk h with ⟨m, trM, trE, tq, R, m1, hm, hR, _, h1, h2, -⟩
  intro s hs
  rcases hR.kept s hs with ⟨c, hc, _, _, himg⟩
  rcases mergeWith_origin hw1.1 hw1.2 hw2.1 hw2.2 hm c hc with ho | ⟨c2, hc2, hl⟩
  · exact Or.inl ⟨c, ho, by rw [← himg]; exact (h1 c ho).2⟩
  · right
    rcases h2 c2 hc2 with ⟨s', hs', hlM, _, _, _, hl2⟩
    have : s'.uid = c.uid := Option.some.inj (hlM.symm.trans hl)
    exact ⟨c2, hc2, by rw [← himg, ← this]; exact hl2⟩

/-- **synth_aliases_canonical**: the aliases of the result of a synthesis are the canonical
numbering of its constituents in list order. -/
theorem synth_aliases_canonical {g : Names} {freshs : List Nat} {semOk : Bool} {op1 op2 r : Schema}
    {eqs : List Entry} {tr1 tr2 : Tr}
    (hw1 : WF op1) (hw2 : WF op2) (hk : (tkeys eqs).Nodup)
    (h : synth g freshs semOk op1 op2 eqs = .ok r tr1 tr2) :
    aliases r = canonical g (r.map (·.kind)) [] := by
  rcases synth_unfold hw1 hw2 hk h with ⟨_, _, _, _, _, _, _, _, _, _, hcan⟩
  exact hcan

/-- operands for an equation that is turned round: the term `D1` of operand 1 is equated with the
base set `X2` of operand 2 (keepHier: the texts of `X2`), the axiom of operand 2 follows -/
def exampleTurn1 : Schema :=
  [ { uid := 1, alias := "X1", kind := 1, definition := [], rest := [[], [], []] },
    { uid := 2, alias := "D1", kind := 6, definition := [.mention "X1", .sym "∪", .mention "X1"],
      rest := [[.sym "conv ", .mention "D1"], [.sym "union"], [.sym "def of ", .mention "D1"]] } ]
def exampleTurn2 : Schema :=
  [ { uid := 11, alias := "X1", kind := 1, definition := [], rest := [[], [.sym "first"], []] },
    { uid := 12, alias := "X2", kind := 1, definition := [], rest := [[.sym "c2"], [.sym "second ", .mention "X2"], [.sym "t2"]] },
    { uid := 13, alias := "A1", kind := 5, definition := [.mention "X2", .sym "=", .mention "X2"], rest := [[], [], []] } ]

/-- non-vacuity of `synth_exact` / `synth_nothing_else` / `synth_aliases_canonical` on a turned
equation: the survivor is operand 1's `D1` with its own definition and convention and the term text
and definition text of operand 2's `X2` (mention renamed `X2 ↦ D1`); operand 2's `X1` became `X2` -/
example : WF exampleTurn1 ∧ WF exampleTurn2 ∧ (tkeys [({ key := 2, value := 12, mode := 1 } : Entry)]).Nodup ∧
    swapNeeded exampleTurn1[1] exampleTurn2[1] = true ∧
    synth realNames [] true exampleTurn1 exampleTurn2 [{ key := 2, value := 12, mode := 1 }] =
      .ok [ { uid := 1, alias := "X1", kind := 1, definition := [], rest := [[], [], []] },
            { uid := 11, alias := "X2", kind := 1, definition := [], rest := [[], [.sym "first"], []] },
            { uid := 2, alias := "D1", kind := 6, definition := [.mention "X1", .sym "∪", .mention "X1"],
              rest := [[.sym "conv ", .mention "D1"], [.sym "second ", .mention "D1"], [.sym "t2"]] },
            { uid := 13, alias := "A1", kind := 5, definition := [.mention "D1", .sym "=", .mention "D1"], rest := [[], [], []] } ]
          [(1, 1), (2, 2)] [(11, 11), (12, 2), (13, 13)] :=
  ⟨by unfold WF; decide, by unfold WF; decide, by decide, by decide, by decide⟩

/-- **synth_refused**: a table with a key outside operand 1 or a value outside operand 2 is never
executed (`IsCorrectlyDefined()` is false, `Execute()` gives nothing; the operands are values and
are not touched). -/
theorem synth_refused {g : Names} {freshs : List Nat} {semOk : Bool} {op1 op2 : Schema} {eqs : List Entry}
    (h : ∃ e ∈ eqs, e.key ∉ uids op1 ∨ e.value ∉ uids op2) :
    ∀ r tr1 tr2, synth g freshs semOk op1 op2 eqs ≠ .ok r tr1 tr2 := by
  intro r tr1 tr2 hs
  rcases h with ⟨e, he, hbad⟩
  unfold synth at hs
  split at hs
  · cases hs
  · simp only at hs
    have hne : eqs.isEmpty = false := by cases eqs with | nil => cases he | cons _ _ => rfl
    simp only [hne, Bool.false_eq_true, if_false] at hs
    split at hs
    · cases hs
    · rename_i hall
      simp only [Bool.not_eq_true, Bool.not_eq_false', List.all_eq_true, Bool.and_eq_true] at hall
      have := hall e he
      rcases hbad with h1 | h1
      · exact h1 (by simpa using this.1)
      · exact h1 (by simpa using this.2)

example : synth realNames [] true exampleOp1 exampleOp2 [{ key := 1, value := 2 }] = .refused := by decide

end CCVerif.Synth

/-! # Sixth part: the SEMANTIC clause — the analysis of the result

For ANY per-constituent analysis `A` of the generic schema machine (`Model/SchemaGen.lean`, the C07
machine) that is lawful (`Lawful`, C07), equivariant (`Equivariance`, C08) and content-only
(`ContentOnly`: reads neither uid nor skeleton — `Lemmas/SynthCorrect.lean`), seen through a `View`
(how the analysis reads a token-level definition; `Compatible`: reading commutes with renaming).
`entryOf A s u` is the entry `UpdateState` of the C07 machine computes for `u` on the content `s`
from scratch; `FullyCorrect A s`: every entry is a successful one. The definition fragment
(`fragA`, `fragView`) is an instance, used for the examples and counterexamples. -/
namespace CCVerif.SynthCorrect
open CCVerif.Translation CCVerif.Dedup CCVerif.Merge CCVerif.Equate CCVerif.Synth
open CCVerif.SchemaGen (Analysis Lawful Equivariance ContentOnly entryOf FullyCorrect fragA
  fragEquivariance fragA_lawful)

variable {D I : Type} {A : Analysis D I}

private theorem merge_mergeOf (Q : Equivariance A) (V : View D) (hV : V.Compatible A Q)
    {g : Names} {freshs : List Nat} {a b mr : Schema} {tr : Tr} {m : String → String}
    (ha : WF a) (hb : WF b) (h : mergeWith g freshs a b = some (mr, tr)) (hm : IsMergeRenaming b mr tr m)
    (r : Q.Ren) (hr : ActsLike V Q r m b) (hcap : NoCapture V A a b mr) :
    SchemaGen.MergeOf A Q r (image tr) (V.store a) (V.store b) (V.store mr) := by
  have hcons := merge_consistent ha hb h
  have hrep := merge_represented ha hb h
  refine mergeOf_view V Q hV r hcons.1.1 hcons.1.2 hcons.2.1 ?_ hm.2 hr hcap
  intro c2 hc2
  obtain ⟨s, hs, hl, _, hk⟩ := hrep.1 c2 hc2
  exact ⟨s, hs, hl, (hm.1 c2 hc2 s hs hl).symm, hk, (merge_exact ha hb h hm c2 hc2 s hs hl).1⟩

/-- **merge_analysis** (stage 1, `MergeWith`, no equations). For every lawful, equivariant,
content-only analysis: let `m` be the renaming of the merge (`IsMergeRenaming`, exists by
`merge_renaming_exists`) and `r` an admissible renaming of the analysis that acts like `m` on the
names of operand `b` (aliases and mention tokens). PROVISO (`NoCapture`): no name that an operand
mentions without resolving it is an alias of the merged schema. Then, analysed from scratch, every
constituent of the host `a` has in the merged schema the entry it has in `a`, and the copy of every
constituent of `b` has the entry it has in `b` renamed by `r` (status kept — `Equivariance.ok_ren` —,
typification with the aliases substituted). -/
theorem merge_analysis (hA : Lawful A) (hC : ContentOnly A) (Q : Equivariance A) (V : View D)
    (hV : V.Compatible A Q) {g : Names} {freshs : List Nat} {a b mr : Schema} {tr : Tr} {m : String → String}
    (ha : WF a) (hb : WF b) (h : mergeWith g freshs a b = some (mr, tr)) (hm : IsMergeRenaming b mr tr m)
    (r : Q.Ren) (hr : ActsLike V Q r m b) (hcap : NoCapture V A a b mr) :
    (∀ c ∈ a, entryOf A (V.store mr) c.uid = entryOf A (V.store a) c.uid) ∧
    (∀ c2 ∈ b, ∀ s ∈ mr, lookup tr c2.uid = some s.uid →
      entryOf A (V.store mr) s.uid = Q.renI r (entryOf A (V.store b) c2.uid)) := by
  have hM := merge_mergeOf Q V hV ha hb h hm r hr hcap
  obtain ⟨e1, e2⟩ := SchemaGen.merge_entries hA hC hM (by rw [uids_store]; exact ha.1)
    (by rw [uids_store]; exact hb.1) (by rw [aliases_store]; exact hb.2)
  refine ⟨fun c hc => e1 (V.cst c) (List.mem_map.2 ⟨c, hc, rfl⟩), fun c2 hc2 s _ hl => ?_⟩
  have := e2 (V.cst c2) (List.mem_map.2 ⟨c2, hc2, rfl⟩)
  rw [show (V.cst c2).uid = c2.uid from rfl, image_of_lookup' hl] at this
  exact this

/-- **merge_correct**: both operands fully correct ⇒ the merged schema is fully correct (same
hypotheses as `merge_analysis`). -/
theorem merge_correct (hA : Lawful A) (hC : ContentOnly A) (Q : Equivariance A) (V : View D)
    (hV : V.Compatible A Q) {g : Names} {freshs : List Nat} {a b mr : Schema} {tr : Tr} {m : String → String}
    (ha : WF a) (hb : WF b) (h : mergeWith g freshs a b = some (mr, tr)) (hm : IsMergeRenaming b mr tr m)
    (r : Q.Ren) (hr : ActsLike V Q r m b) (hcap : NoCapture V A a b mr)
    (h1 : FullyCorrect A (V.store a)) (h2 : FullyCorrect A (V.store b)) : FullyCorrect A (V.store mr) := by
  have hM := merge_mergeOf Q V hV ha hb h hm r hr hcap
  refine SchemaGen.merge_fully_correct hA hC hM (by rw [uids_store]; exact ha.1)
    (by rw [uids_store]; exact hb.1) (by rw [aliases_store]; exact hb.2) ?_ h1 h2
  intro u hu
  rw [uids_store] at hu
  obtain ⟨s, hs, rfl⟩ := List.mem_map.1 hu
  rcases mergeWith_origin ha.1 ha.2 hb.1 hb.2 h s hs with ho | ⟨c2, hc2, hl⟩
  · left; rw [uids_store]; exact List.mem_map.2 ⟨s, ho, rfl⟩
  · right
    exact ⟨V.cst c2, List.mem_map.2 ⟨c2, hc2, rfl⟩, (image_of_lookup' hl).symm⟩

/-- a schema in which every mentioned name resolves has no dangling names -/
theorem noCapture_of_resolved (V : View D) (A : Analysis D I) {a b : Schema} (mr : Schema)
    (h1 : ∀ c ∈ a, ∀ n ∈ A.mentions (V.read c.definition), n ∈ aliases a)
    (h2 : ∀ c ∈ b, ∀ n ∈ A.mentions (V.read c.definition), n ∈ aliases b) : NoCapture V A a b mr := by
  rintro n (⟨hn, c, hc, hm⟩ | ⟨hn, c, hc, hm⟩)
  · exact absurd (h1 c hc n hm) hn
  · exact absurd (h2 c hc n hm) hn

/-- **merge_correct_closed**: for an analysis that fails on a mentioned name that denotes nothing
(`hmiss`; part of `Homomorphic`, true of the fragment) the proviso `NoCapture` is automatic when both
operands are fully correct — a fully correct schema has no dangling names; the proviso only concerns
the entries of INCORRECT constituents in `merge_analysis`. -/
theorem merge_correct_closed (hA : Lawful A) (hC : ContentOnly A) (Q : Equivariance A) (V : View D)
    (hV : V.Compatible A Q)
    (hmiss : ∀ (sk : SchemaGen.Skel) (ctx : String → Option I) (c : SchemaGen.Cst D) (m : String),
      m ∈ A.mentions c.defn → ctx m = none → A.ok (A.analyse sk ctx c) = false)
    {g : Names} {freshs : List Nat} {a b mr : Schema} {tr : Tr} {m : String → String}
    (ha : WF a) (hb : WF b) (h : mergeWith g freshs a b = some (mr, tr)) (hm : IsMergeRenaming b mr tr m)
    (r : Q.Ren) (hr : ActsLike V Q r m b)
    (h1 : FullyCorrect A (V.store a)) (h2 : FullyCorrect A (V.store b)) : FullyCorrect A (V.store mr) := by
  refine merge_correct hA hC Q V hV ha hb h hm r hr ?_ h1 h2
  have key : ∀ (l : Schema), (uids l).Nodup → FullyCorrect A (V.store l) → ∀ n, ¬ Dangling V A l n := by
    rintro l hl hfc n ⟨hn, c, hc, hmn⟩
    exact SchemaGen.FullyCorrect.resolved hA hmiss (by rw [uids_store]; exact hl) hfc (V.cst c)
      (List.mem_map.2 ⟨c, hc, rfl⟩) n hmn ((findAliasL_store_none V).2 hn)
  rintro n (hd | hd)
  · exact absurd hd (key a ha.1 h1 n)
  · exact absurd hd (key b hb.1 h2 n)

/-! ### the two operands of the examples: `A = X1, D1 := X1 ∪ X1`, `B = X1, D1 := X1 \ X1` -/

def opA : Schema :=
  [ { uid := 1, alias := "X1", kind := 1, definition := [], rest := [[], [], []] },
    { uid := 2, alias := "D1", kind := 6, definition := [.mention "X1", .sym "∪", .mention "X1"], rest := [[], [], []] } ]
def opB : Schema :=
  [ { uid := 1, alias := "X1", kind := 1, definition := [], rest := [[], [], []] },
    { uid := 2, alias := "D1", kind := 6, definition := [.mention "X1", .sym "\\", .mention "X1"], rest := [[], [], []] } ]
/-- uids and aliases collide: the copies get the fresh uids 77, 78 and the aliases `X2`, `D2` -/
def mergedAB : Schema × Tr :=
  ( [ { uid := 1, alias := "X1", kind := 1, definition := [], rest := [[], [], []] },
      { uid := 77, alias := "X2", kind := 1, definition := [], rest := [[], [], []] },
      { uid := 2, alias := "D1", kind := 6, definition := [.mention "X1", .sym "∪", .mention "X1"], rest := [[], [], []] },
      { uid := 78, alias := "D2", kind := 6, definition := [.mention "X2", .sym "\\", .mention "X2"], rest := [[], [], []] } ],
    [(1, 77), (2, 78)] )
def renAB (x : String) : String := if x = "X1" then "X2" else if x = "D1" then "D2" else x
/-- the admissible renaming of the fragment: the transpositions `X1 ↔ X2`, `D1 ↔ D2` -/
def bijAB : Bij := Bij.comp (Bij.swap "X1" "X2") (Bij.swap "D1" "D2")

private theorem renAB_is : IsMergeRenaming opB mergedAB.1 mergedAB.2 renAB := by
  refine ⟨by decide, fun x hx => ?_⟩
  have h1 : x ≠ "X1" := fun e => hx (by subst e; decide)
  have h2 : x ≠ "D1" := fun e => hx (by subst e; decide)
  simp [renAB, h1, h2]

private theorem bijAB_acts : ActsLike fragView fragEquivariance bijAB renAB opB :=
  ⟨by decide, fun _ _ => trivial⟩

/-- non-vacuity of `merge_analysis` / `merge_correct` on the fragment: all hypotheses hold for `A`, `B`
(the merge renames), both operands are fully correct, and the entries are as stated: the copy `D2` of
`B`'s `D1` is verified with typification ℬ(X2) = ℬ(X1) renamed -/
example : WF opA ∧ WF opB ∧ mergeWith realNames [77, 78] opA opB = some mergedAB ∧
    IsMergeRenaming opB mergedAB.1 mergedAB.2 renAB ∧
    ActsLike fragView fragEquivariance bijAB renAB opB ∧ NoCapture fragView fragA opA opB mergedAB.1 ∧
    FullyCorrect fragA (fragView.store opA) ∧ FullyCorrect fragA (fragView.store opB) ∧
    entryOf fragA (fragView.store opB) 2 = { status := .verified, ty := some "X1" } ∧
    entryOf fragA (fragView.store mergedAB.1) 78 = { status := .verified, ty := some "X2" } :=
  ⟨by unfold WF; decide, by unfold WF; decide, by decide, renAB_is, bijAB_acts,
    noCapture_of_resolved _ _ _ (by decide) (by decide), by decide, by decide, by decide, by decide⟩

example : FullyCorrect fragA (fragView.store mergedAB.1) :=
  merge_correct fragA_lawful fragA_contentOnly fragEquivariance fragView fragView_compatible
    (g := realNames) (freshs := [77, 78]) (a := opA) (b := opB) (by unfold WF; decide) (by unfold WF; decide) (by decide)
    renAB_is bijAB bijAB_acts (noCapture_of_resolved _ _ _ (by decide) (by decide)) (by decide) (by decide)

example : FullyCorrect fragA (fragView.store mergedAB.1) :=
  merge_correct_closed fragA_lawful fragA_contentOnly fragEquivariance fragView fragView_compatible
    fragHom.missing (g := realNames) (freshs := [77, 78]) (a := opA) (b := opB) (by unfold WF; decide)
    (by unfold WF; decide) (by decide) renAB_is bijAB bijAB_acts (by decide) (by decide)

/-- **merge_capture_counterexample**: the proviso `NoCapture` is necessary. Host `X1, D1 := X2 ∪ X2`
(`X2` resolves to nothing: `D1` is incorrect), operand `X1`: the copy is issued the alias `X2`, the
dangling name is captured and `D1` becomes verified with typification ℬ(X2) — its entry in the merged
schema is not its entry in the host. All other hypotheses of `merge_analysis` hold. -/
theorem merge_capture_counterexample :
    ∃ (a b mr : Schema) (tr : Tr) (m : String → String) (r : Bij), WF a ∧ WF b ∧
      mergeWith realNames [77] a b = some (mr, tr) ∧ IsMergeRenaming b mr tr m ∧
      ActsLike fragView fragEquivariance r m b ∧ ¬ NoCapture fragView fragA a b mr ∧
      ∃ c ∈ a, entryOf fragA (fragView.store a) c.uid = { status := .incorrect, ty := none } ∧
        entryOf fragA (fragView.store mr) c.uid = { status := .verified, ty := some "X2" } := by
  refine ⟨[ { uid := 1, alias := "X1", kind := 1, definition := [], rest := [] },
            { uid := 2, alias := "D1", kind := 6, definition := [.mention "X2", .sym "∪", .mention "X2"], rest := [] } ],
          [ { uid := 1, alias := "X1", kind := 1, definition := [], rest := [] } ],
          [ { uid := 1, alias := "X1", kind := 1, definition := [], rest := [] },
            { uid := 77, alias := "X2", kind := 1, definition := [], rest := [] },
            { uid := 2, alias := "D1", kind := 6, definition := [.mention "X2", .sym "∪", .mention "X2"], rest := [] } ],
          [(1, 77)], (fun x => if x = "X1" then "X2" else x), Bij.swap "X1" "X2",
          by unfold WF; decide, by unfold WF; decide, by decide, ⟨by decide, fun x hx => ?_⟩,
          ⟨by decide, fun _ _ => trivial⟩, ?_, _, List.mem_cons_of_mem _ (List.mem_cons_self ..), by decide, by decide⟩
  · have h1 : x ≠ "X1" := fun e => hx (by subst e; decide)
    simp [h1]
  · intro hcap
    exact hcap "X2" (Or.inl ⟨by decide, _, List.mem_cons_of_mem _ (List.mem_cons_self ..), by decide⟩) (by decide)


/-! ### stage 2: through `DeleteDuplicates` (nothing found) and `ResetAliases` -/

/-- the provisos of a synthesis without equations, about the run of the model: for the merged schema
`m`, the renaming `m1` of the merge and the re-numbering `ρ` of `ResetAliases` — no dangling name is
captured by the merge, and `m1`, `ρ` act on the names of operand 2 resp. of `m` like admissible
renamings of the analysis (in particular injectively: `ResetAliases` captures no dangling name) -/
def SynthProvisos (V : View D) (A : Analysis D I) (Q : Equivariance A) (g : Names) (freshs : List Nat)
    (op1 op2 res : Schema) : Prop :=
  ∀ m trM m1 ρ, mergeWith g freshs op1 op2 = some (m, trM) → IsMergeRenaming op2 m trM m1 →
    res = m.map (substAliases ρ) → (∀ x, x ∉ aliases m → ρ x = x) →
    NoCapture V A op1 op2 m ∧ (∃ r1 : Q.Ren, ActsLike V Q r1 m1 op2) ∧ (∃ r2 : Q.Ren, ActsLike V Q r2 ρ m)

private theorem synth_noeq_unfold {g : Names} {freshs : List Nat} {semOk : Bool} {op1 op2 res : Schema}
    {tr1 tr2 : Tr} (h : synth g freshs semOk op1 op2 [] = .ok res tr1 tr2)
    (hnc : ∀ m trM, mergeWith g freshs op1 op2 = some (m, trM) → NoCopies m) :
    ∃ m trM, mergeWith g freshs op1 op2 = some (m, trM) ∧ resetAliases g m = some res ∧
      tr1 = substituteValues (identity (uids op1)) [] ∧ tr2 = substituteValues trM [] := by
  unfold synth at h
  split at h
  · cases h
  · rename_i m trM hm
    have hd : dedup m = some (m, []) := loop_of_noCopies m.length m [] (hnc m trM hm)
    simp only [List.isEmpty_nil, if_true, hd] at h
    split at h
    · cases h
    · rename_i r hr
      simp only [Res.ok.injEq] at h
      obtain ⟨rfl, rfl, rfl⟩ := h
      exact ⟨m, trM, hm, hr, rfl, rfl⟩

/-- **synth_analysis_no_equations** (stage 2): `BinarySynthes` with an empty table when
`DeleteDuplicates` finds nothing in the merged schema. The result is the merged schema `m` re-numbered
by ONE function `ρ` (`res = m.map (substAliases ρ)`); for admissible renamings `r1`, `r2` of the
analysis acting like the merge renaming `m1` on operand 2 and like `ρ` on `m`, and under the proviso of
the merge: the image of a constituent of operand 1 has the entry it has in operand 1 renamed by `r2`,
the image of a constituent of operand 2 its entry in operand 2 renamed by `r1`, then `r2`. -/
theorem synth_analysis_no_equations (hA : Lawful A) (hC : ContentOnly A) (Q : Equivariance A) (V : View D)
    (hV : V.Compatible A Q) {g : Names} {freshs : List Nat} {semOk : Bool} {op1 op2 res : Schema} {tr1 tr2 : Tr}
    (hw1 : WF op1) (hw2 : WF op2) (h : synth g freshs semOk op1 op2 [] = .ok res tr1 tr2)
    (hnc : ∀ m trM, mergeWith g freshs op1 op2 = some (m, trM) → NoCopies m) :
    ∃ m trM m1 ρ, mergeWith g freshs op1 op2 = some (m, trM) ∧ IsMergeRenaming op2 m trM m1 ∧
      res = m.map (substAliases ρ) ∧ (∀ x, x ∉ aliases m → ρ x = x) ∧
      ∀ (r1 r2 : Q.Ren), ActsLike V Q r1 m1 op2 → ActsLike V Q r2 ρ m → NoCapture V A op1 op2 m →
        (∀ c ∈ op1, ∀ s ∈ res, lookup tr1 c.uid = some s.uid →
          entryOf A (V.store res) s.uid = Q.renI r2 (entryOf A (V.store op1) c.uid)) ∧
        (∀ c ∈ op2, ∀ s ∈ res, lookup tr2 c.uid = some s.uid →
          entryOf A (V.store res) s.uid = Q.renI r2 (Q.renI r1 (entryOf A (V.store op2) c.uid))) := by
  obtain ⟨m, trM, hm, hr, rfl, rfl⟩ := synth_noeq_unfold h hnc
  have hcons := merge_consistent hw1 hw2 hm
  obtain ⟨m1, hm1⟩ := merge_renaming_exists hw1 hw2 hm
  obtain ⟨ρ, rfl, hoff, _⟩ := resetAliases_eq hcons.1.2 hr
  refine ⟨m, trM, m1, ρ, hm, hm1, rfl, hoff, fun r1 r2 hr1 hr2 hcap => ?_⟩
  obtain ⟨e1, e2⟩ := merge_analysis hA hC Q V hV hw1 hw2 hm hm1 r1 hr1 hcap
  have hstore := store_substAliases V Q hV r2 hr2
  have hren : ∀ u ∈ uids m, entryOf A (V.store (m.map (substAliases ρ))) u =
      Q.renI r2 (entryOf A (V.store m) u) := by
    intro u hu
    rw [hstore]
    exact SchemaGen.rename_entries hA Q r2 (by rw [uids_store]; exact hcons.1.1)
      (by intro c' hc'; obtain ⟨c, hc, rfl⟩ := List.mem_map.1 hc'; exact hr2.good c hc)
      (by rw [uids_store]; exact hu)
  refine ⟨fun c hc s _ hl => ?_, fun c2 hc2 s _ hl => ?_⟩
  · rw [substituteValues_apply, identity_apply, if_pos (show c.uid ∈ uids op1 from List.mem_map.2 ⟨c, hc, rfl⟩)] at hl
    simp only [Option.map_some, lookup, List.find?_nil, Option.map_none, Option.getD_none,
      Option.some.injEq] at hl
    rw [← hl, hren _ (List.mem_map.2 ⟨c, hcons.2.1 c hc, rfl⟩), e1 c hc]
  · obtain ⟨s', hs', hl', _⟩ := (merge_represented hw1 hw2 hm).1 c2 hc2
    rw [substituteValues_apply, hl'] at hl
    simp only [Option.map_some, lookup, List.find?_nil, Option.map_none, Option.getD_none,
      Option.some.injEq] at hl
    rw [← hl, hren _ (List.mem_map.2 ⟨s', hs', rfl⟩), e2 c2 hc2 s' hs' hl']

/-- **synth_correct_no_equations**: operands fully correct ⇒ the result of a synthesis without
equations (no duplicates found) is fully correct, under the provisos `SynthProvisos`. -/
theorem synth_correct_no_equations (hA : Lawful A) (hC : ContentOnly A) (Q : Equivariance A) (V : View D)
    (hV : V.Compatible A Q) {g : Names} {freshs : List Nat} {semOk : Bool} {op1 op2 res : Schema} {tr1 tr2 : Tr}
    (hw1 : WF op1) (hw2 : WF op2) (h : synth g freshs semOk op1 op2 [] = .ok res tr1 tr2)
    (hnc : ∀ m trM, mergeWith g freshs op1 op2 = some (m, trM) → NoCopies m)
    (hp : SynthProvisos V A Q g freshs op1 op2 res)
    (h1 : FullyCorrect A (V.store op1)) (h2 : FullyCorrect A (V.store op2)) : FullyCorrect A (V.store res) := by
  obtain ⟨m, trM, hm, hr, rfl, rfl⟩ := synth_noeq_unfold h hnc
  have hcons := merge_consistent hw1 hw2 hm
  obtain ⟨m1, hm1⟩ := merge_renaming_exists hw1 hw2 hm
  obtain ⟨ρ, rfl, hoff, _⟩ := resetAliases_eq hcons.1.2 hr
  obtain ⟨hcap, ⟨r1, hr1⟩, ⟨r2, hr2⟩⟩ := hp m trM m1 ρ hm hm1 rfl hoff
  have hmc := merge_correct hA hC Q V hV hw1 hw2 hm hm1 r1 hr1 hcap h1 h2
  rw [store_substAliases V Q hV r2 hr2]
  exact SchemaGen.rename_fully_correct hA Q r2 (by rw [uids_store]; exact hcons.1.1)
    (by intro c' hc'; obtain ⟨c, hc, rfl⟩ := List.mem_map.1 hc'; exact hr2.good c hc) hmc

/-- the synthesis of `A` and `B` without equations: the merged schema, already canonically numbered -/
def synthAB : Res := .ok mergedAB.1 [(1, 1), (2, 2)] [(1, 77), (2, 78)]

private theorem synthAB_provisos : SynthProvisos fragView fragA fragEquivariance realNames [77, 78] opA opB mergedAB.1 := by
  intro m trM m1 ρ hm hm1 hres hoff
  have e : some (m, trM) = some mergedAB := by rw [← hm]; decide
  simp only [Option.some.injEq] at e
  obtain ⟨rfl, rfl⟩ : m = mergedAB.1 ∧ trM = mergedAB.2 := by rw [← e]; exact ⟨rfl, rfl⟩
  refine ⟨noCapture_of_resolved _ _ _ (by decide) (by decide), ⟨bijAB, ?_, fun _ _ => trivial⟩,
    ⟨Bij.id, ?_, fun _ _ => trivial⟩⟩
  · have a1 := hm1.1 opB[0] (by decide) mergedAB.1[1] (by decide) (by decide)
    have a2 := hm1.1 opB[1] (by decide) mergedAB.1[3] (by decide) (by decide)
    intro n hn
    have : n = "X1" ∨ n = "D1" ∨ n = "X1" := by
      simp only [tokNames, opB, aliases, mentionNames] at hn
      simpa using hn
    rcases this with rfl | rfl | rfl
    · exact a1.symm ▸ (by decide)
    · exact a2.symm ▸ (by decide)
    · exact a1.symm ▸ (by decide)
  · have := congrArg aliases hres
    simp only [mergedAB, aliases, substAliases, List.map_cons, List.map_nil, List.cons.injEq, and_true] at this
    obtain ⟨b1, b2, b3, b4⟩ := this
    intro n hn
    have : n = "X1" ∨ n = "X2" ∨ n = "D1" ∨ n = "D2" ∨ n = "X1" ∨ n = "X2" := by
      simp only [tokNames, mergedAB, aliases, mentionNames] at hn
      simpa using hn
    show n = ρ n
    rcases this with rfl | rfl | rfl | rfl | rfl | rfl
    · exact b1
    · exact b2
    · exact b3
    · exact b4
    · exact b1
    · exact b2

private theorem synthAB_nocopies :
    ∀ m trM, mergeWith realNames [77, 78] opA opB = some (m, trM) → NoCopies m := by
  intro m trM hm
  have e : some (m, trM) = some mergedAB := by rw [← hm]; decide
  simp only [Option.some.injEq] at e
  obtain ⟨rfl, -⟩ : m = mergedAB.1 ∧ trM = mergedAB.2 := by rw [← e]; exact ⟨rfl, rfl⟩
  unfold NoCopies
  decide

/-- non-vacuity of `synth_analysis_no_equations` / `synth_correct_no_equations` on `A`, `B` -/
example : WF opA ∧ WF opB ∧ synth realNames [77, 78] true opA opB [] = synthAB ∧
    (∀ m trM, mergeWith realNames [77, 78] opA opB = some (m, trM) → NoCopies m) ∧
    SynthProvisos fragView fragA fragEquivariance realNames [77, 78] opA opB mergedAB.1 ∧
    FullyCorrect fragA (fragView.store opA) ∧ FullyCorrect fragA (fragView.store opB) :=
  ⟨by unfold WF; decide, by unfold WF; decide, by decide, synthAB_nocopies, synthAB_provisos, by decide, by decide⟩

example : FullyCorrect fragA (fragView.store mergedAB.1) :=
  synth_correct_no_equations fragA_lawful fragA_contentOnly fragEquivariance fragView fragView_compatible
    (g := realNames) (freshs := [77, 78]) (semOk := true) (op1 := opA) (op2 := opB)
    (tr1 := [(1, 1), (2, 2)]) (tr2 := [(1, 77), (2, 78)]) (by unfold WF; decide) (by unfold WF; decide)
    (by decide) synthAB_nocopies synthAB_provisos (by decide) (by decide)

/-! ### stage 3: identification (`Equate`, and the duplicate removal that follows it)

`Homomorphic A` (Lemmas/SynthCorrectHom.lean) is the explicit HYPOTHESIS on the analysis: a
successfully analysed constituent stays successfully analysed under a possibly NON-injective
substitution of names, with the substituted typification. It is proved for the definition fragment
(`fragHom`). "Keeps its typification up to the identification of the equated sets" means: the entry of
the image is `H.homI Q` of the old entry, `Q` the renaming of `equate_exact` (alias ↦ alias of the
image). The semantic half of admissibility — an input `semOk` of the model — is made explicit as two
conditions on the model's data: `LikeWithLike` and `AcyclicSchema`. -/

/-- **equate_correct**: an accepted table on a fully correct schema. There is a renaming `Q` as in
`equate_exact`, and for every such renaming: if the identification equates like with like
(`LikeWithLike`: constituents with one image have the same status and the same typification after the
substitution `Q`) and the result does not depend on itself (`AcyclicSchema`), then the image of every
constituent has its old entry with `Q` substituted in the typification, and the result is fully
correct. -/
theorem equate_correct (hA : Lawful A) (hC : ContentOnly A) (H : SchemaGen.Homomorphic A) (V : View D)
    (hV : V.CompatibleHom H) {semOk : Bool} {l r : Schema} {eqs : List Entry} {tr : Tr}
    (hw : WF l) (hk : (tkeys eqs).Nodup) (h : equate semOk l eqs = some (r, tr))
    (hfc : FullyCorrect A (V.store l)) :
    ∃ Q, StageExact l r tr eqs Q ∧ ∀ Q', StageExact l r tr eqs Q' → LikeWithLike V A H l tr Q' →
      AcyclicSchema V A r →
      (∀ c ∈ l, entryOf A (V.store r) (image tr c.uid) = H.homI Q' (entryOf A (V.store l) c.uid)) ∧
      FullyCorrect A (V.store r) := by
  obtain ⟨Q, hQ⟩ := equate_exact hw hk h
  refine ⟨Q, hQ, fun Q' hQ' hlike hac => ?_⟩
  have hq := quotientOf_view V H hV hQ' hlike hac
  have hn : (SchemaGen.uids (V.store l)).Nodup := by rw [uids_store]; exact hw.1
  exact ⟨fun c hc => SchemaGen.quotient_entries hA hC hn hfc hq (V.cst c) (List.mem_map.2 ⟨c, hc, rfl⟩),
    SchemaGen.quotient_fully_correct hA hC hn hfc hq⟩

/-- the statement of the clause for the whole synthesis with equations, all semantic hypotheses at
merged level (the composition of `merge_correct`, `equate_correct` and `rename_fully_correct` through
`TranslateEquations`). PROVED at the end of the file: `synth_correct_merged`; the stronger operand-level
form is `synth_correct`. -/
def synth_correct_statement : Prop :=
  ∀ {D I : Type} (A : Analysis D I) (_ : Lawful A) (_ : ContentOnly A) (Q : Equivariance A)
    (H : SchemaGen.Homomorphic A) (V : View D) (_ : V.Compatible A Q) (_ : V.CompatibleHom H)
    (g : Names) (freshs : List Nat) (semOk : Bool) (op1 op2 res : Schema) (eqs : List Entry) (tr1 tr2 : Tr),
    WF op1 → WF op2 → (tkeys eqs).Nodup → eqs ≠ [] → synth g freshs semOk op1 op2 eqs = .ok res tr1 tr2 →
    FullyCorrect A (V.store op1) → FullyCorrect A (V.store op2) →
    (∀ m trM, mergeWith g freshs op1 op2 = some (m, trM) →
      NoCapture V A op1 op2 m ∧ (∀ m1, IsMergeRenaming op2 m trM m1 → ∃ r1 : Q.Ren, ActsLike V Q r1 m1 op2) ∧
      ∀ e trE, equate semOk m (translateEquations m trM eqs) = some (e, trE) →
        AcyclicSchema V A e ∧ (∀ Q', StageExact m e trE (translateEquations m trM eqs) Q' → LikeWithLike V A H m trE Q') ∧
        ∀ ρ, res = e.map (substAliases ρ) → ∃ r2 : Q.Ren, ActsLike V Q r2 ρ e) →
    FullyCorrect A (V.store res)

/-- a fully correct schema: `X1`, `X2`, `D1 := X1 ∪ X1`, `D2 := X2 \ X2`, `D3 := D1 ∪ X1` -/
def eqL : Schema :=
  [ { uid := 1, alias := "X1", kind := 1, definition := [], rest := [[], [], []] },
    { uid := 2, alias := "X2", kind := 1, definition := [], rest := [[], [], []] },
    { uid := 3, alias := "D1", kind := 6, definition := [.mention "X1", .sym "∪", .mention "X1"], rest := [[], [], []] },
    { uid := 4, alias := "D2", kind := 6, definition := [.mention "X2", .sym "\\", .mention "X2"], rest := [[], [], []] },
    { uid := 5, alias := "D3", kind := 6, definition := [.mention "D1", .sym "∪", .mention "X1"], rest := [[], [], []] } ]
/-- the base set `X1` equated with the base set `X2` (like with like) -/
def eqR : Schema × Tr :=
  ( [ { uid := 2, alias := "X2", kind := 1, definition := [], rest := [[], [], []] },
      { uid := 3, alias := "D1", kind := 6, definition := [.mention "X2", .sym "∪", .mention "X2"], rest := [[], [], []] },
      { uid := 4, alias := "D2", kind := 6, definition := [.mention "X2", .sym "\\", .mention "X2"], rest := [[], [], []] },
      { uid := 5, alias := "D3", kind := 6, definition := [.mention "D1", .sym "∪", .mention "X2"], rest := [[], [], []] } ],
    [(1, 2)] )
def eqQ (x : String) : String := if x = "X1" then "X2" else x

private theorem eqQ_stage : StageExact eqL eqR.1 eqR.2 [{ key := 1, value := 2 }] eqQ := by
  obtain ⟨Q, hQ⟩ := equate_exact (semOk := true) (l := eqL) (r := eqR.1) (tr := eqR.2)
    (eqs := [{ key := 1, value := 2 }]) (by unfold WF; decide) (by decide) (by decide)
  have a1 := hQ.aliasOf eqL[0] (by decide) eqR.1[0] (by decide) (by decide)
  have a2 := hQ.aliasOf eqL[1] (by decide) eqR.1[0] (by decide) (by decide)
  have a3 := hQ.aliasOf eqL[2] (by decide) eqR.1[1] (by decide) (by decide)
  have a4 := hQ.aliasOf eqL[3] (by decide) eqR.1[2] (by decide) (by decide)
  have a5 := hQ.aliasOf eqL[4] (by decide) eqR.1[3] (by decide) (by decide)
  have : Q = eqQ := by
    funext x
    by_cases hx : x ∈ aliases eqL
    · have : x = "X1" ∨ x = "X2" ∨ x = "D1" ∨ x = "D2" ∨ x = "D3" := by simpa [aliases, eqL] using hx
      rcases this with rfl | rfl | rfl | rfl | rfl
      · exact a1
      · exact a2
      · exact a3
      · exact a4
      · exact a5
    · rw [hQ.off x hx]
      have : x ≠ "X1" := fun e => hx (by subst e; decide)
      simp [eqQ, this]
  rw [← this]; exact hQ

/-- non-vacuity of `equate_correct` on the fragment: `X1 = X2` on a fully correct schema; the renaming is
`X1 ↦ X2`; like with like and acyclic; e.g. `D3 := D1 ∪ X1` of typification ℬ(X1) becomes `D1 ∪ X2` of
typification ℬ(X2) -/
example : WF eqL ∧ equate true eqL [{ key := 1, value := 2 }] = some eqR ∧
    FullyCorrect fragA (fragView.store eqL) ∧ StageExact eqL eqR.1 eqR.2 [{ key := 1, value := 2 }] eqQ ∧
    LikeWithLike fragView fragA fragHom eqL eqR.2 eqQ ∧ AcyclicSchema fragView fragA eqR.1 ∧
    entryOf fragA (fragView.store eqL) 5 = { status := .verified, ty := some "X1" } ∧
    entryOf fragA (fragView.store eqR.1) 5 = { status := .verified, ty := some "X2" } :=
  ⟨by unfold WF; decide, by decide, by decide, eqQ_stage, by unfold LikeWithLike; decide,
    ⟨fun u => u, by decide⟩, by decide, by decide⟩

/-- **equate_unlike_counterexample**: WITHOUT like with like the clause fails. On the fully correct
schema `eqL` the table `D1 = D2` (typifications ℬ(X1) and ℬ(X2): derived constituents of UNEQUAL
typification) passes the structural check; with the semantic verdict overridden (`semOk = true`) the
model executes it: `D3 := D1 ∪ X1` becomes `D2 ∪ X1`, which is incorrect. The result is acyclic;
`LikeWithLike` fails for every renaming of `equate_exact`. -/
theorem equate_unlike_counterexample :
    ∃ (l r : Schema) (eqs : List Entry) (tr : Tr), WF l ∧ (tkeys eqs).Nodup ∧
      equate true l eqs = some (r, tr) ∧ FullyCorrect fragA (fragView.store l) ∧
      AcyclicSchema fragView fragA r ∧
      (∀ Q, StageExact l r tr eqs Q → ¬ LikeWithLike fragView fragA fragHom l tr Q) ∧
      ¬ FullyCorrect fragA (fragView.store r) := by
  refine ⟨eqL,
    [ { uid := 1, alias := "X1", kind := 1, definition := [], rest := [[], [], []] },
      { uid := 2, alias := "X2", kind := 1, definition := [], rest := [[], [], []] },
      { uid := 4, alias := "D2", kind := 6, definition := [.mention "X2", .sym "\\", .mention "X2"], rest := [[], [], []] },
      { uid := 5, alias := "D3", kind := 6, definition := [.mention "D2", .sym "∪", .mention "X1"], rest := [[], [], []] } ],
    [{ key := 3, value := 4 }], [(3, 4)], by unfold WF; decide, by decide, by decide, by decide,
    ⟨fun u => u, by decide⟩, ?_, by decide⟩
  intro Q hQ hlike
  have a1 : Q "X1" = "X1" := hQ.aliasOf eqL[0] (by decide) _ (List.mem_cons_self ..) (by decide)
  have a2 : Q "X2" = "X2" := hQ.aliasOf eqL[1] (by decide) _ (List.mem_cons_of_mem _ (List.mem_cons_self ..)) (by decide)
  have := hlike eqL[2] (by decide) eqL[3] (by decide) (by decide)
  have e1 : entryOf fragA (fragView.store eqL) (eqL[2]).uid = { status := .verified, ty := some "X1" } := by decide
  have e2 : entryOf fragA (fragView.store eqL) (eqL[3]).uid = { status := .verified, ty := some "X2" } := by decide
  rw [e1, e2] at this
  have := congrArg Schema.Info.ty this
  simp only [fragHom, SchemaGen.renInfo, Option.map_some, Option.some.injEq] at this
  rw [a1, a2] at this
  exact absurd this (by decide)

/-- **equate_cycle_counterexample**: like with like alone is not enough. `X1`, `D1 := X1 ∪ X1`,
`D2 := D1 ∪ D1` (all of typification ℬ(X1)), table `D1 = D2` (equal typification, but the value is
reachable from the key): `D2` becomes `D2 ∪ D2`, incorrect. `LikeWithLike` holds for every renaming. -/
theorem equate_cycle_counterexample :
    ∃ (l r : Schema) (eqs : List Entry) (tr : Tr), WF l ∧ (tkeys eqs).Nodup ∧
      equate true l eqs = some (r, tr) ∧ FullyCorrect fragA (fragView.store l) ∧
      (∀ Q, LikeWithLike fragView fragA fragHom l tr Q) ∧ ¬ AcyclicSchema fragView fragA r ∧
      ¬ FullyCorrect fragA (fragView.store r) := by
  refine ⟨[ { uid := 1, alias := "X1", kind := 1, definition := [], rest := [[], [], []] },
            { uid := 2, alias := "D1", kind := 6, definition := [.mention "X1", .sym "∪", .mention "X1"], rest := [[], [], []] },
            { uid := 3, alias := "D2", kind := 6, definition := [.mention "D1", .sym "∪", .mention "D1"], rest := [[], [], []] } ],
          [ { uid := 1, alias := "X1", kind := 1, definition := [], rest := [[], [], []] },
            { uid := 3, alias := "D2", kind := 6, definition := [.mention "D2", .sym "∪", .mention "D2"], rest := [[], [], []] } ],
          [{ key := 2, value := 3 }], [(2, 3)], by unfold WF; decide, by decide, by decide, by decide, ?_, ?_, by decide⟩
  · intro Q c hc d hd e
    have : ∀ c ∈ ([ { uid := 1, alias := "X1", kind := 1, definition := [], rest := [[], [], []] },
            { uid := 2, alias := "D1", kind := 6, definition := [.mention "X1", .sym "∪", .mention "X1"], rest := [[], [], []] },
            { uid := 3, alias := "D2", kind := 6, definition := [.mention "D1", .sym "∪", .mention "D1"], rest := [[], [], []] } ] : Schema),
        entryOf fragA (fragView.store [ { uid := 1, alias := "X1", kind := 1, definition := [], rest := [[], [], []] },
            { uid := 2, alias := "D1", kind := 6, definition := [.mention "X1", .sym "∪", .mention "X1"], rest := [[], [], []] },
            { uid := 3, alias := "D2", kind := 6, definition := [.mention "D1", .sym "∪", .mention "D1"], rest := [[], [], []] } ]) c.uid =
          { status := .verified, ty := some "X1" } := by decide
    rw [this c hc, this d hd]
  · rintro ⟨rk, hrk⟩
    have := hrk _ (List.mem_cons_of_mem _ (List.mem_cons_self ..)) "D2" (by decide) _
      (List.mem_cons_of_mem _ (List.mem_cons_self ..)) rfl
    exact Nat.lt_irrefl _ this

end CCVerif.SynthCorrect

/-! # Seventh part: the SEMANTIC clause, COMPOSED — the duplicate removal and the whole synthesis

Like with like is needed on the equated PAIRS only (`PairsLike`, Lemmas/SynthCorrectCompose.lean):
what `DeleteDuplicates` identifies afterwards — constituents whose definitions became token-identical —
is alike by itself (`likeWithLike_of_pairs`: two constituents carried by one image have the same
substituted definition, hence the same substituted entry, by induction on the rank of the image). -/
namespace CCVerif.SynthCorrect
open CCVerif.Translation CCVerif.Dedup CCVerif.Merge CCVerif.Equate CCVerif.Synth
open CCVerif.SchemaGen (Analysis Lawful Equivariance ContentOnly entryOf FullyCorrect fragA
  fragEquivariance fragA_lawful)

variable {D I : Type} {A : Analysis D I}

/-- **dedup_correct** (`DeleteDuplicates` alone, whatever it finds). For every lawful, content-only,
`Homomorphic` analysis: on a fully correct schema, removing every constituent whose definition (kind,
convention, texts) is identical to a survivor's and renaming its mentions preserves full correctness,
and the image of every constituent — removed or not — has its old entry with the renaming
`finalAlias` (alias ↦ alias of the image) substituted in the typification. NO further hypothesis:
identical definitions are alike (`likeWithLike_of_pairs` with no pairs), and the removal of duplicates
creates no cycle (`stage_acyclic_nokeys`: a fully correct schema is ranked, the least rank in a class
of identified constituents ranks the result). -/
theorem dedup_correct (hA : Lawful A) (hC : ContentOnly A) (H : SchemaGen.Homomorphic A) (V : View D)
    (hV : V.CompatibleHom H) {l r : Schema} {tr : Tr} (hw : WF l) (h : dedup l = some (r, tr))
    (hfc : FullyCorrect A (V.store l)) :
    (∀ c ∈ l, entryOf A (V.store r) (image tr c.uid) =
      H.homI (finalAlias l r tr) (entryOf A (V.store l) c.uid)) ∧
    FullyCorrect A (V.store r) :=
  stage_correct hA hC V H hV hw.1 hfc (dedup_stage hw h).1 (fun _ he => by cases he)
    (fun _ he => by cases he) (stage_acyclic_nokeys hA V H hV hw.1 hw.2 hfc (dedup_stage hw h).1)

/-- three identical terms over `X1` and a term over them: `D1 D2 D3 := X1 ∪ X1`, `D4 := D1 ∪ D3` -/
def dupL : Schema :=
  [ { uid := 1, alias := "X1", kind := 1, definition := [], rest := [[], [], []] },
    { uid := 2, alias := "D1", kind := 6, definition := [.mention "X1", .sym "∪", .mention "X1"], rest := [[], [], []] },
    { uid := 3, alias := "D2", kind := 6, definition := [.mention "X1", .sym "∪", .mention "X1"], rest := [[], [], []] },
    { uid := 4, alias := "D3", kind := 6, definition := [.mention "X1", .sym "∪", .mention "X1"], rest := [[], [], []] },
    { uid := 5, alias := "D4", kind := 6, definition := [.mention "D1", .sym "∪", .mention "D3"], rest := [[], [], []] } ]
def dupR : Schema × Tr :=
  ( [ { uid := 1, alias := "X1", kind := 1, definition := [], rest := [[], [], []] },
      { uid := 4, alias := "D3", kind := 6, definition := [.mention "X1", .sym "∪", .mention "X1"], rest := [[], [], []] },
      { uid := 5, alias := "D4", kind := 6, definition := [.mention "D3", .sym "∪", .mention "D3"], rest := [[], [], []] } ],
    [(3, 4), (2, 4)] )

/-- non-vacuity of `dedup_correct` on the fragment: a cascade (`D1` erases `D2`, `D3` erases `D1`); the
hypotheses hold, and `D4 := D1 ∪ D3` becomes `D3 ∪ D3` with the same entry -/
example : WF dupL ∧ dedup dupL = some dupR ∧ FullyCorrect fragA (fragView.store dupL) ∧
    entryOf fragA (fragView.store dupL) 5 = { status := .verified, ty := some "X1" } ∧
    entryOf fragA (fragView.store dupR.1) (image dupR.2 5) = { status := .verified, ty := some "X1" } :=
  ⟨by unfold WF; decide, by decide, by decide, by decide, by decide⟩

example : FullyCorrect fragA (fragView.store dupR.1) :=
  (dedup_correct fragA_lawful fragA_contentOnly fragHom fragView fragView_compatibleHom (l := dupL)
    (by unfold WF; decide) (by decide : dedup dupL = some dupR) (by decide)).2

private theorem synth_core_renaming {op1 op2 m r : Schema} {trM trE tr1 tr2 : Tr} {tq : List Entry}
    {R m1 : String → String} {g : Names} {freshs : List Nat}
    (hw1 : WF op1) (hw2 : WF op2) (hm : mergeWith g freshs op1 op2 = some (m, trM))
    (hR : StageExact m r trE tq R) (hm1 : IsMergeRenaming op2 m trM m1)
    (h1 : ∀ c ∈ op1, c ∈ m ∧ lookup tr1 c.uid = some (image trE c.uid))
    (h2 : ∀ c2 ∈ op2, ∃ s' ∈ m, lookup trM c2.uid = some s'.uid ∧ s'.uid ∉ uids op1 ∧
        s'.alias ∉ aliases op1 ∧ Renamed m1 c2 s' ∧ lookup tr2 c2.uid = some (image trE s'.uid)) :
    IsSynthRenaming op1 op2 r tr1 tr2 R (fun x => R (m1 x)) := by
  refine ⟨?_, ?_, m1, fun _ => rfl, hm1.2, ?_, ?_⟩
  · intro c hc s hs hl
    refine hR.aliasOf c (h1 c hc).1 s hs ?_
    exact Option.some.inj (hl.symm.trans (h1 c hc).2)
  · intro c hc s hs hl
    rcases h2 c hc with ⟨s', hs', hlM, _, _, _, hl2⟩
    show R (m1 c.alias) = s.alias
    rw [hm1.1 c hc s' hs' hlM]
    exact hR.aliasOf s' hs' s hs (Option.some.inj (hl.symm.trans hl2))
  · intro c hc
    rcases h2 c hc with ⟨s', hs', hlM, _, hna, _, _⟩
    rw [hm1.1 c hc s' hs' hlM]; exact hna
  · intro x hx1 hx2
    apply hR.off
    intro hmem
    rcases List.mem_map.1 hmem with ⟨s, hs, rfl⟩
    rcases mergeWith_origin hw1.1 hw1.2 hw2.1 hw2.2 hm s hs with ho | ⟨c2, hc2, hl⟩
    · exact hx1 (List.mem_map.2 ⟨s, ho, rfl⟩)
    · exact hx2 c2 hc2 (hm1.1 c2 hc2 s hs hl)

/-- the acyclicity of the result of a synthesis in which no equation is turned round: the copies of
operand 2 mention copies only, every key is in operand 1 and every value a copy — rank the copies
below operand 1 -/
private theorem synth_acyclic_aux (hA : Lawful A) (hC : ContentOnly A) (Q : Equivariance A)
    (H : SchemaGen.Homomorphic A) (V : View D) (hV : V.Compatible A Q) (hVH : V.CompatibleHom H)
    {g : Names} {freshs : List Nat} {op1 op2 m res : Schema} {eqs tq : List Entry} {trM trE tr2 : Tr}
    {R m1 : String → String}
    (hw1 : WF op1) (hw2 : WF op2) (hm : mergeWith g freshs op1 op2 = some (m, trM))
    (hR : StageExact m res trE tq R) (hm1 : IsMergeRenaming op2 m trM m1)
    (h1 : ∀ c ∈ op1, c ∈ m)
    (h2 : ∀ c2 ∈ op2, ∃ s' ∈ m, lookup trM c2.uid = some s'.uid ∧ s'.uid ∉ uids op1 ∧
        s'.alias ∉ aliases op1 ∧ Renamed m1 c2 s' ∧ lookup tr2 c2.uid = some (image trE s'.uid))
    (hall : ∀ e0 ∈ eqs, e0.key ∈ uids op1 ∧ e0.value ∈ uids op2)
    (hentry : ∀ e ∈ tq, ∃ e0 ∈ eqs, e = { e0 with value := image trM e0.value } ∨
        e = swapped { e0 with value := image trM e0.value })
    (hpresent : ∀ e0 ∈ eqs, (needsSwap m { e0 with value := image trM e0.value } = false ∧
          { e0 with value := image trM e0.value } ∈ tq) ∨
        (needsSwap m { e0 with value := image trM e0.value } = true ∧
          swapped { e0 with value := image trM e0.value } ∈ tq))
    (hvk : ∀ e ∈ tq, e.value ∉ tkeys tq)
    (hc1 : FullyCorrect A (V.store op1)) (hc2 : FullyCorrect A (V.store op2))
    (r1 : Q.Ren) (hr1 : ActsLike V Q r1 m1 op2)
    (hns : ∀ e0 ∈ eqs, ∀ k ∈ op1, ∀ v ∈ op2, k.uid = e0.key → v.uid = e0.value → swapNeeded k v = false) :
    AcyclicSchema V A res := by
  have hcons := merge_consistent hw1 hw2 hm
  have hcap : NoCapture V A op1 op2 m := noCapture_of_correct hA H V m hw1.1 hw2.1 hc1 hc2
  have hmc := merge_correct hA hC Q V hV hw1 hw2 hm hm1 r1 hr1 hcap hc1 hc2
  have hM := merge_mergeOf Q V hV hw1 hw2 hm hm1 r1 hr1 hcap
  have hnm : (SchemaGen.uids (V.store m)).Nodup := by rw [uids_store]; exact hcons.1.1
  -- every entry of the translated table: key in operand 1, value a copy
  have hshape : ∀ e ∈ tq, e.key ∈ uids op1 ∧ e.value ∈ uids m ∧ e.value ∉ uids op1 := by
    intro e he
    rcases hentry e he with ⟨e0, he0, hE⟩
    rcases List.mem_map.1 (hall e0 he0).1 with ⟨k, hk1, hku⟩
    rcases List.mem_map.1 (hall e0 he0).2 with ⟨v, hv2, hvu⟩
    rcases h2 v hv2 with ⟨v', hv', hlM, hnew, _, hren, _⟩
    have himg : image trM e0.value = v'.uid := by rw [← hvu]; exact image_of_lookup' hlM
    have hnsw : needsSwap m { e0 with value := image trM e0.value } = false := by
      rw [← hns e0 he0 k hk1 v hv2 hku hvu]
      unfold needsSwap swapNeeded
      show (match findUid m e0.key, findUid m (image trM e0.value) with
        | some k, some v => k.kind != v.kind && !isBaseSet k.kind && isBaseNotion v.kind
        | _, _ => false) = _
      rw [himg, ← hku, findUid_of_mem hcons.1.1 (h1 k hk1), findUid_of_mem hcons.1.1 hv']
      show (k.kind != v'.kind && !isBaseSet k.kind && isBaseNotion v'.kind) = _
      rw [hren.1]
    have hin : ({ e0 with value := image trM e0.value } : Entry) ∈ tq := by
      rcases hpresent e0 he0 with ⟨_, hin⟩ | ⟨hsw, _⟩
      · exact hin
      · rw [hnsw] at hsw; cases hsw
    rcases hE with rfl | rfl
    · exact ⟨(hall e0 he0).1, by rw [himg]; exact List.mem_map.2 ⟨v', hv', rfl⟩, by rw [himg]; exact hnew⟩
    · exfalso
      exact hvk _ he (List.mem_map.2 ⟨_, hin, rfl⟩)
  -- a copy mentions copies only
  have hclosed : ∀ c ∈ m, c.uid ∉ uids op1 → ∀ mm ∈ A.mentions (V.read c.definition), ∀ a ∈ m,
      a.alias = mm → a.uid ∉ uids op1 := by
    intro c hc hnot mm hmm a ha ham
    rcases mergeWith_origin hw1.1 hw1.2 hw2.1 hw2.2 hm c hc with ho | ⟨c2, hc2, hl⟩
    · exact absurd (List.mem_map.2 ⟨c, ho, rfl⟩) hnot
    · have hE := hM.emb2 (by rw [aliases_store]; exact hw2.2)
      have hright := hM.right (V.cst c2) (List.mem_map.2 ⟨c2, hc2, rfl⟩)
      have hcE : V.cst c = ⟨image trM (V.cst c2).uid, Q.app r1 (V.cst c2).alias, (V.cst c2).kind,
          Q.renD r1 (V.cst c2).defn⟩ :=
        SchemaGen.eq_of_uid_eq hnm (List.mem_map.2 ⟨c, hc, rfl⟩) hright
          (by show c.uid = image trM c2.uid; rw [image_of_lookup' hl])
      have hdef : V.read c.definition = Q.renD r1 (V.cst c2).defn := congrArg SchemaGen.Cst.defn hcE
      have hres := hE.res (Q.renC r1 (V.cst c2)) (List.mem_map.2 ⟨V.cst c2, List.mem_map.2 ⟨c2, hc2, rfl⟩, rfl⟩)
        (by show c2.uid ∈ SchemaGen.uids (V.store op2)
            rw [uids_store]; exact List.mem_map.2 ⟨c2, hc2, rfl⟩)
        mm (by show mm ∈ A.mentions (Q.renD r1 (V.cst c2).defn); rw [← hdef]; exact hmm)
      have hfa : SchemaGen.findAliasL (V.store m) mm = some a.uid := by
        rw [← ham]
        exact SchemaGen.findAliasL_of_mem (s := V.store m) (by rw [aliases_store]; exact hcons.1.2)
          (c := V.cst a) (List.mem_map.2 ⟨a, ha, rfl⟩)
      rw [hfa] at hres
      cases hw : SchemaGen.findAliasL ((V.store op2).map (Q.renC r1)) mm with
      | none => rw [hw] at hres; cases hres
      | some w =>
        rw [hw] at hres
        simp only [Option.map_some, Option.some.injEq] at hres
        have hwu := SchemaGen.findAliasL_uids hw
        rw [Q.uids_ren, uids_store] at hwu
        rcases List.mem_map.1 hwu with ⟨c3, hc3, rfl⟩
        rcases h2 c3 hc3 with ⟨s3, _, hl3, hnew3, -⟩
        rw [hres, image_of_lookup' hl3]
        exact hnew3
  obtain ⟨rkm, hrkm⟩ := SchemaGen.FullyCorrect.rank hA hnm hmc
  obtain ⟨N, hN⟩ := exists_bound rkm (uids m)
  refine stage_acyclic hA V H hVH hcons.1.1 hmc hR
    (fun u => if u ∈ uids op1 then N + rkm u else rkm u) ?_
  intro c hc hnk mm hmm a ha ham
  have hfa : SchemaGen.findAliasL (V.store m) mm = some a.uid := by
    rw [← ham]
    exact SchemaGen.findAliasL_of_mem (s := V.store m) (by rw [aliases_store]; exact hcons.1.2)
      (c := V.cst a) (List.mem_map.2 ⟨a, ha, rfl⟩)
  have hlt : rkm a.uid < rkm c.uid := hrkm (V.cst c) (List.mem_map.2 ⟨c, hc, rfl⟩) mm hmm a.uid hfa
  by_cases hak : a.uid ∈ tkeys tq
  · rcases List.mem_map.1 hak with ⟨e, he, hek⟩
    obtain ⟨hk1, hvm, hvn⟩ := hshape e he
    have ha1 : a.uid ∈ uids op1 := by rw [← hek]; exact hk1
    have hcin : c.uid ∈ uids op1 := by
      by_cases hcin : c.uid ∈ uids op1
      · exact hcin
      · exact absurd ha1 (hclosed c hc hcin mm hmm a ha ham)
    rcases List.mem_map.1 hvm with ⟨a0, ha0, ha0u⟩
    refine ⟨a0, ha0, by rw [ha0u]; exact hvk e he, by rw [ha0u, ← hek]; exact (hR.pairs e he).symm, ?_⟩
    simp only [ha0u, hvn, hcin, if_true, if_false]
    exact Nat.lt_of_lt_of_le (hN _ hvm) (Nat.le_add_right _ _)
  · refine ⟨a, ha, hak, rfl, ?_⟩
    by_cases hcin : c.uid ∈ uids op1
    · by_cases hain : a.uid ∈ uids op1
      · simp only [hcin, hain, if_true]; omega
      · simp only [hcin, hain, if_true, if_false]
        exact Nat.lt_of_lt_of_le (hN _ (List.mem_map.2 ⟨a, ha, rfl⟩)) (Nat.le_add_right _ _)
    · have hain := hclosed c hc hcin mm hmm a ha ham
      simp only [hcin, hain, if_false]; exact hlt

/-- **synth_correct**: the semantic clause for the WHOLE synthesis `BinarySynthes` = `MergeWith` →
(`TranslateEquations` + `Equate` | nothing) → `DeleteDuplicates` → `ResetAliases`, any table (empty or
not), whatever the duplicate removal finds. For every lawful, equivariant, content-only, `Homomorphic`
analysis seen through a compatible view; operands with distinct uids and aliases, table keys distinct,
outcome ok, both operands FULLY CORRECT (analysed from scratch). There are the merged schema `m`, the
merge renaming `m1` and THE final renaming `F1` of `synth_exact` (`IsSynthRenaming … F1 (F1 ∘ m1)`:
alias of a constituent of operand 1 / of a copy ↦ alias of its image in the result, every name that is
no alias of `m` stays — this determines `F1`) such that for every admissible renaming `r1` of the analysis acting like `m1` on operand 2:

IF the table equates LIKE WITH LIKE, at operand level: for every equation the entry (status,
typification) of the key in operand 1 and the entry of the value in operand 2 (carried into the merged
schema by `r1`) coincide once the identification `F1` is substituted — base set with base set, constant
with constant, derived constituents of equal typification up to the identification —, and the result
does not depend on itself (`AcyclicSchema res`: the code's "the value is not reachable from the key";
AUTOMATIC — second alternative of the hypothesis — when no equation is turned round, `swapNeeded k v =
false` for every pair, in particular when key and value have one kind: then the copies mention copies
only, every key is in operand 1, every value a copy, and the duplicate removal creates no cycle),

THEN the result is fully correct, and the image of every operand constituent has the operand's entry
with the final renaming / identification applied: `homI F1` for operand 1, `homI F1 ∘ renI r1` for
operand 2. Nothing is asked of the pairs the duplicate removal identifies. -/
theorem synth_correct (hA : Lawful A) (hC : ContentOnly A) (Q : Equivariance A) (H : SchemaGen.Homomorphic A)
    (V : View D) (hV : V.Compatible A Q) (hVH : V.CompatibleHom H)
    {g : Names} {freshs : List Nat} {semOk : Bool} {op1 op2 res : Schema} {eqs : List Entry} {tr1 tr2 : Tr}
    (hw1 : WF op1) (hw2 : WF op2) (hk : (tkeys eqs).Nodup)
    (h : synth g freshs semOk op1 op2 eqs = .ok res tr1 tr2)
    (hc1 : FullyCorrect A (V.store op1)) (hc2 : FullyCorrect A (V.store op2)) :
    ∃ m trM m1 F1, mergeWith g freshs op1 op2 = some (m, trM) ∧ IsMergeRenaming op2 m trM m1 ∧
      IsSynthRenaming op1 op2 res tr1 tr2 F1 (fun x => F1 (m1 x)) ∧ (∀ x, x ∉ aliases m → F1 x = x) ∧
      ∀ r1 : Q.Ren, ActsLike V Q r1 m1 op2 →
        (∀ e0 ∈ eqs, H.homI F1 (entryOf A (V.store op1) e0.key) =
          H.homI F1 (Q.renI r1 (entryOf A (V.store op2) e0.value))) →
        (AcyclicSchema V A res ∨ ∀ e0 ∈ eqs, ∀ k ∈ op1, ∀ v ∈ op2, k.uid = e0.key → v.uid = e0.value →
          swapNeeded k v = false) →
        FullyCorrect A (V.store res) ∧
        (∀ c ∈ op1, ∀ s ∈ res, lookup tr1 c.uid = some s.uid →
          entryOf A (V.store res) s.uid = H.homI F1 (entryOf A (V.store op1) c.uid)) ∧
        (∀ c ∈ op2, ∀ s ∈ res, lookup tr2 c.uid = some s.uid →
          entryOf A (V.store res) s.uid = H.homI F1 (Q.renI r1 (entryOf A (V.store op2) c.uid))) := by
  rcases synth_core hw1 hw2 hk h with
    ⟨m, trM, trE, tq, R, m1, hm, hR, hm1, h1, h2, hall, hentry, hpresent, _, hvk⟩
  have hcons := merge_consistent hw1 hw2 hm
  refine ⟨m, trM, m1, R, hm, hm1, synth_core_renaming hw1 hw2 hm hR hm1 h1 h2, hR.off, ?_⟩
  intro r1 hr1 hlike hac'
  have hac : AcyclicSchema V A res := by
    rcases hac' with hac | hns
    · exact hac
    · exact synth_acyclic_aux hA hC Q H V hV hVH hw1 hw2 hm hR hm1 (fun c hc => (h1 c hc).1) h2 hall hentry
        hpresent hvk hc1 hc2 r1 hr1 hns
  have hcap : NoCapture V A op1 op2 m := noCapture_of_correct hA H V m hw1.1 hw2.1 hc1 hc2
  obtain ⟨e1, e2⟩ := merge_analysis hA hC Q V hV hw1 hw2 hm hm1 r1 hr1 hcap
  have hmc := merge_correct hA hC Q V hV hw1 hw2 hm hm1 r1 hr1 hcap hc1 hc2
  -- the two sides of an equation of the synthesis, in the merged schema
  have hside : ∀ e0 ∈ eqs, e0.key ∈ uids m ∧ image trM e0.value ∈ uids m ∧
      H.homI R (entryOf A (V.store m) e0.key) = H.homI R (entryOf A (V.store m) (image trM e0.value)) := by
    intro e0 he0
    rcases List.mem_map.1 (hall e0 he0).1 with ⟨k, hk1, hku⟩
    rcases List.mem_map.1 (hall e0 he0).2 with ⟨v, hv2, hvu⟩
    rcases h2 v hv2 with ⟨v', hv', hlM, -⟩
    have himg : image trM e0.value = v'.uid := by rw [← hvu]; exact image_of_lookup' hlM
    refine ⟨by rw [← hku]; exact List.mem_map.2 ⟨k, (h1 k hk1).1, rfl⟩,
      by rw [himg]; exact List.mem_map.2 ⟨v', hv', rfl⟩, ?_⟩
    rw [himg, e2 v hv2 v' hv' hlM, ← hku, e1 k hk1, hku, hvu]
    exact hlike e0 he0
  have hvals : ∀ e ∈ tq, e.value ∈ uids m ∧ e.value ∉ tkeys tq := by
    intro e he
    refine ⟨?_, hvk e he⟩
    rcases hentry e he with ⟨e0, he0, rfl | rfl⟩
    · exact (hside e0 he0).2.1
    · exact (hside e0 he0).1
  have hpl : PairsLike V A H m tq R := by
    intro e he
    rcases hentry e he with ⟨e0, he0, rfl | rfl⟩
    · exact (hside e0 he0).2.2
    · exact (hside e0 he0).2.2.symm
  obtain ⟨hent, hfc⟩ := stage_correct hA hC V H hVH hcons.1.1 hmc hR hvals hpl hac
  refine ⟨hfc, fun c hc s _ hl => ?_, fun c2 hc2 s _ hl => ?_⟩
  · have hs : s.uid = image trE c.uid := Option.some.inj (hl.symm.trans (h1 c hc).2)
    rw [hs, hent c (h1 c hc).1, e1 c hc]
  · rcases h2 c2 hc2 with ⟨s', hs', hlM, _, _, _, hl2⟩
    have hs : s.uid = image trE s'.uid := Option.some.inj (hl.symm.trans hl2)
    rw [hs, hent s' hs', e2 c2 hc2 s' hs' hlM]

/-- operand 2 of the example: the same schema as `opA` -/
def opC : Schema :=
  [ { uid := 1, alias := "X1", kind := 1, definition := [], rest := [[], [], []] },
    { uid := 2, alias := "D1", kind := 6, definition := [.mention "X1", .sym "∪", .mention "X1"], rest := [[], [], []] } ]
/-- the merged schema: the copies are `X2` (77), `D2 := X2 ∪ X2` (78) -/
def mergedAC : Schema × Tr :=
  ( [ { uid := 1, alias := "X1", kind := 1, definition := [], rest := [[], [], []] },
      { uid := 77, alias := "X2", kind := 1, definition := [], rest := [[], [], []] },
      { uid := 2, alias := "D1", kind := 6, definition := [.mention "X1", .sym "∪", .mention "X1"], rest := [[], [], []] },
      { uid := 78, alias := "D2", kind := 6, definition := [.mention "X2", .sym "∪", .mention "X2"], rest := [[], [], []] } ],
    [(1, 77), (2, 78)] )
/-- the table `X1 (A) = X1 (C)` -/
def eqsAC : List Entry := [{ key := 1, value := 1 }]
/-- the result: after the identification of the base sets the two `D1` are token-identical and
`DeleteDuplicates` merges them — `X1`, `D1` -/
def resAC : Schema :=
  [ { uid := 77, alias := "X1", kind := 1, definition := [], rest := [[], [], []] },
    { uid := 2, alias := "D1", kind := 6, definition := [.mention "X1", .sym "∪", .mention "X1"], rest := [[], [], []] } ]

/-- non-vacuity of `synth_correct`: the closed hypotheses on `A`, `C` with the table `X1 = X1`; the
equation is not turned round -/
example : WF opA ∧ WF opC ∧ (tkeys eqsAC).Nodup ∧
    synth realNames [77, 78] true opA opC eqsAC = .ok resAC [(1, 77), (2, 2)] [(1, 77), (2, 2)] ∧
    FullyCorrect fragA (fragView.store opA) ∧ FullyCorrect fragA (fragView.store opC) ∧
    AcyclicSchema fragView fragA resAC ∧ swapNeeded opA[0] opC[0] = false :=
  ⟨by unfold WF; decide, by unfold WF; decide, by decide, by decide, by decide, by decide,
    ⟨fun u => if u = 77 then 0 else 1, by decide⟩, by decide⟩

/-- … and the theorem applied to it, the like-with-like hypothesis discharged for THE final renaming
(`F1 X1 = F1 X2 = X1` by `IsSynthRenaming`; the base sets have the entries ℬ(X1), ℬ(X2)), acyclicity by
the second alternative: the result `X1, D1` is fully correct and `D1` keeps its entry -/
example : FullyCorrect fragA (fragView.store resAC) ∧
    entryOf fragA (fragView.store resAC) 2 = { status := .verified, ty := some "X1" } := by
  obtain ⟨m, trM, m1, F1, hm, hm1, hF, hoff, hmain⟩ := synth_correct fragA_lawful fragA_contentOnly
    fragEquivariance fragHom fragView fragView_compatible fragView_compatibleHom (g := realNames)
    (freshs := [77, 78]) (semOk := true) (op1 := opA) (op2 := opC) (eqs := eqsAC) (res := resAC)
    (tr1 := [(1, 77), (2, 2)]) (tr2 := [(1, 77), (2, 2)]) (by unfold WF; decide) (by unfold WF; decide)
    (by decide) (by decide) (by decide) (by decide)
  have e : some (m, trM) = some mergedAC := by rw [← hm]; decide
  simp only [Option.some.injEq] at e
  obtain ⟨rfl, rfl⟩ : m = mergedAC.1 ∧ trM = mergedAC.2 := by rw [← e]; exact ⟨rfl, rfl⟩
  have a1 : m1 "X1" = "X2" := hm1.1 opC[0] (by decide) mergedAC.1[1] (by decide) (by decide)
  have a2 : m1 "D1" = "D2" := hm1.1 opC[1] (by decide) mergedAC.1[3] (by decide) (by decide)
  have hr1 : ActsLike fragView fragEquivariance bijAB m1 opC := by
    refine ⟨fun n hn => ?_, fun _ _ => trivial⟩
    have : n = "X1" ∨ n = "D1" ∨ n = "X1" := by
      simp only [tokNames, opC, aliases, mentionNames] at hn
      simpa using hn
    rcases this with rfl | rfl | rfl
    · exact a1.symm ▸ (by decide)
    · exact a2.symm ▸ (by decide)
    · exact a1.symm ▸ (by decide)
  have f1 : F1 "X1" = "X1" := hF.alias1 opA[0] (by decide) resAC[0] (by decide) (by decide)
  have f2 : F1 "X2" = "X1" := by
    have := hF.alias2 opC[0] (by decide) resAC[0] (by decide) (by decide)
    rw [show opC[0].alias = "X1" from rfl, a1] at this
    exact this
  have hlike : ∀ e0 ∈ eqsAC, fragHom.homI F1 (entryOf fragA (fragView.store opA) e0.key) =
      fragHom.homI F1 (fragEquivariance.renI bijAB (entryOf fragA (fragView.store opC) e0.value)) := by
    intro e0 he0
    have : e0 = { key := 1, value := 1 } := by simpa [eqsAC] using he0
    subst this
    have e1 : entryOf fragA (fragView.store opA) 1 = { status := .verified, ty := some "X1" } := by decide
    have e2 : fragEquivariance.renI bijAB (entryOf fragA (fragView.store opC) 1) =
        { status := .verified, ty := some "X2" } := by decide
    rw [e1, e2]
    simp only [fragHom, SchemaGen.renInfo, Option.map_some, f1, f2]
  obtain ⟨hfc, hent1, _⟩ := hmain bijAB hr1 hlike (Or.inr (by decide))
  refine ⟨hfc, ?_⟩
  have := hent1 opA[1] (by decide) resAC[1] (by decide) (by decide)
  have e3 : entryOf fragA (fragView.store opA) (opA[1]).uid = { status := .verified, ty := some "X1" } := by decide
  rw [e3] at this
  rw [show (resAC[1]).uid = 2 from rfl] at this
  rw [this]
  simp only [fragHom, SchemaGen.renInfo, Option.map_some, f1]
/-- **synth_correct_merged**: the statement `synth_correct_statement` recorded above (all semantic
hypotheses at MERGED level: `LikeWithLike` for everything with one image, `AcyclicSchema` of the schema
before `ResetAliases`, admissible renamings for the merge and for `ResetAliases`) holds — the plain
composition `merge_correct` → `equate_correct` → `rename_fully_correct`. `synth_correct` is the
stronger form (like with like on the pairs only and at operand level, no renaming for `ResetAliases`,
acyclicity derived for unturned tables, the entries of the images). -/
theorem synth_correct_merged : synth_correct_statement := by
  intro D I A hA hC Q H V hV hVH g freshs semOk op1 op2 res eqs tr1 tr2 hw1 hw2 hk hne h hc1 hc2 hyp
  unfold synth at h
  cases hm : mergeWith g freshs op1 op2 with
  | none => rw [hm] at h; cases h
  | some p =>
    obtain ⟨m, trM⟩ := p
    rw [hm] at h
    simp only at h
    have hcons := merge_consistent hw1 hw2 hm
    have hempty : eqs.isEmpty = false := by
      cases eqs with
      | nil => exact absurd rfl hne
      | cons _ _ => rfl
    simp only [hempty, Bool.false_eq_true, if_false] at h
    split at h
    · cases h
    · cases hq : equate semOk m (translateEquations m trM eqs) with
      | none => rw [hq] at h; cases h
      | some q =>
        obtain ⟨e, trE⟩ := q
        rw [hq] at h
        simp only at h
        cases hr : resetAliases g e with
        | none => rw [hr] at h; cases h
        | some r' =>
          rw [hr] at h
          simp only [Res.ok.injEq] at h
          obtain ⟨rfl, rfl, rfl⟩ := h
          obtain ⟨hcap, hr1, hE⟩ := hyp m trM hm
          obtain ⟨m1, hm1⟩ := merge_renaming_exists hw1 hw2 hm
          obtain ⟨r1, hr1'⟩ := hr1 m1 hm1
          have hmc := merge_correct hA hC Q V hV hw1 hw2 hm hm1 r1 hr1' hcap hc1 hc2
          obtain ⟨hac, hlike, hρ⟩ := hE e trE hq
          have hte := translateEquations_keeps m trM eqs hk
          obtain ⟨Q0, hQ0, hall⟩ := equate_correct hA hC H V hVH hcons.1 hte.1 hq hmc
          obtain ⟨_, hfe⟩ := hall Q0 hQ0 (hlike Q0 hQ0) hac
          have hconE := equate_consistent hcons.1 hq
          obtain ⟨ρ, rfl, hoff, _⟩ := resetAliases_eq hconE.1.2 hr
          obtain ⟨r2, hr2⟩ := hρ ρ rfl
          rw [store_substAliases V Q hV r2 hr2]
          exact SchemaGen.rename_fully_correct hA Q r2 (by rw [uids_store]; exact hconE.1.1)
            (by intro c' hc'; obtain ⟨c, hc, rfl⟩ := List.mem_map.1 hc'; exact hr2.good c hc) hfe

/-- the schema after `Equate`, before `ResetAliases`, on the example -/
def equatedAC : Schema × Tr :=
  ( [ { uid := 77, alias := "X2", kind := 1, definition := [], rest := [[], [], []] },
      { uid := 2, alias := "D1", kind := 6, definition := [.mention "X2", .sym "∪", .mention "X2"], rest := [[], [], []] } ],
    [(1, 77), (78, 2)] )

/-- non-vacuity of `synth_correct_merged`: its hypotheses hold on `A`, `C`, `X1 = X1` -/
example : FullyCorrect fragA (fragView.store resAC) := by
  refine synth_correct_merged fragA fragA_lawful fragA_contentOnly fragEquivariance fragHom fragView
    fragView_compatible fragView_compatibleHom realNames [77, 78] true opA opC resAC eqsAC
    [(1, 77), (2, 2)] [(1, 77), (2, 2)] (by unfold WF; decide) (by unfold WF; decide) (by decide)
    (by decide) (by decide) (by decide) (by decide) ?_
  intro m trM hm
  have e : some (m, trM) = some mergedAC := by rw [← hm]; decide
  simp only [Option.some.injEq] at e
  obtain ⟨rfl, rfl⟩ : m = mergedAC.1 ∧ trM = mergedAC.2 := by rw [← e]; exact ⟨rfl, rfl⟩
  refine ⟨noCapture_of_resolved _ _ _ (by decide) (by decide), fun m1 hm1 => ⟨bijAB, ?_, fun _ _ => trivial⟩, ?_⟩
  · have a1 : m1 "X1" = "X2" := hm1.1 opC[0] (by decide) mergedAC.1[1] (by decide) (by decide)
    have a2 : m1 "D1" = "D2" := hm1.1 opC[1] (by decide) mergedAC.1[3] (by decide) (by decide)
    intro n hn
    have : n = "X1" ∨ n = "D1" ∨ n = "X1" := by
      simp only [tokNames, opC, aliases, mentionNames] at hn
      simpa using hn
    rcases this with rfl | rfl | rfl
    · exact a1.symm ▸ (by decide)
    · exact a2.symm ▸ (by decide)
    · exact a1.symm ▸ (by decide)
  · intro e trE hq
    have e' : some (e, trE) = some equatedAC := by rw [← hq]; decide
    simp only [Option.some.injEq] at e'
    obtain ⟨rfl, rfl⟩ : e = equatedAC.1 ∧ trE = equatedAC.2 := by rw [← e']; exact ⟨rfl, rfl⟩
    refine ⟨⟨fun u => if u = 77 then 0 else 1, by decide⟩, ?_, ?_⟩
    · intro Q' hQ'
      have q1 : Q' "X1" = "X2" := hQ'.aliasOf mergedAC.1[0] (by decide) equatedAC.1[0] (by decide) (by decide)
      have q2 : Q' "X2" = "X2" := hQ'.aliasOf mergedAC.1[1] (by decide) equatedAC.1[0] (by decide) (by decide)
      have all : ∀ c ∈ mergedAC.1, fragHom.homI Q' (entryOf fragA (fragView.store mergedAC.1) c.uid) =
          { status := .verified, ty := some "X2" } := by
        intro c hc
        have : c = mergedAC.1[0] ∨ c = mergedAC.1[1] ∨ c = mergedAC.1[2] ∨ c = mergedAC.1[3] := by
          simpa [mergedAC] using hc
        have e0 : entryOf fragA (fragView.store mergedAC.1) 1 = { status := .verified, ty := some "X1" } := by decide
        have e1 : entryOf fragA (fragView.store mergedAC.1) 77 = { status := .verified, ty := some "X2" } := by decide
        have e2 : entryOf fragA (fragView.store mergedAC.1) 2 = { status := .verified, ty := some "X1" } := by decide
        have e3 : entryOf fragA (fragView.store mergedAC.1) 78 = { status := .verified, ty := some "X2" } := by decide
        rcases this with rfl | rfl | rfl | rfl
        · show fragHom.homI Q' (entryOf fragA _ 1) = _
          rw [e0]; simp only [fragHom, SchemaGen.renInfo, Option.map_some, q1]
        · show fragHom.homI Q' (entryOf fragA _ 77) = _
          rw [e1]; simp only [fragHom, SchemaGen.renInfo, Option.map_some, q2]
        · show fragHom.homI Q' (entryOf fragA _ 2) = _
          rw [e2]; simp only [fragHom, SchemaGen.renInfo, Option.map_some, q1]
        · show fragHom.homI Q' (entryOf fragA _ 78) = _
          rw [e3]; simp only [fragHom, SchemaGen.renInfo, Option.map_some, q2]
      intro c hc d hd _
      rw [all c hc, all d hd]
    · intro ρ hρ
      refine ⟨Bij.swap "X1" "X2", ?_, fun _ _ => trivial⟩
      have := congrArg aliases hρ
      simp only [resAC, equatedAC, aliases, substAliases, List.map_cons, List.map_nil, List.cons.injEq, and_true] at this
      obtain ⟨b1, b2⟩ := this
      intro n hn
      have : n = "X2" ∨ n = "D1" ∨ n = "X2" := by
        simp only [tokNames, equatedAC, aliases, mentionNames] at hn
        simpa using hn
      rcases this with rfl | rfl | rfl
      · exact b1 ▸ (by decide)
      · exact b2 ▸ (by decide)
      · exact b1 ▸ (by decide)

end CCVerif.SynthCorrect

/-! ## BEGIN relativised (HomomorphicOn) — prover-C12h/homgen -/
/-! The theorems of the sixth and seventh part for an analysis that is stable under ADMISSIBLE name
substitutions on GOOD definitions only (`SchemaGen.HomomorphicOn`, Lemmas/CheckerHomGen.lean: `Adm` on the
substitution, `GoodD` on definitions; the real type checker is such an analysis, not an unconditional
`Homomorphic` one). Extra hypotheses: the renaming that is substituted is admissible, the definitions of
the schema that is quotiented are good; the view commutes with admissible substitutions on good
definitions (`View.CompatibleHomOn`). Lemma level: Lemmas/CheckerHomCompose.lean. -/
namespace CCVerif.SynthCorrect
open CCVerif.Translation CCVerif.Dedup CCVerif.Merge CCVerif.Equate CCVerif.Synth
open CCVerif.SchemaGen (Analysis Lawful Equivariance ContentOnly entryOf FullyCorrect fragA
  fragEquivariance fragA_lawful)

variable {D I : Type} {A : Analysis D I}

/-- **dedup_correct_on**: `dedup_correct` for a `HomomorphicOn` analysis — the renaming `finalAlias` of
the duplicate removal is admissible and the definitions of the schema are good. -/
theorem dedup_correct_on (hA : Lawful A) (hC : ContentOnly A) (H : SchemaGen.HomomorphicOn A) (V : View D)
    (hV : V.CompatibleHomOn H) {l r : Schema} {tr : Tr} (hw : WF l) (h : dedup l = some (r, tr))
    (hadm : H.Adm (finalAlias l r tr)) (hgood : ∀ c ∈ l, H.GoodD (V.read c.definition))
    (hfc : FullyCorrect A (V.store l)) :
    (∀ c ∈ l, entryOf A (V.store r) (image tr c.uid) =
      H.homI (finalAlias l r tr) (entryOf A (V.store l) c.uid)) ∧
    FullyCorrect A (V.store r) :=
  stage_correct_on hA hC V H hV hadm hgood hw.1 hfc (dedup_stage hw h).1 (fun _ he => by cases he)
    (fun _ he => by cases he)
    (stage_acyclic_nokeys_on hA V H hV hadm hgood hw.1 hw.2 hfc (dedup_stage hw h).1)

/-- non-vacuity of `dedup_correct_on`: the fragment (`fragHom.toOn`) on the cascade `dupL` -/
example : FullyCorrect fragA (fragView.store dupR.1) ∧
    entryOf fragA (fragView.store dupR.1) (image dupR.2 5) =
      fragHom.toOn.homI (finalAlias dupL dupR.1 dupR.2) (entryOf fragA (fragView.store dupL) 5) :=
  have h := dedup_correct_on fragA_lawful fragA_contentOnly fragHom.toOn fragView
    fragView_compatibleHom.toOn (l := dupL) (by unfold WF; decide) (by decide : dedup dupL = some dupR)
    (fragHom.toOn_adm _) (fun c _ => fragHom.toOn_good _) (by decide)
  ⟨h.2, h.1 dupL[4] (by decide)⟩

/-- **equate_correct_on**: `equate_correct` for a `HomomorphicOn` analysis — the definitions of the
schema are good, and the conclusion is for every renaming of `equate_exact` that is admissible. -/
theorem equate_correct_on (hA : Lawful A) (hC : ContentOnly A) (H : SchemaGen.HomomorphicOn A) (V : View D)
    (hV : V.CompatibleHomOn H) {semOk : Bool} {l r : Schema} {eqs : List Entry} {tr : Tr}
    (hw : WF l) (hk : (tkeys eqs).Nodup) (h : equate semOk l eqs = some (r, tr))
    (hgood : ∀ c ∈ l, H.GoodD (V.read c.definition)) (hfc : FullyCorrect A (V.store l)) :
    ∃ Q, StageExact l r tr eqs Q ∧ ∀ Q', StageExact l r tr eqs Q' → H.Adm Q' →
      LikeWithLikeOn V A H l tr Q' → AcyclicSchema V A r →
      (∀ c ∈ l, entryOf A (V.store r) (image tr c.uid) = H.homI Q' (entryOf A (V.store l) c.uid)) ∧
      FullyCorrect A (V.store r) := by
  obtain ⟨Q, hQ⟩ := equate_exact hw hk h
  refine ⟨Q, hQ, fun Q' hQ' hadm hlike hac => ?_⟩
  have hq := quotientOfOn_view V H hV hadm hgood hQ' hlike hac
  have hn : (SchemaGen.uids (V.store l)).Nodup := by rw [uids_store]; exact hw.1
  exact ⟨fun c hc => SchemaGen.quotient_entries_on hA hC hn hfc hq (V.cst c) (List.mem_map.2 ⟨c, hc, rfl⟩),
    SchemaGen.quotient_fully_correct_on hA hC hn hfc hq⟩

/-- non-vacuity of `equate_correct_on`: the fragment on `eqL`, `X1 = X2`, renaming `eqQ` -/
example : FullyCorrect fragA (fragView.store eqR.1) := by
  obtain ⟨_, _, hall⟩ := equate_correct_on fragA_lawful fragA_contentOnly fragHom.toOn fragView
    fragView_compatibleHom.toOn (semOk := true) (l := eqL) (r := eqR.1) (tr := eqR.2)
    (eqs := [{ key := 1, value := 2 }]) (by unfold WF; decide) (by decide) (by decide)
    (fun c _ => fragHom.toOn_good _) (by decide)
  exact (hall eqQ eqQ_stage (fragHom.toOn_adm _) (by unfold LikeWithLikeOn; decide)
    ⟨fun u => u, by decide⟩).2

/-- `synth_acyclic_aux` for a `HomomorphicOn` analysis -/
private theorem synth_acyclic_aux_on (hA : Lawful A) (hC : ContentOnly A) (Q : Equivariance A)
    (H : SchemaGen.HomomorphicOn A) (V : View D) (hV : V.Compatible A Q) (hVH : V.CompatibleHomOn H)
    {g : Names} {freshs : List Nat} {op1 op2 m res : Schema} {eqs tq : List Entry} {trM trE tr2 : Tr}
    {R m1 : String → String}
    (hadm : H.Adm R) (hgood : ∀ c ∈ m, H.GoodD (V.read c.definition))
    (hw1 : WF op1) (hw2 : WF op2) (hm : mergeWith g freshs op1 op2 = some (m, trM))
    (hR : StageExact m res trE tq R) (hm1 : IsMergeRenaming op2 m trM m1)
    (h1 : ∀ c ∈ op1, c ∈ m)
    (h2 : ∀ c2 ∈ op2, ∃ s' ∈ m, lookup trM c2.uid = some s'.uid ∧ s'.uid ∉ uids op1 ∧
        s'.alias ∉ aliases op1 ∧ Renamed m1 c2 s' ∧ lookup tr2 c2.uid = some (image trE s'.uid))
    (hall : ∀ e0 ∈ eqs, e0.key ∈ uids op1 ∧ e0.value ∈ uids op2)
    (hentry : ∀ e ∈ tq, ∃ e0 ∈ eqs, e = { e0 with value := image trM e0.value } ∨
        e = swapped { e0 with value := image trM e0.value })
    (hpresent : ∀ e0 ∈ eqs, (needsSwap m { e0 with value := image trM e0.value } = false ∧
          { e0 with value := image trM e0.value } ∈ tq) ∨
        (needsSwap m { e0 with value := image trM e0.value } = true ∧
          swapped { e0 with value := image trM e0.value } ∈ tq))
    (hvk : ∀ e ∈ tq, e.value ∉ tkeys tq)
    (hc1 : FullyCorrect A (V.store op1)) (hc2 : FullyCorrect A (V.store op2))
    (r1 : Q.Ren) (hr1 : ActsLike V Q r1 m1 op2)
    (hns : ∀ e0 ∈ eqs, ∀ k ∈ op1, ∀ v ∈ op2, k.uid = e0.key → v.uid = e0.value → swapNeeded k v = false) :
    AcyclicSchema V A res := by
  have hcons := merge_consistent hw1 hw2 hm
  have hcap : NoCapture V A op1 op2 m := noCapture_of_correct_on hA H V m hw1.1 hw2.1 hc1 hc2
  have hmc := merge_correct hA hC Q V hV hw1 hw2 hm hm1 r1 hr1 hcap hc1 hc2
  have hM := merge_mergeOf Q V hV hw1 hw2 hm hm1 r1 hr1 hcap
  have hnm : (SchemaGen.uids (V.store m)).Nodup := by rw [uids_store]; exact hcons.1.1
  -- every entry of the translated table: key in operand 1, value a copy
  have hshape : ∀ e ∈ tq, e.key ∈ uids op1 ∧ e.value ∈ uids m ∧ e.value ∉ uids op1 := by
    intro e he
    rcases hentry e he with ⟨e0, he0, hE⟩
    rcases List.mem_map.1 (hall e0 he0).1 with ⟨k, hk1, hku⟩
    rcases List.mem_map.1 (hall e0 he0).2 with ⟨v, hv2, hvu⟩
    rcases h2 v hv2 with ⟨v', hv', hlM, hnew, _, hren, _⟩
    have himg : image trM e0.value = v'.uid := by rw [← hvu]; exact image_of_lookup' hlM
    have hnsw : needsSwap m { e0 with value := image trM e0.value } = false := by
      rw [← hns e0 he0 k hk1 v hv2 hku hvu]
      unfold needsSwap swapNeeded
      show (match findUid m e0.key, findUid m (image trM e0.value) with
        | some k, some v => k.kind != v.kind && !isBaseSet k.kind && isBaseNotion v.kind
        | _, _ => false) = _
      rw [himg, ← hku, findUid_of_mem hcons.1.1 (h1 k hk1), findUid_of_mem hcons.1.1 hv']
      show (k.kind != v'.kind && !isBaseSet k.kind && isBaseNotion v'.kind) = _
      rw [hren.1]
    have hin : ({ e0 with value := image trM e0.value } : Entry) ∈ tq := by
      rcases hpresent e0 he0 with ⟨_, hin⟩ | ⟨hsw, _⟩
      · exact hin
      · rw [hnsw] at hsw; cases hsw
    rcases hE with rfl | rfl
    · exact ⟨(hall e0 he0).1, by rw [himg]; exact List.mem_map.2 ⟨v', hv', rfl⟩, by rw [himg]; exact hnew⟩
    · exfalso
      exact hvk _ he (List.mem_map.2 ⟨_, hin, rfl⟩)
  -- a copy mentions copies only
  have hclosed : ∀ c ∈ m, c.uid ∉ uids op1 → ∀ mm ∈ A.mentions (V.read c.definition), ∀ a ∈ m,
      a.alias = mm → a.uid ∉ uids op1 := by
    intro c hc hnot mm hmm a ha ham
    rcases mergeWith_origin hw1.1 hw1.2 hw2.1 hw2.2 hm c hc with ho | ⟨c2, hc2, hl⟩
    · exact absurd (List.mem_map.2 ⟨c, ho, rfl⟩) hnot
    · have hE := hM.emb2 (by rw [aliases_store]; exact hw2.2)
      have hright := hM.right (V.cst c2) (List.mem_map.2 ⟨c2, hc2, rfl⟩)
      have hcE : V.cst c = ⟨image trM (V.cst c2).uid, Q.app r1 (V.cst c2).alias, (V.cst c2).kind,
          Q.renD r1 (V.cst c2).defn⟩ :=
        SchemaGen.eq_of_uid_eq hnm (List.mem_map.2 ⟨c, hc, rfl⟩) hright
          (by show c.uid = image trM c2.uid; rw [image_of_lookup' hl])
      have hdef : V.read c.definition = Q.renD r1 (V.cst c2).defn := congrArg SchemaGen.Cst.defn hcE
      have hres := hE.res (Q.renC r1 (V.cst c2)) (List.mem_map.2 ⟨V.cst c2, List.mem_map.2 ⟨c2, hc2, rfl⟩, rfl⟩)
        (by show c2.uid ∈ SchemaGen.uids (V.store op2)
            rw [uids_store]; exact List.mem_map.2 ⟨c2, hc2, rfl⟩)
        mm (by show mm ∈ A.mentions (Q.renD r1 (V.cst c2).defn); rw [← hdef]; exact hmm)
      have hfa : SchemaGen.findAliasL (V.store m) mm = some a.uid := by
        rw [← ham]
        exact SchemaGen.findAliasL_of_mem (s := V.store m) (by rw [aliases_store]; exact hcons.1.2)
          (c := V.cst a) (List.mem_map.2 ⟨a, ha, rfl⟩)
      rw [hfa] at hres
      cases hw : SchemaGen.findAliasL ((V.store op2).map (Q.renC r1)) mm with
      | none => rw [hw] at hres; cases hres
      | some w =>
        rw [hw] at hres
        simp only [Option.map_some, Option.some.injEq] at hres
        have hwu := SchemaGen.findAliasL_uids hw
        rw [Q.uids_ren, uids_store] at hwu
        rcases List.mem_map.1 hwu with ⟨c3, hc3, rfl⟩
        rcases h2 c3 hc3 with ⟨s3, _, hl3, hnew3, -⟩
        rw [hres, image_of_lookup' hl3]
        exact hnew3
  obtain ⟨rkm, hrkm⟩ := SchemaGen.FullyCorrect.rank hA hnm hmc
  obtain ⟨N, hN⟩ := exists_bound rkm (uids m)
  refine stage_acyclic_on hA V H hVH hadm hgood hcons.1.1 hmc hR
    (fun u => if u ∈ uids op1 then N + rkm u else rkm u) ?_
  intro c hc hnk mm hmm a ha ham
  have hfa : SchemaGen.findAliasL (V.store m) mm = some a.uid := by
    rw [← ham]
    exact SchemaGen.findAliasL_of_mem (s := V.store m) (by rw [aliases_store]; exact hcons.1.2)
      (c := V.cst a) (List.mem_map.2 ⟨a, ha, rfl⟩)
  have hlt : rkm a.uid < rkm c.uid := hrkm (V.cst c) (List.mem_map.2 ⟨c, hc, rfl⟩) mm hmm a.uid hfa
  by_cases hak : a.uid ∈ tkeys tq
  · rcases List.mem_map.1 hak with ⟨e, he, hek⟩
    obtain ⟨hk1, hvm, hvn⟩ := hshape e he
    have ha1 : a.uid ∈ uids op1 := by rw [← hek]; exact hk1
    have hcin : c.uid ∈ uids op1 := by
      by_cases hcin : c.uid ∈ uids op1
      · exact hcin
      · exact absurd ha1 (hclosed c hc hcin mm hmm a ha ham)
    rcases List.mem_map.1 hvm with ⟨a0, ha0, ha0u⟩
    refine ⟨a0, ha0, by rw [ha0u]; exact hvk e he, by rw [ha0u, ← hek]; exact (hR.pairs e he).symm, ?_⟩
    simp only [ha0u, hvn, hcin, if_true, if_false]
    exact Nat.lt_of_lt_of_le (hN _ hvm) (Nat.le_add_right _ _)
  · refine ⟨a, ha, hak, rfl, ?_⟩
    by_cases hcin : c.uid ∈ uids op1
    · by_cases hain : a.uid ∈ uids op1
      · simp only [hcin, hain, if_true]; omega
      · simp only [hcin, hain, if_true, if_false]
        exact Nat.lt_of_lt_of_le (hN _ (List.mem_map.2 ⟨a, ha, rfl⟩)) (Nat.le_add_right _ _)
    · have hain := hclosed c hc hcin mm hmm a ha ham
      simp only [hcin, hain, if_false]; exact hlt

/-- **synth_correct_on**: `synth_correct` (the semantic clause for the WHOLE synthesis, like with like
on the equated pairs at operand level, acyclicity automatic for unturned tables) for a `HomomorphicOn`
analysis: the final renaming `F1` is admissible (`H.Adm F1`) and the definitions of the MERGED schema
`m` are good. -/
theorem synth_correct_on (hA : Lawful A) (hC : ContentOnly A) (Q : Equivariance A)
    (H : SchemaGen.HomomorphicOn A) (V : View D) (hV : V.Compatible A Q) (hVH : V.CompatibleHomOn H)
    {g : Names} {freshs : List Nat} {semOk : Bool} {op1 op2 res : Schema} {eqs : List Entry} {tr1 tr2 : Tr}
    (hw1 : WF op1) (hw2 : WF op2) (hk : (tkeys eqs).Nodup)
    (h : synth g freshs semOk op1 op2 eqs = .ok res tr1 tr2)
    (hc1 : FullyCorrect A (V.store op1)) (hc2 : FullyCorrect A (V.store op2)) :
    ∃ m trM m1 F1, mergeWith g freshs op1 op2 = some (m, trM) ∧ IsMergeRenaming op2 m trM m1 ∧
      IsSynthRenaming op1 op2 res tr1 tr2 F1 (fun x => F1 (m1 x)) ∧ (∀ x, x ∉ aliases m → F1 x = x) ∧
      ∀ r1 : Q.Ren, ActsLike V Q r1 m1 op2 → H.Adm F1 → (∀ c ∈ m, H.GoodD (V.read c.definition)) →
        (∀ e0 ∈ eqs, H.homI F1 (entryOf A (V.store op1) e0.key) =
          H.homI F1 (Q.renI r1 (entryOf A (V.store op2) e0.value))) →
        (AcyclicSchema V A res ∨ ∀ e0 ∈ eqs, ∀ k ∈ op1, ∀ v ∈ op2, k.uid = e0.key → v.uid = e0.value →
          swapNeeded k v = false) →
        FullyCorrect A (V.store res) ∧
        (∀ c ∈ op1, ∀ s ∈ res, lookup tr1 c.uid = some s.uid →
          entryOf A (V.store res) s.uid = H.homI F1 (entryOf A (V.store op1) c.uid)) ∧
        (∀ c ∈ op2, ∀ s ∈ res, lookup tr2 c.uid = some s.uid →
          entryOf A (V.store res) s.uid = H.homI F1 (Q.renI r1 (entryOf A (V.store op2) c.uid))) := by
  rcases synth_core hw1 hw2 hk h with
    ⟨m, trM, trE, tq, R, m1, hm, hR, hm1, h1, h2, hall, hentry, hpresent, _, hvk⟩
  have hcons := merge_consistent hw1 hw2 hm
  refine ⟨m, trM, m1, R, hm, hm1, synth_core_renaming hw1 hw2 hm hR hm1 h1 h2, hR.off, ?_⟩
  intro r1 hr1 hadm hgood hlike hac'
  have hac : AcyclicSchema V A res := by
    rcases hac' with hac | hns
    · exact hac
    · exact synth_acyclic_aux_on hA hC Q H V hV hVH hadm hgood hw1 hw2 hm hR hm1 (fun c hc => (h1 c hc).1) h2
        hall hentry hpresent hvk hc1 hc2 r1 hr1 hns
  have hcap : NoCapture V A op1 op2 m := noCapture_of_correct_on hA H V m hw1.1 hw2.1 hc1 hc2
  obtain ⟨e1, e2⟩ := merge_analysis hA hC Q V hV hw1 hw2 hm hm1 r1 hr1 hcap
  have hmc := merge_correct hA hC Q V hV hw1 hw2 hm hm1 r1 hr1 hcap hc1 hc2
  -- the two sides of an equation of the synthesis, in the merged schema
  have hside : ∀ e0 ∈ eqs, e0.key ∈ uids m ∧ image trM e0.value ∈ uids m ∧
      H.homI R (entryOf A (V.store m) e0.key) = H.homI R (entryOf A (V.store m) (image trM e0.value)) := by
    intro e0 he0
    rcases List.mem_map.1 (hall e0 he0).1 with ⟨k, hk1, hku⟩
    rcases List.mem_map.1 (hall e0 he0).2 with ⟨v, hv2, hvu⟩
    rcases h2 v hv2 with ⟨v', hv', hlM, -⟩
    have himg : image trM e0.value = v'.uid := by rw [← hvu]; exact image_of_lookup' hlM
    refine ⟨by rw [← hku]; exact List.mem_map.2 ⟨k, (h1 k hk1).1, rfl⟩,
      by rw [himg]; exact List.mem_map.2 ⟨v', hv', rfl⟩, ?_⟩
    rw [himg, e2 v hv2 v' hv' hlM, ← hku, e1 k hk1, hku, hvu]
    exact hlike e0 he0
  have hvals : ∀ e ∈ tq, e.value ∈ uids m ∧ e.value ∉ tkeys tq := by
    intro e he
    refine ⟨?_, hvk e he⟩
    rcases hentry e he with ⟨e0, he0, rfl | rfl⟩
    · exact (hside e0 he0).2.1
    · exact (hside e0 he0).1
  have hpl : PairsLikeOn V A H m tq R := by
    intro e he
    rcases hentry e he with ⟨e0, he0, rfl | rfl⟩
    · exact (hside e0 he0).2.2
    · exact (hside e0 he0).2.2.symm
  obtain ⟨hent, hfc⟩ := stage_correct_on hA hC V H hVH hadm hgood hcons.1.1 hmc hR hvals hpl hac
  refine ⟨hfc, fun c hc s _ hl => ?_, fun c2 hc2 s _ hl => ?_⟩
  · have hs : s.uid = image trE c.uid := Option.some.inj (hl.symm.trans (h1 c hc).2)
    rw [hs, hent c (h1 c hc).1, e1 c hc]
  · rcases h2 c2 hc2 with ⟨s', hs', hlM, _, _, _, hl2⟩
    have hs : s.uid = image trE s'.uid := Option.some.inj (hl.symm.trans hl2)
    rw [hs, hent s' hs', e2 c2 hc2 s' hs' hlM]

/-- non-vacuity of `synth_correct_on`: the fragment on `opA`, `opC`, the table `X1 = X1` -/
example : FullyCorrect fragA (fragView.store resAC) ∧
    entryOf fragA (fragView.store resAC) 2 = { status := .verified, ty := some "X1" } := by
  obtain ⟨m, trM, m1, F1, hm, hm1, hF, hoff, hmain⟩ := synth_correct_on fragA_lawful fragA_contentOnly
    fragEquivariance fragHom.toOn fragView fragView_compatible fragView_compatibleHom.toOn (g := realNames)
    (freshs := [77, 78]) (semOk := true) (op1 := opA) (op2 := opC) (eqs := eqsAC) (res := resAC)
    (tr1 := [(1, 77), (2, 2)]) (tr2 := [(1, 77), (2, 2)]) (by unfold WF; decide) (by unfold WF; decide)
    (by decide) (by decide) (by decide) (by decide)
  have e : some (m, trM) = some mergedAC := by rw [← hm]; decide
  simp only [Option.some.injEq] at e
  obtain ⟨rfl, rfl⟩ : m = mergedAC.1 ∧ trM = mergedAC.2 := by rw [← e]; exact ⟨rfl, rfl⟩
  have a1 : m1 "X1" = "X2" := hm1.1 opC[0] (by decide) mergedAC.1[1] (by decide) (by decide)
  have a2 : m1 "D1" = "D2" := hm1.1 opC[1] (by decide) mergedAC.1[3] (by decide) (by decide)
  have hr1 : ActsLike fragView fragEquivariance bijAB m1 opC := by
    refine ⟨fun n hn => ?_, fun _ _ => trivial⟩
    have : n = "X1" ∨ n = "D1" ∨ n = "X1" := by
      simp only [tokNames, opC, aliases, mentionNames] at hn
      simpa using hn
    rcases this with rfl | rfl | rfl
    · exact a1.symm ▸ (by decide)
    · exact a2.symm ▸ (by decide)
    · exact a1.symm ▸ (by decide)
  have f1 : F1 "X1" = "X1" := hF.alias1 opA[0] (by decide) resAC[0] (by decide) (by decide)
  have f2 : F1 "X2" = "X1" := by
    have := hF.alias2 opC[0] (by decide) resAC[0] (by decide) (by decide)
    rw [show opC[0].alias = "X1" from rfl, a1] at this
    exact this
  have hlike : ∀ e0 ∈ eqsAC, fragHom.toOn.homI F1 (entryOf fragA (fragView.store opA) e0.key) =
      fragHom.toOn.homI F1 (fragEquivariance.renI bijAB (entryOf fragA (fragView.store opC) e0.value)) := by
    intro e0 he0
    have : e0 = { key := 1, value := 1 } := by simpa [eqsAC] using he0
    subst this
    have e1 : entryOf fragA (fragView.store opA) 1 = { status := .verified, ty := some "X1" } := by decide
    have e2 : fragEquivariance.renI bijAB (entryOf fragA (fragView.store opC) 1) =
        { status := .verified, ty := some "X2" } := by decide
    rw [e1, e2]
    simp only [SchemaGen.Homomorphic.toOn_homI, fragHom, SchemaGen.renInfo, Option.map_some, f1, f2]
  obtain ⟨hfc, hent1, _⟩ := hmain bijAB hr1 (fragHom.toOn_adm _) (fun c _ => fragHom.toOn_good _) hlike
    (Or.inr (by decide))
  refine ⟨hfc, ?_⟩
  have := hent1 opA[1] (by decide) resAC[1] (by decide) (by decide)
  have e3 : entryOf fragA (fragView.store opA) (opA[1]).uid = { status := .verified, ty := some "X1" } := by decide
  rw [e3] at this
  rw [show (resAC[1]).uid = 2 from rfl] at this
  rw [this]
  simp only [SchemaGen.Homomorphic.toOn_homI, fragHom, SchemaGen.renInfo, Option.map_some, f1]

end CCVerif.SynthCorrect
/-! ## END relativised -/

/-! ## the semantic clause for the REAL type-checker model (prover-C12h)

`checkerHomOn traits : HomomorphicOn (checkerR fun _ => traits)` (Lemmas/CheckerHomAnalysis.lean, from
`check_hom`, Lemmas/CheckerHom.lean): the checker model `Model/Checker.lean` is stable under an
IDENTIFICATION of like names — if `check Γ e` succeeds with type `t`, the expression with names identified,
in a context that shows the identified entries, succeeds with `t` with the base names identified — for every
rule of the visitor EXCEPT templated function calls (NT_FUNC_CALL), on grammar-shaped definitions
(`GoodDC`), for identifications that fix `Z`, `R0`, the radicals and respect the traits (`AdmC`). Hence the
relativised semantic theorems apply to the checker model, through any view `V` of token sequences as
parsed definitions whose reader commutes with renaming. -/
namespace CCVerif.SynthCorrect
open CCVerif.Translation CCVerif.Dedup CCVerif.Merge CCVerif.Equate CCVerif.Synth
open CCVerif.SchemaGen (entryOf FullyCorrect checkerR checkerEquivariance checkerHomOn checkerR_lawful
  checkerR_contentOnly CDef GoodDC)
open CCVerif.Checker (AdmC)
open CCVerif.Types (TraitEnv)

/-- **dedup_correct_checker**: `DeleteDuplicates` on a schema that is fully correct for the checker model
keeps it fully correct, typifications kept up to the identification `finalAlias` -/
theorem dedup_correct_checker (traits : TraitEnv) (V : View CDef)
    (hV : V.CompatibleHomOn (checkerHomOn traits)) {l r : Schema} {tr : Tr} (hw : WF l)
    (h : dedup l = some (r, tr)) (hadm : AdmC traits (finalAlias l r tr))
    (hgood : ∀ c ∈ l, GoodDC (V.read c.definition))
    (hfc : FullyCorrect (checkerR fun _ => traits) (V.store l)) :
    (∀ c ∈ l, entryOf (checkerR fun _ => traits) (V.store r) (image tr c.uid) =
      (checkerHomOn traits).homI (finalAlias l r tr) (entryOf (checkerR fun _ => traits) (V.store l) c.uid)) ∧
    FullyCorrect (checkerR fun _ => traits) (V.store r) :=
  dedup_correct_on (checkerR_lawful _) (checkerR_contentOnly traits) (checkerHomOn traits) V hV hw h hadm hgood hfc

/-- **equate_correct_checker**: an accepted table on a schema that is fully correct for the checker model;
like with like + acyclic ⇒ fully correct result, entries = old entries with the identification substituted -/
theorem equate_correct_checker (traits : TraitEnv) (V : View CDef)
    (hV : V.CompatibleHomOn (checkerHomOn traits)) {semOk : Bool} {l r : Schema} {eqs : List Entry} {tr : Tr}
    (hw : WF l) (hk : (tkeys eqs).Nodup) (h : equate semOk l eqs = some (r, tr))
    (hgood : ∀ c ∈ l, GoodDC (V.read c.definition))
    (hfc : FullyCorrect (checkerR fun _ => traits) (V.store l)) :
    ∃ Q, StageExact l r tr eqs Q ∧ ∀ Q', StageExact l r tr eqs Q' → AdmC traits Q' →
      LikeWithLikeOn V (checkerR fun _ => traits) (checkerHomOn traits) l tr Q' →
      AcyclicSchema V (checkerR fun _ => traits) r →
      (∀ c ∈ l, entryOf (checkerR fun _ => traits) (V.store r) (image tr c.uid) =
        (checkerHomOn traits).homI Q' (entryOf (checkerR fun _ => traits) (V.store l) c.uid)) ∧
      FullyCorrect (checkerR fun _ => traits) (V.store r) :=
  equate_correct_on (checkerR_lawful _) (checkerR_contentOnly traits) (checkerHomOn traits) V hV hw hk h hgood hfc

/-- **synth_correct_checker**: the semantic clause of C12 for the whole `BinarySynthes` and the checker
model: operands fully correct for the checker, table like with like at operand level (entries of key and
value equal after the identification `F1`), `F1` admissible, the merged schema grammar-shaped without
templated calls ⇒ the result is fully correct for the checker and every image has the operand's entry
with the final renaming / identification applied -/
theorem synth_correct_checker (traits : TraitEnv) (V : View CDef)
    (hV : V.Compatible (checkerR fun _ => traits) (checkerEquivariance fun _ => traits))
    (hVH : V.CompatibleHomOn (checkerHomOn traits))
    {g : Names} {freshs : List Nat} {semOk : Bool} {op1 op2 res : Schema} {eqs : List Entry} {tr1 tr2 : Tr}
    (hw1 : WF op1) (hw2 : WF op2) (hk : (tkeys eqs).Nodup)
    (h : synth g freshs semOk op1 op2 eqs = .ok res tr1 tr2)
    (hc1 : FullyCorrect (checkerR fun _ => traits) (V.store op1))
    (hc2 : FullyCorrect (checkerR fun _ => traits) (V.store op2)) :
    ∃ m trM m1 F1, mergeWith g freshs op1 op2 = some (m, trM) ∧ IsMergeRenaming op2 m trM m1 ∧
      IsSynthRenaming op1 op2 res tr1 tr2 F1 (fun x => F1 (m1 x)) ∧ (∀ x, x ∉ aliases m → F1 x = x) ∧
      ∀ r1 : (checkerEquivariance fun _ => traits).Ren,
        ActsLike V (checkerEquivariance fun _ => traits) r1 m1 op2 → AdmC traits F1 →
        (∀ c ∈ m, GoodDC (V.read c.definition)) →
        (∀ e0 ∈ eqs, (checkerHomOn traits).homI F1 (entryOf (checkerR fun _ => traits) (V.store op1) e0.key) =
          (checkerHomOn traits).homI F1 ((checkerEquivariance fun _ => traits).renI r1
            (entryOf (checkerR fun _ => traits) (V.store op2) e0.value))) →
        (AcyclicSchema V (checkerR fun _ => traits) res ∨ ∀ e0 ∈ eqs, ∀ k ∈ op1, ∀ v ∈ op2,
          k.uid = e0.key → v.uid = e0.value → swapNeeded k v = false) →
        FullyCorrect (checkerR fun _ => traits) (V.store res) ∧
        (∀ c ∈ op1, ∀ s ∈ res, lookup tr1 c.uid = some s.uid →
          entryOf (checkerR fun _ => traits) (V.store res) s.uid =
            (checkerHomOn traits).homI F1 (entryOf (checkerR fun _ => traits) (V.store op1) c.uid)) ∧
        (∀ c ∈ op2, ∀ s ∈ res, lookup tr2 c.uid = some s.uid →
          entryOf (checkerR fun _ => traits) (V.store res) s.uid =
            (checkerHomOn traits).homI F1 ((checkerEquivariance fun _ => traits).renI r1
              (entryOf (checkerR fun _ => traits) (V.store op2) c.uid))) :=
  synth_correct_on (checkerR_lawful _) (checkerR_contentOnly traits) (checkerEquivariance fun _ => traits)
    (checkerHomOn traits) V hV hVH hw1 hw2 hk h hc1 hc2

private theorem finalAlias_off' (l0 l : Schema) (tr : Tr) (x : String) (hx : x ∉ aliases l0) :
    finalAlias l0 l tr x = x := by
  unfold finalAlias
  have : l0.find? (fun c0 => c0.alias == x) = none := by
    rw [List.find?_eq_none]
    intro c hc hcx
    exact hx (List.mem_map.2 ⟨c, hc, by simpa using hcx⟩)
  rw [this]

/-- non-vacuity of `dedup_correct_checker`, applied: `dupL` (`X1`, `D1 D2 D3 := X1 ∪ X1`, `D4 := D1 ∪ D3`) read
through `checkerView` (Lemmas/CheckerHomAnalysis.lean) is fully correct for the REAL checker model, its
definitions are grammar-shaped, the identification `D1, D2 ↦ D3` is admissible — so the result `dupR`
(`D4 := D3 ∪ D3`) is fully correct for the checker model -/
example : FullyCorrect (checkerR fun _ => []) (checkerView.store dupR.1) :=
  (dedup_correct_checker [] checkerView (checkerView_compatibleHomOn []) (l := dupL)
    (by unfold WF; decide) (by decide : dedup dupL = some dupR)
    (Checker.admC_of_finite [] _ (aliases dupL) (finalAlias_off' _ _ _) (by decide +kernel))
    (by
      intro c hc
      simp only [dupL, List.mem_cons, List.mem_nil_iff, or_false] at hc
      rcases hc with rfl | rfl | rfl | rfl | rfl <;>
        exact ⟨by decide +kernel, fun body hb => by first | (cases hb; done) | (cases hb; decide +kernel)⟩)
    (by decide +kernel)).2

/-- non-vacuity of the hypotheses shared by `equate_correct_checker` / `synth_correct_checker`: the operands
of the example (`X1`, `D1 := X1 ∪ X1`) are fully correct for the checker model through a view that is
compatible with the checker's equivariance and with its stability under identification -/
example : FullyCorrect (checkerR fun _ => []) (checkerView.store opA) ∧
    FullyCorrect (checkerR fun _ => []) (checkerView.store opC) ∧
    checkerView.Compatible (checkerR fun _ => []) (checkerEquivariance fun _ => []) ∧
    checkerView.CompatibleHomOn (checkerHomOn []) ∧
    (∀ c ∈ mergedAC.1, GoodDC (checkerView.read c.definition)) :=
  ⟨by decide +kernel, by decide +kernel, checkerView_compatible [], checkerView_compatibleHomOn [], by
    intro c hc
    simp only [mergedAC, List.mem_cons, List.mem_nil_iff, or_false] at hc
    rcases hc with rfl | rfl | rfl | rfl <;>
      exact ⟨by decide +kernel, fun body hb => by first | (cases hb; done) | (cases hb; decide +kernel)⟩⟩

end CCVerif.SynthCorrect

/-! ## the semantic clause for the REAL type-checker model, definitions WITH calls (prover-C12i)

`check_hom2` (Lemmas/CheckerHomCalls.lean) is `check_hom` with the rule `ViFunctionCall` /
`CheckFuncArguments` (template and non-template functions, predicates) added; the exact condition at a call
(`CallH`, `RadInj`): the callee is identified like with like (equal declared argument types and result up to
the identification), its mangled radical names follow its name (`MangleOK`: `R1F1 ↦ R1F2` when `F1 ↦ F2`;
trivial for a signature without radicals), and the identification is injective on radicals — necessary over
arbitrary contexts: `Checker.CallsExample.call_hom_radInj_needed_counterexample`. Instance
`checkerHomOn2 traits Fs` (Lemmas/CheckerHomCallsAnalysis.lean): `GoodDC2 Fs` = grammar-shaped, calls
ALLOWED, called names in `Fs`; `AdmC2 traits Fs` = `AdmC` and the called functions `Fs` are fixed (with
the base names identified by the SAME map, which fixes every radical, the mangled radical `R1F1` follows
`F1` exactly when `F1` is fixed). Everything else — terms, base sets, constants, the arguments of the
calls — is identified freely, not injectively. -/
namespace CCVerif.SynthCorrect
open CCVerif.Translation CCVerif.Dedup CCVerif.Merge CCVerif.Equate CCVerif.Synth
open CCVerif.SchemaGen (entryOf FullyCorrect checkerR checkerEquivariance checkerHomOn2 checkerR_lawful
  checkerR_contentOnly CDef GoodDC2)
open CCVerif.Checker (AdmC AdmC2)
open CCVerif.Types (TraitEnv)

/-- **dedup_correct_checker2**: `dedup_correct_checker` for definitions WITH calls (`GoodDC2 Fs`); the
identification `finalAlias` fixes the called functions `Fs` -/
theorem dedup_correct_checker2 (traits : TraitEnv) (Fs : List String) (V : View CDef)
    (hV : V.CompatibleHomOn (checkerHomOn2 traits Fs)) {l r : Schema} {tr : Tr} (hw : WF l)
    (h : dedup l = some (r, tr)) (hadm : AdmC2 traits Fs (finalAlias l r tr))
    (hgood : ∀ c ∈ l, GoodDC2 Fs (V.read c.definition))
    (hfc : FullyCorrect (checkerR fun _ => traits) (V.store l)) :
    (∀ c ∈ l, entryOf (checkerR fun _ => traits) (V.store r) (image tr c.uid) =
      (checkerHomOn2 traits Fs).homI (finalAlias l r tr) (entryOf (checkerR fun _ => traits) (V.store l) c.uid)) ∧
    FullyCorrect (checkerR fun _ => traits) (V.store r) :=
  dedup_correct_on (checkerR_lawful _) (checkerR_contentOnly traits) (checkerHomOn2 traits Fs) V hV hw h hadm
    hgood hfc

/-- **equate_correct_checker2**: `equate_correct_checker` for definitions WITH calls -/
theorem equate_correct_checker2 (traits : TraitEnv) (Fs : List String) (V : View CDef)
    (hV : V.CompatibleHomOn (checkerHomOn2 traits Fs)) {semOk : Bool} {l r : Schema} {eqs : List Entry} {tr : Tr}
    (hw : WF l) (hk : (tkeys eqs).Nodup) (h : equate semOk l eqs = some (r, tr))
    (hgood : ∀ c ∈ l, GoodDC2 Fs (V.read c.definition))
    (hfc : FullyCorrect (checkerR fun _ => traits) (V.store l)) :
    ∃ Q, StageExact l r tr eqs Q ∧ ∀ Q', StageExact l r tr eqs Q' → AdmC2 traits Fs Q' →
      LikeWithLikeOn V (checkerR fun _ => traits) (checkerHomOn2 traits Fs) l tr Q' →
      AcyclicSchema V (checkerR fun _ => traits) r →
      (∀ c ∈ l, entryOf (checkerR fun _ => traits) (V.store r) (image tr c.uid) =
        (checkerHomOn2 traits Fs).homI Q' (entryOf (checkerR fun _ => traits) (V.store l) c.uid)) ∧
      FullyCorrect (checkerR fun _ => traits) (V.store r) :=
  equate_correct_on (checkerR_lawful _) (checkerR_contentOnly traits) (checkerHomOn2 traits Fs) V hV hw hk h
    hgood hfc

/-- **synth_correct_checker2**: `synth_correct_checker` for definitions WITH calls: the merged schema is
grammar-shaped with its called names in `Fs`, the final identification `F1` is admissible and fixes `Fs` -/
theorem synth_correct_checker2 (traits : TraitEnv) (Fs : List String) (V : View CDef)
    (hV : V.Compatible (checkerR fun _ => traits) (checkerEquivariance fun _ => traits))
    (hVH : V.CompatibleHomOn (checkerHomOn2 traits Fs))
    {g : Names} {freshs : List Nat} {semOk : Bool} {op1 op2 res : Schema} {eqs : List Entry} {tr1 tr2 : Tr}
    (hw1 : WF op1) (hw2 : WF op2) (hk : (tkeys eqs).Nodup)
    (h : synth g freshs semOk op1 op2 eqs = .ok res tr1 tr2)
    (hc1 : FullyCorrect (checkerR fun _ => traits) (V.store op1))
    (hc2 : FullyCorrect (checkerR fun _ => traits) (V.store op2)) :
    ∃ m trM m1 F1, mergeWith g freshs op1 op2 = some (m, trM) ∧ IsMergeRenaming op2 m trM m1 ∧
      IsSynthRenaming op1 op2 res tr1 tr2 F1 (fun x => F1 (m1 x)) ∧ (∀ x, x ∉ aliases m → F1 x = x) ∧
      ∀ r1 : (checkerEquivariance fun _ => traits).Ren,
        ActsLike V (checkerEquivariance fun _ => traits) r1 m1 op2 → AdmC2 traits Fs F1 →
        (∀ c ∈ m, GoodDC2 Fs (V.read c.definition)) →
        (∀ e0 ∈ eqs, (checkerHomOn2 traits Fs).homI F1 (entryOf (checkerR fun _ => traits) (V.store op1) e0.key) =
          (checkerHomOn2 traits Fs).homI F1 ((checkerEquivariance fun _ => traits).renI r1
            (entryOf (checkerR fun _ => traits) (V.store op2) e0.value))) →
        (AcyclicSchema V (checkerR fun _ => traits) res ∨ ∀ e0 ∈ eqs, ∀ k ∈ op1, ∀ v ∈ op2,
          k.uid = e0.key → v.uid = e0.value → swapNeeded k v = false) →
        FullyCorrect (checkerR fun _ => traits) (V.store res) ∧
        (∀ c ∈ op1, ∀ s ∈ res, lookup tr1 c.uid = some s.uid →
          entryOf (checkerR fun _ => traits) (V.store res) s.uid =
            (checkerHomOn2 traits Fs).homI F1 (entryOf (checkerR fun _ => traits) (V.store op1) c.uid)) ∧
        (∀ c ∈ op2, ∀ s ∈ res, lookup tr2 c.uid = some s.uid →
          entryOf (checkerR fun _ => traits) (V.store res) s.uid =
            (checkerHomOn2 traits Fs).homI F1 ((checkerEquivariance fun _ => traits).renI r1
              (entryOf (checkerR fun _ => traits) (V.store op2) c.uid))) :=
  synth_correct_on (checkerR_lawful _) (checkerR_contentOnly traits) (checkerEquivariance fun _ => traits)
    (checkerHomOn2 traits Fs) V hV hVH hw1 hw2 hk h hc1 hc2

/-- a schema with a TEMPLATE function and duplicate terms that call it: `X1`, `X2`,
`F1 := [α∈ℬ(R1)] α`, `D1 := F1[X1] ∪ X1`, `D2 := F1[X1] ∪ X1`, `D3 := D1 ∪ D2` -/
def dupF : Schema :=
  [ { uid := 1, alias := "X1", kind := 1, definition := [], rest := [[], [], []] },
    { uid := 2, alias := "F1", kind := 7, definition := [.sym "[α∈ℬ(R1)] α"], rest := [[], [], []] },
    { uid := 3, alias := "D1", kind := 6, definition := [.mention "F1", .sym "[", .mention "X1", .sym "]∪", .mention "X1"],
      rest := [[], [], []] },
    { uid := 4, alias := "D2", kind := 6, definition := [.mention "F1", .sym "[", .mention "X1", .sym "]∪", .mention "X1"],
      rest := [[], [], []] },
    { uid := 5, alias := "D3", kind := 6, definition := [.mention "D1", .sym "∪", .mention "D2"],
      rest := [[], [], []] } ]
/-- … after `DeleteDuplicates`: `D2` is erased, `D3 := D1 ∪ D1` -/
def dupFR : Schema × Tr :=
  ( [ { uid := 1, alias := "X1", kind := 1, definition := [], rest := [[], [], []] },
      { uid := 2, alias := "F1", kind := 7, definition := [.sym "[α∈ℬ(R1)] α"], rest := [[], [], []] },
      { uid := 3, alias := "D1", kind := 6, definition := [.mention "F1", .sym "[", .mention "X1", .sym "]∪", .mention "X1"],
        rest := [[], [], []] },
      { uid := 5, alias := "D3", kind := 6, definition := [.mention "D1", .sym "∪", .mention "D1"],
        rest := [[], [], []] } ],
    [(4, 3)] )

private theorem finalAlias_off2 (l0 l : Schema) (tr : Tr) (x : String) (hx : x ∉ aliases l0) :
    finalAlias l0 l tr x = x := by
  unfold finalAlias
  have : l0.find? (fun c0 => c0.alias == x) = none := by
    rw [List.find?_eq_none]
    intro c hc hcx
    exact hx (List.mem_map.2 ⟨c, hc, by simpa using hcx⟩)
  rw [this]

/-- **dedup_correct_checker2 APPLIED** to a schema whose definitions CALL a template function: `dupF` read
through `callView` (Lemmas/CheckerCallView.lean) is fully correct for the REAL checker model
(`D1, D2 : ℬ(X1)` by instantiating `R1 := X1`), its definitions are grammar-shaped with the called name `F1`,
the identification `D2 ↦ D1` is admissible and fixes `F1` — hence the result `dupFR` (`D3 := D1 ∪ D1`) is
fully correct for the checker model and `D3` keeps its typification `ℬ(X1)` -/
theorem dedup_correct_checker2_applied :
    dedup dupF = some dupFR ∧
    FullyCorrect (checkerR fun _ => []) (callView.store dupFR.1) ∧
    entryOf (checkerR fun _ => []) (callView.store dupFR.1) 5 =
      { status := .verified, ty := some (.ty (.coll (.base "X1"))), args := [] } := by
  have hd : dedup dupF = some dupFR := by decide
  have h := dedup_correct_checker2 [] ["F1"] callView (callView_compatibleHomOn2 [] ["F1"]) (l := dupF)
    (by unfold WF; decide) hd
    ⟨Checker.admC_of_finite [] _ (aliases dupF) (finalAlias_off2 _ _ _) (by decide +kernel), by decide⟩
    (by
      intro c hc
      simp only [dupF, List.mem_cons, List.mem_nil_iff, or_false] at hc
      rcases hc with rfl | rfl | rfl | rfl | rfl <;>
        exact ⟨by decide +kernel, fun body hb => by first | (cases hb; done) | (cases hb; decide +kernel)⟩)
    (by decide +kernel)
  refine ⟨hd, h.2, ?_⟩
  have h5 := h.1 dupF[4] (by decide)
  have e5 : entryOf (checkerR fun _ => []) (callView.store dupF) (dupF[4]).uid =
      { status := .verified, ty := some (.ty (.coll (.base "X1"))), args := [] } := by decide +kernel
  rw [e5] at h5
  exact h5.trans (by decide +kernel)

end CCVerif.SynthCorrect

/-! ## `synth_correct_checker` applied to a closed instance (prover-C12i) -/
namespace CCVerif.SynthCorrect
open CCVerif.Translation CCVerif.Dedup CCVerif.Merge CCVerif.Equate CCVerif.Synth
open CCVerif.SchemaGen (entryOf FullyCorrect checkerR checkerEquivariance checkerHomOn checkerR_lawful
  checkerR_contentOnly CDef GoodDC)
open CCVerif.Checker (AdmC)
open CCVerif.Types (TraitEnv)

/-- the bijection of names of the example: the transpositions `X1 ↔ X2`, `D1 ↔ D2` -/
private def nbAC : Checker.NameBij :=
  (Checker.NameBij.swap (old := "X1") (new := "X2") (by decide) (by decide)).comp
    (Checker.NameBij.swap (old := "D1") (new := "D2") (by decide) (by decide))

private theorem nbAC_f (s : String) : nbAC.b.f s = swapName "X1" "X2" (swapName "D1" "D2" s) := rfl

/-- it fixes every radical -/
private theorem nbAC_rad (s : String) (hs : Types.isRadical s = true) : nbAC.b.f s = s := by
  rw [nbAC_f]
  have h : ∀ x : String, Types.isRadical x = false → s ≠ x := fun x hx e => by
    rw [e, hx] at hs; cases hs
  rw [swapName_other (h "D1" (by decide)) (h "D2" (by decide)),
    swapName_other (h "X1" (by decide)) (h "X2" (by decide))]

/-- the admissible renaming of the checker's equivariance (constant empty traits) -/
private def renAC : (checkerEquivariance fun _ => []).Ren :=
  SchemaGen.constRen [] nbAC (fun p hp => by cases hp)


/-- on the tokens it is the product of the two transpositions -/
private theorem renAC_app (s : String) :
    (checkerEquivariance fun _ => []).app renAC s = swapName "X1" "X2" (swapName "D1" "D2" s) := rfl

/-- … good for the constituents of `opC` (grammar-shaped, aliases single blocks) -/
private theorem renAC_good : ∀ c ∈ opC, (checkerEquivariance fun _ => []).Good renAC (checkerView.cst c) := by
  intro c hc
  simp only [opC, List.mem_cons, List.mem_nil_iff, or_false] at hc
  rcases hc with rfl | rfl <;>
    exact SchemaGen.goodC_of_shaped nbAC nbAC_rad (by decide +kernel) (by decide +kernel)

/-- **synth_correct_checker_applied**: `synth_correct_checker` APPLIED to a closed instance, every hypothesis
discharged: operands `opA`, `opC` (`X1`, `D1 := X1 ∪ X1`) read through `checkerView`, the table `X1 = X1`,
constant empty traits. The renaming of the checker's equivariance is the `NameBij` of the transpositions
`X1 ↔ X2`, `D1 ↔ D2` (it acts like THE merge renaming `m1` on the names of `opC`, and is good for its
constituents because they are grammar-shaped); THE final identification `F1` (`X1, X2 ↦ X1`, `D1, D2 ↦ D1`, by
`IsSynthRenaming`, identity off the aliases of the merged schema) is admissible (`admC_of_finite`); the merged
definitions are grammar-shaped without calls; like with like: the entries of the two `X1` are `ℬ(X1)` and
`ℬ(X2)`, equal after `F1`; acyclicity by the second alternative (the equation is not turned round). Hence
the result `resAC` (`X1`, `D1 := X1 ∪ X1`) is fully correct for the REAL checker model and `D1` (uid 2) has
the entry of the operand's `D1` with `F1` applied: verified, `ℬ(X1)`. -/
theorem synth_correct_checker_applied :
    FullyCorrect (checkerR fun _ => []) (checkerView.store resAC) ∧
    entryOf (checkerR fun _ => []) (checkerView.store resAC) 2 =
      { status := .verified, ty := some (.ty (.coll (.base "X1"))), args := [] } := by
  obtain ⟨m, trM, m1, F1, hm, hm1, hF, hoff, hmain⟩ := synth_correct_checker [] checkerView
    (checkerView_compatible []) (checkerView_compatibleHomOn []) (g := realNames)
    (freshs := [77, 78]) (semOk := true) (op1 := opA) (op2 := opC) (eqs := eqsAC) (res := resAC)
    (tr1 := [(1, 77), (2, 2)]) (tr2 := [(1, 77), (2, 2)]) (by unfold WF; decide) (by unfold WF; decide)
    (by decide) (by decide) (by decide +kernel) (by decide +kernel)
  have e : some (m, trM) = some mergedAC := by rw [← hm]; decide
  simp only [Option.some.injEq] at e
  obtain ⟨rfl, rfl⟩ : m = mergedAC.1 ∧ trM = mergedAC.2 := by rw [← e]; exact ⟨rfl, rfl⟩
  have a1 : m1 "X1" = "X2" := hm1.1 opC[0] (by decide) mergedAC.1[1] (by decide) (by decide)
  have a2 : m1 "D1" = "D2" := hm1.1 opC[1] (by decide) mergedAC.1[3] (by decide) (by decide)
  have hr1 : ActsLike checkerView (checkerEquivariance fun _ => []) renAC m1 opC := by
    refine ⟨fun n hn => ?_, renAC_good⟩
    have : n = "X1" ∨ n = "D1" ∨ n = "X1" := by
      simp only [tokNames, opC, aliases, mentionNames] at hn
      simpa using hn
    rw [renAC_app]
    rcases this with rfl | rfl | rfl
    · exact a1.symm ▸ (by decide)
    · exact a2.symm ▸ (by decide)
    · exact a1.symm ▸ (by decide)
  have f1 : F1 "X1" = "X1" := hF.alias1 opA[0] (by decide) resAC[0] (by decide) (by decide)
  have f3 : F1 "D1" = "D1" := hF.alias1 opA[1] (by decide) resAC[1] (by decide) (by decide)
  have f2 : F1 "X2" = "X1" := by
    have := hF.alias2 opC[0] (by decide) resAC[0] (by decide) (by decide)
    rw [show opC[0].alias = "X1" from rfl, a1] at this
    exact this
  have f4 : F1 "D2" = "D1" := by
    have := hF.alias2 opC[1] (by decide) resAC[1] (by decide) (by decide)
    rw [show opC[1].alias = "D1" from rfl, a2] at this
    exact this
  have hadm : AdmC [] F1 := by
    refine Checker.admC_of_finite [] F1 (aliases mergedAC.1) hoff ?_
    intro x hx
    have : x = "X1" ∨ x = "X2" ∨ x = "D1" ∨ x = "D2" := by
      simpa [mergedAC, aliases] using hx
    rcases this with rfl | rfl | rfl | rfl
    · rw [f1]; decide
    · rw [f2]; decide
    · rw [f3]; decide
    · rw [f4]; decide
  have hgood : ∀ c ∈ mergedAC.1, GoodDC (checkerView.read c.definition) := by
    intro c hc
    simp only [mergedAC, List.mem_cons, List.mem_nil_iff, or_false] at hc
    rcases hc with rfl | rfl | rfl | rfl <;>
      exact ⟨by decide +kernel, fun body hb => by first | (cases hb; done) | (cases hb; decide +kernel)⟩
  have hlike : ∀ e0 ∈ eqsAC,
      (checkerHomOn []).homI F1 (entryOf (checkerR fun _ => []) (checkerView.store opA) e0.key) =
      (checkerHomOn []).homI F1 ((checkerEquivariance fun _ => []).renI renAC
        (entryOf (checkerR fun _ => []) (checkerView.store opC) e0.value)) := by
    intro e0 he0
    have : e0 = { key := 1, value := 1 } := by simpa [eqsAC] using he0
    subst this
    have e1 : entryOf (checkerR fun _ => []) (checkerView.store opA) 1 =
        { status := .verified, ty := some (.ty (.coll (.base "X1"))), args := [] } := by decide +kernel
    have e2 : (checkerEquivariance fun _ => []).renI renAC
        (entryOf (checkerR fun _ => []) (checkerView.store opC) 1) =
        { status := .verified, ty := some (.ty (.coll (.base "X2"))), args := [] } := by decide +kernel
    rw [e1, e2]
    show SchemaGen.homIC F1 _ = SchemaGen.homIC F1 _
    simp only [SchemaGen.homIC, Option.map_some, Types.renE, Types.renTy, f1, f2, List.map_nil]
  obtain ⟨hfc, hent1, _⟩ := hmain renAC hr1 hadm hgood hlike (Or.inr (by decide))
  refine ⟨hfc, ?_⟩
  have := hent1 opA[1] (by decide) resAC[1] (by decide) (by decide)
  have e3 : entryOf (checkerR fun _ => []) (checkerView.store opA) (opA[1]).uid =
      { status := .verified, ty := some (.ty (.coll (.base "X1"))), args := [] } := by decide +kernel
  rw [e3] at this
  rw [show (resAC[1]).uid = 2 from rfl] at this
  rw [this]
  show SchemaGen.homIC F1 _ = _
  simp only [SchemaGen.homIC, Option.map_some, Types.renE, Types.renTy, f1, List.map_nil]

end CCVerif.SynthCorrect
