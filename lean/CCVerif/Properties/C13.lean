import CCVerif.Model.Extract
import CCVerif.Lemmas.Extract
import CCVerif.Lemmas.ExtractGen
import CCVerif.Lemmas.ExtractGenFrag
import CCVerif.Lemmas.CheckerWfCarrier
/-!
# C13 — basis and maximal-part extraction return closed, complete, well-formed schemas

First part (`namespace CCVerif.Extract`): the selection logic (which constituents are copied, in which
order). Second part (`namespace CCVerif.ExtractGen`, end of the file): the COPY step — bulk `InsertCopy`
into an empty schema, then `ResetAliases` — modelled on the generic schema machine
(`Model/ExtractGen.lean`): `extract_renaming_exact`, `extract_status_type_preserved` (+ `_ren`, `_frag`),
`extract_noCapture_needed_counterexample`, `skeleton_locality_needed_counterexample`. The
implementation-level oracle of the check (status / typification of the real result) stays in place.
-/
namespace CCVerif.Extract

/-- uids are distinct and every recorded dependency is a constituent of the source -/
def WfSource (s : Source) : Prop :=
  (s.map (·.uid)).Nodup ∧ ∀ it ∈ s, ∀ i ∈ it.inputs, s.contains i = true

/-- the maximal part: least set containing the selection and closed under "non-empty definition
and all dependencies inside" -/
inductive InMax (s : Source) (args : List Nat) : Nat → Prop
  | sel {u : Nat} : u ∈ args → InMax s args u
  | add {it : Item} : it ∈ s → it.emptyDef = false → (∀ i ∈ it.inputs, InMax s args i) → InMax s args it.uid

/-- `u` is `a` or a transitive dependency of `a` -/
inductive DepOf (s : Source) : Nat → Nat → Prop
  | refl (a : Nat) : DepOf s a a
  | step {u i a : Nat} {it : Item} : it ∈ s → it.uid = a → i ∈ it.inputs → DepOf s u i → DepOf s u a

/-- an empty definition mentions nothing (always true of the C++: `InputsFor` is computed from the
definition text; a consistency condition on the abstraction `Item`) -/
def EmptyDefsHaveNoInputs (s : Source) : Prop := ∀ it ∈ s, it.emptyDef = true → it.inputs = []

def maxPart_spec_statement : Prop :=
  ∀ (s : Source) (args res : List Nat), WfSource s → EmptyDefsHaveNoInputs s → maxPart false s args = some res →
    (∀ u, u ∈ res ↔ (s.contains u = true ∧ InMax s args u)) ∧
    res.Sublist (s.map (·.uid)) ∧
    (∀ it ∈ s, it.uid ∈ res → ∀ i ∈ it.inputs, i ∈ res)

def basis_spec_statement : Prop :=
  ∀ (s : Source) (args res : List Nat), WfSource s → extractBasis s args = some res →
    (∀ u, u ∈ res ↔ ∃ a ∈ args, DepOf s u a) ∧
    res.Sublist (s.map (·.uid)) ∧
    (∀ it ∈ s, it.uid ∈ res → ∀ i ∈ it.inputs, i ∈ res)

/-- list `X1 D2 D1` with `D1:=X1`, `D2:=D1` -/
def srcX1D2D1 : Source :=
  [⟨1, [], true, true⟩, ⟨3, [2], false, false⟩, ⟨2, [1], false, false⟩]

/-- **maxPart_pinned_counterexample**: the single scan of the pinned code misses `D2` when the
list order is not aligned with the dependency order, although `D2` belongs to the maximal part -/
theorem maxPart_pinned_counterexample :
    maxPart true srcX1D2D1 [1] = some [1, 2] ∧ InMax srcX1D2D1 [1] 3 := by
  refine ⟨by decide, ?_⟩
  have h2 : InMax srcX1D2D1 [1] 2 :=
    InMax.add (it := ⟨2, [1], false, false⟩) (by decide) rfl (by
      intro i hi; simp at hi; subst hi; exact InMax.sel (by simp))
  exact InMax.add (it := ⟨3, [2], false, false⟩) (by decide) rfl (by
    intro i hi; simp at hi; subst hi; exact h2)

/-- the repaired code on the same source -/
theorem maxPart_repaired_example : maxPart false srcX1D2D1 [1] = some [1, 3, 2] := by decide

example : WfSource srcX1D2D1 := by
  refine ⟨by decide, ?_⟩
  intro it hit i hi
  simp [srcX1D2D1] at hit
  rcases hit with rfl | rfl | rfl <;> simp at hi <;> subst hi <;> decide

example : extractBasis srcX1D2D1 [3] = some [1, 3, 2] := by decide

/-! ## proofs -/

instance (s : Source) : Decidable (WfSource s) :=
  inferInstanceAs (Decidable ((s.map (·.uid)).Nodup ∧ ∀ it ∈ s, ∀ i ∈ it.inputs, s.contains i = true))

theorem InMax.inv {s : Source} {args : List Nat} {u : Nat} (h : InMax s args u) :
    u ∈ args ∨ ∃ it ∈ s, it.uid = u ∧ it.emptyDef = false ∧ ∀ i ∈ it.inputs, InMax s args i := by
  cases h with
  | sel h => exact Or.inl h
  | add hit he hin => exact Or.inr ⟨_, hit, rfl, he, hin⟩

theorem DepOf.trans {s : Source} {u v a : Nat} (h1 : DepOf s u v) (h2 : DepOf s v a) :
    DepOf s u a := by
  induction h2 with
  | refl => exact h1
  | step hit huid hi _ ih => exact DepOf.step hit huid hi ih

/-! ### the pinned closure gap for base sets (repaired)

Before the `fix:` commit "OpMaxPart refuses a selected base set whose definition mentions something
outside the selection", `IsCorrectlyDefined` accepted any base set among the arguments without
looking at its inputs, so a base set with an (erroneous, but storable) non-empty definition could be
selected alone and the result was not closed. The repaired code applies `CheckCst` to base sets
too; such a selection is now refused. -/

/-- `X1`, and a base set `X2` whose definition mentions `X1` -/
def srcBaseWithInput : Source := [⟨1, [], true, true⟩, ⟨2, [1], false, true⟩]

/-- the repaired code refuses the selection `{X2}` and accepts `{X1, X2}` -/
theorem maxPart_baseWithInput_repaired :
    WfSource srcBaseWithInput ∧ maxPart false srcBaseWithInput [2] = none ∧
    maxPart false srcBaseWithInput [1, 2] = some [1, 2] := by decide

/-- a base set records no dependency (true for every schema without the `cstNonemptyBase` error) -/
def BaseSetsHaveNoInputs (s : Source) : Prop := ∀ it ∈ s, it.isBaseSet = true → it.inputs = []

/-- `EmptyDefsHaveNoInputs` is needed too (at the level of the abstraction only): a selected
constituent with an empty definition is accepted by `CheckCst` whatever its recorded inputs -/
theorem maxPart_emptyDefWithInput_counterexample :
    let s : Source := [⟨1, [], true, true⟩, ⟨2, [1], true, false⟩]
    WfSource s ∧ (∀ it ∈ s, it.isBaseSet = true → it.inputs = []) ∧
      maxPart false s [2] = some [2] ∧ (1 : Nat) ∉ [2] := by decide

instance (s : Source) : Decidable (BaseSetsHaveNoInputs s) :=
  inferInstanceAs (Decidable (∀ it ∈ s, it.isBaseSet = true → it.inputs = []))

instance (s : Source) : Decidable (EmptyDefsHaveNoInputs s) :=
  inferInstanceAs (Decidable (∀ it ∈ s, it.emptyDef = true → it.inputs = []))

/-- **maxPart_spec_core**: membership and order clauses hold unconditionally; the closure clause
holds for every selected constituent which, if it has an empty definition, records no dependency -/
theorem maxPart_spec_core (s : Source) (args res : List Nat) (hwf : WfSource s)
    (h : maxPart false s args = some res) :
    (∀ u, u ∈ res ↔ (s.contains u = true ∧ InMax s args u)) ∧
    res.Sublist (s.map (·.uid)) ∧
    (∀ it ∈ s, it.uid ∈ res →
      (it.emptyDef = true → it.inputs = []) → ∀ i ∈ it.inputs, i ∈ res) := by
  unfold maxPart at h
  split at h
  case isFalse => cases h
  rename_i hdef
  simp only [Bool.false_eq_true, if_false, Option.some.injEq] at h
  obtain ⟨_, hargs⟩ := maxPartDefined_elim hdef
  have hsub : ∀ u ∈ args, u ∈ maxPartSet s args := scanFix_sub s _ args
  have hsound : ∀ u ∈ maxPartSet s args, s.contains u = true ∧ InMax s args u := by
    apply scanFix_inv (fun u => s.contains u = true ∧ InMax s args u) s
    · intro it hit he hin
      exact ⟨Source.contains_of_mem hit, InMax.add hit he (fun i hi => (hin i hi).2)⟩
    · intro u hu
      obtain ⟨it, hf, _⟩ := hargs u hu
      obtain ⟨hit, rfl⟩ := Source.find_some hf
      exact ⟨Source.contains_of_mem hit, InMax.sel hu⟩
  have hcompl : ∀ u, InMax s args u → u ∈ maxPartSet s args := by
    intro u hu
    induction hu with
    | sel h => exact hsub _ h
    | add hit he _ ih => exact maxPartSet_closed s args _ hit he ih
  have hmem : ∀ u, u ∈ res ↔ u ∈ maxPartSet s args := by
    intro u
    rw [← h]
    exact mem_sortSubset (fun u hu => (hsound u hu).1) u
  refine ⟨?_, ?_, ?_⟩
  · intro u
    rw [hmem]
    exact ⟨hsound u, fun h => hcompl u h.2⟩
  · rw [← h]
    exact sortSubset_sublist (fun u hu => (hsound u hu).1)
  · intro it hit hres he i hi
    rw [hmem] at hres ⊢
    have hfind := Source.find_of_mem hwf.1 hit
    rcases (hsound _ hres).2.inv with ha | ⟨it', hit', huid, hed, hin⟩
    · obtain ⟨it', hf', hc⟩ := hargs _ ha
      rw [hfind] at hf'
      cases hf'
      cases hed : it.emptyDef with
      | true =>
        rw [he hed] at hi
        cases hi
      | false => exact hsub i ((checkCst_nonempty hed).1 hc i hi)
    · have hfind' := Source.find_of_mem hwf.1 hit'
      rw [huid, hfind] at hfind'
      cases hfind'
      exact hcompl i (hin i hi)

/-- **maxPart_spec**: the maximal part is exactly the least closed set over the selection, in
list order, and is closed under dependencies -/
theorem maxPart_spec : maxPart_spec_statement := by
  intro s args res hwf hempty h
  obtain ⟨h1, h2, h3⟩ := maxPart_spec_core s args res hwf h
  exact ⟨h1, h2, fun it hit hres => h3 it hit hres (hempty it hit)⟩

/-! ### basis -/

/-- **basis_spec**: the extracted basis is exactly the set of the arguments and their transitive
dependencies, in list order, and is closed under dependencies -/
theorem basis_spec : basis_spec_statement := by
  intro s args res hwf h
  unfold extractBasis at h
  split at h
  case isFalse => cases h
  rename_i hdef
  rw [Bool.and_eq_true, List.all_eq_true] at hdef
  obtain ⟨_, hargs⟩ := hdef
  simp only [Option.some.injEq] at h
  have hfilter : args.filter s.contains = args := List.filter_eq_self.2 hargs
  have hsound : ∀ u ∈ expandInputs s args, s.contains u = true ∧ ∃ a ∈ args, DepOf s u a := by
    unfold expandInputs
    rw [hfilter]
    apply expandInputsGo_inv (fun u => s.contains u = true ∧ ∃ a ∈ args, DepOf s u a) s
    · intro u ⟨_, a, ha, hd⟩ i hi
      rcases insOf_cases s u with h0 | ⟨it, hf, h0⟩
      · rw [h0] at hi
        cases hi
      · rw [h0] at hi
        obtain ⟨hit, huid⟩ := Source.find_some hf
        exact ⟨hwf.2 it hit i hi, a, ha,
          DepOf.trans (DepOf.step hit huid hi (DepOf.refl i)) hd⟩
    · intro u hu
      exact ⟨hargs u hu, u, hu, DepOf.refl u⟩
    · intro u hu
      cases hu
  obtain ⟨_, hstack, hclosed⟩ := expandInputsGo_closed s _ (args.filter s.contains) []
    (expandInputs_fuel s args) (by intro u hu; cases hu)
  have hstack' : ∀ u ∈ args, u ∈ expandInputs s args := by
    intro u hu
    exact hstack u (by rw [hfilter]; exact hu)
  have hclosed' : ∀ it ∈ s, it.uid ∈ expandInputs s args →
      ∀ i ∈ it.inputs, i ∈ expandInputs s args := by
    intro it hit hu i hi
    exact hclosed it.uid hu i (by rw [insOf_of_find (Source.find_of_mem hwf.1 hit)]; exact hi)
  have hcompl : ∀ u a, DepOf s u a → a ∈ expandInputs s args → u ∈ expandInputs s args := by
    intro u a hd
    induction hd with
    | refl => exact id
    | step hit huid hi _ ih =>
      intro ha
      subst huid
      exact ih (hclosed' _ hit ha _ hi)
  have hmem : ∀ u, u ∈ res ↔ u ∈ expandInputs s args := by
    intro u
    rw [← h]
    exact mem_sortSubset (fun u hu => (hsound u hu).1) u
  refine ⟨?_, ?_, ?_⟩
  · intro u
    rw [hmem]
    exact ⟨fun hu => (hsound u hu).2, fun ⟨a, ha, hd⟩ => hcompl u a hd (hstack' a ha)⟩
  · rw [← h]
    exact sortSubset_sublist (fun u hu => (hsound u hu).1)
  · intro it hit hres i hi
    rw [hmem] at hres ⊢
    exact hclosed' it hit hres i hi

/-! ### non-vacuity -/

/-- `X1 X2 D5 D4 D3 D6` with `D3:=X1`, `D4:=D3`, `D5:=D4`, `D6:=X2,D3` (list order against the
dependency order) -/
def srcDemo : Source :=
  [⟨1, [], true, true⟩, ⟨2, [], true, true⟩, ⟨5, [4], false, false⟩, ⟨4, [3], false, false⟩,
   ⟨3, [1], false, false⟩, ⟨6, [2, 3], false, false⟩]

/-- the hypotheses of `maxPart_spec` are satisfiable and the operation succeeds -/
example : WfSource srcDemo ∧ EmptyDefsHaveNoInputs srcDemo ∧
    maxPart false srcDemo [1] = some [1, 5, 4, 3] := by decide

/-- the hypotheses of `basis_spec` are satisfiable and the operation succeeds -/
example : WfSource srcDemo ∧ extractBasis srcDemo [6, 6] = some [1, 2, 3, 6] := by decide

example : ∀ u, u ∈ [1, 5, 4, 3] ↔ (srcDemo.contains u = true ∧ InMax srcDemo [1] u) :=
  (maxPart_spec srcDemo [1] _ (by decide) (by decide) (by decide)).1

example : ∀ u, u ∈ [1, 2, 3, 6] ↔ ∃ a ∈ [6, 6], DepOf srcDemo u a :=
  (basis_spec srcDemo [6, 6] _ (by decide) (by decide)).1

end CCVerif.Extract

/-! # the COPY step: bulk `InsertCopy` into an empty schema, then `ResetAliases`

Model: `Model/ExtractGen.lean` (`copyOut`, `opExtractBasis`, `opMaxPart`) on the generic schema machine of
C07/C08 (`Model/SchemaGen.lean`: the per-constituent analysis is a parameter). The selection `sel` is what the
membership theorems above characterise (`basis_spec` / `maxPart_spec`: the list is a sublist of the source list,
closed under dependencies); `cs` are the selected constituents `source.GetRS(uid)` in that order.
Hypotheses on the source: `SourceOk` (aliases pairwise distinct and well formed for their kind — the identity
invariant of `RSCore`, C09) and `BasesFirst` (the list order respects the priority of base sets — the `CstList`
invariant, C09). No hypothesis on the name generator: a run in which it hands out a taken name is `none`. -/
namespace CCVerif.ExtractGen
open CCVerif CCVerif.SchemaGen
open CCVerif.Schema (Kind lookup)

/-- **extract_renaming_exact.** There is ONE renaming `ρ = renOf (aliasTable g cs)` — an explicit function of
the selected constituents and the name rule: in list order every constituent gets the name the rule generates
for its kind given the names handed out before (`canon`) — such that: only selected aliases are renamed (the
keys of the table); the result list is the selection, in the same order; the result store consists exactly of
the selected constituents, each with its uid and kind, the alias `ρ alias` and the definition
`TranslateRS(definition, table)` (every mention of a selected alias renamed once, nothing else: C08
`translateRS_tokens`); `ρ` is injective on the selected aliases; uids of the result are pairwise distinct. -/
theorem extract_renaming_exact {D I : Type} [DecidableEq D] {A : Analysis D I} {g : Names} (hA : Lawful A)
    {src : St D I} (hok : SourceOk g src) {sel : List Nat} (hsel : sel.Nodup) {cs : List (Cst D)}
    (hcs : selectedCsts src sel = some cs) (hbf : BasesFirst cs) {res : Sch D I}
    (h : copyOut A g src sel = some res) :
    (∀ p ∈ aliasTable g cs, p.1 ∈ cs.map (·.alias)) ∧
    res.order = sel ∧
    (∀ x, x ∈ res.st.store ↔ ∃ c ∈ cs, x = renCstBy A (aliasTable g cs) c) ∧
    (uids res.st.store).Nodup ∧
    cs.map (fun c => renOf (aliasTable g cs) c.alias) = canon g (cs.map (·.kind)) [] ∧
    (∀ c ∈ cs, ∀ d ∈ cs, renOf (aliasTable g cs) c.alias = renOf (aliasTable g cs) d.alias → c = d) := by
  obtain ⟨st1, r, w1, hst, hinv, htab, hord, hres⟩ := copyOut_spec hA hok hsel hcs hbf h
  rw [htab] at hres
  have wres : WF A res.st := by rw [hres]; exact w1.substitute hA _
  refine ⟨fun p hp => hinv.keys p (by rw [htab]; exact hp), hord, ?_, wres.base.nodup, ?_, ?_⟩
  · intro x
    rw [hres, substitute_store hA w1, List.mem_map]
    constructor
    · rintro ⟨c, hc, e⟩
      exact ⟨c, (hst c).1 hc, e.symm⟩
    · rintro ⟨c, hc, e⟩
      exact ⟨c, (hst c).2 hc, e.symm⟩
  · have := hinv.canon []
    rw [List.append_nil, canon, List.append_nil, htab] at this
    exact this.symm
  · have := hinv.nodup
    rw [htab] at this
    exact inj_of_nodup_map this

/-- **extract_status_type_preserved_ren** (the form of C08's `substitute_iso_generic`). For every analysis that
is `Lawful` (C07) and equivariant (`Q : Equivariance A`, C08), every well-formed source, a selection that is
closed (every mention of a selected constituent that resolves in the source resolves to a selected one — proved
above for both operations) and whose analysis does not read the skeleton outside the selection
(`SkelLocalOn`, see `skeleton_locality_needed_counterexample`), and every admissible renaming `r` that acts like
the table of `ResetAliases` on the names that occur in the selection: each result entry is the source entry
renamed by `r` — same status (`Q.ok_ren`), typification with the aliases substituted. -/
theorem extract_status_type_preserved_ren {D I : Type} [DecidableEq D] {A : Analysis D I} {g : Names}
    (hA : Lawful A) (Q : Equivariance A) {src : St D I} (hwf : WF A src) (hok : SourceOk g src)
    {sel : List Nat} (hsel : sel.Nodup) {cs : List (Cst D)} (hcs : selectedCsts src sel = some cs)
    (hbf : BasesFirst cs) {res : Sch D I} (h : copyOut A g src sel = some res)
    (hcl : Closed A src cs) (hsk : ∀ s1, (∀ x, x ∈ s1 ↔ x ∈ cs) → SkelLocalOn A src.store s1)
    (r : Q.Ren) (hg : ∀ c ∈ cs, Q.Good r c)
    (hagree : ∀ n ∈ namesOfG A cs, Q.app r n = renOf (aliasTable g cs) n) :
    ∀ c ∈ cs, res.st.infoFor A c.uid = Q.renI r (src.infoFor A c.uid) :=
  copyOut_info hA Q hwf hok hsel hcs hbf h hcl hsk r hg hagree

/-- **extract_status_type_preserved.** The same with the proviso of the property EXPLICIT: `NoCapture` — no
definition of the selection mentions a name that resolved to nothing in the source and coincides with an alias
handed out to the result (the recorded finding C13-unresolved-capture) — makes the table injective on the names
of the selection; `hadm` asks that the analysis admits the table as a renaming whenever it is injective
(discharged for the fragment below; for the type checker it is the name-shape condition of C08). -/
theorem extract_status_type_preserved {D I : Type} [DecidableEq D] {A : Analysis D I} {g : Names}
    (hA : Lawful A) (Q : Equivariance A) {src : St D I} (hwf : WF A src) (hok : SourceOk g src)
    {sel : List Nat} (hsel : sel.Nodup) {cs : List (Cst D)} (hcs : selectedCsts src sel = some cs)
    (hbf : BasesFirst cs) {res : Sch D I} (h : copyOut A g src sel = some res)
    (hcl : Closed A src cs) (hsk : ∀ s1, (∀ x, x ∈ s1 ↔ x ∈ cs) → SkelLocalOn A src.store s1)
    (hnc : NoCapture A g src cs)
    (hadm : (∀ a ∈ namesOfG A cs, ∀ b ∈ namesOfG A cs,
        renOf (aliasTable g cs) a = renOf (aliasTable g cs) b → a = b) →
      ∃ r : Q.Ren, (∀ c ∈ cs, Q.Good r c) ∧ ∀ n ∈ namesOfG A cs, Q.app r n = renOf (aliasTable g cs) n) :
    ∃ r : Q.Ren, (∀ c ∈ cs, Q.Good r c) ∧ (∀ n ∈ namesOfG A cs, Q.app r n = renOf (aliasTable g cs) n) ∧
      ∀ c ∈ cs, res.st.infoFor A c.uid = Q.renI r (src.infoFor A c.uid) :=
  copyOut_info_noCapture hA Q hwf hok hsel hcs hbf h hcl hsk hnc hadm

/-- **extract_status_type_preserved_frag.** The fragment analysis of C07 (`fragA`, `fragEquivariance`): closure
and `NoCapture` suffice — there is a bijection of names that acts like the table on every name of the selection
and every result entry is the source entry with that bijection applied to the typification (status kept). -/
theorem extract_status_type_preserved_frag {g : Names} {src : St Schema.Def Schema.Info} (hwf : WF fragA src)
    (hok : SourceOk g src) {sel : List Nat} (hsel : sel.Nodup) {cs : List (Cst Schema.Def)}
    (hcs : selectedCsts src sel = some cs) (hbf : BasesFirst cs) {res : Sch Schema.Def Schema.Info}
    (h : copyOut fragA g src sel = some res) (hcl : Closed fragA src cs) (hnc : NoCapture fragA g src cs) :
    ∃ b : Bij, (∀ n ∈ namesOfG fragA cs, b.f n = renOf (aliasTable g cs) n) ∧
      ∀ c ∈ cs, res.st.infoFor fragA c.uid = renInfo b.f (src.infoFor fragA c.uid) :=
  copyOut_info_frag hwf hok hsel hcs hbf h hcl hnc

/-! ### closed instances -/

/-- decidable form of `Closed` -/
def closedB {D I : Type} (A : Analysis D I) (src : St D I) (cs : List (Cst D)) : Bool :=
  cs.all fun c => (A.mentions c.defn).all fun m =>
    match findAliasL src.store m with
    | some v => (uids cs).contains v
    | none => true

theorem closed_of_closedB {D I : Type} {A : Analysis D I} {src : St D I} {cs : List (Cst D)}
    (h : closedB A src cs = true) : Closed A src cs := by
  intro c hc m hm v hv
  have := List.all_eq_true.1 (List.all_eq_true.1 h c hc) m hm
  rw [hv] at this
  simpa using this

instance {D I : Type} (A : Analysis D I) (g : Names) (src : St D I) (cs : List (Cst D)) :
    Decidable (NoCapture A g src cs) := by unfold NoCapture; exact inferInstance

instance {D : Type} (cs : List (Cst D)) : Decidable (BasesFirst cs) := by unfold BasesFirst; exact inferInstance

/-- the list `X1 D2 D1` with `D1 := X1`, `D2 := D1` (uids 1, 3, 2) -/
def srcX1D2D1G : St Schema.Def Schema.Info :=
  run fragA [.insert ⟨1, "X1", .base, .empty⟩, .insert ⟨2, "D1", .term, .union ["X1"]⟩,
    .insert ⟨3, "D2", .term, .union ["D1"]⟩]

/-- the maximal part over `{X1}` is copied in the order `X1 D2 D1`; `ResetAliases` numbers in list order, so
`D2` becomes `D1` and `D1` becomes `D2` (a swap), and the mentions follow -/
theorem extract_copy_X1D2D1_example :
    (copyOut fragA realNames srcX1D2D1G [1, 3, 2]).map (fun r => (r.order, r.st.store, r.st.report fragA)) =
      some ([1, 3, 2],
        [⟨1, "X1", .base, .empty⟩, ⟨2, "D2", .term, .union ["X1"]⟩, ⟨3, "D1", .term, .union ["D2"]⟩],
        [(1, ⟨.verified, some "X1"⟩), (2, ⟨.verified, some "X1"⟩), (3, ⟨.verified, some "X1"⟩)]) ∧
    aliasTable realNames ([⟨1, "X1", .base, .empty⟩, ⟨3, "D2", .term, .union ["D1"]⟩,
      ⟨2, "D1", .term, .union ["X1"]⟩] : List (Cst Schema.Def)) = [("D2", "D1"), ("D1", "D2")] := by
  decide

/-- non-vacuity of the theorems of this section on that instance: every hypothesis holds and the copy succeeds -/
example : WF fragA srcX1D2D1G ∧ SourceOk realNames srcX1D2D1G ∧
    selectedCsts srcX1D2D1G [1, 3, 2] = some [⟨1, "X1", .base, .empty⟩, ⟨3, "D2", .term, .union ["D1"]⟩,
      ⟨2, "D1", .term, .union ["X1"]⟩] ∧
    BasesFirst ([⟨1, "X1", .base, .empty⟩, ⟨3, "D2", .term, .union ["D1"]⟩,
      ⟨2, "D1", .term, .union ["X1"]⟩] : List (Cst Schema.Def)) ∧
    Closed fragA srcX1D2D1G [⟨1, "X1", .base, .empty⟩, ⟨3, "D2", .term, .union ["D1"]⟩,
      ⟨2, "D1", .term, .union ["X1"]⟩] ∧
    NoCapture fragA realNames srcX1D2D1G [⟨1, "X1", .base, .empty⟩, ⟨3, "D2", .term, .union ["D1"]⟩,
      ⟨2, "D1", .term, .union ["X1"]⟩] ∧
    (copyOut fragA realNames srcX1D2D1G [1, 3, 2]).isSome = true :=
  ⟨WF.run fragA_lawful (by decide), ⟨by decide, by decide⟩, by decide, by decide,
    closed_of_closedB (by decide), by decide, by decide⟩

/-- `X1`, `X2`, `D1 := X2 ∪ X9` (`X9` unresolved), `D2 := X1` -/
def srcRenumberG : St Schema.Def Schema.Info :=
  run fragA [.insert ⟨1, "X1", .base, .empty⟩, .insert ⟨2, "X2", .base, .empty⟩,
    .insert ⟨3, "D1", .term, .union ["X2", "X2"]⟩, .insert ⟨4, "D2", .term, .union ["X1"]⟩,
    .insert ⟨5, "D3", .term, .union ["D1", "X9"]⟩]

/-- a basis extraction with renumbering: the basis of `D3` is `X2 D1 D3`; `X2` becomes `X1`, `D3` becomes
`D2`; `D1` keeps status and gets the typification `X1` (= `ρ X2`), the incorrect `D3` stays incorrect and its
unresolved mention `X9` is untouched -/
theorem extract_copy_renumber_example :
    (copyOut fragA realNames srcRenumberG [2, 3, 5]).map (fun r => (r.order, r.st.store, r.st.report fragA)) =
      some ([2, 3, 5],
        [⟨2, "X1", .base, .empty⟩, ⟨3, "D1", .term, .union ["X1", "X1"]⟩, ⟨5, "D2", .term, .union ["D1", "X9"]⟩],
        [(2, ⟨.verified, some "X1"⟩), (3, ⟨.verified, some "X1"⟩), (5, ⟨.incorrect, none⟩)]) ∧
    srcRenumberG.report fragA = [(1, ⟨.verified, some "X1"⟩), (2, ⟨.verified, some "X2"⟩),
      (3, ⟨.verified, some "X2"⟩), (4, ⟨.verified, some "X1"⟩), (5, ⟨.incorrect, none⟩)] := by
  decide

example : WF fragA srcRenumberG ∧ SourceOk realNames srcRenumberG ∧
    selectedCsts srcRenumberG [2, 3, 5] = some [⟨2, "X2", .base, .empty⟩, ⟨3, "D1", .term, .union ["X2", "X2"]⟩,
      ⟨5, "D3", .term, .union ["D1", "X9"]⟩] ∧
    Closed fragA srcRenumberG [⟨2, "X2", .base, .empty⟩, ⟨3, "D1", .term, .union ["X2", "X2"]⟩,
      ⟨5, "D3", .term, .union ["D1", "X9"]⟩] ∧
    NoCapture fragA realNames srcRenumberG [⟨2, "X2", .base, .empty⟩, ⟨3, "D1", .term, .union ["X2", "X2"]⟩,
      ⟨5, "D3", .term, .union ["D1", "X9"]⟩] :=
  ⟨WF.run fragA_lawful (by decide), ⟨by decide, by decide⟩, by decide, closed_of_closedB (by decide), by decide⟩

/-- `X2`, `D1 := X2 ∪ X1` where `X1` denotes nothing (e.g. it was erased) -/
def srcCaptureG : St Schema.Def Schema.Info :=
  run fragA [.insert ⟨2, "X2", .base, .empty⟩, .insert ⟨3, "D1", .term, .union ["X2", "X1"]⟩]

/-- **extract_noCapture_needed_counterexample** (the recorded finding C13-unresolved-capture, in the model):
every other hypothesis of `extract_status_type_preserved_frag` holds — well-formed source, identity invariant,
closed selection (the basis of `D1`) — only `NoCapture` fails: `D1` mentions `X1`, which denotes nothing in the
source and is the alias `ResetAliases` hands to `X2`. The conclusion fails: `D1` is INCORRECT in the source and
VERIFIED (typification `X1`) in the result, so no renaming relates the two entries. -/
theorem extract_noCapture_needed_counterexample :
    WF fragA srcCaptureG ∧ SourceOk realNames srcCaptureG ∧
    selectedCsts srcCaptureG [2, 3] = some [⟨2, "X2", .base, .empty⟩, ⟨3, "D1", .term, .union ["X2", "X1"]⟩] ∧
    Closed fragA srcCaptureG [⟨2, "X2", .base, .empty⟩, ⟨3, "D1", .term, .union ["X2", "X1"]⟩] ∧
    ¬ NoCapture fragA realNames srcCaptureG [⟨2, "X2", .base, .empty⟩, ⟨3, "D1", .term, .union ["X2", "X1"]⟩] ∧
    srcCaptureG.infoFor fragA 3 = ⟨.incorrect, none⟩ ∧
    (copyOut fragA realNames srcCaptureG [2, 3]).map (fun r => (r.st.store, r.st.infoFor fragA 3)) =
      some ([⟨2, "X1", .base, .empty⟩, ⟨3, "D1", .term, .union ["X1", "X1"]⟩], ⟨.verified, some "X1"⟩) ∧
    ∀ f : String → String, renInfo f (srcCaptureG.infoFor fragA 3) = ⟨.incorrect, none⟩ :=
  ⟨WF.run fragA_lawful (by decide), ⟨by decide, by decide⟩, by decide, closed_of_closedB (by decide),
    by decide, by decide, by decide,
    fun f => by rw [show srcCaptureG.infoFor fragA 3 = ⟨.incorrect, none⟩ from by decide]; rfl⟩

/-- an analysis that is `Lawful` and equivariant but counts the constituents of the skeleton -/
def countA : Analysis Unit Bool where
  mentions := fun _ => []
  rename := fun _ d => d
  reset := false
  ok := fun i => i
  analyse := fun sk _ _ => sk.length == 2

def countEquivariance : Equivariance countA where
  Ren := Bij
  app := fun b => b.f
  inv := Bij.inv
  renD := fun _ d => d
  renI := fun _ i => i
  Good := fun _ _ => True
  app_inv := fun b n => b.gf n
  renD_inv := fun _ _ _ => rfl
  good_inv := fun _ _ _ => trivial
  mentions_ren := fun _ _ _ => rfl
  ok_ren := fun _ _ => rfl
  rename_eq := fun _ _ _ _ _ => rfl
  analyse_ren := by
    intro b sk ctx ctx' c _ _
    show ((renSk b.f sk).length == 2) = (sk.length == 2)
    unfold renSk
    rw [List.length_map]

/-- **skeleton_locality_needed_counterexample.** `Lawful` + `Equivariance` alone do not give the preservation
clause for a PART of a schema: both laws leave the skeleton argument of the analysis unrestricted. `countA`
satisfies both, the selection `{X1}` of the schema `X1 X2` is closed and captures nothing, the identity is an
admissible renaming that agrees with the table — and the entry of `X1` changes from `true` to `false`.
Hence the hypothesis `SkelLocalOn` of the theorems above. -/
theorem skeleton_locality_needed_counterexample :
    Lawful countA ∧
    (let src := run countA [.insert ⟨1, "X1", .base, ()⟩, .insert ⟨2, "X2", .base, ()⟩]
     WF countA src ∧ SourceOk realNames src ∧ Closed countA src [⟨1, "X1", .base, ()⟩] ∧
     NoCapture countA realNames src [⟨1, "X1", .base, ()⟩] ∧
     aliasTable realNames ([⟨1, "X1", .base, ()⟩] : List (Cst Unit)) = [] ∧
     src.infoFor countA 1 = true ∧
     (copyOut countA realNames src [1]).map (fun r => r.st.infoFor countA 1) = some false) := by
  have hl : Lawful countA := ⟨rfl, fun _ _ _ _ _ => rfl, fun _ _ _ _ _ hm _ _ => by cases hm⟩
  exact ⟨hl, WF.run hl (by decide), ⟨by decide, by decide⟩, closed_of_closedB (by decide), by decide,
    by decide, by decide, by decide⟩

end CCVerif.ExtractGen

/-! # the COPY step for the TYPE-CHECKER model, on the carrier of grammar-shaped definitions

`checkerR` (`Lemmas/CheckerRename.lean`): the C03 type checker as the analysis, `TranslateRS` on the tokens as
`rename`; `checkerEquivariance` is the C08 equivariance. The two hypotheses `extract_status_type_preserved`
leaves open for an analysis are DISCHARGED here (`Lemmas/CheckerWfCarrier.lean`):

* `SkelLocalOn` — `checker_skelLocal`: with constant traits (`Schema::TraitsFor` as a constant, as in the C11
  instance) the checker does not read the skeleton;
* admissibility `hadm` — `checker_admits`: on GRAMMAR-SHAPED definitions (`defShaped`: a phrase of the grammar,
  `Wf.wf .ND` — what C06 `parse_gives_WfParsed` gives below the declaration — whose radical tokens, called names
  and declared variables carry the kind of text the lexer gives them, `shapeOK`) every table that is injective on
  the names of the selection and maps good names (`GoodName`: a letter block that is neither `R0` nor a radical —
  the name-shape condition of C08 `relex_stable`) to good names extends to a `NameBij`, and
  `CRen.ofNameBij` of it (tokens renamed, base names of the typification renamed block-wise, so the mangled
  `R1F1` follows `F1`) is an admissible renaming that is good for every selected constituent. -/
namespace CCVerif.ExtractGen
open CCVerif CCVerif.SchemaGen
open CCVerif.Checker (GoodName NameBij CRen)

/-- **extract_status_type_preserved_checker.** The type-checker model (`checkerR`, constant traits): for every
well-formed source (C07 invariant) satisfying the identity invariant `SourceOk`, every closed selection without
capture (`NoCapture`, the explicit proviso) of grammar-shaped constituents whose names and new aliases are good
names apart from the trait keys: there is ONE bijection of names `n` that acts like the table of `ResetAliases`
on every name of the selection, and every result entry is the source entry renamed by it — same status,
typification and declared argument types with `n` applied to every block of every base name
(`renCInfo (CRen.ofNameBij n)`). No hypothesis on the analysis is left. -/
theorem extract_status_type_preserved_checker {g : Names} (traits : Types.TraitEnv) {src : St CDef CInfo}
    (hwf : WF (checkerR fun _ => traits) src) (hok : SourceOk g src)
    {sel : List Nat} (hsel : sel.Nodup) {cs : List (Cst CDef)} (hcs : selectedCsts src sel = some cs)
    (hbf : BasesFirst cs) {res : Sch CDef CInfo} (h : copyOut (checkerR fun _ => traits) g src sel = some res)
    (hcl : Closed (checkerR fun _ => traits) src cs) (hnc : NoCapture (checkerR fun _ => traits) g src cs)
    (hshape : ∀ c ∈ cs, defShaped c.defn = true)
    (hgood : ∀ x ∈ namesOfG (checkerR fun _ => traits) cs, GoodName x ∧ GoodName (renOf (aliasTable g cs) x))
    (htr : ∀ p ∈ traits, Blocks.isBlock p.1.toList = true ∧ p.1 ∉ namesOfG (checkerR fun _ => traits) cs ∧
      p.1 ∉ (namesOfG (checkerR fun _ => traits) cs).map (renOf (aliasTable g cs))) :
    ∃ n : NameBij, (∀ x ∈ namesOfG (checkerR fun _ => traits) cs, n.b.f x = renOf (aliasTable g cs) x) ∧
      ∀ c ∈ cs, res.st.infoFor (checkerR fun _ => traits) c.uid =
        renCInfo (CRen.ofNameBij n) (src.infoFor (checkerR fun _ => traits) c.uid) := by
  have hA := checkerR_lawful fun _ => traits
  obtain ⟨st1, r0, _, _, hinv, htab, _, _⟩ := copyOut_spec hA hok hsel hcs hbf h
  obtain ⟨_, hat⟩ := selectedCsts_spec sel cs hcs
  have hsub : ∀ c ∈ cs, c ∈ src.store := fun c hc => (mem_of_at (hat c hc)).1
  have hinj := renOf_injOn_names hwf.base.nodup hok.distinct hsub hinv htab hcl hnc
  obtain ⟨n, hT, hG, hag⟩ := checker_admits traits cs (renOf (aliasTable g cs)) hshape hgood htr hinj
  exact ⟨n, hag, copyOut_info hA (checkerEquivariance fun _ => traits) hwf hok hsel hcs hbf h hcl
    (fun s1 _ => checker_skelLocal traits _ s1) (constRen traits n hT) hG hag⟩

/-- `X1`, `X2` base sets; `D1 := X2\X2`, `D2 := X1\X1`, `D3 := D1\X2` -/
def srcChecker : St CDef CInfo :=
  run (checkerR fun _ => []) [.insert ⟨1, "X1", .base, none⟩, .insert ⟨2, "X2", .base, none⟩,
    .insert ⟨3, "D1", .term, some (setMinus (glob "X2") (glob "X2"))⟩,
    .insert ⟨4, "D2", .term, some (setMinus (glob "X1") (glob "X1"))⟩,
    .insert ⟨5, "D3", .term, some (setMinus (glob "D1") (glob "X2"))⟩]

private def csChecker : List (Cst CDef) :=
  [⟨2, "X2", .base, none⟩, ⟨3, "D1", .term, some (setMinus (glob "X2") (glob "X2"))⟩,
   ⟨5, "D3", .term, some (setMinus (glob "D1") (glob "X2"))⟩]

/-- a closed extraction on the checker model: the basis of `D3` is `X2 D1 D3`; `X2` becomes `X1`, `D3` becomes
`D2`, the mentions follow, and the typification `ℬ(X2)` of all three becomes `ℬ(X1)` -/
theorem extract_copy_checker_example :
    (copyOut (checkerR fun _ => []) realNames srcChecker [2, 3, 5]).map
        (fun r => (r.order, r.st.store, r.st.report (checkerR fun _ => []))) =
      some ([2, 3, 5],
        [⟨2, "X1", .base, none⟩, ⟨3, "D1", .term, some (setMinus (glob "X1") (glob "X1"))⟩,
         ⟨5, "D2", .term, some (setMinus (glob "D1") (glob "X1"))⟩],
        [(2, { status := .verified, ty := some (.ty (.coll (.base "X1"))) }),
         (3, { status := .verified, ty := some (.ty (.coll (.base "X1"))) }),
         (5, { status := .verified, ty := some (.ty (.coll (.base "X1"))) })]) ∧
    (csChecker.map fun c => srcChecker.infoFor (checkerR fun _ => []) c.uid) =
      [{ status := .verified, ty := some (.ty (.coll (.base "X2"))) },
       { status := .verified, ty := some (.ty (.coll (.base "X2"))) },
       { status := .verified, ty := some (.ty (.coll (.base "X2"))) }] ∧
    aliasTable realNames csChecker = [("X2", "X1"), ("D3", "D2")] := by
  decide +kernel

/-- non-vacuity of `extract_status_type_preserved_checker`: every hypothesis holds on that instance -/
example : WF (checkerR fun _ => []) srcChecker ∧ SourceOk realNames srcChecker ∧
    selectedCsts srcChecker [2, 3, 5] = some csChecker ∧ BasesFirst csChecker ∧
    Closed (checkerR fun _ => []) srcChecker csChecker ∧
    NoCapture (checkerR fun _ => []) realNames srcChecker csChecker ∧
    (∀ c ∈ csChecker, defShaped c.defn = true) ∧
    (∀ x ∈ namesOfG (checkerR fun _ => []) csChecker,
      GoodName x ∧ GoodName (renOf (aliasTable realNames csChecker) x)) ∧
    (copyOut (checkerR fun _ => []) realNames srcChecker [2, 3, 5]).isSome = true :=
  ⟨WF.run (checkerR_lawful _) (by decide +kernel), ⟨by decide +kernel, by decide +kernel⟩, by decide +kernel,
    by decide +kernel, closed_of_closedB (by decide +kernel), by decide +kernel, by decide +kernel,
    by decide +kernel, by decide +kernel⟩

end CCVerif.ExtractGen
