import CCVerif.Model.Extract
/-!
# C13 — basis and maximal-part extraction return closed, complete, well-formed schemas

Selection logic only (which constituents are copied, in which order); the copy itself and the
alias renumbering are covered by C08/C09, status/type preservation by the implementation-level
oracle of the check.
-/
namespace CCVerif.Extract

/-- uids are distinct and every recorded dependency is a constituent of the source -/
def WfSource (s : Source) : Prop :=
  (s.map (·.uid)).Nodup ∧ ∀ it ∈ s, ∀ i ∈ it.inputs, s.contains i = true

/-- the maximal part: least set containing the selection and closed under "non-empty definition
and all dependencies inside" -/
inductive InMax (s : Source) (args : List Nat) : Nat → Prop
  | sel {u : Nat} : u ∈ args → InMax s args u
  | add {it : Item} : it ∈ s → it.emptyDef = false → (∀ i ∈ it.inputs, InMax s args i) → InMax s args it.uid

/-- `u` is `a` or a transitive dependency of `a` -/
inductive DepOf (s : Source) : Nat → Nat → Prop
  | refl (a : Nat) : DepOf s a a
  | step {u i a : Nat} {it : Item} : it ∈ s → it.uid = a → i ∈ it.inputs → DepOf s u i → DepOf s u a

def maxPart_spec_statement : Prop :=
  ∀ (s : Source) (args res : List Nat), WfSource s → maxPart false s args = some res →
    (∀ u, u ∈ res ↔ (s.contains u = true ∧ InMax s args u)) ∧
    res.Sublist (s.map (·.uid)) ∧
    (∀ it ∈ s, it.uid ∈ res → ∀ i ∈ it.inputs, i ∈ res)

def basis_spec_statement : Prop :=
  ∀ (s : Source) (args res : List Nat), WfSource s → extractBasis s args = some res →
    (∀ u, u ∈ res ↔ ∃ a ∈ args, DepOf s u a) ∧
    res.Sublist (s.map (·.uid)) ∧
    (∀ it ∈ s, it.uid ∈ res → ∀ i ∈ it.inputs, i ∈ res)

/-- list `X1 D2 D1` with `D1:=X1`, `D2:=D1` -/
def srcX1D2D1 : Source :=
  [⟨1, [], true, true⟩, ⟨3, [2], false, false⟩, ⟨2, [1], false, false⟩]

/-- **maxPart_pinned_counterexample**: the single scan of the pinned code misses `D2` when the
list order is not aligned with the dependency order, although `D2` belongs to the maximal part -/
theorem maxPart_pinned_counterexample :
    maxPart true srcX1D2D1 [1] = some [1, 2] ∧ InMax srcX1D2D1 [1] 3 := by
  refine ⟨by decide, ?_⟩
  have h2 : InMax srcX1D2D1 [1] 2 :=
    InMax.add (it := ⟨2, [1], false, false⟩) (by decide) rfl (by
      intro i hi; simp at hi; subst hi; exact InMax.sel (by simp))
  exact InMax.add (it := ⟨3, [2], false, false⟩) (by decide) rfl (by
    intro i hi; simp at hi; subst hi; exact h2)

/-- the repaired code on the same source -/
theorem maxPart_repaired_example : maxPart false srcX1D2D1 [1] = some [1, 3, 2] := by decide

example : WfSource srcX1D2D1 := by
  refine ⟨by decide, ?_⟩
  intro it hit i hi
  simp [srcX1D2D1] at hit
  rcases hit with rfl | rfl | rfl <;> simp at hi <;> subst hi <;> decide

example : extractBasis srcX1D2D1 [3] = some [1, 3, 2] := by decide

end CCVerif.Extract
