import CCVerif.Model.Extract
import CCVerif.Lemmas.Extract
/-!
# C13 — basis and maximal-part extraction return closed, complete, well-formed schemas

Selection logic only (which constituents are copied, in which order); the copy itself and the
alias renumbering are covered by C08/C09, status/type preservation by the implementation-level
oracle of the check.
-/
namespace CCVerif.Extract

/-- uids are distinct and every recorded dependency is a constituent of the source -/
def WfSource (s : Source) : Prop :=
  (s.map (·.uid)).Nodup ∧ ∀ it ∈ s, ∀ i ∈ it.inputs, s.contains i = true

/-- the maximal part: least set containing the selection and closed under "non-empty definition
and all dependencies inside" -/
inductive InMax (s : Source) (args : List Nat) : Nat → Prop
  | sel {u : Nat} : u ∈ args → InMax s args u
  | add {it : Item} : it ∈ s → it.emptyDef = false → (∀ i ∈ it.inputs, InMax s args i) → InMax s args it.uid

/-- `u` is `a` or a transitive dependency of `a` -/
inductive DepOf (s : Source) : Nat → Nat → Prop
  | refl (a : Nat) : DepOf s a a
  | step {u i a : Nat} {it : Item} : it ∈ s → it.uid = a → i ∈ it.inputs → DepOf s u i → DepOf s u a

/-- an empty definition mentions nothing (always true of the C++: `InputsFor` is computed from the
definition text; a consistency condition on the abstraction `Item`) -/
def EmptyDefsHaveNoInputs (s : Source) : Prop := ∀ it ∈ s, it.emptyDef = true → it.inputs = []

def maxPart_spec_statement : Prop :=
  ∀ (s : Source) (args res : List Nat), WfSource s → EmptyDefsHaveNoInputs s → maxPart false s args = some res →
    (∀ u, u ∈ res ↔ (s.contains u = true ∧ InMax s args u)) ∧
    res.Sublist (s.map (·.uid)) ∧
    (∀ it ∈ s, it.uid ∈ res → ∀ i ∈ it.inputs, i ∈ res)

def basis_spec_statement : Prop :=
  ∀ (s : Source) (args res : List Nat), WfSource s → extractBasis s args = some res →
    (∀ u, u ∈ res ↔ ∃ a ∈ args, DepOf s u a) ∧
    res.Sublist (s.map (·.uid)) ∧
    (∀ it ∈ s, it.uid ∈ res → ∀ i ∈ it.inputs, i ∈ res)

/-- list `X1 D2 D1` with `D1:=X1`, `D2:=D1` -/
def srcX1D2D1 : Source :=
  [⟨1, [], true, true⟩, ⟨3, [2], false, false⟩, ⟨2, [1], false, false⟩]

/-- **maxPart_pinned_counterexample**: the single scan of the pinned code misses `D2` when the
list order is not aligned with the dependency order, although `D2` belongs to the maximal part -/
theorem maxPart_pinned_counterexample :
    maxPart true srcX1D2D1 [1] = some [1, 2] ∧ InMax srcX1D2D1 [1] 3 := by
  refine ⟨by decide, ?_⟩
  have h2 : InMax srcX1D2D1 [1] 2 :=
    InMax.add (it := ⟨2, [1], false, false⟩) (by decide) rfl (by
      intro i hi; simp at hi; subst hi; exact InMax.sel (by simp))
  exact InMax.add (it := ⟨3, [2], false, false⟩) (by decide) rfl (by
    intro i hi; simp at hi; subst hi; exact h2)

/-- the repaired code on the same source -/
theorem maxPart_repaired_example : maxPart false srcX1D2D1 [1] = some [1, 3, 2] := by decide

example : WfSource srcX1D2D1 := by
  refine ⟨by decide, ?_⟩
  intro it hit i hi
  simp [srcX1D2D1] at hit
  rcases hit with rfl | rfl | rfl <;> simp at hi <;> subst hi <;> decide

example : extractBasis srcX1D2D1 [3] = some [1, 3, 2] := by decide

/-! ## proofs -/

instance (s : Source) : Decidable (WfSource s) :=
  inferInstanceAs (Decidable ((s.map (·.uid)).Nodup ∧ ∀ it ∈ s, ∀ i ∈ it.inputs, s.contains i = true))

theorem InMax.inv {s : Source} {args : List Nat} {u : Nat} (h : InMax s args u) :
    u ∈ args ∨ ∃ it ∈ s, it.uid = u ∧ it.emptyDef = false ∧ ∀ i ∈ it.inputs, InMax s args i := by
  cases h with
  | sel h => exact Or.inl h
  | add hit he hin => exact Or.inr ⟨_, hit, rfl, he, hin⟩

theorem DepOf.trans {s : Source} {u v a : Nat} (h1 : DepOf s u v) (h2 : DepOf s v a) :
    DepOf s u a := by
  induction h2 with
  | refl => exact h1
  | step hit huid hi _ ih => exact DepOf.step hit huid hi ih

/-! ### the pinned closure gap for base sets (repaired)

Before the `fix:` commit "OpMaxPart refuses a selected base set whose definition mentions something
outside the selection", `IsCorrectlyDefined` accepted any base set among the arguments without
looking at its inputs, so a base set with an (erroneous, but storable) non-empty definition could be
selected alone and the result was not closed. The repaired code applies `CheckCst` to base sets
too; such a selection is now refused. -/

/-- `X1`, and a base set `X2` whose definition mentions `X1` -/
def srcBaseWithInput : Source := [⟨1, [], true, true⟩, ⟨2, [1], false, true⟩]

/-- the repaired code refuses the selection `{X2}` and accepts `{X1, X2}` -/
theorem maxPart_baseWithInput_repaired :
    WfSource srcBaseWithInput ∧ maxPart false srcBaseWithInput [2] = none ∧
    maxPart false srcBaseWithInput [1, 2] = some [1, 2] := by decide

/-- a base set records no dependency (true for every schema without the `cstNonemptyBase` error) -/
def BaseSetsHaveNoInputs (s : Source) : Prop := ∀ it ∈ s, it.isBaseSet = true → it.inputs = []

/-- `EmptyDefsHaveNoInputs` is needed too (at the level of the abstraction only): a selected
constituent with an empty definition is accepted by `CheckCst` whatever its recorded inputs -/
theorem maxPart_emptyDefWithInput_counterexample :
    let s : Source := [⟨1, [], true, true⟩, ⟨2, [1], true, false⟩]
    WfSource s ∧ (∀ it ∈ s, it.isBaseSet = true → it.inputs = []) ∧
      maxPart false s [2] = some [2] ∧ (1 : Nat) ∉ [2] := by decide

instance (s : Source) : Decidable (BaseSetsHaveNoInputs s) :=
  inferInstanceAs (Decidable (∀ it ∈ s, it.isBaseSet = true → it.inputs = []))

instance (s : Source) : Decidable (EmptyDefsHaveNoInputs s) :=
  inferInstanceAs (Decidable (∀ it ∈ s, it.emptyDef = true → it.inputs = []))

/-- **maxPart_spec_core**: membership and order clauses hold unconditionally; the closure clause
holds for every selected constituent which, if it has an empty definition, records no dependency -/
theorem maxPart_spec_core (s : Source) (args res : List Nat) (hwf : WfSource s)
    (h : maxPart false s args = some res) :
    (∀ u, u ∈ res ↔ (s.contains u = true ∧ InMax s args u)) ∧
    res.Sublist (s.map (·.uid)) ∧
    (∀ it ∈ s, it.uid ∈ res →
      (it.emptyDef = true → it.inputs = []) → ∀ i ∈ it.inputs, i ∈ res) := by
  unfold maxPart at h
  split at h
  case isFalse => cases h
  rename_i hdef
  simp only [Bool.false_eq_true, if_false, Option.some.injEq] at h
  obtain ⟨_, hargs⟩ := maxPartDefined_elim hdef
  have hsub : ∀ u ∈ args, u ∈ maxPartSet s args := scanFix_sub s _ args
  have hsound : ∀ u ∈ maxPartSet s args, s.contains u = true ∧ InMax s args u := by
    apply scanFix_inv (fun u => s.contains u = true ∧ InMax s args u) s
    · intro it hit he hin
      exact ⟨Source.contains_of_mem hit, InMax.add hit he (fun i hi => (hin i hi).2)⟩
    · intro u hu
      obtain ⟨it, hf, _⟩ := hargs u hu
      obtain ⟨hit, rfl⟩ := Source.find_some hf
      exact ⟨Source.contains_of_mem hit, InMax.sel hu⟩
  have hcompl : ∀ u, InMax s args u → u ∈ maxPartSet s args := by
    intro u hu
    induction hu with
    | sel h => exact hsub _ h
    | add hit he _ ih => exact maxPartSet_closed s args _ hit he ih
  have hmem : ∀ u, u ∈ res ↔ u ∈ maxPartSet s args := by
    intro u
    rw [← h]
    exact mem_sortSubset (fun u hu => (hsound u hu).1) u
  refine ⟨?_, ?_, ?_⟩
  · intro u
    rw [hmem]
    exact ⟨hsound u, fun h => hcompl u h.2⟩
  · rw [← h]
    exact sortSubset_sublist (fun u hu => (hsound u hu).1)
  · intro it hit hres he i hi
    rw [hmem] at hres ⊢
    have hfind := Source.find_of_mem hwf.1 hit
    rcases (hsound _ hres).2.inv with ha | ⟨it', hit', huid, hed, hin⟩
    · obtain ⟨it', hf', hc⟩ := hargs _ ha
      rw [hfind] at hf'
      cases hf'
      cases hed : it.emptyDef with
      | true =>
        rw [he hed] at hi
        cases hi
      | false => exact hsub i ((checkCst_nonempty hed).1 hc i hi)
    · have hfind' := Source.find_of_mem hwf.1 hit'
      rw [huid, hfind] at hfind'
      cases hfind'
      exact hcompl i (hin i hi)

/-- **maxPart_spec**: the maximal part is exactly the least closed set over the selection, in
list order, and is closed under dependencies -/
theorem maxPart_spec : maxPart_spec_statement := by
  intro s args res hwf hempty h
  obtain ⟨h1, h2, h3⟩ := maxPart_spec_core s args res hwf h
  exact ⟨h1, h2, fun it hit hres => h3 it hit hres (hempty it hit)⟩

/-! ### basis -/

/-- **basis_spec**: the extracted basis is exactly the set of the arguments and their transitive
dependencies, in list order, and is closed under dependencies -/
theorem basis_spec : basis_spec_statement := by
  intro s args res hwf h
  unfold extractBasis at h
  split at h
  case isFalse => cases h
  rename_i hdef
  rw [Bool.and_eq_true, List.all_eq_true] at hdef
  obtain ⟨_, hargs⟩ := hdef
  simp only [Option.some.injEq] at h
  have hfilter : args.filter s.contains = args := List.filter_eq_self.2 hargs
  have hsound : ∀ u ∈ expandInputs s args, s.contains u = true ∧ ∃ a ∈ args, DepOf s u a := by
    unfold expandInputs
    rw [hfilter]
    apply expandInputsGo_inv (fun u => s.contains u = true ∧ ∃ a ∈ args, DepOf s u a) s
    · intro u ⟨_, a, ha, hd⟩ i hi
      rcases insOf_cases s u with h0 | ⟨it, hf, h0⟩
      · rw [h0] at hi
        cases hi
      · rw [h0] at hi
        obtain ⟨hit, huid⟩ := Source.find_some hf
        exact ⟨hwf.2 it hit i hi, a, ha,
          DepOf.trans (DepOf.step hit huid hi (DepOf.refl i)) hd⟩
    · intro u hu
      exact ⟨hargs u hu, u, hu, DepOf.refl u⟩
    · intro u hu
      cases hu
  obtain ⟨_, hstack, hclosed⟩ := expandInputsGo_closed s _ (args.filter s.contains) []
    (expandInputs_fuel s args) (by intro u hu; cases hu)
  have hstack' : ∀ u ∈ args, u ∈ expandInputs s args := by
    intro u hu
    exact hstack u (by rw [hfilter]; exact hu)
  have hclosed' : ∀ it ∈ s, it.uid ∈ expandInputs s args →
      ∀ i ∈ it.inputs, i ∈ expandInputs s args := by
    intro it hit hu i hi
    exact hclosed it.uid hu i (by rw [insOf_of_find (Source.find_of_mem hwf.1 hit)]; exact hi)
  have hcompl : ∀ u a, DepOf s u a → a ∈ expandInputs s args → u ∈ expandInputs s args := by
    intro u a hd
    induction hd with
    | refl => exact id
    | step hit huid hi _ ih =>
      intro ha
      subst huid
      exact ih (hclosed' _ hit ha _ hi)
  have hmem : ∀ u, u ∈ res ↔ u ∈ expandInputs s args := by
    intro u
    rw [← h]
    exact mem_sortSubset (fun u hu => (hsound u hu).1) u
  refine ⟨?_, ?_, ?_⟩
  · intro u
    rw [hmem]
    exact ⟨fun hu => (hsound u hu).2, fun ⟨a, ha, hd⟩ => hcompl u a hd (hstack' a ha)⟩
  · rw [← h]
    exact sortSubset_sublist (fun u hu => (hsound u hu).1)
  · intro it hit hres i hi
    rw [hmem] at hres ⊢
    exact hclosed' it hit hres i hi

/-! ### non-vacuity -/

/-- `X1 X2 D5 D4 D3 D6` with `D3:=X1`, `D4:=D3`, `D5:=D4`, `D6:=X2,D3` (list order against the
dependency order) -/
def srcDemo : Source :=
  [⟨1, [], true, true⟩, ⟨2, [], true, true⟩, ⟨5, [4], false, false⟩, ⟨4, [3], false, false⟩,
   ⟨3, [1], false, false⟩, ⟨6, [2, 3], false, false⟩]

/-- the hypotheses of `maxPart_spec` are satisfiable and the operation succeeds -/
example : WfSource srcDemo ∧ EmptyDefsHaveNoInputs srcDemo ∧
    maxPart false srcDemo [1] = some [1, 5, 4, 3] := by decide

/-- the hypotheses of `basis_spec` are satisfiable and the operation succeeds -/
example : WfSource srcDemo ∧ extractBasis srcDemo [6, 6] = some [1, 2, 3, 6] := by decide

example : ∀ u, u ∈ [1, 5, 4, 3] ↔ (srcDemo.contains u = true ∧ InMax srcDemo [1] u) :=
  (maxPart_spec srcDemo [1] _ (by decide) (by decide) (by decide)).1

example : ∀ u, u ∈ [1, 2, 3, 6] ↔ ∃ a ∈ [6, 6], DepOf srcDemo u a :=
  (basis_spec srcDemo [6, 6] _ (by decide) (by decide)).1

end CCVerif.Extract
