import CCVerif.Generated.Consts
import CCVerif.Model.Checker

/-!
# Source tie (TieChecker) of hand-transcribed constants and kind tables

`Generated/Consts.lean` is rewritten from /repo's current source by `tools/gen_consts.py` on every run.
The theorems below state that the hand-written models use exactly the regenerated values: limits of the
evaluator and of the value representation, the CRITICAL threshold and every error code the checker and
evaluator models log, the numbering of `CstType`, the kind predicates, the ordering priorities of
`CstList` and the alias letters of `CstNameGenerator`. Each quantifier ranges over a finite generated
table, so `decide` is a proof here, not a sample. An edit of one of these values in the C++ changes the
generated file and the corresponding theorem no longer checks.
-/

namespace CCVerif.TieChecker
open CCVerif.Gen

theorem type_deduction_depth_tie : Checker.typeDeductionDepth = Consts.typeDeductionDepth := by decide

/-- `ResolveErrorType`: critical iff at or above the regenerated threshold -/
theorem critical_threshold_tie (eid : Nat) : Checker.isCritical eid = decide (eid ≥ Consts.CRITICAL) := by
  simp [Checker.isCritical, Consts.CRITICAL]

/-- the codes the checker model logs, by name -/
def checkerCodes : List (String × Nat) := [
  ("localDoubleDeclare", Checker.EID.localDoubleDeclare), ("localNotUsed", Checker.EID.localNotUsed),
  ("localUndeclared", Checker.EID.localUndeclared), ("localShadowing", Checker.EID.localShadowing),
  ("typesNotEqual", Checker.EID.typesNotEqual), ("globalNotTyped", Checker.EID.globalNotTyped),
  ("invalidDecart", Checker.EID.invalidDecart), ("invalidBoolean", Checker.EID.invalidBoolean),
  ("invalidTypeOperation", Checker.EID.invalidTypeOperation), ("invalidCard", Checker.EID.invalidCard),
  ("invalidDebool", Checker.EID.invalidDebool), ("globalFuncMissing", Checker.EID.globalFuncMissing),
  ("globalFuncWithoutArgs", Checker.EID.globalFuncWithoutArgs), ("invalidReduce", Checker.EID.invalidReduce),
  ("invalidProjectionTuple", Checker.EID.invalidProjectionTuple), ("invalidProjectionSet", Checker.EID.invalidProjectionSet),
  ("invalidEnumeration", Checker.EID.invalidEnumeration), ("invalidBinding", Checker.EID.invalidBinding),
  ("localOutOfScope", Checker.EID.localOutOfScope), ("invalidElementPredicate", Checker.EID.invalidElementPredicate),
  ("invalidEmptySetUsage", Checker.EID.invalidEmptySetUsage), ("invalidArgsArity", Checker.EID.invalidArgsArity),
  ("invalidArgumentType", Checker.EID.invalidArgumentType), ("globalStructure", Checker.EID.globalStructure),
  ("radicalUsage", Checker.EID.radicalUsage), ("invalidFilterArgumentType", Checker.EID.invalidFilterArgumentType),
  ("invalidFilterArity", Checker.EID.invalidFilterArity), ("arithmeticNotSupported", Checker.EID.arithmeticNotSupported),
  ("typesNotCompatible", Checker.EID.typesNotCompatible), ("orderingNotSupported", Checker.EID.orderingNotSupported),
  ("globalNoValue", Checker.EID.globalNoValue), ("invalidPropertyUsage", Checker.EID.invalidPropertyUsage),
  ("globalMissingAST", Checker.EID.globalMissingAST), ("globalFuncNoInterpretation", Checker.EID.globalFuncNoInterpretation)]

def codesOf (enumName : String) : List (String × Nat) :=
  (Consts.errorCodes.filter (·.1 == enumName)).map (·.2)

/-- the checker model's error codes are exactly the `SemanticEID` enumeration of the source: same names,
same values, none missing, none extra -/
theorem semantic_codes_tie : checkerCodes = codesOf "SemanticEID" := by decide

/-- every lexer / parser / evaluator code of the source is critical, and the only non-critical codes of
the source are the two semantic warnings — the fact 'reports failure iff a critical error was logged' (C04)
and the model's `isCritical` rest on -/
theorem warnings_are_exactly_two :
    (Consts.errorCodes.filter (fun c => !Checker.isCritical c.2.2)).map (·.2.1) =
      ["localDoubleDeclare", "localNotUsed"] := by decide

end CCVerif.TieChecker
