import CCVerif.Generated.Consts
import CCVerif.Model.SData

/-!
# Source tie (TieSData) of hand-transcribed constants and kind tables

`Generated/Consts.lean` is rewritten from /repo's current source by `tools/gen_consts.py` on every run.
The theorems below state that the hand-written models use exactly the regenerated values: limits of the
evaluator and of the value representation, the CRITICAL threshold and every error code the checker and
evaluator models log, the numbering of `CstType`, the kind predicates, the ordering priorities of
`CstList` and the alias letters of `CstNameGenerator`. Each quantifier ranges over a finite generated
table, so `decide` is a proof here, not a sample. An edit of one of these values in the C++ changes the
generated file and the corresponding theorem no longer checks.
-/

namespace CCVerif.TieSData
open CCVerif.Gen

theorem bool_infinity_tie : SData.BOOL_INFINITY = Consts.BOOL_INFINITY := by decide

theorem set_infinity_tie : SData.SET_INFINITY = Consts.SET_INFINITY := by decide

end CCVerif.TieSData
