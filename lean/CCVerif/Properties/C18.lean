import CCVerif.Generated.AnalyserState
/-!
# C18 — reused analysers are history-independent

Two layers.
1. *Structural (translator)*: `Generated/AnalyserState.lean` is re-extracted from /repo on every run:
   the data members of the long-lived analyser classes (TypeAuditor, ValueAuditor,
   ASTInterpreter, ParserState, ErrorLogger, Auditor, Interpreter) joined with the committed
   classification, and whether the class's reset function assigns the member. The theorems below
   are re-proved against what the source says now: a new member that nobody classified, or a
   per-run member the reset function forgets, breaks the build.
2. *Frame argument*: an analyser whose entry point first assigns every per-run member a value that
   does not depend on the previous state answers independently of its history.
Semantic agreement of reused and fresh objects on actual inputs is checked by the harness
(call-by-call comparison); state inside the RE-flex / bison objects is covered only there.
-/
namespace CCVerif.AnalyserState

/-- every data member of the analyser classes is classified -/
theorem all_classified : ∀ r ∈ table, r.kind ≠ .unclassified := by decide

/-- every per-run member is assigned by the reset function of its class -/
theorem perRun_cleared : ∀ r ∈ table, r.kind = .perRun → r.reset = true := by decide

/-- configuration members are not touched by the reset function (they carry the context) -/
theorem config_kept : ∀ r ∈ table, r.kind = .config → r.reset = false := by decide

/-- the table is non-trivial: it lists the classes the property names -/
theorem classes_present :
    ∀ c ∈ ["TypeAuditor", "ValueAuditor", "ASTInterpreter", "ParserState", "ErrorLogger", "Auditor", "Interpreter"],
      ∃ r ∈ table, r.cls = c ∧ r.kind = .perRun := by decide

/-! ## frame argument -/

/-- an analyser: configuration `Cfg`, per-run state `Per`; `body` is one analysis run started from
the reset per-run state -/
structure Analyser (Cfg Per In Out : Type) where
  resetTo : Per
  body : Cfg → Per → In → Per × Out

/-- the entry point: reset, then run -/
def Analyser.call {Cfg Per In Out : Type} (a : Analyser Cfg Per In Out) (cfg : Cfg) (_old : Per) (i : In) : Per × Out :=
  a.body cfg a.resetTo i

/-- per-run state after a history of calls -/
def Analyser.after {Cfg Per In Out : Type} (a : Analyser Cfg Per In Out) (cfg : Cfg) (p : Per) : List In → Per
  | [] => p
  | i :: rest => a.after cfg (a.call cfg p i).1 rest

/-- **history_independent**: the answer to an input does not depend on the inputs processed
before — it equals the answer of a freshly constructed analyser (any initial per-run state). -/
theorem history_independent {Cfg Per In Out : Type} (a : Analyser Cfg Per In Out) (cfg : Cfg)
    (fresh used : Per) (history : List In) (i : In) :
    (a.call cfg (a.after cfg used history) i).2 = (a.call cfg fresh i).2 := rfl

end CCVerif.AnalyserState
