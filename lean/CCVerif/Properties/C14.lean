import CCVerif.Model.Graph
/-!
# C14 — dependency-graph queries are exact for every graph and update history

Specification side: the mathematical digraph `(V, E)` with `E` a list of uid pairs, paths as an
inductive relation. Statements quantify over every history `ops : List Op` (no bound).
Full statements are `def …_statement : Prop`; what is proved so far is a `theorem`.
-/
namespace CCVerif.Graph

/-! ## the mathematical digraph -/

/-- reflexive-transitive reachability along edges of `E` -/
inductive Reach (E : List (Nat × Nat)) : Nat → Nat → Prop
  | refl (a : Nat) : Reach E a a
  | step {a b c : Nat} : (a, b) ∈ E → Reach E b c → Reach E a c

/-- reachability by a path of length ≥ 1 -/
def ReachPlus (E : List (Nat × Nat)) (a c : Nat) : Prop := ∃ b, (a, b) ∈ E ∧ Reach E b c

def Cyclic (E : List (Nat × Nat)) : Prop := ∃ v, ReachPlus E v v

/-- `a` and `b` lie on a common cycle (same SCC, and that SCC contains a cycle) -/
def SameLoop (E : List (Nat × Nat)) (a b : Nat) : Prop := ReachPlus E a b ∧ ReachPlus E b a

/-- abstract effect of an update on `(V, E)` (as sets) -/
def specV (V : List Nat) : Op → List Nat
  | .addItem u => u :: V
  | .eraseItem u => V.filter (· ≠ u)
  | .addConnection s d => s :: d :: V
  | .setItemInputs u srcs => u :: (srcs ++ V)
  | .clear => []

def specE (E : List (Nat × Nat)) : Op → List (Nat × Nat)
  | .addItem _ => E
  | .eraseItem u => E.filter (fun e => e.1 ≠ u ∧ e.2 ≠ u)
  | .addConnection s d => (s, d) :: E
  | .setItemInputs u srcs => srcs.map (·, u) ++ E.filter (fun e => e.2 ≠ u)
  | .clear => []

/-- the argument of `SetItemInputs` is a `std::unordered_set`: no duplicates -/
def WfOp : Op → Prop
  | .setItemInputs _ srcs => srcs.Nodup
  | _ => True
def WfOps (ops : List Op) : Prop := ∀ op ∈ ops, WfOp op

/-! ## full statements -/

/-- every history refines the abstract digraph: same vertex set, same edge set -/
def history_refines_statement : Prop :=
  ∀ (ops : List Op) (op : Op), WfOps ops → WfOp op →
    (∀ u, u ∈ liveUids (applyOp (run ops) op) ↔ u ∈ specV (liveUids (run ops)) op) ∧
    (∀ e, e ∈ edges (applyOp (run ops) op) ↔ e ∈ specE (edges (run ops)) op)

/-- no duplicate vertices or edges, so the counts are the cardinalities -/
def counts_statement : Prop :=
  ∀ ops : List Op, WfOps ops → (liveUids (run ops)).Nodup ∧ (edges (run ops)).Nodup ∧
    itemsCount (run ops) = (liveUids (run ops)).length ∧
    connectionsCount (run ops) = (edges (run ops)).length

def simple_queries_statement : Prop :=
  ∀ (ops : List Op) (a b : Nat), WfOps ops →
    (contains (run ops) a = true ↔ a ∈ liveUids (run ops)) ∧
    (connectionExists (run ops) a b = true ↔ (a, b) ∈ edges (run ops)) ∧
    (∀ s, s ∈ inputsFor (run ops) a ↔ (s, a) ∈ edges (run ops))

def expand_statement : Prop :=
  ∀ (ops : List Op) (S : List Nat) (u : Nat), WfOps ops →
    (u ∈ expandOutputs (run ops) S ↔ ∃ s ∈ S, s ∈ liveUids (run ops) ∧ Reach (edges (run ops)) s u) ∧
    (u ∈ expandInputs (run ops) S ↔ ∃ s ∈ S, s ∈ liveUids (run ops) ∧ Reach (edges (run ops)) u s)

def isReachableFrom_statement : Prop :=
  ∀ (ops : List Op) (d s : Nat), WfOps ops → s ≠ d →
    (isReachableFrom (run ops) d s = true ↔ ReachPlus (edges (run ops)) s d)

def hasLoop_statement : Prop :=
  ∀ ops : List Op, WfOps ops → hasLoop (run ops) = true ↔ Cyclic (edges (run ops))

def topologicalOrder_statement : Prop :=
  ∀ ops : List Op, WfOps ops →
    (topologicalOrder (run ops)).Perm (liveUids (run ops)) ∧
    (¬ Cyclic (edges (run ops)) → ∀ a b, (a, b) ∈ edges (run ops) →
      (topologicalOrder (run ops)).idxOf a < (topologicalOrder (run ops)).idxOf b)

def sort_statement : Prop :=
  ∀ (ops : List Op) (S : List Nat), S ≠ [] →
    sort (run ops) S = (topologicalOrder (run ops)).filter (S.contains ·)

/-- loop groups are exactly the strongly connected components that contain a cycle -/
def loopGroups_statement : Prop :=
  ∀ ops : List Op, WfOps ops →
    (∀ grp ∈ getAllLoopsItems (run ops), ∀ a ∈ grp, ∀ b, (b ∈ grp ↔ SameLoop (edges (run ops)) a b)) ∧
    (∀ a, SameLoop (edges (run ops)) a a → ∃ grp ∈ getAllLoopsItems (run ops), a ∈ grp) ∧
    (getAllLoopsItems (run ops)).Pairwise (fun g1 g2 => ∀ a ∈ g1, a ∉ g2) ∧
    (∀ grp ∈ getAllLoopsItems (run ops), grp ≠ [] ∧ grp.Nodup)

/-! ## proved -/

/-- `Sort` is by definition the restriction of `TopologicalOrder` (empty input ⇒ empty). -/
theorem sort_spec : sort_statement := by
  intro ops S hS
  unfold sort
  cases S with
  | nil => exact absurd rfl hS
  | cons x xs => simp

/-- The graph with edges 1→3, 1→2, 2→1 (inserted in that order). -/
def g132 : G := run [.addConnection 1 3, .addConnection 1 2, .addConnection 2 1]

/-- **loopGroups_counterexample** (code as pinned, before the `fix:` commit): following
`outputs` from the vertices in DFS finishing order merges the acyclic vertex 3 into the group
of the cycle {1,2}; `SameLoop` fails for 3. -/
theorem loopGroups_counterexample :
    groupsFwd g132 = [[2, 1, 3]] ∧ ¬ SameLoop (edges g132) 3 3 := by
  refine ⟨by decide, ?_⟩
  rintro ⟨⟨b, hb, _⟩, _⟩
  have : edges g132 = [(1, 3), (1, 2), (2, 1)] := by decide
  rw [this] at hb
  simp at hb

/-- the repaired algorithm on the same graph -/
theorem loopGroups_repaired_example : getAllLoopsItems g132 = [[1, 2]] := by decide

end CCVerif.Graph
