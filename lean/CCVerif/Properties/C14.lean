import CCVerif.Model.GraphSpec
import CCVerif.Lemmas.GraphA
import CCVerif.Lemmas.GraphDFS
/-!
# C14 — dependency-graph queries are exact for every graph and update history

Specification side: the mathematical digraph `(V, E)` with `E` a list of uid pairs, paths as an
inductive relation. Statements quantify over every history `ops : List Op` (no bound).
Full statements are `def …_statement : Prop`; what is proved so far is a `theorem`.
-/
namespace CCVerif.Graph

/-! ## the mathematical digraph

`Reach`, `ReachPlus`, `Cyclic`, `SameLoop`, `specV`, `specE`, `WfOp`, `WfOps` live in
`CCVerif/Model/GraphSpec.lean` (namespace `CCVerif.Graph`, unchanged). -/

/-! ## full statements -/

/-- every history refines the abstract digraph: same vertex set, same edge set -/
def history_refines_statement : Prop :=
  ∀ (ops : List Op) (op : Op), WfOps ops → WfOp op →
    (∀ u, u ∈ liveUids (applyOp (run ops) op) ↔ u ∈ specV (liveUids (run ops)) op) ∧
    (∀ e, e ∈ edges (applyOp (run ops) op) ↔ e ∈ specE (edges (run ops)) op)

/-- no duplicate vertices or edges, so the counts are the cardinalities -/
def counts_statement : Prop :=
  ∀ ops : List Op, WfOps ops → (liveUids (run ops)).Nodup ∧ (edges (run ops)).Nodup ∧
    itemsCount (run ops) = (liveUids (run ops)).length ∧
    connectionsCount (run ops) = (edges (run ops)).length

def simple_queries_statement : Prop :=
  ∀ (ops : List Op) (a b : Nat), WfOps ops →
    (contains (run ops) a = true ↔ a ∈ liveUids (run ops)) ∧
    (connectionExists (run ops) a b = true ↔ (a, b) ∈ edges (run ops)) ∧
    (∀ s, s ∈ inputsFor (run ops) a ↔ (s, a) ∈ edges (run ops))

/-- the argument of `ExpandOutputs` / `ExpandInputs` is a `std::unordered_set` (`S.Nodup`);
for a list with duplicates the model's fuel `g.length + 1` would not suffice -/
def expand_statement : Prop :=
  ∀ (ops : List Op) (S : List Nat) (u : Nat), WfOps ops → S.Nodup →
    (u ∈ expandOutputs (run ops) S ↔ ∃ s ∈ S, s ∈ liveUids (run ops) ∧ Reach (edges (run ops)) s u) ∧
    (u ∈ expandInputs (run ops) S ↔ ∃ s ∈ S, s ∈ liveUids (run ops) ∧ Reach (edges (run ops)) u s)

def isReachableFrom_statement : Prop :=
  ∀ (ops : List Op) (d s : Nat), WfOps ops → s ≠ d →
    (isReachableFrom (run ops) d s = true ↔ ReachPlus (edges (run ops)) s d)

def hasLoop_statement : Prop :=
  ∀ ops : List Op, WfOps ops → (hasLoop (run ops) = true ↔ Cyclic (edges (run ops)))

def topologicalOrder_statement : Prop :=
  ∀ ops : List Op, WfOps ops →
    (topologicalOrder (run ops)).Perm (liveUids (run ops)) ∧
    (¬ Cyclic (edges (run ops)) → ∀ a b, (a, b) ∈ edges (run ops) →
      (topologicalOrder (run ops)).idxOf a < (topologicalOrder (run ops)).idxOf b)

def sort_statement : Prop :=
  ∀ (ops : List Op) (S : List Nat), S ≠ [] →
    sort (run ops) S = (topologicalOrder (run ops)).filter (S.contains ·)

/-- loop groups are exactly the strongly connected components that contain a cycle -/
def loopGroups_statement : Prop :=
  ∀ ops : List Op, WfOps ops →
    (∀ grp ∈ getAllLoopsItems (run ops), ∀ a ∈ grp, ∀ b, (b ∈ grp ↔ SameLoop (edges (run ops)) a b)) ∧
    (∀ a, SameLoop (edges (run ops)) a a → ∃ grp ∈ getAllLoopsItems (run ops), a ∈ grp) ∧
    (getAllLoopsItems (run ops)).Pairwise (fun g1 g2 => ∀ a ∈ g1, a ∉ g2) ∧
    (∀ grp ∈ getAllLoopsItems (run ops), grp ≠ [] ∧ grp.Nodup)

/-! ## proved -/

/-- History used for the non-vacuity examples: a self-loop (1→1), an erase followed by a
re-insertion of the same uid (2), and a `SetItemInputs`. -/
def histA : List Op :=
  [.addConnection 1 1, .addConnection 1 2, .addConnection 2 3, .eraseItem 2, .addItem 2,
   .setItemInputs 3 [1, 2], .addConnection 3 1]

private theorem histA_wf : WfOps histA := by
  intro op hop
  simp only [histA, List.mem_cons, List.not_mem_nil, or_false] at hop
  rcases hop with rfl | rfl | rfl | rfl | rfl | rfl | rfl <;> simp [WfOp]

/-- the representation invariant holds after every well-formed history -/
theorem inv_of_history (ops : List Op) (hw : WfOps ops) : Inv (run ops) := inv_run hw

/-- Every history refines the abstract digraph (vertex set and edge set of each update). -/
theorem history_refines : history_refines_statement := history_refines_run

example : WfOp (.eraseItem 1) ∧
    liveUids (applyOp (run histA) (.eraseItem 1)) = [3, 2] ∧
    edges (applyOp (run histA) (.eraseItem 1)) = [(2, 3)] ∧
    specE (edges (run histA)) (.eraseItem 1) = [(2, 3)] :=
  ⟨trivial, by decide, by decide, by decide⟩
example := history_refines histA (.eraseItem 1) histA_wf trivial

/-- No duplicate vertices or edges; the two counters are the cardinalities. -/
theorem counts : counts_statement := counts_run

example : liveUids (run histA) = [1, 3, 2] ∧ edges (run histA) = [(1, 1), (1, 3), (3, 1), (2, 3)] ∧
    itemsCount (run histA) = 3 ∧ connectionsCount (run histA) = 4 := by decide
example := counts histA histA_wf

/-- `Contains`, `ConnectionExists`, `InputsFor` agree with the abstract digraph. -/
theorem simple_queries : simple_queries_statement := simple_queries_run

example : contains (run histA) 2 = true ∧ contains (run histA) 7 = false ∧
    connectionExists (run histA) 1 1 = true ∧ connectionExists (run histA) 1 2 = false ∧
    inputsFor (run histA) 3 = [1, 2] ∧ inputsFor (run histA) 2 = [] := by decide
example := simple_queries histA 3 1 histA_wf

/-- `ExpandOutputs` / `ExpandInputs` compute exactly the (reflexive-transitive) closure of the
live members of a duplicate-free input. -/
theorem expand : expand_statement := expand_run

example : expandOutputs (run histA) [2, 9] = [2, 3, 1] ∧ expandInputs (run histA) [2, 9] = [2] ∧
    expandInputs (run histA) [1] = [1, 3, 2] := by decide
example : Reach (edges (run histA)) 2 1 := by
  have : edges (run histA) = [(1, 1), (1, 3), (3, 1), (2, 3)] := by decide
  rw [this]
  exact .step (b := 3) (by simp) (.step (b := 1) (by simp) (.refl 1))
example := expand histA [2, 9] 1 histA_wf (by decide)

/-- `IsReachableFrom(dest, source)` for `source ≠ dest` is reachability by a non-empty path. -/
theorem isReachableFrom_spec : isReachableFrom_statement := isReachableFrom_run

example : isReachableFrom (run histA) 1 2 = true ∧ isReachableFrom (run histA) 2 1 = false ∧
    isReachableFrom (run histA) 3 1 = true := by decide
example := isReachableFrom_spec histA 1 2 histA_wf (by decide)

/-- `Sort` is by definition the restriction of `TopologicalOrder` (empty input ⇒ empty). -/
theorem sort_spec : sort_statement := by
  intro ops S hS
  unfold sort
  cases S with
  | nil => exact absurd rfl hS
  | cons x xs => simp

/-- The graph with edges 1→3, 1→2, 2→1 (inserted in that order). -/
def g132 : G := run [.addConnection 1 3, .addConnection 1 2, .addConnection 2 1]

/-- **loopGroups_counterexample** (code as pinned, before the `fix:` commit): following
`outputs` from the vertices in DFS finishing order merges the acyclic vertex 3 into the group
of the cycle {1,2}; `SameLoop` fails for 3. -/
theorem loopGroups_counterexample :
    groupsFwd g132 = [[2, 1, 3]] ∧ ¬ SameLoop (edges g132) 3 3 := by
  refine ⟨by decide, ?_⟩
  rintro ⟨⟨b, hb, _⟩, _⟩
  have : edges g132 = [(1, 3), (1, 2), (2, 1)] := by decide
  rw [this] at hb
  simp at hb

/-- the repaired algorithm on the same graph -/
theorem loopGroups_repaired_example : getAllLoopsItems g132 = [[1, 2]] := by decide

/-! ## the three depth-first searches (`HasLoop`, `TopologicalOrder`, `GetAllLoopsItems`)

Per-graph form: for EVERY graph `g` that satisfies the representation invariant `Inv g`
(`Lemmas/GraphInv.lean`; every history yields such a graph — proved separately), not only for
graphs of the form `run ops`. Proofs in `Lemmas/GraphDFS.lean`; the fuel `dfsFuel g` of the model's
loops is shown to suffice there. -/

/-- `HasLoop` answers `true` exactly when the represented digraph has a cycle. -/
theorem hasLoop_spec (g : G) (h : Inv g) : hasLoop g = true ↔ Cyclic (edges g) :=
  DFS.hasLoop_spec g h

/-- `TopologicalOrder` lists every live uid exactly once, and in an acyclic graph every edge
`(a, b)` has `a` before `b`. -/
theorem topologicalOrder_spec (g : G) (h : Inv g) :
    (topologicalOrder g).Perm (liveUids g) ∧
    (¬ Cyclic (edges g) → ∀ a b, (a, b) ∈ edges g →
      (topologicalOrder g).idxOf a < (topologicalOrder g).idxOf b) :=
  DFS.topologicalOrder_spec g h

/-- `GetAllLoopsItems` (after the `fix:` commit: Kosaraju's second pass) returns exactly the
strongly connected components that contain a cycle, each once, without repetitions. -/
theorem loopGroups_spec (g : G) (h : Inv g) :
    (∀ grp ∈ getAllLoopsItems g, ∀ a ∈ grp, ∀ b, (b ∈ grp ↔ SameLoop (edges g) a b)) ∧
    (∀ a, SameLoop (edges g) a a → ∃ grp ∈ getAllLoopsItems g, a ∈ grp) ∧
    (getAllLoopsItems g).Pairwise (fun g1 g2 => ∀ a ∈ g1, a ∉ g2) ∧
    (∀ grp ∈ getAllLoopsItems g, grp ≠ [] ∧ grp.Nodup) :=
  DFS.loopGroups_spec g h

/-- The auxiliary order is a duplicate-free enumeration of exactly the live slots. -/
theorem internalOrder_spec (g : G) (h : Inv g) :
    (internalOrder g).Nodup ∧ ∀ i, i ∈ internalOrder g ↔ i < g.length ∧ (vx g i).valid = true :=
  ⟨internalOrder_nodup h, mem_internalOrder h⟩

/-! ### non-vacuity: concrete graphs satisfying `Inv` -/

/-- acyclic, with an erased vertex (tombstone) and an isolated vertex:
edges 1→2, 1→3, 3→2, 3→5; vertex 4 erased, vertex 6 isolated -/
def gDag : G := run [.addConnection 1 2, .addConnection 1 3, .addConnection 4 1, .addConnection 3 2,
  .setItemInputs 5 [3], .eraseItem 4, .addItem 6]

/-- two loops {1,2} and {4,5,6}, a self-loop 7, and the acyclic vertices 3, 8 -/
def gLoops : G := run [.addConnection 1 3, .addConnection 1 2, .addConnection 2 1,
  .addConnection 3 4, .addConnection 4 5, .addConnection 5 6, .addConnection 6 4,
  .addConnection 7 7, .addConnection 6 8]

theorem inv_g132 : Inv g132 := inv_of_invD (by decide)
theorem inv_gDag : Inv gDag := inv_of_invD (by decide)
theorem inv_gLoops : Inv gLoops := inv_of_invD (by decide)

-- `hasLoop_spec`, both answers
example : hasLoop g132 = true ∧ Cyclic (edges g132) :=
  ⟨by decide, (hasLoop_spec g132 inv_g132).1 (by decide)⟩
example : hasLoop gDag = false ∧ ¬ Cyclic (edges gDag) :=
  ⟨by decide, fun hc => absurd ((hasLoop_spec gDag inv_gDag).2 hc) (by decide)⟩

-- `topologicalOrder_spec`: the acyclic hypothesis is satisfiable and the order is non-trivial
example : topologicalOrder gDag = [6, 1, 3, 2, 5] ∧ liveUids gDag = [1, 2, 3, 5, 6] ∧
    edges gDag = [(1, 2), (1, 3), (3, 2), (3, 5)] ∧ ¬ Cyclic (edges gDag) :=
  ⟨by decide, by decide, by decide,
    fun hc => absurd ((hasLoop_spec gDag inv_gDag).2 hc) (by decide)⟩

-- `loopGroups_spec`: several groups, a self-loop group, and vertices in no group
example : getAllLoopsItems gLoops = [[7], [1, 2], [4, 6, 5]] ∧
    SameLoop (edges gLoops) 4 5 ∧ ¬ SameLoop (edges gLoops) 3 3 := by
  obtain ⟨h1, h2, _, _⟩ := loopGroups_spec gLoops inv_gLoops
  have hg : getAllLoopsItems gLoops = [[7], [1, 2], [4, 6, 5]] := by decide
  refine ⟨hg, ?_, ?_⟩
  · exact (h1 [4, 6, 5] (by rw [hg]; simp) 4 (by simp) 5).1 (by simp)
  · intro h33
    obtain ⟨grp, hgrp, h3⟩ := h2 3 h33
    rw [hg] at hgrp
    simp only [List.mem_cons, List.not_mem_nil, or_false] at hgrp
    rcases hgrp with rfl | rfl | rfl <;> simp at h3

/-! ### the history statements

Every well-formed history yields a graph satisfying `Inv` (`inv_of_history`), so the three
per-graph theorems give the statements over all histories. -/

/-- **hasLoop_history**: after any history `HasLoop` answers exactly "the digraph has a cycle". -/
theorem hasLoop_history : hasLoop_statement :=
  fun ops hw => hasLoop_spec (run ops) (inv_of_history ops hw)

/-- **topologicalOrder_history** -/
theorem topologicalOrder_history : topologicalOrder_statement :=
  fun ops hw => topologicalOrder_spec (run ops) (inv_of_history ops hw)

/-- **loopGroups_history**: after any history the loop groups are exactly the strongly connected
components that contain a cycle. -/
theorem loopGroups_history : loopGroups_statement :=
  fun ops hw => loopGroups_spec (run ops) (inv_of_history ops hw)

end CCVerif.Graph
