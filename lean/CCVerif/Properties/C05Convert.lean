import CCVerif.Lemmas.Convert
import CCVerif.Lemmas.ConvertIdem
import CCVerif.Properties.C05
/-!
# C05 — the conversion entry point `ccl::rslang::ConvertTo`

"…Consequently, for expressions whose local names stay distinct under that transliteration, converting to the other
syntax and back preserves the meaning, and conversion is idempotent."

Model: `Model/Convert.lean` (`convertTo`, `convertTwice`, `parseBytes`, `estimateSyntax`; the byte table of
`Parser::EstimateSyntax` is regenerated into `Generated/SyntaxHints.lean` on every run), tied to the real code by the ops
`c05 convert / convback / convidem`. The theorems below are about byte strings: a printed text (units) becomes bytes by
`bytesOf` (UTF-8), the MATH lexer reads the decoded bytes.

* Part 1 `convert_of_printed…`: on the proved fragment `E3`, converting the text printed in one syntax yields exactly the text
  printed in the other syntax, of the same tree.
* Part 2 `convert_there_and_back…`: there and back gives a text that parses to the tree with local names transliterated once;
  the same TEXT when the names are ASCII already. Which hypothesis is "local names stay distinct": `TranslitDistinct`, needed
  only to read the result as "the same meaning" (`translit_renaming_invertible`).
* Part 3 idempotence: FALSE in general (`convert_not_idempotent_star`, `convert_not_idempotent_empty_definition`: recorded
  finding C05-convert-twice-ambiguous); proved when the converted text does not parse in the opposite syntax
  (`convert_idempotent_partial`), in particular for EVERY input whose MATH conversion contains a non-ASCII byte
  (`convert_idempotent_math_non_ascii`, from `ascii_lexer_rejects_non_ascii`).
* Part 4 `estimateSyntax_spec`, `hintOf_spec`.
* Part 5 top-level forms (function definitions, global declarations): `convert_of_printed_top`, `convert_there_and_back_same_top`.
* Part 6 idempotence towards ASCII through parser-FAILURE theorems: `math_parser_rejects_leading_backslash` (a text starting with
  `\`), `parser_rejects_adjacent_operands` (a necessary condition for acceptance: without a quantifier token no identifier /
  literal is directly followed by the start of an operand; `Lemmas/ParseReject.lean`), `math_parser_rejects_adjacent_operands`
  (texts of ASCII units, decidable condition on the MATH token stream) ⇒ `convert_idempotent_ascii_adjacent` (all inputs),
  `convert_idempotent_ascii_fragment_partial1` (formulas starting with `¬ ∀ ∃`, unconditional), `…_partial2` / `…_top_partial`
  (the condition checked on the printed text). Open: that EVERY fragment tree with a backslash word meets the condition
  (`convert_idempotent_ascii_fragment_statement`).
-/
namespace CCVerif.C05
open CCVerif.Syntax CCVerif.Generated CCVerif.Lexer CCVerif.Parser CCVerif.Printer CCVerif.Convert CCVerif.ConvertL
open CCVerif.PP3 (E3)

/-! ## Part 4 — `Parser::EstimateSyntax` -/

/-- **estimateSyntax_spec**: the estimate is MATH exactly when some byte of the text hints MATH (otherwise ASCII — there is
no third outcome: `estimateSyntax_ascii`). -/
theorem estimateSyntax_spec (bs : List Nat) : estimateSyntax bs = .math ↔ ∃ b ∈ bs, hintOf b = 1 := by
  unfold estimateSyntax
  split
  · rename_i h
    simp only [List.any_eq_true, beq_iff_eq] at h
    simp [h]
  · rename_i h
    simp only [List.any_eq_true, beq_iff_eq] at h
    simp [h]

theorem estimateSyntax_ascii (bs : List Nat) : estimateSyntax bs = .ascii ↔ ∀ b ∈ bs, hintOf b ≠ 1 := by
  have h := estimateSyntax_spec bs
  constructor
  · intro ha b hb h1
    have := h.mpr ⟨b, hb, h1⟩
    rw [ha] at this; cases this
  · intro hall
    cases he : estimateSyntax bs with
    | ascii => rfl
    | math => obtain ⟨b, hb, h1⟩ := h.mp he; exact absurd h1 (hall b hb)

private theorem hints_table :
    (∀ b ∈ List.range 256, hintOf b = 1 ↔ (b ∈ [38, 43, 45, 60, 61, 62] ∨ 128 ≤ b)) ∧
    CCVerif.Gen.SyntaxHints.syntaxHints.length = 256 := by
  decide +kernel

/-- **hintOf_spec** (regenerated table `symbolHints`, decided over all 256 byte values): a byte hints MATH exactly when it is
one of `& + - < = >` or is ≥ 0x80 (a byte of a multi-byte UTF-8 sequence); no byte hints ASCII outright — the estimate is
ASCII only by default. -/
theorem hintOf_spec (b : Nat) (hb : b < 256) : hintOf b = 1 ↔ (b ∈ [38, 43, 45, 60, 61, 62] ∨ 128 ≤ b) :=
  hints_table.1 b (List.mem_range.mpr hb)

/-- the same facts in the form of the task: every byte ≥ 0x80 hints MATH; among the bytes < 0x80 exactly `& + - < = >` do;
every entry is UNDEF (0) or MATH (1) -/
theorem hint_table_facts :
    (∀ b ∈ List.range 256, 128 ≤ b → hintOf b = 1) ∧
    (List.range 128).filter (fun b => hintOf b == 1) = [38, 43, 45, 60, 61, 62] ∧
    (∀ b ∈ List.range 256, hintOf b = 0 ∨ hintOf b = 1) := by
  decide +kernel

/-- consequence: a text with a non-ASCII byte is estimated MATH; a text without the six symbols and without non-ASCII
bytes is estimated ASCII -/
theorem estimateSyntax_non_ascii (bs : List Nat) (hb : ∀ b ∈ bs, b < 256) (h : ∃ b ∈ bs, 128 ≤ b) :
    estimateSyntax bs = .math := by
  obtain ⟨b, hm, h128⟩ := h
  exact (estimateSyntax_spec bs).mpr ⟨b, hm, (hintOf_spec b (hb b hm)).mpr (Or.inr h128)⟩

example : estimateSyntax (bytesOf (units "X1∪X2")) = .math :=
  estimateSyntax_non_ascii _ (by decide +kernel) ⟨0xE2, by decide +kernel, by decide⟩

example : estimateSyntax (bytesOf (units "X1∪X2")) = .math ∧ estimateSyntax (bytesOf (units "X1 \\union X2")) = .ascii ∧
    estimateSyntax (bytesOf (units "a=b")) = .math := by
  decide +kernel

/-! ## Part 1 — converting a printed text gives the text printed in the other syntax -/

/-- `t` is, up to positions, the tree of the well-formed set phrase or formula `e` of the fragment `E3` whose leaves conform
to the lexer of `syn` (the hypotheses of `parse_print_text_fragment3`) -/
def FragmentTree (syn : Syn) (t : Ast) (e : E3) : Prop :=
  CCVerif.PE.erA t = e.ast ∧ e.wf = true ∧ (e.isS = true ∨ e.isL = true) ∧ e.lexOK syn = true

/-- **convert_of_printed** (one direction, minimal hypotheses): `t` a fragment tree with leaves conformant to the SOURCE syntax
`s` only (so for `s` = MATH Greek local names are allowed), and the printer not stuck on `t` in the target syntax. Then the text
printed in `s`, as bytes, is converted by `ConvertTo(·, other s)` into exactly the bytes of the text printed in the target
syntax for the SAME tree `t` (for the target ASCII that text carries the transliterated local names: `ConvertID` is applied by
the printer, and `print .ascii t = print .ascii (translit .ascii t)`, `print_ascii_translit`).
Chain: the printed text parses to `t` up to positions (`roundtrip_erA` = the `E3` round trip) — its units come back from its
bytes (`unitsOf_bytesOf`: MATH units of an accepted text are scalar values and `decode (encode u) = some u`; ASCII units are
< 128) — the printer does not read positions. -/
theorem convert_of_printed (s : Syn) (t : Ast) (e : E3) (h : FragmentTree s t e) (out : List Nat)
    (hout : print (other s) t = some out) :
    ∃ text, print s t = some text ∧ convertTo (other s) (bytesOf text) = .text (bytesOf out) := by
  obtain ⟨ht, hw, hSL, hl⟩ := h
  obtain ⟨text, t', hp, hparse, her⟩ := roundtrip_erA s t e ht hw hSL hl
  refine ⟨text, hp, convertTo_of_parse s text t' hparse out ?_⟩
  rw [print_of_erA_eq (other s) her]; exact hout

/-- **convert_of_printed_both**: leaves conformant to BOTH lexers (local names are ASCII words): both prints exist and each is
converted into the other. -/
theorem convert_of_printed_both (s : Syn) (t : Ast) (e : E3) (hm : FragmentTree .math t e) (ha : FragmentTree .ascii t e) :
    ∃ text out, print s t = some text ∧ print (other s) t = some out ∧
      convertTo (other s) (bytesOf text) = .text (bytesOf out) := by
  have hs : FragmentTree s t e := by cases s; exact hm; exact ha
  have ho : FragmentTree (other s) t e := by cases s; exact ha; exact hm
  obtain ⟨out, _, hpo, _, _⟩ := roundtrip_erA (other s) t e ho.1 ho.2.1 ho.2.2.1 ho.2.2.2
  obtain ⟨text, hp, hc⟩ := convert_of_printed s t e hs out hpo
  exact ⟨text, out, hp, hpo, hc⟩

/-- the ASCII printer output does not depend on whether the local names have been transliterated already (all trees) -/
theorem print_ascii_translit (t : Ast) : print .ascii (translit .ascii t) = print .ascii t := print_translit t

theorem sampleE3_erA : CCVerif.PE.erA sampleE3.ast = sampleE3.ast := by rfl

/-- non-vacuity: the sample `I{(x, y) | x :∈ X1; (y, z) := R{…}; y≠∅; z := R{…}}∪X2` of `Properties/C05.lean`, both directions -/
example : ∀ s ∈ [Syn.math, .ascii], ∃ text out, print s sampleE3.ast = some text ∧ print (other s) sampleE3.ast = some out ∧
    convertTo (other s) (bytesOf text) = .text (bytesOf out) := by
  intro s _
  have h := fragment3_nonvacuous
  have her : CCVerif.PE.erA sampleE3.ast = sampleE3.ast := sampleE3_erA
  exact convert_of_printed_both s _ sampleE3 ⟨her, h.1, Or.inl h.2.1, h.2.2.1⟩ ⟨her, h.1, Or.inl h.2.1, h.2.2.2.1⟩

/-- `α∈X1 & ∀ξ∈α ξ≠∅` — Greek local names: inside the hypothesis for the source MATH -/
def sampleGreek : E3 :=
  .lbin .AND (.pred .IN (.atom .ID_LOCAL (.text "α")) (.atom .ID_GLOBAL (.text "X1")))
    (.quant .FORALL (.one (.atom .ID_LOCAL (.text "ξ"))) (.atom .ID_LOCAL (.text "α"))
      (.pred .NOTEQUAL (.atom .ID_LOCAL (.text "ξ")) (.atom .LIT_EMPTYSET .none)))

/-- its transliteration `a∈X1 & ∀x∈a x≠∅` -/
def sampleGreekT : E3 :=
  .lbin .AND (.pred .IN (.atom .ID_LOCAL (.text "a")) (.atom .ID_GLOBAL (.text "X1")))
    (.quant .FORALL (.one (.atom .ID_LOCAL (.text "x"))) (.atom .ID_LOCAL (.text "a"))
      (.pred .NOTEQUAL (.atom .ID_LOCAL (.text "x")) (.atom .LIT_EMPTYSET .none)))

theorem sampleGreek_facts :
    sampleGreek.wf = true ∧ sampleGreek.isL = true ∧ sampleGreek.lexOK .math = true ∧ sampleGreek.lexOK .ascii = false ∧
    CCVerif.PE.erA sampleGreek.ast = sampleGreek.ast ∧
    sampleGreekT.ast = translit .ascii sampleGreek.ast ∧
    sampleGreekT.wf = true ∧ sampleGreekT.isL = true ∧ sampleGreekT.lexOK .math = true ∧ sampleGreekT.lexOK .ascii = true ∧
    CCVerif.PE.erA (translit .ascii sampleGreek.ast) = sampleGreekT.ast ∧
    print .ascii sampleGreek.ast = some (units "a \\in X1  \\and   \\A x \\in a x \\noteq {}") :=
  ⟨by decide +kernel, by decide +kernel, by decide +kernel, by decide +kernel, by rfl, by rfl,
    by decide +kernel, by decide +kernel, by decide +kernel, by decide +kernel, by rfl, by decide +kernel⟩

/-- non-vacuity of `convert_of_printed` with Greek names (MATH → ASCII) -/
example : ∃ text, print .math sampleGreek.ast = some text ∧
    convertTo .ascii (bytesOf text) = .text (bytesOf (units "a \\in X1  \\and   \\A x \\in a x \\noteq {}")) := by
  have h := sampleGreek_facts
  exact convert_of_printed .math _ sampleGreek ⟨h.2.2.2.2.1, h.1, Or.inr h.2.1, h.2.2.1⟩ _ h.2.2.2.2.2.2.2.2.2.2.2

/-! ## Part 2 — there and back -/

/-- **convert_there_and_back** (origin MATH, Greek local names allowed). Hypotheses: `t` is a fragment tree with MATH-conformant
leaves; its transliteration `translit .ascii t` is a fragment tree whose leaves conform to both lexers (this is where the
recorded finding C05-translit-keyword is excluded: a name transliterated onto `red`, `card`, `pr1`, … is not an ASCII local
name). Then: the MATH text of `t` is converted to the ASCII text of `t`; converting that back to MATH gives a text that parses
in MATH to `translit .ascii t` up to positions — the tree with every local name transliterated ONCE.
No distinctness hypothesis is needed for this: it enters only when `translit .ascii t` is to be read as "the same meaning
as `t`", see `TranslitDistinct` / `translit_renaming_invertible` below. -/
theorem convert_there_and_back (t : Ast) (e e' : E3) (h : FragmentTree .math t e)
    (ha : FragmentTree .ascii (translit .ascii t) e') (hm : e'.lexOK .math = true) :
    ∃ text asc back t'', print .math t = some text ∧ print .ascii t = some asc ∧
      convertTo .ascii (bytesOf text) = .text (bytesOf asc) ∧
      convertTo .math (bytesOf asc) = .text (bytesOf back) ∧
      parseBytes (some .math) (bytesOf back) = some (some t'') ∧ Ast.eqv t'' (translit .ascii t) = true := by
  obtain ⟨asc, t2, hpa, hparse2, her2⟩ := roundtrip_erA .ascii _ e' ha.1 ha.2.1 ha.2.2.1 ha.2.2.2
  rw [print_translit] at hpa
  obtain ⟨text, hp, hc1⟩ := convert_of_printed .math t e h asc hpa
  obtain ⟨back, t3, hpb, hparse3, her3⟩ := roundtrip_erA .math _ e' ha.1 ha.2.1 ha.2.2.1 hm
  have hc2 : convertTo .math (bytesOf asc) = .text (bytesOf back) :=
    convertTo_of_parse .ascii asc t2 hparse2 back (by rw [print_of_erA_eq _ her2]; exact hpb)
  exact ⟨text, asc, back, t3, hp, hpa, hc1, hc2, parseBytes_bytesOf .math back t3 hparse3, CCVerif.PE.eqv_of_erA_eq her3⟩

/-- non-vacuity: `α∈X1 & ∀ξ∈α ξ≠∅` comes back as `a∈X1 & ∀x∈a x≠∅` -/
example : ∃ text asc back t'', print .math sampleGreek.ast = some text ∧ print .ascii sampleGreek.ast = some asc ∧
    convertTo .ascii (bytesOf text) = .text (bytesOf asc) ∧ convertTo .math (bytesOf asc) = .text (bytesOf back) ∧
    parseBytes (some .math) (bytesOf back) = some (some t'') ∧ Ast.eqv t'' (translit .ascii sampleGreek.ast) = true := by
  have h := sampleGreek_facts
  exact convert_there_and_back _ sampleGreek sampleGreekT ⟨h.2.2.2.2.1, h.1, Or.inr h.2.1, h.2.2.1⟩
    ⟨h.2.2.2.2.2.2.2.2.2.2.1, h.2.2.2.2.2.2.1, Or.inr h.2.2.2.2.2.2.2.1, h.2.2.2.2.2.2.2.2.2.1⟩ h.2.2.2.2.2.2.2.2.1

/-- **"local names stay distinct under the transliteration"**: `ConvertID` is injective on the local names that occur in `t` -/
def TranslitDistinct (t : Ast) : Prop :=
  ∀ a ∈ localNames t, ∀ b ∈ localNames t, translitName a = translitName b → a = b

/-- the transliterated tree is `t` with its local names renamed by `ConvertID` — nothing else changes (all trees) -/
theorem translit_is_renaming (t : Ast) : translit .ascii t = renameLocals translitName t := translit_eq_rename t

/-- **translit_renaming_invertible** — the role of the distinctness hypothesis: when the local names of `t` stay distinct, the
renaming is invertible on `t` (some renaming `g` of local names takes `translit .ascii t` back to `t`), i.e. the tree obtained by
converting there and back is `t` up to a one-to-one renaming of its local names: the same meaning. -/
theorem translit_renaming_invertible (t : Ast) (h : TranslitDistinct t) :
    ∃ g : String → String, renameLocals g (translit .ascii t) = t := by
  refine ⟨invOn translitName (localNames t), ?_⟩
  rw [translit_eq_rename]
  exact rename_inv _ _ t (invOn_spec _ _ h)

/-- non-vacuity: the names `α`, `ξ` of the sample stay distinct (`a`, `x`) -/
example : TranslitDistinct sampleGreek.ast := by
  have hn : localNames sampleGreek.ast = ["α", "ξ", "α", "ξ"] := by rfl
  have ha : translitName "α" = "a" := by rfl
  have hx : translitName "ξ" = "x" := by rfl
  intro a ha' b hb' hab
  rw [hn] at ha' hb'
  simp only [List.mem_cons, List.not_mem_nil, or_false] at ha' hb'
  rcases ha' with rfl | rfl | rfl | rfl <;> rcases hb' with rfl | rfl | rfl | rfl <;> first | rfl | skip
  all_goals (rw [ha, hx] at hab; exact absurd hab (by decide))

/-- without it the meaning is lost: in `α=a` both names become `a`; there and back gives `a=a`, and no renaming of local names
leads from `a=a` back to `α=a` -/
theorem translit_collapse_example :
    ¬ TranslitDistinct (bin .EQUAL (lx "α") (lx "a")) ∧
    translit .ascii (bin .EQUAL (lx "α") (lx "a")) = bin .EQUAL (lx "a") (lx "a") ∧
    ¬ ∃ g : String → String, renameLocals g (translit .ascii (bin .EQUAL (lx "α") (lx "a"))) = bin .EQUAL (lx "α") (lx "a") := by
  have ht : translit .ascii (bin .EQUAL (lx "α") (lx "a")) = bin .EQUAL (lx "a") (lx "a") := by rfl
  refine ⟨fun h => ?_, ht, ?_⟩
  · have := h "α" (by rw [show localNames (bin .EQUAL (lx "α") (lx "a")) = ["α", "a"] from rfl]; simp)
      "a" (by rw [show localNames (bin .EQUAL (lx "α") (lx "a")) = ["α", "a"] from rfl]; simp) (by rfl)
    revert this; decide
  · rintro ⟨g, hg⟩
    rw [ht] at hg
    have h1 : renameLocals g (bin .EQUAL (lx "a") (lx "a")) = bin .EQUAL (lx (g "a")) (lx (g "a")) := by rfl
    rw [h1] at hg
    simp only [bin, lx, Ast.node.injEq, List.cons.injEq, TokData.text.injEq, true_and, and_true] at hg
    have : "α" = "a" := hg.1.symm.trans hg.2
    revert this; decide

/-- **convert_there_and_back_same** (corollary "the names are ASCII already", either origin): for a fragment tree whose leaves
conform to both lexers, converting the text printed in `s` to the other syntax and back returns the SAME TEXT, byte for byte,
and that text parses (in `s`) to `t` up to positions. -/
theorem convert_there_and_back_same (s : Syn) (t : Ast) (e : E3) (hm : FragmentTree .math t e) (ha : FragmentTree .ascii t e) :
    ∃ text mid t', print s t = some text ∧ convertTo (other s) (bytesOf text) = .text (bytesOf mid) ∧
      convertTo s (bytesOf mid) = .text (bytesOf text) ∧
      parseBytes (some s) (bytesOf text) = some (some t') ∧ Ast.eqv t' t = true := by
  have hs : FragmentTree s t e := by cases s; exact hm; exact ha
  have ho : FragmentTree (other s) t e := by cases s; exact ha; exact hm
  obtain ⟨text, t1, hp, hparse1, her1⟩ := roundtrip_erA s t e hs.1 hs.2.1 hs.2.2.1 hs.2.2.2
  obtain ⟨mid, t2, hpo, hparse2, her2⟩ := roundtrip_erA (other s) t e ho.1 ho.2.1 ho.2.2.1 ho.2.2.2
  have hc1 : convertTo (other s) (bytesOf text) = .text (bytesOf mid) :=
    convertTo_of_parse s text t1 hparse1 mid (by rw [print_of_erA_eq _ her1]; exact hpo)
  have hc2 := convertTo_of_parse (other s) mid t2 hparse2 text (by rw [other_other, print_of_erA_eq _ her2]; exact hp)
  rw [other_other] at hc2
  exact ⟨text, mid, t1, hp, hc1, hc2, parseBytes_bytesOf s text t1 hparse1, CCVerif.PE.eqv_of_erA_eq her1⟩

example : ∀ s ∈ [Syn.math, .ascii], ∃ text mid t', print s sampleE3.ast = some text ∧
    convertTo (other s) (bytesOf text) = .text (bytesOf mid) ∧ convertTo s (bytesOf mid) = .text (bytesOf text) ∧
    parseBytes (some s) (bytesOf text) = some (some t') ∧ Ast.eqv t' sampleE3.ast = true := by
  intro s _
  have h := fragment3_nonvacuous
  have her : CCVerif.PE.erA sampleE3.ast = sampleE3.ast := sampleE3_erA
  exact convert_there_and_back_same s _ sampleE3 ⟨her, h.1, Or.inl h.2.1, h.2.2.1⟩ ⟨her, h.1, Or.inl h.2.1, h.2.2.2.1⟩

/-! ## Part 3 — idempotence -/

/-- the unrestricted statement — FALSE for the model and for the code (recorded finding C05-convert-twice-ambiguous) -/
def convert_idempotent_statement : Prop :=
  ∀ (s : Syn) (x : List Nat), convertTwice s x = convertTo s x

/-- **convert_not_idempotent_star**: the bytes of `X1×X2` converted to ASCII give `X1*X2` (product); `ConvertTo` reads its
input in the syntax opposite to the target, so the second conversion reads `*` as MATH multiplication: `X1 \multiply X2`. -/
theorem convert_not_idempotent_star :
    convertTo .ascii (bytesOf (units "X1×X2")) = .text (bytesOf (units "X1*X2")) ∧
    convertTwice .ascii (bytesOf (units "X1×X2")) = .text (bytesOf (units "X1 \\multiply X2")) := by
  decide +kernel

/-- **convert_not_idempotent_empty_definition**: `X1:==` → `X1 \defexpr ` → `X1 \setminus defexpr`. -/
theorem convert_not_idempotent_empty_definition :
    convertTo .ascii (bytesOf (units "X1:==")) = .text (bytesOf (units "X1 \\defexpr ")) ∧
    convertTwice .ascii (bytesOf (units "X1:==")) = .text (bytesOf (units "X1 \\setminus defexpr")) := by
  decide +kernel

/-- the same towards MATH: the ASCII text `a \multiply b` becomes `a*b`, then `a×b` -/
theorem convert_not_idempotent_multiply :
    convertTo .math (bytesOf (units "a \\multiply b")) = .text (bytesOf (units "a*b")) ∧
    convertTwice .math (bytesOf (units "a \\multiply b")) = .text (bytesOf (units "a×b")) := by
  decide +kernel

theorem convert_idempotent_statement_counterexample : ¬ convert_idempotent_statement := by
  intro h
  have h1 := h .ascii (bytesOf (units "X1×X2"))
  rw [convert_not_idempotent_star.1, convert_not_idempotent_star.2] at h1
  revert h1; decide +kernel

/-- **convert_idempotent_partial**: when the once-converted text does NOT parse in the syntax opposite to the target (the
second `ConvertTo` then returns its input unchanged), conversion is idempotent. All inputs. -/
theorem convert_idempotent_partial (s : Syn) (x once : List Nat) (h1 : convertTo s x = .text once)
    (h2 : parseBytes (some (other s)) once = some none) : convertTwice s x = convertTo s x := by
  simp only [convertTwice, h1]
  simp only [convertTo, h2]

/-- non-vacuity, target ASCII: the ASCII text of `X1∪X2` is `X1 \\union X2`, which MATH reads as `X1 \\ union X2` — set difference
followed by a stray identifier: no parse, so the second conversion leaves it alone -/
example : convertTo .ascii (bytesOf (units "X1∪X2")) = .text (bytesOf (units "X1 \\union X2")) ∧
    parseBytes (some (other .ascii)) (bytesOf (units "X1 \\union X2")) = some none ∧
    convertTwice .ascii (bytesOf (units "X1∪X2")) = convertTo .ascii (bytesOf (units "X1∪X2")) := by
  have h1 : convertTo .ascii (bytesOf (units "X1∪X2")) = .text (bytesOf (units "X1 \\union X2")) := by decide +kernel
  have h2 : parseBytes (some (other .ascii)) (bytesOf (units "X1 \\union X2")) = some none := by
    have h : (parseBytes (some (other .ascii)) (bytesOf (units "X1 \\union X2"))).map Option.isSome = some false := by
      decide +kernel
    rcases hp : parseBytes (some (other .ascii)) (bytesOf (units "X1 \\union X2")) with _ | _ | t
    · rw [hp] at h; cases h
    · rfl
    · rw [hp] at h; cases h
  exact ⟨h1, h2, convert_idempotent_partial .ascii _ _ h1 h2⟩

/-- **ascii_lexer_rejects_non_ascii** (regenerated ASCII rule table): a text with a unit ≥ 128 is not accepted by the ASCII
parser — no literal of `AsciiLexerImpl.l` contains such a unit and no character class contains it, so it can only be consumed
by the catch-all rule `.`, which gives INTERRUPT, and the parser refuses a stream with an INTERRUPT token. -/
theorem ascii_lexer_rejects_non_ascii (text : List Nat) (h : ∃ u ∈ text, 128 ≤ u) : parse .ascii text = none := by
  obtain ⟨u, hu, h128⟩ := h
  cases hp : parse .ascii text with
  | none => rfl
  | some t => have := okUnit_ascii (parse_units .ascii text t hp u hu); omega

example : parse .ascii (units "X1∪X2") = none := ascii_lexer_rejects_non_ascii _ ⟨0x222A, by decide +kernel, by decide⟩

/-- its counterpart for MATH, used for the bridge between units and bytes: a text the MATH parser accepts consists of Unicode
scalar values (so it is recovered from its UTF-8 bytes) -/
theorem math_parser_accepts_scalars (text : List Nat) (t : Ast) (h : parse .math text = some t) : ∀ u ∈ text, isScalar u :=
  fun u hu => okUnit_math (parse_units .math text t h u hu)

/-- **convert_idempotent_math_non_ascii** (ALL inputs): when the result of a conversion to MATH contains a byte ≥ 128 — the
UTF-8 bytes of any of `∈ ∉ ⊆ ⊂ ⊄ ∪ ∩ ∆ × ≠ ≥ ≤ ¬ ∀ ∃ ⇒ ⇔ ∨ ∅ ℬ` or of a Greek name — converting it to MATH again changes nothing. -/
theorem convert_idempotent_math_non_ascii (x once : List Nat) (h1 : convertTo .math x = .text once)
    (h2 : ∃ b ∈ once, 128 ≤ b) : convertTwice .math x = convertTo .math x := by
  refine convert_idempotent_partial .math x once h1 ?_
  show (some once).map (parse .ascii) = some none
  rw [Option.map_some, ascii_lexer_rejects_non_ascii once h2]

/-- non-vacuity: `X1 \\union X2` → `X1∪X2`, which contains the bytes E2 88 AA -/
example : convertTwice .math (bytesOf (units "X1 \\union X2")) = convertTo .math (bytesOf (units "X1 \\union X2")) :=
  convert_idempotent_math_non_ascii _ (bytesOf (units "X1∪X2")) (by decide +kernel) ⟨0xE2, by decide +kernel, by decide⟩

example : ∀ u ∈ units "α∈X1 & ∀ξ∈α ξ≠∅", isScalar u := by
  have h : (parse .math (units "α∈X1 & ∀ξ∈α ξ≠∅")).isSome = true := by decide +kernel
  obtain ⟨t, ht⟩ := Option.isSome_iff_exists.mp h
  exact math_parser_accepts_scalars _ t ht

private theorem encode_has_high : ∀ (u : List Nat) (c : Nat), c ∈ u → 128 ≤ c → ∃ b ∈ CCVerif.Strings.encode u, 128 ≤ b
  | [], _, h, _ => by simp at h
  | d :: u, c, h, h128 => by
    rw [CCVerif.Strings.encode_cons]
    rcases List.mem_cons.mp h with rfl | h'
    · refine ⟨(CCVerif.Strings.encodeCp c).head (CCVerif.Strings.encodeCp_ne_nil c), ?_, ?_⟩
      · exact List.mem_append_left _ (List.head_mem _)
      · unfold CCVerif.Strings.encodeCp
        split
        · omega
        · split
          · simp; omega
          · split <;> simp <;> omega
    · obtain ⟨b, hb, hb128⟩ := encode_has_high u c h' h128
      exact ⟨b, List.mem_append_right _ hb, hb128⟩

/-- **convert_idempotent_math_fragment**: for every fragment tree with ASCII-conformant leaves on which the MATH printer is not stuck and
whose MATH print contains a non-ASCII unit, the ASCII text converted to MATH twice is the MATH text, as after one conversion. (The sufficient condition
is stated on the printed text; it holds as soon as the tree contains one of the operators listed above.) -/
theorem convert_idempotent_math_fragment (t : Ast) (e : E3) (ha : FragmentTree .ascii t e)
    (out : List Nat) (hout : print .math t = some out) (hna : ∃ u ∈ out, 128 ≤ u) :
    ∃ asc, print .ascii t = some asc ∧ convertTo .math (bytesOf asc) = .text (bytesOf out) ∧
      convertTwice .math (bytesOf asc) = .text (bytesOf out) := by
  obtain ⟨asc, hpa, hc⟩ := convert_of_printed .ascii t e ha out hout
  have hc : convertTo .math (bytesOf asc) = .text (bytesOf out) := hc
  refine ⟨asc, hpa, hc, ?_⟩
  obtain ⟨u, hu, h128⟩ := hna
  rw [convert_idempotent_math_non_ascii _ _ hc (encode_has_high out u hu h128), hc]

/-- the token kinds the MATH lexer produces ONLY from a literal with a non-ASCII unit (regenerated rule table) -/
theorem nonAsciiKinds_table : grammarTokens.filter nonAsciiKind =
    [.LIT_EMPTYSET, .GREATER_OR_EQ, .LESSER_OR_EQ, .NOTEQUAL, .FORALL, .EXISTS, .NOT, .EQUIVALENT, .IMPLICATION, .OR, .IN, .NOTIN,
     .SUBSET, .SUBSET_OR_EQ, .NOTSUBSET, .DECART, .UNION, .INTERSECTION, .SYMMINUS, .BOOLEAN, .ITERATE] := by
  decide +kernel

/-- **math_print_non_ascii_of_token** (the syntactic sufficient condition, on the phrase): when the token sequence of the phrase
contains one of `∅ ≥ ≤ ≠ ∀ ∃ ¬ ⇔ ⇒ ∨ ∈ ∉ ⊂ ⊆ ⊄ × ∪ ∩ ∆ ℬ :∈` (`nonAsciiKinds_table`), its MATH print contains a non-ASCII unit:
the printed text lexes to the tokens of the phrase (`lex_print_fragment3`), and a token of such a kind can only come from a rule
whose literal occurs in the text (`lexGo_source`). -/
theorem math_print_non_ascii_of_token (t : Ast) (e : E3) (h : FragmentTree .math t e)
    (hk : e.toks.any (fun tok => nonAsciiKind tok.id) = true) :
    ∃ out, print .math t = some out ∧ ∃ u ∈ out, 128 ≤ u := by
  obtain ⟨ht, hw, hSL, hl⟩ := h
  obtain ⟨hp, hlex⟩ := CCVerif.PP3.lex_print2 .math e hw hSL hl
  refine ⟨_, by rw [← CCVerif.PP3.print_erA, ht]; exact hp, ?_⟩
  cases hts : lex .math (CCVerif.LexP.render (e.items .math)) with
  | none => rw [hts] at hlex; cases hlex
  | some ts =>
    rw [hts] at hlex
    simp only [Option.map_some, Option.some.injEq] at hlex
    obtain ⟨tok, htok, hkind⟩ := List.any_eq_true.mp hk
    refine non_ascii_of_kind _ ts hts tok.id hkind ?_
    have hids : ts.map (·.id) = (e.toks ++ [CCVerif.PP.tk .END]).map (·.id) := by
      have := congrArg (List.map Prod.fst) hlex
      rw [List.map_map, List.map_map] at this
      exact this
    rw [hids]
    exact List.mem_map_of_mem (List.mem_append_left _ htok)

/-- **convert_idempotent_math_fragment_token**: conversion to MATH is idempotent on the ASCII text of every fragment tree (leaves
conformant to both lexers) that contains one of those tokens. -/
theorem convert_idempotent_math_fragment_token (t : Ast) (e : E3) (hm : FragmentTree .math t e) (ha : FragmentTree .ascii t e)
    (hk : e.toks.any (fun tok => nonAsciiKind tok.id) = true) :
    ∃ asc out, print .ascii t = some asc ∧ print .math t = some out ∧
      convertTwice .math (bytesOf asc) = convertTo .math (bytesOf asc) ∧ convertTo .math (bytesOf asc) = .text (bytesOf out) := by
  obtain ⟨out, hout, hna⟩ := math_print_non_ascii_of_token t e hm hk
  obtain ⟨asc, hpa, hc, h2⟩ := convert_idempotent_math_fragment t e ha out hout hna
  exact ⟨asc, out, hpa, hout, by rw [h2, hc], hc⟩

example : ∃ asc out, print .ascii sampleE3.ast = some asc ∧ print .math sampleE3.ast = some out ∧
    convertTwice .math (bytesOf asc) = convertTo .math (bytesOf asc) ∧ convertTo .math (bytesOf asc) = .text (bytesOf out) := by
  have h := fragment3_nonvacuous
  have her : CCVerif.PE.erA sampleE3.ast = sampleE3.ast := sampleE3_erA
  exact convert_idempotent_math_fragment_token _ sampleE3 ⟨her, h.1, Or.inl h.2.1, h.2.2.1⟩ ⟨her, h.1, Or.inl h.2.1, h.2.2.2.1⟩
    (by decide +kernel)

example : ∃ out asc, print .math sampleE3.ast = some out ∧ print .ascii sampleE3.ast = some asc ∧
    convertTwice .math (bytesOf asc) = .text (bytesOf out) := by
  have h := fragment3_nonvacuous
  have her : CCVerif.PE.erA sampleE3.ast = sampleE3.ast := sampleE3_erA
  have hp : print .math sampleE3.ast =
      some (units "I{(x, y) | x:∈X1; (y, z):=R{(a, b):=(x, 0) | pr1(a)∈X2 | (a∪x, b+1)}; y≠∅; z:=R{w:=S1 | w∪X1}}∪X2") := by
    decide +kernel
  obtain ⟨asc, h1, _, h2⟩ := convert_idempotent_math_fragment _ sampleE3
    ⟨her, h.1, Or.inl h.2.1, h.2.2.2.1⟩ _ hp ⟨0x222A, by decide +kernel, by decide⟩
  exact ⟨_, asc, hp, h1, h2⟩

/-! ## Part 5 — top-level forms (function definitions, global declarations) -/

/-- `t` is, up to positions, the tree of the well-formed top-level form `d` over `E3` (`PP3.Top`: a phrase, a function definition
`[x∈S, …] body`, a declaration `X1 :== body`, `S1 ::= body`, `F1 :== [x∈S, …] body`, `X1 :==`) whose leaves conform to the lexer of
`syn` (the hypotheses of `parse_print_text_top_fragment3`) -/
def FragmentTop (syn : Syn) (t : Ast) (d : PP3.Top) : Prop :=
  CCVerif.PE.erA t = d.ast ∧ d.wf = true ∧ d.lexOK syn = true

/-- **convert_of_printed_top**: `convert_of_printed` for the top-level forms — the text of a definition printed in `s` is
converted into exactly the text printed in the other syntax for the same tree (source-side `lexOK` only). Corollary of the text
round trip `PP3.top_roundtrip_erA`. -/
theorem convert_of_printed_top (s : Syn) (t : Ast) (d : PP3.Top) (h : FragmentTop s t d) (out : List Nat)
    (hout : print (other s) t = some out) :
    ∃ text, print s t = some text ∧ convertTo (other s) (bytesOf text) = .text (bytesOf out) := by
  obtain ⟨ht, hw, hl⟩ := h
  obtain ⟨text, t', hp, hparse, her⟩ := CCVerif.PP3.top_roundtrip_erA s t d ht hw hl
  refine ⟨text, hp, convertTo_of_parse s text t' hparse out ?_⟩
  rw [print_of_erA_eq (other s) her]; exact hout

/-- **convert_there_and_back_same_top**: for a top-level form whose leaves conform to both lexers, converting the text printed in
`s` to the other syntax and back returns the SAME TEXT, byte for byte, and that text parses (in `s`) to `t` up to positions. -/
theorem convert_there_and_back_same_top (s : Syn) (t : Ast) (d : PP3.Top) (hm : FragmentTop .math t d)
    (ha : FragmentTop .ascii t d) :
    ∃ text mid t', print s t = some text ∧ convertTo (other s) (bytesOf text) = .text (bytesOf mid) ∧
      convertTo s (bytesOf mid) = .text (bytesOf text) ∧
      parseBytes (some s) (bytesOf text) = some (some t') ∧ Ast.eqv t' t = true := by
  have hs : FragmentTop s t d := by cases s; exact hm; exact ha
  have ho : FragmentTop (other s) t d := by cases s; exact ha; exact hm
  obtain ⟨text, t1, hp, hparse1, her1⟩ := CCVerif.PP3.top_roundtrip_erA s t d hs.1 hs.2.1 hs.2.2
  obtain ⟨mid, t2, hpo, hparse2, her2⟩ := CCVerif.PP3.top_roundtrip_erA (other s) t d ho.1 ho.2.1 ho.2.2
  have hc1 : convertTo (other s) (bytesOf text) = .text (bytesOf mid) :=
    convertTo_of_parse s text t1 hparse1 mid (by rw [print_of_erA_eq _ her1]; exact hpo)
  have hc2 := convertTo_of_parse (other s) mid t2 hparse2 text (by rw [other_other, print_of_erA_eq _ her2]; exact hp)
  rw [other_other] at hc2
  exact ⟨text, mid, t1, hp, hc1, hc2, parseBytes_bytesOf s text t1 hparse1, CCVerif.PE.eqv_of_erA_eq her1⟩

/-- non-vacuity: `F1 :== [α∈ℬ(X1), β∈X1] β∈α` (Greek argument names, MATH → ASCII) -/
example : ∃ text, print .math (sampleTopIn "α" "β").ast = some text ∧
    convertTo .ascii (bytesOf text) = .text (bytesOf (units "F1 \\defexpr [a \\in B(X1), b \\in X1] b \\in a")) := by
  have h := top_text_nonvacuous
  exact convert_of_printed_top .math _ (sampleTopIn "α" "β") ⟨by rfl, h.1, h.2.1⟩ _ (by decide +kernel)

/-- non-vacuity: `F1 :== [a∈ℬ(X1), b∈X1] b∈a`, there and back from either syntax -/
example : ∀ s ∈ [Syn.math, .ascii], ∃ text mid t', print s (sampleTopIn "a" "b").ast = some text ∧
    convertTo (other s) (bytesOf text) = .text (bytesOf mid) ∧ convertTo s (bytesOf mid) = .text (bytesOf text) ∧
    parseBytes (some s) (bytesOf text) = some (some t') ∧ Ast.eqv t' (sampleTopIn "a" "b").ast = true := by
  intro s _
  have h := top_text_nonvacuous
  exact convert_there_and_back_same_top s _ (sampleTopIn "a" "b") ⟨by rfl, h.2.2.2.1, h.2.2.2.2.1⟩
    ⟨by rfl, h.2.2.2.1, h.2.2.2.2.2.1⟩

/-! ## Part 6 — idempotence towards ASCII: a parser-failure theorem

The second `ConvertTo(·, ASCII)` reads the once-converted ASCII text with the MATH lexer, where every ASCII operator word `\kw` is
`\` (SET_MINUS) followed by the identifier `kw`. When that reading does not parse, the text is returned unchanged
(`convert_idempotent_partial`). -/

/-- **math_parser_rejects_leading_backslash** (parser failure, ALL texts): a text that starts with a backslash, or with one blank
and a backslash, is rejected by the MATH parser — the scanner's first token is SET_MINUS (`\` is extended by no literal of
`MathLexerImpl.l`, regenerated table), and no `expression` of the grammar starts with SET_MINUS. -/
theorem math_parser_rejects_leading_backslash (text rest : List Nat) (h : text = 92 :: rest ∨ text = 32 :: 92 :: rest) :
    parse .math text = none :=
  CCVerif.ConvertI.math_rejects_backslash_start text rest h

example : parse .math (units " \\A x \\in X1 x \\noteq {}") = none :=
  math_parser_rejects_leading_backslash _ _ (Or.inr rfl)

/-- kinds whose ASCII spelling is an operator word with a backslash -/
def backslashKind (k : Tok) : Bool := (str .ascii k).contains 92

/-- the CONJECTURED general statement (NOT proved, not refuted; kernel-evaluated instances at the end): conversion to ASCII is
idempotent on the MATH text of every fragment tree that contains at least one operator spelled with a backslash in ASCII. Proved
below: the parser side in full (`parser_rejects_adjacent_operands`, `math_parser_rejects_adjacent_operands`), so the statement is
reduced to a DECIDABLE condition on the MATH token stream of the ASCII text (`convert_idempotent_ascii_fragment_partial2`); and
unconditionally when the word comes first (`…_partial1`). Missing: the MATH reading of the ASCII text of an ARBITRARY fragment
tree (a second chain of tokens: the last `\kw` of the text is read as `\`, `kw` and is followed by the first token of an operand).
The boundary: `convert_not_idempotent_star` (`X1×X2`, no backslash word at all), `convert_not_idempotent_empty_definition`
(`X1:==`, outside `E3`: the word ends the text). -/
def convert_idempotent_ascii_fragment_statement : Prop :=
  ∀ (t : Ast) (e : E3), FragmentTree .math t e → FragmentTree .ascii t e →
    e.toks.any (fun tok => backslashKind tok.id) = true →
    ∀ text, print .math t = some text → convertTwice .ascii (bytesOf text) = convertTo .ascii (bytesOf text)

/-- **convert_idempotent_ascii_fragment_partial1** (the proved part: the backslash word comes FIRST). `t` a fragment tree with
MATH-conformant leaves (Greek local names allowed) whose transliteration is a fragment tree `e'` with ASCII-conformant leaves, and
the left-most symbol of the formula is `¬`, `∀` or `∃` (`E3.lead`: a negation, a quantified formula, or a connective whose left
operand is such a formula printed without parentheses). Then the MATH text is converted to the ASCII text of `t`, and converting
again changes nothing: the ASCII text starts with ` \neg `, ` \A ` or ` \E ` and `math_parser_rejects_leading_backslash` applies. -/
theorem convert_idempotent_ascii_fragment_partial1 (t : Ast) (e e' : E3) (h : FragmentTree .math t e)
    (ha : FragmentTree .ascii (translit .ascii t) e') (hlead : e'.lead = true) :
    ∃ text asc, print .math t = some text ∧ print .ascii t = some asc ∧
      convertTo .ascii (bytesOf text) = .text (bytesOf asc) ∧
      convertTwice .ascii (bytesOf text) = convertTo .ascii (bytesOf text) := by
  have hpa : print .ascii (translit .ascii t) = some (CCVerif.LexP.render (e'.items .ascii)) := by
    rw [← CCVerif.PP3.print_erA, ha.1]; exact (CCVerif.PP3.lex_print2 .ascii e' ha.2.1 ha.2.2.1 ha.2.2.2).1
  obtain ⟨asc', t2, hpa', hparse2, _⟩ := roundtrip_erA .ascii _ e' ha.1 ha.2.1 ha.2.2.1 ha.2.2.2
  have hasc : asc' = CCVerif.LexP.render (e'.items .ascii) := by
    rw [hpa] at hpa'; exact (Option.some.inj hpa').symm
  subst hasc
  rw [print_translit] at hpa
  obtain ⟨text, hp, hc1⟩ := convert_of_printed .math t e h _ hpa
  have hc1 : convertTo .ascii (bytesOf text) = .text (bytesOf (CCVerif.LexP.render (e'.items .ascii))) := hc1
  refine ⟨text, _, hp, hpa, hc1, convert_idempotent_partial .ascii _ _ hc1 ?_⟩
  have hsc : ∀ c ∈ CCVerif.LexP.render (e'.items .ascii), isScalar c := fun c hc =>
    Or.inl (by have := okUnit_ascii (parse_units .ascii _ t2 hparse2 c hc); omega)
  show (decode (bytesOf (CCVerif.LexP.render (e'.items .ascii)))).map (parse .math) = some none
  rw [show bytesOf (CCVerif.LexP.render (e'.items .ascii)) = CCVerif.Strings.encode _ from rfl, decode_encode _ hsc,
    Option.map_some, CCVerif.ConvertI.math_rejects_lead e' hlead]

/-- **convert_idempotent_ascii_fragment_prefix** (names ASCII already): for a fragment tree whose leaves conform to both lexers
and whose left-most symbol is `¬`, `∀` or `∃`, conversion to ASCII is idempotent on its MATH text. -/
theorem convert_idempotent_ascii_fragment_prefix (t : Ast) (e : E3) (hm : FragmentTree .math t e) (ha : FragmentTree .ascii t e)
    (hlead : e.lead = true) :
    ∃ text asc, print .math t = some text ∧ print .ascii t = some asc ∧
      convertTo .ascii (bytesOf text) = .text (bytesOf asc) ∧
      convertTwice .ascii (bytesOf text) = convertTo .ascii (bytesOf text) := by
  refine convert_idempotent_ascii_fragment_partial1 t e e hm ⟨?_, ha.2.1, ha.2.2.1, ha.2.2.2⟩ hlead
  rw [CCVerif.PP3.translit_erA, ha.1, (CCVerif.PP3.tclaim .ascii e ha.2.1 ha.2.2.2).a]

/-- `∀ξ∈X1 (ξ≠∅ ⇒ ∃υ∈ξ ¬υ∈X2)` — a quantified formula with Greek names -/
def sampleQ (x y : String) : E3 :=
  .quant .FORALL (.one (.atom .ID_LOCAL (.text x))) (.atom .ID_GLOBAL (.text "X1"))
    (.lbin .IMPLICATION (.pred .NOTEQUAL (.atom .ID_LOCAL (.text x)) (.atom .LIT_EMPTYSET .none))
      (.quant .EXISTS (.one (.atom .ID_LOCAL (.text y))) (.atom .ID_LOCAL (.text x))
        (.neg (.pred .IN (.atom .ID_LOCAL (.text y)) (.atom .ID_GLOBAL (.text "X2"))))))

theorem sampleQ_facts :
    (sampleQ "ξ" "υ").wf = true ∧ (sampleQ "ξ" "υ").isL = true ∧ (sampleQ "ξ" "υ").lexOK .math = true ∧
    (sampleQ "x" "q").wf = true ∧ (sampleQ "x" "q").isL = true ∧ (sampleQ "x" "q").lexOK .math = true ∧
    (sampleQ "x" "q").lexOK .ascii = true ∧ (sampleQ "x" "q").lead = true ∧
    CCVerif.PE.erA (translit .ascii (sampleQ "ξ" "υ").ast) = (sampleQ "x" "q").ast ∧
    print .ascii (sampleQ "ξ" "υ").ast = some (units " \\A x \\in X1 (x \\noteq {}  \\impl   \\E q \\in x  \\neg q \\in X2)") :=
  ⟨by decide +kernel, by decide +kernel, by decide +kernel, by decide +kernel, by decide +kernel, by decide +kernel,
    by decide +kernel, by decide +kernel, by rfl, by decide +kernel⟩

/-- non-vacuity: an ASCII-idempotent quantified formula (Greek names in the MATH original) -/
example : ∃ text asc, print .math (sampleQ "ξ" "υ").ast = some text ∧ print .ascii (sampleQ "ξ" "υ").ast = some asc ∧
    convertTo .ascii (bytesOf text) = .text (bytesOf asc) ∧
    convertTwice .ascii (bytesOf text) = convertTo .ascii (bytesOf text) := by
  have h := sampleQ_facts
  exact convert_idempotent_ascii_fragment_partial1 _ (sampleQ "ξ" "υ") (sampleQ "x" "q") ⟨by rfl, h.1, Or.inr h.2.1, h.2.2.1⟩
    ⟨h.2.2.2.2.2.2.2.2.1, h.2.2.2.1, Or.inr h.2.2.2.2.1, h.2.2.2.2.2.2.1⟩ h.2.2.2.2.2.2.2.1

/-- `¬a∈X1 & b∈X2`: a connective whose left operand is a negation -/
def sampleNegAnd : E3 :=
  .lbin .AND (.neg (.pred .IN (.atom .ID_LOCAL (.text "a")) (.atom .ID_GLOBAL (.text "X1"))))
    (.pred .IN (.atom .ID_LOCAL (.text "b")) (.atom .ID_GLOBAL (.text "X2")))

/-- non-vacuity of the corollary: `¬a∈X1 & b∈X2` and the quantified formula with ASCII names -/
example : ∀ e ∈ [sampleNegAnd, sampleQ "x" "q"],
    ∃ text asc, print .math e.ast = some text ∧ print .ascii e.ast = some asc ∧
      convertTo .ascii (bytesOf text) = .text (bytesOf asc) ∧
      convertTwice .ascii (bytesOf text) = convertTo .ascii (bytesOf text) := by
  intro e he
  simp only [List.mem_cons, List.not_mem_nil, or_false] at he
  rcases he with rfl | rfl
  · have hw : sampleNegAnd.wf = true ∧ sampleNegAnd.isL = true ∧ sampleNegAnd.lexOK .math = true ∧
        sampleNegAnd.lexOK .ascii = true ∧ sampleNegAnd.lead = true := by decide +kernel
    exact convert_idempotent_ascii_fragment_prefix _ sampleNegAnd ⟨by rfl, hw.1, Or.inr hw.2.1, hw.2.2.1⟩
      ⟨by rfl, hw.1, Or.inr hw.2.1, hw.2.2.2.1⟩ hw.2.2.2.2
  · have h := sampleQ_facts
    exact convert_idempotent_ascii_fragment_prefix _ (sampleQ "x" "q") ⟨by rfl, h.2.2.2.1, Or.inr h.2.2.2.2.1, h.2.2.2.2.2.1⟩
      ⟨by rfl, h.2.2.2.1, Or.inr h.2.2.2.2.1, h.2.2.2.2.2.2.1⟩ h.2.2.2.2.2.2.2.1

/-! ### rejection by two adjacent operands (`Lemmas/ParseReject.lean`) -/

/-- **parser_rejects_adjacent_operands** (necessary condition for acceptance, ALL token streams, either syntax): in a token
stream the parser model accepts and whose part up to END contains no quantifier token, no operand-ENDING token (`PR.ender`: a
local / global / radical identifier, an integer, `Z`, `∅`) is directly followed by an operand-STARTING token (`PR.starter`:
identifier, literal, `(`, `{`, `[`, `card bool debool red Pr pr Fi ℬ D R I`, `¬`, `∀`, `∃`). Production by production
(`PR.All`, induction on the fuel over all eleven mutually recursive sub-parsers): whatever the parser consumes directly after
a finished sub-phrase is an operator, a separator or a closing bracket — except the body of a quantifier, which follows its
domain directly (`∀x∈X1 x=x`), hence the hypothesis. -/
theorem parser_rejects_adjacent_operands (ts : Toks) (t : Ast) (h : parseToks ts = some t)
    (hq : ∀ x ∈ CCVerif.PR.bodyOf ts, CCVerif.PR.isQ x.id = false) : CCVerif.PR.goodL (CCVerif.PR.bodyOf ts) = true := by
  cases hg : CCVerif.PR.goodL (CCVerif.PR.bodyOf ts) with
  | true => rfl
  | false => rw [CCVerif.PR.parseToks_reject ts hq hg] at h; cases h

/-- the hypothesis about quantifiers is needed: `∀x∈X1 x=x` is accepted and has `X1` directly followed by `x` -/
example : (parse .math (units "∀x∈X1 x=x")).isSome = true ∧
    ((lex .math (units "∀x∈X1 x=x")).map fun ts => CCVerif.PR.goodL (CCVerif.PR.bodyOf ts)) = some false := by
  decide +kernel

/-- **math_parser_rejects_adjacent_operands** (parser failure, every text of ASCII units; DECIDABLE condition
`ConvertI.adjacentOperands`): when the MATH token stream of the text has an operand-ending token directly followed by an
operand-starting token — or an INTERRUPT token, or the scanner has no applicable rule — the MATH parser rejects the text. A text of
ASCII units has no quantifier token in its MATH reading (`∀ ∃` come from non-ASCII literals only, regenerated rule table). This is
what happens to an ASCII operator word: `a \in X1` is read as `a`, `\`, `in`, `X1` — the identifier `in` directly followed by
`X1`. -/
theorem math_parser_rejects_adjacent_operands (u : List Nat) (hu : ∀ c ∈ u, c < 128)
    (h : CCVerif.ConvertI.adjacentOperands .math u = true) : parse .math u = none :=
  CCVerif.ConvertI.math_rejects_adjacent u hu h

private theorem idem_of_reject (x asc : List Nat) (t2 : Ast) (hc1 : convertTo .ascii x = .text (bytesOf asc))
    (hparse2 : parse .ascii asc = some t2) (hrej : parse .math asc = none) : convertTwice .ascii x = convertTo .ascii x := by
  refine convert_idempotent_partial .ascii _ _ hc1 ?_
  have hsc : ∀ c ∈ asc, isScalar c := fun c hc =>
    Or.inl (by have := okUnit_ascii (parse_units .ascii _ t2 hparse2 c hc); omega)
  show (decode (bytesOf asc)).map (parse .math) = some none
  rw [show bytesOf asc = CCVerif.Strings.encode asc from rfl, decode_encode _ hsc, Option.map_some, hrej]

/-- **convert_idempotent_ascii_adjacent** (ALL inputs): when the result of a conversion to ASCII consists of ASCII bytes and its
MATH reading has two adjacent operands (decidable, `ConvertI.adjacentOperands`), converting it to ASCII again changes nothing. -/
theorem convert_idempotent_ascii_adjacent (x once : List Nat) (h1 : convertTo .ascii x = .text once)
    (hasc : ∀ b ∈ once, b < 128) (hadj : CCVerif.ConvertI.adjacentOperands .math once = true) :
    convertTwice .ascii x = convertTo .ascii x := by
  refine convert_idempotent_partial .ascii x once h1 ?_
  have hsc : ∀ c ∈ once, isScalar c := fun c hc => Or.inl (by have := hasc c hc; omega)
  show (decode once).map (parse .math) = some none
  have he : once = CCVerif.Strings.encode once := (encode_ascii once hasc).symm
  rw [he, decode_encode _ hsc, Option.map_some, math_parser_rejects_adjacent_operands once hasc hadj]

/-- non-vacuity: `a∈X1` → `a \in X1`, read by MATH as `a \ in X1` -/
example : convertTwice .ascii (bytesOf (units "a∈X1")) = convertTo .ascii (bytesOf (units "a∈X1")) :=
  convert_idempotent_ascii_adjacent _ (bytesOf (units "a \\in X1")) (by decide +kernel) (by decide +kernel) (by decide +kernel)

/-- **convert_idempotent_ascii_fragment_partial2** (fragment trees, the backslash word ANYWHERE, the condition checked on the
printed text): `t` a fragment tree with MATH-conformant leaves whose transliteration is a fragment tree with ASCII-conformant
leaves; if the MATH reading of its ASCII text has two adjacent operands, conversion to ASCII is idempotent on its MATH text. What
is NOT proved is that EVERY fragment tree with a backslash word meets the condition (`convert_idempotent_ascii_fragment_statement`);
on a given tree it is decided by evaluation. -/
theorem convert_idempotent_ascii_fragment_partial2 (t : Ast) (e e' : E3) (h : FragmentTree .math t e)
    (ha : FragmentTree .ascii (translit .ascii t) e') (asc : List Nat) (hp : print .ascii t = some asc)
    (hadj : CCVerif.ConvertI.adjacentOperands .math asc = true) :
    ∃ text, print .math t = some text ∧ convertTo .ascii (bytesOf text) = .text (bytesOf asc) ∧
      convertTwice .ascii (bytesOf text) = convertTo .ascii (bytesOf text) := by
  obtain ⟨asc', t2, hpa', hparse2, _⟩ := roundtrip_erA .ascii _ e' ha.1 ha.2.1 ha.2.2.1 ha.2.2.2
  rw [print_translit, hp] at hpa'
  have : asc = asc' := Option.some.inj hpa'
  subst this
  obtain ⟨text, hpt, hc1⟩ := convert_of_printed .math t e h _ hp
  have hu : ∀ c ∈ asc, c < 128 := fun c hc => okUnit_ascii (parse_units .ascii _ t2 hparse2 c hc)
  exact ⟨text, hpt, hc1, idem_of_reject _ asc t2 hc1 hparse2 (math_parser_rejects_adjacent_operands asc hu hadj)⟩

/-- **convert_idempotent_ascii_top_partial** (definitions): the same for the top-level forms (leaves conformant to both lexers) -
function definitions and global declarations with a body. -/
theorem convert_idempotent_ascii_top_partial (t : Ast) (d : PP3.Top) (hm : FragmentTop .math t d) (ha : FragmentTop .ascii t d)
    (asc : List Nat) (hp : print .ascii t = some asc) (hadj : CCVerif.ConvertI.adjacentOperands .math asc = true) :
    ∃ text, print .math t = some text ∧ convertTo .ascii (bytesOf text) = .text (bytesOf asc) ∧
      convertTwice .ascii (bytesOf text) = convertTo .ascii (bytesOf text) := by
  obtain ⟨asc', t2, hpa', hparse2, _⟩ := CCVerif.PP3.top_roundtrip_erA .ascii t d ha.1 ha.2.1 ha.2.2
  rw [hp] at hpa'
  have : asc = asc' := Option.some.inj hpa'
  subst this
  obtain ⟨text, hpt, hc1⟩ := convert_of_printed_top .math t d hm _ hp
  have hu : ∀ c ∈ asc, c < 128 := fun c hc => okUnit_ascii (parse_units .ascii _ t2 hparse2 c hc)
  exact ⟨text, hpt, hc1, idem_of_reject _ asc t2 hc1 hparse2 (math_parser_rejects_adjacent_operands asc hu hadj)⟩

/-- non-vacuity: the sample `I{(x, y) | x:∈X1; …}∪X2` of `Properties/C05.lean` (backslash words in the middle) and the Greek formula
`α∈X1 & ∀ξ∈α ξ≠∅` -/
example : (∃ text, print .math sampleE3.ast = some text ∧
      convertTwice .ascii (bytesOf text) = convertTo .ascii (bytesOf text)) ∧
    (∃ text, print .math sampleGreek.ast = some text ∧
      convertTwice .ascii (bytesOf text) = convertTo .ascii (bytesOf text)) := by
  have h := fragment3_nonvacuous
  have g := sampleGreek_facts
  have hp3 : ∃ asc, print .ascii sampleE3.ast = some asc ∧ CCVerif.ConvertI.adjacentOperands .math asc = true := by
    decide +kernel
  obtain ⟨asc, hp, hadj⟩ := hp3
  obtain ⟨text, h1, _, h2⟩ := convert_idempotent_ascii_fragment_partial2 _ sampleE3 sampleE3 ⟨sampleE3_erA, h.1, Or.inl h.2.1, h.2.2.1⟩
    ⟨by rfl, h.1, Or.inl h.2.1, h.2.2.2.1⟩ asc hp hadj
  obtain ⟨text', h1', _, h2'⟩ := convert_idempotent_ascii_fragment_partial2 _ sampleGreek sampleGreekT
    ⟨g.2.2.2.2.1, g.1, Or.inr g.2.1, g.2.2.1⟩
    ⟨g.2.2.2.2.2.2.2.2.2.2.1, g.2.2.2.2.2.2.1, Or.inr g.2.2.2.2.2.2.2.1, g.2.2.2.2.2.2.2.2.2.1⟩ _ g.2.2.2.2.2.2.2.2.2.2.2
    (by decide +kernel)
  exact ⟨⟨text, h1, h2⟩, ⟨text', h1', h2'⟩⟩

/-- non-vacuity for definitions: `F1 :== [a∈ℬ(X1), b∈X1] b∈a` -/
example : ∃ text, print .math (sampleTopIn "a" "b").ast = some text ∧
    convertTwice .ascii (bytesOf text) = convertTo .ascii (bytesOf text) := by
  have h := top_text_nonvacuous
  obtain ⟨text, h1, _, h2⟩ := convert_idempotent_ascii_top_partial (sampleTopIn "a" "b").ast (sampleTopIn "a" "b") ⟨by rfl, h.2.2.2.1, h.2.2.2.2.1⟩
    ⟨by rfl, h.2.2.2.1, h.2.2.2.2.2.1⟩ (units "F1 \\defexpr [a \\in B(X1), b \\in X1] b \\in a") (by decide +kernel)
    (by decide +kernel)
  exact ⟨text, h1, h2⟩

/-- the boundary: the ASCII texts of the recorded counterexamples do NOT meet the condition (no adjacent operands: `X1*X2` is a
MATH product, `X1 \defexpr ` is the set difference `X1 \ defexpr`) -/
example : CCVerif.ConvertI.adjacentOperands .math (units "X1*X2") = false ∧
    CCVerif.ConvertI.adjacentOperands .math (units "X1 \\defexpr ") = false := by
  decide +kernel

/-- kernel-evaluated instances of the unproved general statement (backslash word NOT in front): `a∈X1`, `X1∪X2∩X3`, the sample of
`Properties/C05.lean`; and the boundary once more — no backslash word (`X1×X2`), word at the very end (`X1:==`) -/
example : (∀ s ∈ ["a∈X1", "X1∪X2∩X3", "card(X1)=0 & a∈X1", "D{ξ∈X1 | ξ≠∅}",
      "I{(x, y) | x:∈X1; (y, z):=R{(a, b):=(x, 0) | pr1(a)∈X2 | (a∪x, b+1)}; y≠∅; z:=R{w:=S1 | w∪X1}}∪X2"],
      convertTwice .ascii (bytesOf (units s)) = convertTo .ascii (bytesOf (units s))) ∧
    (∀ s ∈ ["X1×X2", "X1:=="], convertTwice .ascii (bytesOf (units s)) ≠ convertTo .ascii (bytesOf (units s))) := by
  decide +kernel

end CCVerif.C05
