#!/usr/bin/env python3
"""seed_prepare.py <Cxx> [<Cxx> ...]: create the scratch worktree /tmp/seed_<Cxx> (detached HEAD of /repo) and write
TASK.md there: the text of the property (nothing else from /verif), the build recipe, and one line per change that was
already delivered for this property (so that a new agent produces a different one). The agent's whole prompt is
'read /tmp/seed_<Cxx>/TASK.md and do what it says'."""
import json, os, subprocess, sys, glob
VERIF = os.path.dirname(os.path.dirname(os.path.abspath(__file__)))
props = {json.loads(l)["id"]: json.loads(l) for l in open(os.path.join(VERIF, "properties.jsonl"))}
TEMPLATE = """# Task: seed one realistic regression into ConceptCore

You work ONLY inside this directory, `{wt}` — a scratch git worktree of the C++ library ConceptCore (sources under `ccl/`).
Never read or write `/repo` or `/verif`. Do not use the network (there is none).

## The property

The library is supposed to satisfy this semantic property (id {pid}, "{title}"):

> {statement}

It quantifies over: {quant}

Code it is anchored in (a starting point, not a limit):
{anchors}

## What to deliver

A change to the library sources (under `ccl/`, not the tests) that **breaks this property** while
* still compiling with the project's own build (it uses `-Werror`), and
* still passing **all** existing tests (recipe below), and
* looking like something a maintainer could plausibly commit (an optimisation, a refactoring, a 'simplification', an early
  exit, a cache, a changed container, a moved statement) — not a deliberate sabotage of the obvious path, and
* needing **something specific to manifest**: a multi-step sequence of operations, an unusual but legal input, a particular
  state reached by a history, or two cooperating sites that each look fine alone. A change that ordinary use would expose at
  once (every call gives a wrong answer) is not wanted. Small is good: a few lines.

Changes already delivered for this property by others — produce something **different in mechanism and location**:
{previous}

Deliver in `{wt}/SEED/` (create it):
* `patch.diff` — `git diff` of your change (library sources only; must apply to a clean checkout with `git apply`);
* `demo.cpp` — a standalone program with `main()` that exercises the real library: exits 0 and prints PASS when the property
  holds on its scenario, exits non-zero and prints what went wrong when it is violated. It must PASS on the unchanged tree
  and FAIL with your patch. Keep it self-contained (only library headers; for core-level objects you may include helpers from
  `ccl/core/test/utils`, `ccl/rslang/test/utils`);
* `README.md` — five lines: what the change is, which clause of the property it breaks, what is needed for it to manifest,
  why the existing tests do not see it.

## Build and test recipe (about 3-6 minutes for a full build on this machine; use it, do not invent another)

```
WT={wt}
cmake -G Ninja -S $WT/ccl -B $WT/_b -DCMAKE_BUILD_TYPE=RelWithDebInfo -DGTest_DIR=/root/miniconda/lib/cmake/GTest -DCMAKE_PREFIX_PATH=/root/miniconda > /dev/null
cmake --build $WT/_b -- -k 0 > $WT/build.log 2>&1 ; echo build rc=$?
ctest --test-dir $WT/_b -j8 --timeout 900 2>&1 | tail -3          # all tests must pass, before and after your change
LIB=$(find $WT/_b -maxdepth 1 -name "libConceptCoreLibrary*.a" | head -1)
INC="-I$WT/ccl/cclCommons/include -I$WT/ccl/cclGraph/include -I$WT/ccl/cclLang/include -I$WT/ccl/rslang/include -I$WT/ccl/core/include -I$WT/ccl/rslang/header -I$WT/ccl/core/header -I$WT/ccl/cclLang/header -I$WT/ccl/cclGraph/header -I$WT/ccl/rslang/import/reflex/include -I$WT/ccl/rslang/import/include -I$WT/ccl/core/test/utils -I$WT/ccl/rslang/test/utils -I$WT/ccl/cclLang/test/utils"
g++ -std=c++20 -O1 -w $INC SEED/demo.cpp $LIB -o $WT/demo && $WT/demo ; echo demo rc=$?
```

Order of work: read the anchored code; build once unchanged and run the tests; write demo.cpp and see it PASS; make the change;
rebuild; run all tests (must pass); run the demo (must FAIL). Check at the end: `git stash; rebuild; demo passes; git stash pop`
is not needed if you kept a copy of the unchanged library — but do verify both directions really. Leave the `_b` build directory
in place (the coordinator removes the whole worktree). If after honest effort no such change exists for this property, say so in
README.md and explain why. Your final message: three lines (what changed, what it needs to manifest, demo/test results).
"""
def anchors_text(a):
    out = []
    for f in a.get("files", []): out.append("* file `%s`" % f)
    for m in a.get("mechanism", []): out.append("* %s — `%s`" % (m.get("name"), m.get("where")))
    for s in a.get("state", []): out.append("* state %s: %s — `%s`" % (s.get("name"), s.get("meaning"), s.get("where")))
    for o in a.get("observe_at", []): out.append("* observe at: %s" % o)
    return "\n".join(out)
for pid in sys.argv[1:]:
    p = props[pid]; wt = "/tmp/seed_%s" % pid
    subprocess.run(["git", "-C", "/repo", "worktree", "remove", "--force", wt], capture_output=True)
    subprocess.run(["git", "-C", "/repo", "worktree", "add", "-q", "--detach", wt, "HEAD"], check=True)
    prev = []
    for d in sorted(glob.glob(os.path.join(VERIF, "seeded", pid + "-*"))):
        try: prev.append("* " + json.load(open(os.path.join(d, "meta.json")))["breaks"])
        except Exception: pass
    open(os.path.join(wt, "TASK.md"), "w").write(TEMPLATE.format(
        wt=wt, pid=pid, title=p["title"], statement=p["statement"], quant=p["quantifier"]["text"],
        anchors=anchors_text(p["anchors"]), previous="\n".join(prev) or "* (none)"))
    print("prepared", wt)
