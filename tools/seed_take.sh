#!/bin/bash
# seed_take.sh <PROP> <n> "<breaks>" "<needs>" : copy /tmp/seed_<PROP>/SEED to seeded/<PROP>-<n>, write meta.json
P=$1; N=$2; D=/verif/seeded/$P-$N
mkdir -p $D && cp ${SEED_SRC:-/tmp/seed_$P}/SEED/* $D/ || exit 1
python3 - "$P" "$3" "$4" "$D" <<'PY'
import json,sys
p,b,n,d=sys.argv[1:5]
json.dump({"property":p,"breaks":b,"needs":n,"source":"sub-agent seed-"+p},open(d+"/meta.json","w"),indent=1,ensure_ascii=False)
PY
git -C /repo apply --check $D/patch.diff && echo "applies"
