#!/bin/bash
# seed_confirm.sh <id> <seed-dir-with-patch.diff-and-demo.cpp>
# Confirms a seeded change in a scratch worktree of /repo (outside /repo and /verif):
# baseline tests pass without and with the patch; the demo passes without and fails with it.
# Writes <seed-dir>/confirm.log and removes the worktree afterwards.
set -u
ID=$1; DIR=$(realpath $2); WT=/tmp/confirm_$ID; LOG=$DIR/confirm.log
exec > $LOG 2>&1
git -C /repo worktree remove --force $WT 2>/dev/null
git -C /repo worktree add -q --detach $WT HEAD || exit 2
INC="-I$WT/ccl/cclCommons/include -I$WT/ccl/cclGraph/include -I$WT/ccl/cclLang/include -I$WT/ccl/rslang/include -I$WT/ccl/core/include -I$WT/ccl/rslang/header -I$WT/ccl/core/header -I$WT/ccl/cclLang/header -I$WT/ccl/cclGraph/header -I$WT/ccl/rslang/import/reflex/include -I$WT/ccl/rslang/import/include -I$WT/ccl/core/test/utils -I$WT/ccl/rslang/test/utils -I$WT/ccl/cclLang/test/utils"
build() {
  cmake -G Ninja -S $WT/ccl -B $WT/_b -DCMAKE_BUILD_TYPE=RelWithDebInfo -DGTest_DIR=/root/miniconda/lib/cmake/GTest -DCMAKE_PREFIX_PATH=/root/miniconda > /dev/null
  cmake --build $WT/_b -- -k 0 > $WT/build.log 2>&1
  echo "build rc=$? ($1)"
  ctest --test-dir $WT/_b -j8 --timeout 900 2>&1 | tail -3
  LIB=$(find $WT/_b -maxdepth 1 -name "libConceptCoreLibrary*.a" | head -1)
  g++ -std=c++20 -O1 -w $INC $DIR/demo.cpp $LIB -o $WT/demo_$1 2>&1 | tail -5
  $WT/demo_$1 > $WT/demo_$1.out 2>&1; echo "demo rc=$? ($1)"; tail -3 $WT/demo_$1.out
}
build clean
git -C $WT apply $DIR/patch.diff && echo "patch applied" || { echo "PATCH DOES NOT APPLY"; }
build patched
git -C /repo worktree remove --force $WT
echo "done"
