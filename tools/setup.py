#!/usr/bin/env python3
"""setup: build the Lean project (all theorems + driver) and the implementation archive once."""
import os, subprocess, sys
HERE = os.path.dirname(os.path.abspath(__file__))
VERIF = os.path.dirname(HERE)
sys.path.insert(0, HERE)
import build_impl
try:
    import gen_tables
    gen_tables.generate_all()
except ImportError:
    pass
try:
    import gen_state
    gen_state.generate()
except Exception as e:  # a changed source shape is reported by the check itself
    sys.stderr.write("gen_state: %s\n" % e)
try:
    import gen_consts
    gen_consts.generate()
except Exception as e:
    sys.stderr.write("gen_consts: %s\n" % e)
try:
    import gen_convert
    gen_convert.generate()
except Exception as e:
    sys.stderr.write("gen_convert: %s\n" % e)
try:
    import gen_lalr
    gen_lalr.generate()
except Exception as e:
    sys.stderr.write("gen_lalr: %s\n" % e)
def write_roots():
    """root modules importing every project module, so that a bare `lake build` checks everything"""
    lean = os.path.join(VERIF, "lean")
    mods = []
    for d, _, files in os.walk(os.path.join(lean, "CCVerif")):
        for f in sorted(files):
            if f.endswith(".lean"):
                mods.append(os.path.relpath(os.path.join(d, f), lean)[:-5].replace(os.sep, "."))
    with open(os.path.join(lean, "CCVerif.lean"), "w") as fh:
        fh.write("".join("import %s\n" % m for m in sorted(mods)))
    dm = [f[:-5] for f in sorted(os.listdir(os.path.join(lean, "Driver"))) if f.endswith(".lean")]
    with open(os.path.join(lean, "Driver.lean"), "w") as fh:
        fh.write("".join("import Driver.%s\n" % m for m in dm))
write_roots()
LEAN = os.path.join(VERIF, "lean")
r = subprocess.run(["lake", "build"], cwd=LEAN)
driver_ok = r.returncode == 0
if r.returncode != 0:
    # a proof that no longer checks is reported by the check of the property it belongs to (check.py builds the
    # property's modules itself); setup only has to provide what every check shares: the model driver
    sys.stderr.write("setup: `lake build` of the whole project failed; building the model driver alone\n")
    driver_ok = subprocess.run(["lake", "build", "ccdriver"], cwd=LEAN).returncode == 0
d = build_impl.build()
sys.exit(0 if (driver_ok and d) else 1)
