#!/usr/bin/env python3
"""setup: build the Lean project (all theorems + driver) and the implementation archive once."""
import os, subprocess, sys
HERE = os.path.dirname(os.path.abspath(__file__))
VERIF = os.path.dirname(HERE)
sys.path.insert(0, HERE)
import build_impl
try:
    import gen_tables
    gen_tables.generate_all()
except ImportError:
    pass
r = subprocess.run(["lake", "build"], cwd=os.path.join(VERIF, "lean"))
d = build_impl.build()
sys.exit(0 if (r.returncode == 0 and d) else 1)
