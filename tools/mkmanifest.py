#!/usr/bin/env python3
"""Regenerates MANIFEST.json from tools/manifest_data.py (kept valid at all times)."""
import json, os, sys
HERE = os.path.dirname(os.path.abspath(__file__))
sys.path.insert(0, HERE)
import manifest_data as md
import props

def technique(pid, c):
    if "technique" in c: return c["technique"]
    pr = props.PROPS.get(pid, {})
    gens = ["tools/gen_tables.py (%s)" % ", ".join(pr["tables"])] if pr.get("tables") else []
    gens += ["tools/%s.py" % g for g in pr.get("generators", [])]
    base = "Lean 4 theorems (kernel-checked, #print axioms audited) about a hand-written executable model"
    if gens:
        base += "; finite tables / constants the model depends on are regenerated from /repo's source by translators on every run (%s) and the theorems re-checked against them" % ", ".join(gens)
    return base + "; model tied to the code by a differential correspondence run (C++ harness under ASan+UBSan vs the compiled Lean model driver) with a Lean specification oracle; failing-input search when a proof or tie breaks"
checks = []
for pid, c in sorted(md.CHECKS.items()):
    checks.append(dict(
        property_id=pid,
        quick_cmd="python3 tools/check.py %s --tier quick" % pid,
        thorough_cmd="python3 tools/check.py %s --tier thorough" % pid,
        evidence_file="/verif/evidence/%s.json" % pid,
        replay_cmd_template="python3 tools/check.py %s --replay {path}" % pid,
        engine="lean4-proof+correspondence",
        level_claimed=dict(category="proof", text=c["text"], design_ref=c.get("design_ref", "DESIGN.md section 8, " + pid)),
        level_note=c["note"],
        technique=technique(pid, c),
    ))
m = dict(
    version=1,
    setup_cmd="python3 tools/setup.py",
    hooks=md.HOOKS,
    engines=[dict(name="lean4-proof+correspondence", path="/verif/tools/check.py",
                  serves_properties=sorted(md.CHECKS), kind_free_text="Lean 4 kernel-checked theorems about executable models (lean/CCVerif), tables regenerated from the source (tools/gen_tables.py, gen_state.py, gen_consts.py, gen_convert.py, gen_lalr.py), differential correspondence harness (harness/*.cpp, ASan+UBSan) against the compiled model driver (lean/Driver)")],
    checks=checks,
    notes=md.NOTES,
    not_applicable=[dict(property_id=p, reason=r) for p, r in sorted(md.NOT_APPLICABLE.items())],
)
json.dump(m, open(os.path.join(os.path.dirname(HERE), "MANIFEST.json"), "w"), indent=1, ensure_ascii=False)
print("MANIFEST.json written: %d checks, %d not_applicable" % (len(checks), len(m["not_applicable"])))
