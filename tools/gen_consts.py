#!/usr/bin/env python3
"""Translator for the numeric constants and small decision tables the Lean models transcribe by hand.

Re-extracts from /repo's current source (fixed syntactic shapes, fails loudly with ShapeError on anything
else - it never guesses) and writes lean/CCVerif/Generated/Consts.lean:

  * limits: ASTInterpreter::MAX_ITERATIONS, TypeAuditor::typeDeductionDepth, SDCompact::unknownCount,
    StructuredData::BOOL_INFINITY / SET_INFINITY, the lazy-set cacheLimit;
  * ErrorStatus thresholds (WARNING / CRITICAL) and the comparison ResolveErrorType makes;
  * the error-code enumerations SemanticEID, ValueEID, ParseEID, LexerEID with their values;
  * the CstType enumeration with its values, the Is* kind predicates (as the list of kinds they accept),
    the `priorities` table of HasPriorityOver and the letters of FirstLetterOf.

lean/CCVerif/Properties/Tie.lean proves that the hand-written models use exactly these values; the theorems
are re-checked on every run against the regenerated file, so an edit of a constant or of a kind predicate in
the C++ breaks a proof obligation of the properties that rely on it."""
import os, re, sys

HERE = os.path.dirname(os.path.abspath(__file__))
VERIF = os.path.dirname(HERE)
OUT = os.path.join(VERIF, "lean", "CCVerif", "Generated", "Consts.lean")


class ShapeError(Exception):
    pass


def repo():
    return os.environ.get("VERIF_REPO", "/repo")


def read(rel):
    p = os.path.join(repo(), rel)
    if not os.path.exists(p):
        raise ShapeError("source file %s not found" % rel)
    return open(p, encoding="utf-8", errors="replace").read()


def strip_comments(s):
    s = re.sub(r"/\*.*?\*/", "", s, flags=re.S)
    return re.sub(r"//[^\n]*", "", s)


def num(txt, what):
    t = txt.strip().rstrip("uUlL")
    try:
        return int(t, 0)
    except ValueError:
        raise ShapeError("%s: not an integer literal: %r" % (what, txt))


def constant(rel, name):
    """static constexpr <type> NAME = <int>;  or  NAME{ <int> };"""
    src = strip_comments(read(rel))
    m = re.search(r"static\s+constexpr\s+[\w:]+\s+%s\s*(?:=\s*([^;{}]+)|\{\s*([^;{}]+?)\s*\})\s*;" % re.escape(name), src)
    if not m:
        raise ShapeError("%s: constant %s not found in the expected shape" % (rel, name))
    return num(m.group(1) or m.group(2), name)


def enum(rel, name):
    """enum class NAME : type { a = 1, b, c = 7, ... }  ->  [(ident, value)] (implicit values continue)"""
    src = strip_comments(read(rel))
    m = re.search(r"enum\s+class\s+%s\b[^{;]*\{([^}]*)\}" % re.escape(name), src)
    if not m:
        raise ShapeError("%s: enum class %s not found" % (rel, name))
    out, nxt = [], 0
    for item in m.group(1).split(","):
        item = item.strip()
        if not item:
            continue
        mm = re.match(r"^(\w+)\s*(?:=\s*(.+))?$", item, re.S)
        if not mm:
            raise ShapeError("%s: enum %s: unrecognised enumerator %r" % (rel, name, item))
        val = num(mm.group(2), name + "::" + mm.group(1)) if mm.group(2) else nxt
        out.append((mm.group(1), val))
        nxt = val + 1
    if not out:
        raise ShapeError("%s: enum %s is empty" % (rel, name))
    return out


def switch_true_cases(src, func, enum_name):
    """constexpr bool FUNC(const CstType type) noexcept { switch (type) { default: return false; case A: case B: return true; } }"""
    m = re.search(r"constexpr\s+bool\s+%s\s*\(\s*const\s+%s\s+\w+\s*\)\s*noexcept\s*\{" % (func, enum_name), src)
    if not m:
        raise ShapeError("predicate %s(%s) not found in the expected shape" % (func, enum_name))
    i, depth = m.end(), 1
    while i < len(src) and depth:
        depth += {"{": 1, "}": -1}.get(src[i], 0)
        i += 1
    body = " ".join(src[m.end():i - 1].split())
    mm = re.match(r"^switch \( ?\w+ ?\) \{ default: return false; ((?:case %s::\w+: )+)return true; \}$" % enum_name, body)
    if not mm:
        raise ShapeError("predicate %s: body is not `switch { default: return false; case ...: return true; }`: %r" % (func, body[:120]))
    return re.findall(r"case %s::(\w+):" % enum_name, mm.group(1))


def priorities():
    src = strip_comments(read("ccl/core/src/semantic/rscore/CstList.cpp"))
    m = re.search(r"bool\s+HasPriorityOver\s*\(\s*const\s+CstType\s+(\w+)\s*,\s*const\s+CstType\s+(\w+)\s*\)\s*\{(.*?)\n\}", src, re.S)
    if not m:
        raise ShapeError("HasPriorityOver not found")
    strong, weak, body = m.group(1), m.group(2), " ".join(m.group(3).split())
    mm = re.search(r"priorities\s*\{([^}]*)\}\s*;\s*return priorities\.at\(static_cast<size_t>\(%s\)\) > priorities\.at\(static_cast<size_t>\(%s\)\);$" % (strong, weak), body)
    if not mm:
        raise ShapeError("HasPriorityOver: body is not `priorities{...}; return priorities.at(strong) > priorities.at(weak);`: %r" % body[:160])
    return [num(x, "priorities") for x in mm.group(1).split(",") if x.strip()]


def letters():
    src = strip_comments(read("ccl/core/src/tools/CstNameGenerator.cpp"))
    m = re.search(r"constexpr\s+char\s+FirstLetterOf\s*\([^)]*\)\s*noexcept\s*\{(.*?)\n\}", src, re.S)
    if not m:
        raise ShapeError("FirstLetterOf not found")
    body = m.group(1)
    cases = re.findall(r"(default:\s*)?case\s+CstType::(\w+)\s*:\s*return\s+'(.)'\s*;", body)
    rest = re.sub(r"(default:\s*)?case\s+CstType::(\w+)\s*:\s*return\s+'(.)'\s*;", "", body)
    rest = re.sub(r"using\s+semantic::CstType\s*;|switch\s*\(\s*\w+\s*\)\s*\{|\}|\s", "", rest)
    if rest or not cases:
        raise ShapeError("FirstLetterOf: unexpected body remainder %r" % rest[:80])
    return [(c[1], c[2], bool(c[0])) for c in cases]


def resolve_rule():
    """ResolveErrorType: `if (eid < static_cast<uint32_t>(ErrorStatus::CRITICAL)) return WARNING; else return CRITICAL;`"""
    src = " ".join(strip_comments(read("ccl/rslang/include/ccl/rslang/Error.hpp")).split())
    m = re.search(r"constexpr ErrorStatus ResolveErrorType\(const uint32_t (\w+)\) noexcept \{ if \(\1 < static_cast<uint32_t>\(ErrorStatus::CRITICAL\)\) \{ return ErrorStatus::WARNING; \} else \{ return ErrorStatus::CRITICAL; \} \}", src)
    if not m:
        raise ShapeError("ResolveErrorType is not `eid < CRITICAL ? WARNING : CRITICAL`")
    return True


def render():
    L = []
    w = L.append
    w("/- GENERATED by tools/gen_consts.py from /repo's current source on every run. Do not edit. -/")
    w("namespace CCVerif.Gen.Consts")
    w("")
    limits = [
        ("MAX_ITERATIONS", constant("ccl/rslang/include/ccl/rslang/ASTInterpreter.h", "MAX_ITERATIONS"), "ASTInterpreter::MAX_ITERATIONS"),
        ("typeDeductionDepth", constant("ccl/rslang/include/ccl/rslang/TypeAuditor.h", "typeDeductionDepth"), "TypeAuditor::typeDeductionDepth"),
        ("unknownCount", constant("ccl/rslang/include/ccl/rslang/SDataCompact.h", "unknownCount"), "SDCompact::unknownCount"),
        ("BOOL_INFINITY", constant("ccl/rslang/include/ccl/rslang/StructuredData.h", "BOOL_INFINITY"), "StructuredData::BOOL_INFINITY"),
        ("SET_INFINITY", constant("ccl/rslang/include/ccl/rslang/StructuredData.h", "SET_INFINITY"), "StructuredData::SET_INFINITY"),
        ("cacheLimit", constant("ccl/rslang/src/SDImplementation.cpp", "cacheLimit"), "lazy-set element cache (SDImplementation.cpp)"),
    ]
    for n, v, doc in limits:
        w("/-- `%s` -/" % doc)
        w("def %s : Nat := %d" % (n, v))
    w("")
    st = dict(enum("ccl/rslang/include/ccl/rslang/Error.hpp", "ErrorStatus"))
    if set(st) != {"WARNING", "CRITICAL"}:
        raise ShapeError("ErrorStatus enumerators changed: %s" % sorted(st))
    resolve_rule()
    w("/-- `ErrorStatus::WARNING` -/")
    w("def WARNING : Nat := %d" % st["WARNING"])
    w("/-- `ErrorStatus::CRITICAL`; `ResolveErrorType(eid)` is CRITICAL iff `eid >= CRITICAL` (shape checked by the translator) -/")
    w("def CRITICAL : Nat := %d" % st["CRITICAL"])
    w("")
    w("/-- error-code enumerations: (enumeration, enumerator, value) -/")
    w("def errorCodes : List (String × String × Nat) := [")
    rows = []
    for rel, en in [("ccl/rslang/include/ccl/rslang/RSErrorCodes.hpp", "LexerEID"),
                    ("ccl/rslang/include/ccl/rslang/RSErrorCodes.hpp", "ParseEID"),
                    ("ccl/rslang/include/ccl/rslang/RSErrorCodes.hpp", "SemanticEID"),
                    ("ccl/rslang/include/ccl/rslang/RSErrorCodes.hpp", "ValueEID")]:
        for ident, val in enum(rel, en):
            rows.append('  ("%s", "%s", 0x%X)' % (en, ident, val))
    w(",\n".join(rows))
    w("]")
    w("")
    cst = [(i, v) for i, v in enum("ccl/core/include/ccl/semantic/CstType.hpp", "CstType") if i != "size_"]
    size_ = dict(enum("ccl/core/include/ccl/semantic/CstType.hpp", "CstType")).get("size_")
    if size_ is None:
        raise ShapeError("CstType::size_ missing")
    w("/-- `CstType` enumerators with their values (size_ excluded) -/")
    w("def cstTypes : List (String × Nat) := [%s]" % ", ".join('("%s", %d)' % iv for iv in cst))
    w("def cstTypeSize : Nat := %d" % size_)
    src = strip_comments(read("ccl/core/include/ccl/semantic/CstType.hpp"))
    w("/-- kind predicates of CstType.hpp: the kinds each accepts -/")
    w("def kindPredicates : List (String × List String) := [")
    preds = []
    for f in ["IsBasic", "IsRSObject", "IsBaseSet", "IsBaseNotion", "IsCallable", "IsStatement", "IsLogical"]:
        preds.append('  ("%s", [%s])' % (f, ", ".join('"%s"' % c for c in switch_true_cases(src, f, "CstType"))))
    w(",\n".join(preds))
    w("]")
    flat = " ".join(src.split())
    if "constexpr bool IsCalculable(const CstType type) noexcept { return !IsBaseNotion(type) && !IsCallable(type); }" not in flat:
        raise ShapeError("IsCalculable is not `!IsBaseNotion(type) && !IsCallable(type)`")
    pr = priorities()
    if len(pr) != size_:
        raise ShapeError("priorities table has %d entries, CstType::size_ = %d" % (len(pr), size_))
    w("/-- the `priorities` table of `HasPriorityOver` (CstList.cpp), indexed by the CstType value; strong > weak -/")
    w("def priorities : List Nat := [%s]" % ", ".join(str(x) for x in pr))
    lt = letters()
    w("/-- `FirstLetterOf` (CstNameGenerator.cpp): (kind, letter) -/")
    w("def letters : List (String × Char) := [%s]" % ", ".join("(\"%s\", '%s')" % (k, c) for k, c, _ in lt))
    w("")
    w("end CCVerif.Gen.Consts")
    return "\n".join(L) + "\n"


def generate():
    text = render()
    old = open(OUT, encoding="utf-8").read() if os.path.exists(OUT) else None
    if old != text:
        os.makedirs(os.path.dirname(OUT), exist_ok=True)
        tmp = OUT + ".tmp%d" % os.getpid()
        with open(tmp, "w", encoding="utf-8") as f:
            f.write(text)
        os.replace(tmp, OUT)
        return True
    return False


if __name__ == "__main__":
    try:
        print("changed" if generate() else "unchanged")
    except ShapeError as e:
        sys.exit("ShapeError: %s" % e)
