"""Registry of the properties: which Lean modules hold the model / theorems, which harness
drives the implementation, what is trusted.  Used by check.py."""

COMMON_TRUSTED = [
    "Lean 4.33 kernel (thorough tier: re-checked by leanchecker); axioms allowed: propext, Classical.choice, Quot.sound; no native_decide/bv_decide/sorry/user axioms (audited every run)",
    "tools/check.py, the C++ harness and its generators (they bound what is seen of the code)",
    "the Lean model is hand-written; its agreement with the C++ is established by the correspondence run of this check, not proved",
    "g++ 12 / libstdc++ / ASan+UBSan runtime used to execute the implementation",
]

PROPS = {
    "C20": dict(
        lean_modules=["CCVerif.Properties.C20"],
        harness=["c20_main.cpp"],
        exhaustive=True,
        trusted_base=["C-locale <cctype> semantics for bytes < 0x80 (isspace/isdigit); bytes >= 0x80 are passed as negative char (UB in C++, not modelled)"],
        assumptions=["StrPos is int32_t; positions modelled in Z, strings >= 2^31 bytes not modelled",
                     "Substr with start > finish or negative start is outside the documented precondition: compared with the model, not judged"],
        partial=[],
    ),
    "C14": dict(
        lean_modules=["CCVerif.Properties.C14"],
        harness=["c14_main.cpp"],
        exhaustive=True,
        trusted_base=["std::unordered_set iteration order is an input: the harness passes the order the implementation used",
                      "the verticies hash map is modelled as a derived function of the vertex vector"],
        assumptions=["VertexIndex is int32_t: more than 2^31 vertices ever created is not modelled",
                     "IsReachableFrom(x, x) answers 'direct self-loop' in the code; characterised by the model, judged by the oracle only when a self-loop exists"],
        partial=[],
    ),
    "C09": dict(
        lean_modules=["CCVerif.Properties.C09"],
        harness=["c09_main.cpp"],
        trusted_base=["EntityGenerator::NewUID (std::random_device) is an input of the model: the harness passes the uid the implementation drew",
                      "formal definitions, texts and analysis results are opaque in this model (the property is about identity and order only)"],
        assumptions=["MergeWith / equations are covered under C12, not here"],
        partial=[],
    ),
    "C07": dict(
        lean_modules=["CCVerif.Properties.C07"],
        harness=["c07_main.cpp"],
        trusted_base=["the per-constituent analysis is instantiated on a definition fragment (unions of names / empty / unparsable) on which the real auditor is predicted by a one-line rule; outside the fragment only the implementation-level oracle (copy + UpdateState) applies",
                      "iteration orders of std::unordered_set inside the graph updater are not modelled (not observable through statuses, types, edge sets)"],
        assumptions=["Load without a following UpdateState leaves statuses UNKNOWN by design; histories call UpdateState after Load",
                     "Thesaurus (terms / text definitions) is covered by the implementation-level oracle only, under acyclic term references"],
        partial=["incremental_eq_scratch_statement"],
    ),
    "C11": dict(
        lean_modules=["CCVerif.Properties.C11"],
        harness=["c11_main.cpp"],
        trusted_base=["evaluation is instantiated on the fragment 'term = union of global names, base set = set of integer keys'; outside it (structures, statements, functions, general expressions) only the implementation-level oracle (fresh model + RecalculateAll) applies",
                      "the C07 schema model underneath (same assumptions)"],
        assumptions=["the text of an interpretation key is fixed by the harness, so equal key sets mean equal interpretations",
                     "renaming without substitution is exercised by C07/C08, not here"],
        partial=["fresh_statement"],
    ),
    "C16": dict(
        lean_modules=["CCVerif.Properties.C16"],
        harness=["c16_main.cpp"],
        exhaustive=True,
        trusted_base=["std::set<StructuredData> (SDEnumSet) is modelled as sorted insertion under the model's transcription of Compare / operator<; std::vector, std::optional, std::variant not modelled",
                      "the harness builds typifications with the raw constructor Typification(std::vector<Typification>) (for arity >= 2 this is what Typification::Tuple does) and values with Factory::Val/Tuple/EmptySet + SDSet::AddElement, plus a few lazily enumerated sets (Factory::Boolean, Factory::Decartian)"],
        assumptions=["table cells and element ids are int32_t in the C++, Z in the model (the packer/unpacker do no arithmetic on cells apart from --count; cardinalities fit int32)",
                     "typifications are well formed: every tuple has arity >= 2 (what Typification::Tuple / the type checker produce). Arity 0 and 1 are only reachable through the raw constructor: arity 0 hits the assert of Factory::Tuple, arity 1 returns the bare component (model and code agree, stream (4) of the harness; theorem unpack_degenerate_arity)",
                     "round trip is proved for values without a set of exactly SDCompact::unknownCount = 10 000 000 elements (noMarker); for a value with such a set followed by a sibling the packed table does not unpack (theorems unpack_pack_marker_collision, unpack_pack_marker_counterexample) - the witness needs 2*10^7 table rows and is not replayed by the harness",
                     "'compatible' is the full structural predicate compat (every element typed, sets strictly ascending); it implies the C++ CheckCompatible (theorem compat_checkCompatible), which the harness also evaluates on every unpacked value"],
        partial=["unpack_pack_statement (round trip for EVERY compatible value) is false in the model: unpack_pack_partial proves it under the extra hypothesis noMarker v; unpack_pack_marker_counterexample refutes the unrestricted statement"],
    ),
    "C13": dict(
        lean_modules=["CCVerif.Properties.C13"],
        harness=["c13_main.cpp"],
        trusted_base=["the source schema is abstracted to (uid, resolved inputs, empty definition?, base set?) in list order, as reported by the implementation (Graph().InputsFor)",
                      "the copy (InsertCopy bulk + ResetAliases) is not modelled here: closure, order and status/type preservation are judged on the implementation's result"],
        assumptions=["'dependencies' are the resolved ones: a definition that mentions only unresolved names has none"],
        partial=["maxPart_spec_statement", "basis_spec_statement"],
    ),
}
