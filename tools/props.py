"""Registry of the properties: which Lean modules hold the model / theorems, which harness
drives the implementation, what is trusted.  Used by check.py."""

COMMON_TRUSTED = [
    "Lean 4.33 kernel (thorough tier: re-checked by leanchecker); axioms allowed: propext, Classical.choice, Quot.sound; no native_decide/bv_decide/sorry/user axioms (audited every run)",
    "tools/check.py, the C++ harness and its generators (they bound what is seen of the code)",
    "the Lean model is hand-written; its agreement with the C++ is established by the correspondence run of this check, not proved",
    "g++ 12 / libstdc++ / ASan+UBSan runtime used to execute the implementation",
]

PROPS = {
    "C20": dict(
        lean_modules=["CCVerif.Properties.C20"],
        harness=["c20_main.cpp"],
        exhaustive=True,
        trusted_base=["C-locale <cctype> semantics for bytes < 0x80 (isspace/isdigit); bytes >= 0x80 are passed as negative char (UB in C++, not modelled)"],
        assumptions=["StrPos is int32_t; positions modelled in Z, strings >= 2^31 bytes not modelled",
                     "Substr with start > finish or negative start is outside the documented precondition: compared with the model, not judged"],
        partial=[],
    ),
    "C14": dict(
        lean_modules=["CCVerif.Properties.C14"],
        harness=["c14_main.cpp"],
        exhaustive=True,
        trusted_base=["std::unordered_set iteration order is an input: the harness passes the order the implementation used",
                      "the verticies hash map is modelled as a derived function of the vertex vector"],
        assumptions=["VertexIndex is int32_t: more than 2^31 vertices ever created is not modelled",
                     "IsReachableFrom(x, x) answers 'direct self-loop' in the code; characterised by the model, judged by the oracle only when a self-loop exists"],
        partial=[],
    ),
    "C09": dict(
        lean_modules=["CCVerif.Properties.C09"],
        harness=["c09_main.cpp"],
        trusted_base=["EntityGenerator::NewUID (std::random_device) is an input of the model: the harness passes the uid the implementation drew",
                      "formal definitions, texts and analysis results are opaque in this model (the property is about identity and order only)"],
        assumptions=["MergeWith / equations are covered under C12, not here"],
        partial=[],
    ),
    "C07": dict(
        lean_modules=["CCVerif.Properties.C07"],
        harness=["c07_main.cpp"],
        trusted_base=["the per-constituent analysis is instantiated on a definition fragment (unions of names / empty / unparsable) on which the real auditor is predicted by a one-line rule; outside the fragment only the implementation-level oracle (copy + UpdateState) applies",
                      "iteration orders of std::unordered_set inside the graph updater are not modelled (not observable through statuses, types, edge sets)"],
        assumptions=["Load without a following UpdateState leaves statuses UNKNOWN by design; histories call UpdateState after Load",
                     "Thesaurus (terms / text definitions) is covered by the implementation-level oracle only, under acyclic term references"],
        partial=["incremental_eq_scratch_statement"],
    ),
}
