#!/usr/bin/env python3
"""seed_eval.py <seeded-dir> [--tier quick|thorough] [--props C14,C07]

Applies seeded/<id>/patch.diff to /repo, runs the registered check(s), undoes the patch
(git checkout -- .), and writes seeded/<id>/result.json. Never commits anything to /repo."""
import argparse, json, os, subprocess, sys, time
ap = argparse.ArgumentParser()
ap.add_argument("dir"); ap.add_argument("--tier", default="quick"); ap.add_argument("--props", default="")
ap.add_argument("--seed", default="1")
a = ap.parse_args()
d = os.path.abspath(a.dir)
meta = json.load(open(os.path.join(d, "meta.json")))
props = [p for p in a.props.split(",") if p] or [meta["property"]]
st = subprocess.run(["git", "-C", "/repo", "status", "--porcelain", "--untracked-files=no"], capture_output=True, text=True).stdout.strip()
if st:
    sys.exit("/repo has local modifications; refusing")
r = subprocess.run(["git", "-C", "/repo", "apply", os.path.join(d, "patch.diff")], capture_output=True, text=True)
if r.returncode != 0:
    sys.exit("patch does not apply: " + r.stderr)
results = {}
try:
    for p in props:
        t0 = time.time()
        env = dict(os.environ, VERIF_SEED=a.seed)
        rr = subprocess.run([sys.executable, os.path.join(os.path.dirname(__file__), "check.py"), p, "--tier", a.tier],
                            capture_output=True, text=True, cwd=os.path.dirname(os.path.dirname(__file__)), env=env)
        lines = [l for l in rr.stdout.splitlines() if l.startswith("VIOLATION") or l.startswith("KNOWN-FINDING")]
        results[p] = dict(rc=rr.returncode, lines=lines, wall=round(time.time() - t0))
        print(p, "rc=%d" % rr.returncode, lines[:2])
finally:
    subprocess.run(["git", "-C", "/repo", "checkout", "--", "."], check=True)
out = os.path.join(d, "result.json")
old = json.load(open(out)) if os.path.exists(out) else {}
old["%s-seed%s" % (a.tier, a.seed)] = results
json.dump(old, open(out, "w"), indent=1)
