#!/usr/bin/env python3
"""seed_eval.py <seeded-dir> [--tier quick|thorough] [--props C14,C07] [--inplace]

Runs the registered check(s) against the tree /repo HEAD + seeded/<id>/patch.diff and writes
seeded/<id>/result.json. Default: the patched tree is a scratch git worktree outside /repo and /verif
(removed afterwards) and the checks are pointed at it with VERIF_REPO, so that other work reading
/repo is not disturbed. --inplace: apply the patch to /repo itself, run, and undo it
(git checkout -- .). Never commits anything to /repo."""
import argparse, json, os, subprocess, sys, time
ap = argparse.ArgumentParser()
ap.add_argument("dir"); ap.add_argument("--tier", default="quick"); ap.add_argument("--props", default="")
ap.add_argument("--seed", default="1")
ap.add_argument("--inplace", action="store_true")
a = ap.parse_args()
d = os.path.abspath(a.dir)
meta = json.load(open(os.path.join(d, "meta.json")))
props = [p for p in a.props.split(",") if p] or [meta["property"]]
wt = None
if a.inplace:
    st = subprocess.run(["git", "-C", "/repo", "status", "--porcelain", "--untracked-files=no"], capture_output=True, text=True).stdout.strip()
    if st:
        sys.exit("/repo has local modifications; refusing")
    target = "/repo"
else:
    wt = "/tmp/seedeval_%d" % os.getpid()
    subprocess.run(["git", "-C", "/repo", "worktree", "add", "-q", "--detach", wt, "HEAD"], check=True)
    target = wt
r = subprocess.run(["git", "-C", target, "apply", os.path.join(d, "patch.diff")], capture_output=True, text=True)
if r.returncode != 0:
    if wt: subprocess.run(["git", "-C", "/repo", "worktree", "remove", "--force", wt])
    sys.exit("patch does not apply: " + r.stderr)
results = {}
try:
    for p in props:
        t0 = time.time()
        env = dict(os.environ, VERIF_SEED=a.seed)
        if wt: env["VERIF_REPO"] = wt
        env["VERIF_EVIDENCE_DIR"] = os.path.join(d, "run")   # evidence + replay of the seeded run (not committed)
        rr = subprocess.run([sys.executable, os.path.join(os.path.dirname(__file__), "check.py"), p, "--tier", a.tier],
                            capture_output=True, text=True, cwd=os.path.dirname(os.path.dirname(__file__)), env=env)
        lines = [l for l in rr.stdout.splitlines() if l.startswith("VIOLATION") or l.startswith("KNOWN-FINDING")]
        results[p] = dict(rc=rr.returncode, lines=lines, wall=round(time.time() - t0))
        print(p, "rc=%d" % rr.returncode, lines[:2])
finally:
    if wt: subprocess.run(["git", "-C", "/repo", "worktree", "remove", "--force", wt], check=True)
    else: subprocess.run(["git", "-C", "/repo", "checkout", "--", "."], check=True)
out = os.path.join(d, "result.json")
old = json.load(open(out)) if os.path.exists(out) else {}
old["%s-seed%s" % (a.tier, a.seed)] = results
json.dump(old, open(out, "w"), indent=1)
