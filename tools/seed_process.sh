#!/bin/bash
# seed_process.sh <PROP> <n> <worktree> "<breaks>" "<needs>": take + confirm + evaluate one delivered seed, then remove its worktree
P=$1; N=$2; WT=$3
SEED_SRC=$WT /verif/tools/seed_take.sh $P $N "$4" "$5" || exit 1
/verif/tools/seed_confirm.sh ${P}r$N /verif/seeded/$P-$N
grep -n "build rc\|tests passed\|demo rc\|PATCH" /verif/seeded/$P-$N/confirm.log
git -C /repo worktree remove --force $WT
python3 ${VERIF_EVAL:-/verif}/tools/seed_eval.py /verif/seeded/$P-$N | cut -c1-160
