#!/usr/bin/env python3
"""check.py <property> [--tier quick|thorough] [--replay FILE]

One run = (0) regenerate source-derived tables, (1) lake build of the property's theorems and
the model driver, (2) axiom / sorry audit, (3) build of /repo's current tree + harness,
(4) correspondence (implementation vs Lean model) and oracle (implementation vs Lean
specification) on generated cases, (5) verdict + evidence.  See DESIGN.md section 4.
"""
import argparse, json, os, re, subprocess, sys, time, hashlib, collections

HERE = os.path.dirname(os.path.abspath(__file__))
VERIF = os.path.dirname(HERE)
sys.path.insert(0, HERE)
import build_impl  # noqa: E402
import props       # noqa: E402

LEAN = os.path.join(VERIF, "lean")
# VERIF_EVIDENCE_DIR: runs against a tree that is not /repo (seeded changes, tools/seed_eval.py) write their
# evidence and replay files elsewhere, so that /verif/evidence always describes /repo itself
EVID = os.environ.get("VERIF_EVIDENCE_DIR") or os.path.join(VERIF, "evidence")
REPLAY = os.path.join(EVID, "replay")
ALLOWED_AXIOMS = {"propext", "Classical.choice", "Quot.sound"}
FORBIDDEN = re.compile(r"\b(sorry|admit|native_decide|bv_decide|implemented_by|unsafe)\b|^\s*axiom\s|maxHeartbeats\s+0")


def log(*a):
    print("[check]", *a, file=sys.stderr, flush=True)


def run(cmd, cwd=None, inp=None, timeout=None, env=None):
    return subprocess.run(cmd, cwd=cwd, input=inp, capture_output=True, text=True, timeout=timeout, env=env)


# ---------------------------------------------------------------- Lean side

def strip_comments(src):
    out, i, depth = [], 0, 0
    n = len(src)
    while i < n:
        if src.startswith("/-", i):
            depth += 1; i += 2; continue
        if depth and src.startswith("-/", i):
            depth -= 1; i += 2; continue
        if depth:
            if src[i] == "\n": out.append("\n")
            i += 1; continue
        if src.startswith("--", i):
            while i < n and src[i] != "\n": i += 1
            continue
        out.append(src[i]); i += 1
    return "".join(out)


def lean_sources(modules):
    """transitive closure of project-local imports of the given modules"""
    seen, todo = [], list(modules)
    while todo:
        m = todo.pop()
        if m in seen: continue
        p = os.path.join(LEAN, m.replace(".", "/") + ".lean")
        if not os.path.exists(p): continue
        seen.append(m)
        for line in open(p, encoding="utf-8"):
            mm = re.match(r"\s*import\s+(\S+)", line)
            if mm and (mm.group(1).startswith("CCVerif") or mm.group(1).startswith("Driver")):
                todo.append(mm.group(1))
    return seen


def theorems_of(module):
    """public theorem names (fully qualified) declared in a property file"""
    p = os.path.join(LEAN, module.replace(".", "/") + ".lean")
    src = strip_comments(open(p, encoding="utf-8").read())
    ns, names = [], []
    for line in src.splitlines():
        m = re.match(r"\s*namespace\s+(\S+)", line)
        if m: ns.append(m.group(1)); continue
        m = re.match(r"\s*end\s+(\S+)", line)
        if m and ns and ns[-1].split(".")[-1] == m.group(1).split(".")[-1]: ns.pop(); continue
        m = re.match(r"\s*(private\s+)?theorem\s+(\S+)", line)
        if m and not m.group(1):
            names.append(".".join(ns + [m.group(2)]))
    return names


def lean_phase(prop):
    """returns dict(ok, build_log, theorems, axioms{thm:[..]}, bad_axioms, forbidden_hits, failed_theorems)"""
    res = dict(ok=True, theorems=[], axioms={}, bad=[], forbidden=[], failed=[], build_log="")
    mods = prop["lean_modules"]
    r = run(["lake", "build"] + mods + ["ccdriver"], cwd=LEAN)
    res["build_log"] = (r.stdout + r.stderr)[-6000:]
    driver_ok = os.path.exists(os.path.join(LEAN, ".lake/build/bin/ccdriver"))
    if r.returncode != 0:
        res["ok"] = False
        # name the theorems whose proofs failed (by error line -> enclosing theorem)
        for m in re.finditer(r"error: (\S+\.lean):(\d+):\d+", r.stdout + r.stderr):
            f, ln = m.group(1), int(m.group(2))
            fp = os.path.join(LEAN, f)
            if os.path.exists(fp):
                lines = open(fp, encoding="utf-8").read().splitlines()
                name = None
                for i in range(min(ln, len(lines)) - 1, -1, -1):
                    mm = re.match(r"\s*(?:private\s+)?(?:theorem|def|example|instance|lemma)\s*(\S*)", lines[i])
                    if mm: name = mm.group(1) or "example"; break
                res["failed"].append("%s:%d:%s" % (f, ln, name))
        res["failed"] = sorted(set(res["failed"]))
        # the driver may still be buildable (model files intact): try it alone
        r2 = run(["lake", "build", "ccdriver"], cwd=LEAN)
        driver_ok = r2.returncode == 0
    res["driver_ok"] = driver_ok
    # forbidden constructs in every source the property depends on
    for m in lean_sources(mods + ["Driver.Main"]):
        p = os.path.join(LEAN, m.replace(".", "/") + ".lean")
        src = strip_comments(open(p, encoding="utf-8").read())
        for i, line in enumerate(src.splitlines(), 1):
            if FORBIDDEN.search(line):
                res["forbidden"].append("%s:%d:%s" % (m, i, line.strip()[:80]))
    if res["forbidden"]:
        res["ok"] = False
    thms = []
    for m in mods:
        if ".Properties." in m: thms += theorems_of(m)
    res["theorems"] = thms
    if r.returncode == 0 and thms:
        audit = os.path.join(LEAN, ".lake", "audit_%s.lean" % prop["id"])
        with open(audit, "w") as f:
            for m in mods: f.write("import %s\n" % m)
            for t in thms: f.write("#print axioms %s\n" % t)
        ra = run(["lake", "env", "lean", audit], cwd=LEAN)
        out = ra.stdout + ra.stderr
        for t in thms:
            m = re.search(r"'%s' depends on axioms: \[([^\]]*)\]" % re.escape(t), out, re.S)
            if m:
                ax = [a.strip() for a in m.group(1).replace("\n", " ").split(",") if a.strip()]
            elif re.search(r"'%s' does not depend on any axioms" % re.escape(t), out):
                ax = []
            else:
                res["failed"].append("audit:" + t); res["ok"] = False; continue
            res["axioms"][t] = ax
            extra = [a for a in ax if a not in ALLOWED_AXIOMS]
            if extra:
                res["bad"].append("%s uses %s" % (t, extra)); res["ok"] = False
    return res


def leanchecker(mods):
    bad = []
    for m in mods:
        r = run(["lake", "env", "leanchecker", m], cwd=LEAN, timeout=1800)
        if r.returncode != 0:
            bad.append(m + ": " + (r.stdout + r.stderr)[-300:])
    return bad


# ---------------------------------------------------------------- comparison

def spec_matches(impl, spec):
    """token-wise comparison; spec token `x` = unspecified; whole spec `n/a` = not applicable"""
    if spec in ("n/a", "x"): return None
    it, st = impl.split(" "), spec.split(" ")
    if "x" not in st:
        return impl == spec
    if len(it) != len(st): return False
    return all(s == "x" or s == i for i, s in zip(it, st))


def load_known():
    p = os.path.join(VERIF, "known_findings.json")
    if not os.path.exists(p): return []
    return json.load(open(p)).get("findings", [])


def known_match(pid, case, known):
    """case: dict(op, history, observed, expected, kind)"""
    for k in known:
        if k.get("property") != pid or k.get("kind") != "finding": continue
        m = k.get("match", {})
        text = "\n".join(case.get("history", []) + [case["op"]])
        if "op_regex" in m and not re.search(m["op_regex"], case["op"]): continue
        if "history_regex" in m and not re.search(m["history_regex"], text, re.S): continue
        if "observed_regex" in m and not re.search(m["observed_regex"], case.get("observed", "")): continue
        if "kind" in m and m["kind"] != case.get("kind"): continue
        return k
    return None


def run_harness(prop, tier, seed, impl_dir, budget=None):
    exe = build_impl.link_harness(impl_dir, [os.path.join(VERIF, "harness", s) for s in prop["harness"]], prop["id"].lower())
    if exe is None:
        return None, "harness build failed"
    env = dict(os.environ, VERIF_SEED=str(seed), VERIF_TIER=tier,
               ASAN_OPTIONS="detect_leaks=0:abort_on_error=1:allocator_may_return_null=1", UBSAN_OPTIONS="print_stacktrace=1")
    t0 = time.time()
    r = subprocess.run([exe] + prop.get("harness_args", []), capture_output=True, env=env,
                       timeout=budget or (prop.get("timeout") or {}).get(tier, 3600))
    out = r.stdout.decode("utf-8", "replace")
    err = r.stderr.decode("utf-8", "replace")
    lines = [l for l in out.split("\n") if l]
    info = dict(rc=r.returncode, stderr=err[-3000:], wall=time.time() - t0)
    return lines, info


def run_driver(ops):
    exe = os.path.join(LEAN, ".lake/build/bin/ccdriver")
    r = subprocess.run([exe], input=("\n".join(ops) + "\n").encode(), capture_output=True)
    out = r.stdout.decode("utf-8", "replace").split("\n")
    if out and out[-1] == "": out.pop()
    return out, r.returncode, r.stderr.decode("utf-8", "replace")[-2000:]


def write_replay(pid, payload):
    os.makedirs(REPLAY, exist_ok=True)
    h = hashlib.sha256(json.dumps(payload, sort_keys=True).encode()).hexdigest()[:12]
    p = os.path.join(REPLAY, "%s-%s.json" % (pid, h))
    with open(p, "w") as f: json.dump(payload, f, indent=1, ensure_ascii=False)
    return p


ALL_GENERATORS = ["gen_state", "gen_consts", "gen_convert", "gen_lalr"]


def main():
    ap = argparse.ArgumentParser()
    ap.add_argument("prop")
    ap.add_argument("--tier", default=os.environ.get("VERIF_TIER", "quick"))
    ap.add_argument("--replay")
    args = ap.parse_args()
    pid = args.prop.upper()
    prop = props.PROPS[pid]
    prop["id"] = pid
    tier = args.tier if args.tier in ("quick", "thorough") else "quick"
    seed = int(os.environ.get("VERIF_SEED", "1") or 1)
    if args.replay:
        rp = json.load(open(args.replay))
        seed, tier = rp.get("seed", seed), rp.get("tier", tier)
    t0 = time.time()
    os.makedirs(EVID, exist_ok=True)
    known = load_known()
    violations, known_hits, notes = [], [], []

    # (0) tables regenerated from the source
    tie_broken = []
    # every generated file is refreshed on every run (the model driver is one program shared by all
    # properties, so a stale table left by a run against another tree must never leak into this one);
    # a translator that refuses the source breaks the tie only of the properties that declare it
    import gen_tables
    for tb in sorted(gen_tables.GENERATORS):
        try:
            gen_tables.generate([tb])
        except gen_tables.ShapeError as e:
            if tb in prop.get("tables", []):
                tie_broken.append("translator: %s" % e)
            else:
                notes.append("translator %s (not used by this property) refused the source: %s" % (tb, e))
    for g in ALL_GENERATORS:
        mod = __import__(g)
        try:
            mod.generate()
        except mod.ShapeError as e:
            if g in prop.get("generators", []):
                tie_broken.append("translator %s: %s" % (g, e))
            else:
                notes.append("translator %s (not used by this property) refused the source: %s" % (g, e))

    # (1,2) proofs + audit
    log("lean build", prop["lean_modules"])
    lp = lean_phase(prop)
    if tier == "thorough" and lp["ok"]:
        bad = leanchecker([m for m in prop["lean_modules"] if ".Properties." in m])
        if bad: lp["ok"] = False; lp["failed"] += ["leanchecker:" + b for b in bad]
    obligations = len(lp["theorems"])
    discharged = len([t for t in lp["theorems"] if t in lp["axioms"] and not [a for a in lp["axioms"][t] if a not in ALLOWED_AXIOMS]])

    # (3) implementation from the current working tree
    log("build impl")
    impl_dir = build_impl.build()
    counters, samples = collections.Counter(), []
    corr_dis, oracle_fail, faults = [], [], []
    distinct = set()
    harness_info = {}

    def explore(tier_, seed_, budget=None):
        """one harness run + model driver + comparison; results are appended to the lists above"""
        log("harness", tier_, "seed", seed_)
        lines, info = run_harness(prop, tier_, seed_, impl_dir, budget)
        if lines is None:
            tie_broken.append("harness: %s" % info); return {"error": info}
        if info["rc"] != 0:
            # the harness process itself died (sanitizer abort outside a forked case)
            faults.append(dict(op="<harness process>", observed="fault:harness rc=%d" % info["rc"], expected="normal exit",
                               history=[], kind="fault", stderr=info["stderr"][-1500:]))
        ops, impls = [], []
        for l in lines:
            if "\t" not in l: continue
            o, i = l.split("\t", 1)
            ops.append(o); impls.append(i)
        log("driver on", len(ops), "ops")
        outs, drc, derr = run_driver(ops)
        if drc != 0 or len(outs) != len(ops):
            tie_broken.append("driver failed rc=%s lines=%d/%d %s" % (drc, len(outs), len(ops), derr[-300:]))
        history = []
        for idx in range(min(len(ops), len(outs))):
            op, impl = ops[idx], impls[idx]
            model, _, spec = outs[idx].partition("\t")
            if not spec: spec = "n/a"
            parts = op.split(" ")
            opname = parts[1] if len(parts) > 1 else op
            if opname == "reset": history = []
            counters[opname] += 1
            case = dict(op=op, observed=impl, history=list(history[-200:]))
            history.append(op + "  => " + impl)
            if impl.startswith("fault:") and not model.startswith("fault:"):
                faults.append(dict(case, expected=model, kind="fault")); continue
            if model != "skip" and impl != model:
                corr_dis.append(dict(case, expected=model, kind="correspondence"))
            sm = spec_matches(impl, spec)
            if sm is not None:
                if op not in distinct: distinct.add(op)
                counters["spec_applicable"] += 1
                if not sm:
                    oracle_fail.append(dict(case, expected=spec, kind="oracle"))
            if len(samples) < 6 and idx % max(1, len(ops) // 6) == 0:
                samples.append(dict(op=op, impl=impl, model=model, spec=spec))
        return info

    searched = []
    if impl_dir is None:
        tie_broken.append("implementation does not build")
    elif not lp.get("driver_ok"):
        tie_broken.append("model driver does not build")
    else:
        info = explore(tier, seed)
        harness_info = info if isinstance(info, dict) else {"error": info}
        # DESIGN 4.3: a proof obligation, a source tie or the model correspondence no longer checks and this run has
        # no concrete failing input yet -> search for one with an enlarged budget (further seeds, then the thorough
        # generators under a time limit) before reporting `no-failing-input-found`
        def unexplained():
            oracle_ops_ = set(c["op"] for c in oracle_fail + faults)
            return [c for c in corr_dis if c["op"] not in oracle_ops_ and known_match(pid, c, known) is None]
        def concrete_found():
            return any(known_match(pid, c, known) is None for c in oracle_fail + faults)
        if (not lp["ok"] or tie_broken or unexplained()) and not concrete_found() and not args.replay \
                and os.environ.get("VERIF_NO_SEARCH") != "1":
            t_search = time.time()
            plan = [("quick", seed + 1000003), ("quick", seed + 2000003)]
            if tier == "quick": plan.append(("thorough", seed))
            for tr, sd in plan:
                if concrete_found() or time.time() - t_search > 900: break
                try:
                    explore(tr, sd, budget=600)
                    searched.append("%s/seed=%d" % (tr, sd))
                except subprocess.TimeoutExpired:
                    searched.append("%s/seed=%d (time limit)" % (tr, sd))
            log("failing-input search:", searched, "found" if concrete_found() else "nothing found")
    # (5) verdict
    def report(case, suffix=""):
        k = known_match(pid, case, known)
        if k is not None:
            known_hits.append((k, case)); return
        violations.append((case, suffix))

    for c in (oracle_fail + faults)[:2000]:
        report(c)
    concrete = len(violations) > 0
    # broken proof / tie / correspondence without a concrete failing input
    broken = []
    if not lp["ok"]:
        broken.append(dict(what="proof", failed=lp["failed"], bad_axioms=lp["bad"], forbidden=lp["forbidden"], log=lp["build_log"][-1500:]))
    for tmsg in tie_broken:
        broken.append(dict(what="tie", detail=tmsg))
    # correspondence disagreements that are not explained by a known finding or an oracle failure
    oracle_ops = set(c["op"] for c in oracle_fail + faults)
    pure_corr = [c for c in corr_dis if c["op"] not in oracle_ops and known_match(pid, c, known) is None]
    if pure_corr:
        broken.append(dict(what="correspondence", count=len(pure_corr), first=pure_corr[:5]))

    printed = set()
    for k, case in known_hits:
        key = k.get("id", k.get("what"))
        if key in printed: continue
        printed.add(key)
        print("KNOWN-FINDING: property=%s %s" % (pid, k.get("what", "")))
    rc = 0
    if violations:
        # group by op, report the first (smallest history) of each distinct failing op; one line per replay file
        first = sorted(violations, key=lambda v: (len(v[0].get("history", [])), len(v[0]["op"])))[:5]
        payload = dict(property=pid, seed=seed, tier=tier, kind="failing-input", total=len(violations),
                       cases=[v[0] for v in first],
                       replay_cmd="VERIF_SEED=%d python3 tools/check.py %s --tier %s" % (seed, pid, tier),
                       broken=broken)
        p = write_replay(pid, payload)
        print("VIOLATION property=%s replay=%s" % (pid, p))
        rc = 1
    elif broken:
        payload = dict(property=pid, seed=seed, tier=tier, kind="no-failing-input-found", broken=broken, searched=searched,
                       note="proof obligation / source tie / model correspondence no longer checks; the oracle found no failing input on the implementation in this run",
                       replay_cmd="VERIF_SEED=%d python3 tools/check.py %s --tier %s" % (seed, pid, tier))
        p = write_replay(pid, payload)
        print("VIOLATION property=%s replay=%s no-failing-input-found" % (pid, p))
        rc = 1

    ev = dict(
        property_id=pid, tier=tier, seed=seed, level="proof",
        coverage=dict(
            obligations=max(obligations, 1), discharged=discharged,
            checker_cmd="cd /verif/lean && lake build %s && lake env lean .lake/audit_%s.lean  (#print axioms)" % (" ".join(prop["lean_modules"]), pid),
            trusted_base=prop.get("trusted_base", []) + props.COMMON_TRUSTED,
            theorems=lp["theorems"], axioms_used=sorted(set(a for v in lp["axioms"].values() for a in v)),
            partial_statements=prop.get("partial", []),
            evaluations=sum(v for k, v in counters.items() if k != "spec_applicable"),
            distinct_nontrivial=len(distinct),
            rule="harness op lines (generated from VERIF_SEED, see DESIGN.md); non-trivial = distinct op lines on which the Lean specification oracle is applicable (precondition of the property holds) and was compared with the implementation",
            op_histogram=dict(counters),
            correspondence_disagreements=len(corr_dis), oracle_failures=len(oracle_fail), faults=len(faults),
            known_finding_hits=len(known_hits),
            samples=samples or [dict(note="no cases run", broken=broken)],
            exhaustive=bool(prop.get("exhaustive", False)),
            harness=dict((k, v) for k, v in harness_info.items() if k != "stderr"),
            failing_input_search=searched,
        ),
        assumptions=prop.get("assumptions", []),
        wall_s=round(time.time() - t0, 1),
        violations=len(violations) + (1 if (broken and not violations) else 0),
    )
    with open(os.path.join(EVID, "%s.json" % pid), "w") as f:
        json.dump(ev, f, indent=1, ensure_ascii=False)
    log("done rc=%d obligations=%d discharged=%d evals=%d wall=%.0fs" % (rc, obligations, discharged, ev["coverage"]["evaluations"], time.time() - t0))
    sys.exit(rc)


if __name__ == "__main__":
    main()
