#!/usr/bin/env python3
"""gen_tables.py -- the "translator" tie: re-extracts finite tables from /repo's CURRENT source and
writes them as Lean data to lean/CCVerif/Generated/*.lean.  Called by check.py on every run
(`prop["tables"]` -> generate(names)); the theorems that mention the tables are then re-checked
by `lake build` against what the code says now.

Extraction is regular expressions over FIXED syntactic shapes.  A shape that is not recognised
raises ShapeError (a broken tie, DESIGN.md 4.3) -- the translator never guesses.

Tables:
  Tokens   <- ccl/rslang/include/ccl/rslang/RSToken.h   enum class TokenID
              ccl/rslang/src/RSToken.cpp                SharedStr / AsciiStr / RSStr switches, ConvertID,
                                                        CompareOperations (operation set, precedence pairs)
              ccl/rslang/src/MathLexerImpl.l            options, definitions, rules (file order)
              ccl/rslang/src/AsciiLexerImpl.l           options, definitions, rules (file order)
              ccl/rslang/src/RSParserImpl.y             %token/%left/%right declarations (order), productions
"""
import hashlib, os, re, sys

HERE = os.path.dirname(os.path.abspath(__file__))
VERIF = os.path.dirname(HERE)
REPO = os.environ.get("VERIF_REPO", "/repo")
RSLANG = os.path.join(REPO, "ccl", "rslang")
OUTDIR = os.path.join(VERIF, "lean", "CCVerif", "Generated")


class ShapeError(Exception):
    pass


def read(rel):
    p = os.path.join(RSLANG, rel)
    try:
        with open(p, encoding="utf-8") as f:
            return f.read()
    except OSError as e:
        raise ShapeError("cannot read %s: %s" % (p, e))


def strip_cpp_comments(src):
    """remove // and /* */ comments outside string literals (raw strings R"(...)" kept intact)"""
    out, i, n = [], 0, len(src)
    while i < n:
        if src.startswith('R"(', i):
            j = src.find(')"', i + 3)
            if j < 0: raise ShapeError("unterminated raw string")
            out.append(src[i:j + 2]); i = j + 2; continue
        c = src[i]
        if c == '"':
            j = i + 1
            while j < n and src[j] != '"':
                j += 2 if src[j] == "\\" else 1
            out.append(src[i:j + 1]); i = j + 1; continue
        if c == "'":
            j = i + 1
            while j < n and src[j] != "'":
                j += 2 if src[j] == "\\" else 1
            out.append(src[i:j + 1]); i = j + 1; continue
        if src.startswith("//", i):
            while i < n and src[i] != "\n": i += 1
            continue
        if src.startswith("/*", i):
            j = src.find("*/", i + 2)
            if j < 0: raise ShapeError("unterminated comment")
            i = j + 2; continue
        out.append(c); i += 1
    return "".join(out)


# ------------------------------------------------------------------ RSToken.h

def token_ids():
    src = strip_cpp_comments(read("include/ccl/rslang/RSToken.h"))
    m = re.search(r"enum\s+class\s+TokenID\s*:\s*uint32_t\s*\{(.*?)\}\s*;", src, re.S)
    if not m: raise ShapeError("RSToken.h: enum class TokenID : uint32_t { ... } not found")
    names, first = [], None
    for k, item in enumerate(x.strip() for x in m.group(1).split(",")):
        if not item: continue
        mm = re.fullmatch(r"([A-Z][A-Z0-9_]*)(?:\s*=\s*(\d+))?", item)
        if not mm: raise ShapeError("RSToken.h: enumerator shape not recognised: %r" % item)
        if mm.group(2) is not None:
            if names: raise ShapeError("RSToken.h: explicit value on a non-first enumerator %s" % mm.group(1))
            first = int(mm.group(2))
        names.append(mm.group(1))
    if first is None: raise ShapeError("RSToken.h: first enumerator has no explicit value")
    return names, first


# ------------------------------------------------------------------ RSToken.cpp

def cpp_string_literal(tok):
    """value of one C++ string literal token: "..." with \\xHH escapes, or R"(...)"; returns bytes"""
    tok = tok.strip()
    m = re.fullmatch(r'R"\((.*)\)"', tok, re.S)
    if m: return m.group(1).encode("utf-8")
    m = re.fullmatch(r'"(.*)"', tok, re.S)
    if not m: raise ShapeError("string literal shape not recognised: %r" % tok)
    body, out, i = m.group(1), bytearray(), 0
    while i < len(body):
        c = body[i]
        if c == "\\":
            mm = re.match(r"\\x([0-9A-Fa-f]{2})", body[i:])
            if mm: out.append(int(mm.group(1), 16)); i += 4; continue
            if body[i + 1:i + 2] in ('"', "\\"): out += body[i + 1].encode(); i += 2; continue
            raise ShapeError("escape not recognised in %r" % tok)
        out += c.encode("utf-8"); i += 1
    return bytes(out)


def switch_table(src, func, enum_names):
    """`[[nodiscard]] std::string <func>(const TokenID id) { switch (id) { default: return D; case TokenID::X: return "..."; ... } }`
    returns (default expression text, [(name, bytes)] in source order)"""
    m = re.search(r"std::string\s+%s\s*\(\s*const\s+TokenID\s+id\s*\)\s*\{\s*switch\s*\(\s*id\s*\)\s*\{(.*?)\}\s*\}" % func, src, re.S)
    if not m: raise ShapeError("RSToken.cpp: switch of %s not found" % func)
    body = m.group(1)
    stmt = re.compile(r'\s*(default|case\s+TokenID::([A-Z0-9_]+))\s*:\s*return\s+(R"\(.*?\)"|"(?:[^"\\]|\\.)*"|SharedStr\(id\))\s*;', re.S)
    default, cases, seen, pos = None, [], set(), 0
    while True:
        mm = stmt.match(body, pos)
        if not mm: break
        pos = mm.end()
        if mm.group(1) == "default":
            if default is not None: raise ShapeError("%s: two defaults" % func)
            default = mm.group(3); continue
        name = mm.group(2)
        if name not in enum_names: raise ShapeError("%s: unknown enumerator %s" % (func, name))
        if name in seen: raise ShapeError("%s: duplicate case %s" % (func, name))
        seen.add(name)
        cases.append((name, cpp_string_literal(mm.group(3))))
    if body[pos:].strip(): raise ShapeError("%s: statement shape not recognised: %r" % (func, body[pos:].strip()[:60]))
    if default is None: raise ShapeError("%s: no default" % func)
    return default, cases


def token_cpp(enum_names):
    src = strip_cpp_comments(read("src/RSToken.cpp"))
    d_sh, shared = switch_table(src, "SharedStr", enum_names)
    d_as, ascii_ = switch_table(src, "AsciiStr", enum_names)
    d_rs, math = switch_table(src, "RSStr", enum_names)
    if d_as != "SharedStr(id)" or d_rs != "SharedStr(id)":
        raise ShapeError("RSToken.cpp: AsciiStr/RSStr default is not SharedStr(id)")
    unknown = cpp_string_literal(d_sh)
    m = re.search(r"Token::Str\s*\(\s*const\s+TokenID\s+id\s*,\s*const\s+Syntax\s+syntax\s*\)\s*\{\s*if\s*\(\s*syntax\s*==\s*Syntax::MATH\s*\)\s*\{\s*return\s+RSStr\(id\);\s*\}\s*else\s*\{\s*return\s+AsciiStr\(id\);\s*\}\s*\}", src)
    if not m: raise ShapeError("RSToken.cpp: Token::Str dispatch shape not recognised")
    # CompareOperations
    m = re.search(r"Token::CompareOperations\s*\(.*?\)\s*\{(.*?)\n\}", src, re.S)
    if not m: raise ShapeError("RSToken.cpp: CompareOperations not found")
    body = m.group(1)
    mo = re.search(r"std::unordered_set<TokenID>\s+operations\s*=\s*\{(.*?)\}\s*;", body, re.S)
    mp = re.search(r"std::set<std::pair<TokenID,\s*TokenID>>\s+precedences\s*=\s*\{(.*?)\}\s*;\s*if", body, re.S)
    if not mo or not mp: raise ShapeError("RSToken.cpp: operations / precedences initialisers not found")
    ops = []
    for item in (x.strip() for x in mo.group(1).split(",")):
        if not item: continue
        mm = re.fullmatch(r"TokenID::([A-Z0-9_]+)", item)
        if not mm or mm.group(1) not in enum_names: raise ShapeError("operations: item %r" % item)
        ops.append(mm.group(1))
    pairs = []
    rest = mp.group(1)
    for mm in re.finditer(r"\{\s*TokenID::([A-Z0-9_]+)\s*,\s*TokenID::([A-Z0-9_]+)\s*\}", rest):
        pairs.append((mm.group(1), mm.group(2)))
    leftover = re.sub(r"\{\s*TokenID::[A-Z0-9_]+\s*,\s*TokenID::[A-Z0-9_]+\s*\}", "", rest)
    if leftover.replace(",", "").strip(): raise ShapeError("precedences: unrecognised text %r" % leftover.strip()[:60])
    for a, b in pairs:
        if a not in enum_names or b not in enum_names: raise ShapeError("precedences: unknown enumerator")
    tail = body[mp.end() - 2:]
    norm = re.sub(r"\s+", " ", tail)
    expect = ("if (!operations.contains(left) || !operations.contains(right)) { return Comparison::INCOMPARABLE; } "
              "if (precedences.contains({ left, right })) { return Comparison::LESS; } "
              "else if (precedences.contains({ right, left })) { return Comparison::GREATER; } "
              "else { return Comparison::EQUAL; }")
    if norm.strip() != expect: raise ShapeError("CompareOperations: decision code changed: %r" % norm.strip()[:200])
    # ConvertID
    m = re.search(r"std::string\s+ConvertID\s*\(.*?\n\}", src, re.S)
    if not m: raise ShapeError("RSToken.cpp: ConvertID not found")
    cv = m.group(0)
    ms = re.search(r'substitutes\s*=\s*("[a-z]*")\s*;', cv)
    mpi = re.search(r"piPosition\s*=\s*0x([0-9A-Fa-f]+)\s*-\s*0x([0-9A-Fa-f]+)\s*\+\s*1\s*;", cv)
    m1 = re.search(r"firstByte\s*==\s*0x([0-9A-Fa-f]+)\s*&&\s*secondByte\s*>=\s*0x([0-9A-Fa-f]+)\s*&&\s*secondByte\s*<=\s*0x([0-9A-Fa-f]+)\s*\)\s*\{\s*result\s*\+=\s*substitutes\.at\(static_cast<size_t>\(secondByte\)\s*-\s*0x([0-9A-Fa-f]+)\)", cv)
    m2 = re.search(r"firstByte\s*==\s*0x([0-9A-Fa-f]+)\s*&&\s*secondByte\s*>=\s*0x([0-9A-Fa-f]+)\s*&&\s*secondByte\s*<=\s*0x([0-9A-Fa-f]+)\s*\)\s*\{\s*result\s*\+=\s*substitutes\.at\(static_cast<size_t>\(piPosition\)\s*\+\s*secondByte\s*-\s*0x([0-9A-Fa-f]+)\)", cv)
    m3 = re.search(r"result\s*\+=\s*'(.)'\s*;\s*for\s*\(auto i = 0U; i < iter\.SymbolSize\(\); \+\+i\)\s*\{\s*result\s*\+=\s*\"(..)\"\s*;\s*\}\s*result\s*\+=\s*'(.)'\s*;", cv)
    if not (ms and mpi and m1 and m2 and m3): raise ShapeError("RSToken.cpp: ConvertID shape not recognised")
    h = lambda s: int(s, 16)
    convert = dict(
        subst=cpp_string_literal(ms.group(1)),
        pi=h(mpi.group(1)) - h(mpi.group(2)) + 1,
        r1=(h(m1.group(1)), h(m1.group(2)), h(m1.group(3)), h(m1.group(4))),
        r2=(h(m2.group(1)), h(m2.group(2)), h(m2.group(3)), h(m2.group(4))),
        other=(m3.group(1), m3.group(2), m3.group(3)),
    )
    # Token::ToString: which kinds print payload
    m = re.search(r"std::string\s+Token::ToString\s*\(const\s+Syntax\s+syntax\)\s*const\s*\{(.*?)\n\}", src, re.S)
    if not m: raise ShapeError("RSToken.cpp: Token::ToString not found")
    ts = re.sub(r"\s+", " ", m.group(1))
    groups = re.findall(r"((?:case TokenID::[A-Z0-9_]+: )+)\{ (.*?) \}(?= case| \} *$| \})", ts)
    kinds = {}
    for cs, bodytxt in groups:
        names = re.findall(r"TokenID::([A-Z0-9_]+)", cs)
        if "ConvertID(data.ToText(), syntax)" in bodytxt: k = "local"
        elif bodytxt.startswith("return data.ToText();"): k = "text"
        elif "std::to_string(data.ToInt())" in bodytxt: k = "int"
        elif "Str(id) + std::to_string(*begin(indicies))" in bodytxt: k = "index"
        else: raise ShapeError("Token::ToString: case body not recognised: %r" % bodytxt[:80])
        for nme in names: kinds[nme] = k
    want = dict(ID_LOCAL="local", ID_GLOBAL="text", ID_FUNCTION="text", ID_PREDICATE="text", ID_RADICAL="text",
                LIT_INTEGER="int", BIGPR="index", SMALLPR="index", FILTER="index")
    if kinds != want or "default: { return Str(id, syntax); }" not in ts:
        raise ShapeError("Token::ToString: case list changed: %r" % sorted(kinds.items()))
    return dict(unknown=unknown, shared=shared, ascii=ascii_, math=math, ops=ops, pairs=pairs, convert=convert, tostring=kinds)


# ------------------------------------------------------------------ .l files

MATH_DEFS = [("digit", "[0-9]"), ("upper", "[A-Z]"), ("lower", "[a-z\\x{03B1}-\\x{03C9}]"), ("alpha", "({upper}|{lower})"),
             ("alnum", "(_|{digit}|{alpha})"), ("number", "{digit}+"), ("index", "{number}(,{number})*"),
             ("global_id", "[||{upper}--[B]]{alnum}*"), ("local_id", "(_|{lower}){alnum}*")]
ASCII_DEFS = [("ws", "[ \\t\\r\\n]+"), ("digit", "[0-9]"), ("upper", "[A-Z]"), ("lower", "[a-z]"), ("alpha", "({upper}|{lower})"),
              ("alnum", "(_|{digit}|{alpha})"), ("number", "{digit}+"), ("index", "{number}(,{number})*"),
              ("global_id", "[||{upper}--[B]]{alnum}*"), ("local_id", "(_|{lower}){alnum}*")]
MATH_OPTS = ["fast", "outfile=MathLexerImpl.hpp", "namespace=ccl::rslang::detail::rslex", "lexer=MathLexerImpl",
             "token-type=ccl::rslang::TokenID", "noindent", "tabs=1", "unicode", "noline", "nodefault", "noyywrap"]
ASCII_OPTS = ["fast", "outfile=AsciiLexerImpl.hpp", "namespace=ccl::rslang::detail::asciilex", "lexer=AsciiLexerImpl",
              "token-type=ccl::rslang::TokenID", "noindent", "noline", "nodefault", "noyywrap"]


def lex_pattern(p, unicode_mode):
    """pattern text -> (kind, payload list of units)"""
    fixed = {"{number}": ("number", None), "{global_id}": ("globalId", None), "{local_id}": ("localId", None),
             "\\n": ("newline", None), "[ \\t]+": ("blanks", None), "{ws}": ("ws", None), ".": ("any", None),
             "<<EOF>>": ("eof", None)}
    if p in fixed: return fixed[p]
    m = re.fullmatch(r'"([^"\\]|\\[A-Za-z])+"', p)
    if m:
        body = p[1:-1]
        if '"' in body: raise ShapeError("lexer: quote inside quoted pattern %r" % p)
        return ("lit", units(body, unicode_mode))
    m = re.fullmatch(r"([A-Za-z]+)\{(index|number)\}", p)
    if m: return ("withIndex" if m.group(2) == "index" else "withNumber", units(m.group(1), unicode_mode))
    if re.fullmatch(r"[A-Za-z]+", p): return ("lit", units(p, unicode_mode))
    if re.fullmatch(r"(?:[:A-Za-z]|\\x\{[0-9A-Fa-f]{4}\})+", p):
        if not unicode_mode: raise ShapeError("lexer: \\x{...} code point in a non-unicode lexer: %r" % p)
        out = []
        for mm in re.finditer(r"\\x\{([0-9A-Fa-f]{4})\}|(.)", p):
            out.append(int(mm.group(1), 16) if mm.group(1) else ord(mm.group(2)))
        return ("lit", out)
    raise ShapeError("lexer: pattern shape not recognised: %r" % p)


def units(s, unicode_mode):
    return [ord(c) for c in s] if unicode_mode else list(s.encode("utf-8"))


def lex_file(rel, want_defs, want_opts, enum_names, unicode_mode):
    src = read(rel)
    parts = re.split(r"^%%[ \t]*$", src, flags=re.M)
    if len(parts) != 3: raise ShapeError("%s: expected exactly two %%%% separators" % rel)
    head, rules_txt, tail = parts
    if tail.strip(): raise ShapeError("%s: user code section is not empty" % rel)
    opts = re.findall(r"^%option[ \t]+(\S+)[ \t]*$", head, flags=re.M)
    if opts != want_opts: raise ShapeError("%s: %%option list changed: %r" % (rel, opts))
    # definitions = lines after the last "%}" of the head
    idx = head.rfind("%}")
    if idx < 0: raise ShapeError("%s: no %%} in definitions section" % rel)
    defs = []
    for line in head[idx + 2:].splitlines():
        if not line.strip(): continue
        m = re.fullmatch(r"([a-z_]+)[ \t]+(\S.*?)[ \t]*", line)
        if not m: raise ShapeError("%s: definition line not recognised: %r" % (rel, line))
        defs.append((m.group(1), m.group(2)))
    if defs != want_defs:
        raise ShapeError("%s: character-class definitions changed (the hand-written classes of Model/Lexer.lean follow the old ones): %r" % (rel, defs))
    # the Range() member in %class
    cls = re.search(r"%class\{(.*?)^%\}", head, re.S | re.M)
    if not cls: raise ShapeError("%s: %%class block not found" % rel)
    ctext = re.sub(r"\s+", " ", strip_cpp_comments(cls.group(1)))
    if unicode_mode:
        if "StrPos lineBase{ 0 };" not in ctext or "static_cast<StrPos>(lineBase + columno())" not in ctext or \
           "static_cast<StrPos>(lineBase + columno() + columns())" not in ctext:
            raise ShapeError("%s: Range() / lineBase shape changed" % rel)
    else:
        if "static_cast<StrPos>(matcher().first())" not in ctext or "static_cast<StrPos>(matcher().last())" not in ctext:
            raise ShapeError("%s: Range() shape changed" % rel)
    rules = []
    for line in rules_txt.splitlines():
        if not line.strip(): continue
        m = re.fullmatch(r"(\S+|\[ \\t\]\+)[ \t]+(\{.*\}|;)[ \t]*", line)
        if not m: raise ShapeError("%s: rule line not recognised: %r" % (rel, line))
        kind, payload = lex_pattern(m.group(1), unicode_mode)
        a = m.group(2)
        mm = re.fullmatch(r"\{\s*return\s+TokenID::([A-Z0-9_]+)\s*;\s*\}", a)
        if mm:
            if mm.group(1) not in enum_names: raise ShapeError("%s: unknown token %s" % (rel, mm.group(1)))
            act = ("tok", mm.group(1))
        elif a == ";": act = ("skip", None)
        elif re.fullmatch(r"\{\s*lineBase\s*\+=\s*static_cast<StrPos>\(columno\(\)\s*\+\s*1\);\s*\}", a): act = ("newline", None)
        else: raise ShapeError("%s: action not recognised: %r" % (rel, a))
        rules.append((kind, payload, act, m.group(1)))
    kinds = [r[0] for r in rules]
    if kinds.count("eof") != 1 or kinds.count("any") != 1 or kinds[-1] != "any":
        raise ShapeError("%s: expected one <<EOF>> rule and a final `.` rule" % rel)
    return rules


# ------------------------------------------------------------------ .y file

BISON_ALIAS = {"RED": "REDUCE", "DEFINE": "PUNC_DEFINE", "STRUCT": "PUNC_STRUCT", "LP": "PUNC_PL", "RP": "PUNC_PR",
               "LC": "PUNC_CL", "RC": "PUNC_CR", "LS": "PUNC_SL", "RS": "PUNC_SR", "BAR": "PUNC_BAR",
               "COMMA": "PUNC_COMMA", "SEMICOLON": "PUNC_SEMICOLON", "LOCAL": "ID_LOCAL", "GLOBAL": "ID_GLOBAL",
               "FUNCTION": "ID_FUNCTION", "PREDICATE": "ID_PREDICATE", "RADICAL": "ID_RADICAL",
               "INTEGER": "LIT_INTEGER", "INTSET": "LIT_INTSET", "EMPTYSET": "LIT_EMPTYSET"}
# sha256 of the normalised production list the hand-written parser model (Model/Parser.lean) follows
EXPECTED_RULES_SHA = "f922b3a16850a7c0"


def strip_actions(txt):
    """remove { ... } blocks (nested) and comments from the rules section"""
    txt = strip_cpp_comments(txt)
    out, depth = [], 0
    for c in txt:
        if c == "{": depth += 1; continue
        if c == "}":
            depth -= 1
            if depth < 0: raise ShapeError("grammar: unbalanced braces")
            continue
        if depth == 0: out.append(c)
    if depth != 0: raise ShapeError("grammar: unbalanced braces")
    return "".join(out)


def grammar(enum_names, first_code):
    src = read("src/RSParserImpl.y")
    parts = re.split(r"^%%[ \t]*$", src, flags=re.M)
    if len(parts) != 3: raise ShapeError("RSParserImpl.y: expected exactly two %% separators")
    head, rules_txt, _ = parts
    # drop %code blocks
    h2, i = [], 0
    while True:
        m = re.search(r"^%code\s+\w+\s*\{", head[i:], re.M)
        if not m: h2.append(head[i:]); break
        h2.append(head[i:i + m.start()])
        j, depth = i + m.end(), 1
        while depth:
            if j >= len(head): raise ShapeError("RSParserImpl.y: unterminated %code block")
            if head[j] == "{": depth += 1
            elif head[j] == "}": depth -= 1
            j += 1
        i = j
    head = strip_cpp_comments("".join(h2))
    decls, cur = [], None
    for line in head.splitlines():
        s = line.strip()
        if not s: continue
        if s.startswith("%"):
            m = re.fullmatch(r"%(token|left|right|nonassoc|precedence)((?:\s+[A-Z_]+)*)", s)
            if m:
                cur = [m.group(1), m.group(2).split()]
                decls.append(cur); continue
            cur = None
            if not re.match(r"%(require|output|defines|language|skeleton|define|param)\b", s):
                raise ShapeError("RSParserImpl.y: directive not recognised: %r" % s)
            continue
        if cur is not None and re.fullmatch(r"[A-Z_]+(\s+[A-Z_]+)*", s):
            cur[1] += s.split(); continue
        raise ShapeError("RSParserImpl.y: declaration line not recognised: %r" % s)
    if re.search(r"%prec\b|%expect\b|%dprec\b|%merge\b", src): raise ShapeError("RSParserImpl.y: %prec/%expect/%dprec present: precedence model must be reviewed")
    toks, prec = [], []
    for kind, names in decls:
        for nme in names:
            if nme in toks: raise ShapeError("RSParserImpl.y: token %s declared twice" % nme)
            toks.append(nme)
        if kind in ("left", "right"):
            prec.append((kind, list(names)))
        elif kind in ("nonassoc", "precedence"):
            raise ShapeError("RSParserImpl.y: %%%s is not modelled by Model/Parser.lean" % kind)
    # positional correspondence with the enumeration (yylex returns static_cast<int>(token.id); bison numbers
    # declared tokens from 258 in declaration order)
    if first_code != 258: raise ShapeError("TokenID does not start at 258 (bison's first user token number)")
    if len(toks) > len(enum_names): raise ShapeError("more grammar tokens than enumerators")
    mapping = {}
    for k, nme in enumerate(toks):
        e = enum_names[k]
        if BISON_ALIAS.get(nme, nme) != e:
            raise ShapeError("RSParserImpl.y: %d-th declared token %s does not correspond to %d-th enumerator %s" % (k, nme, k, e))
        mapping[nme] = e
    if enum_names[len(toks)] != "NT_ENUM_DECL":
        raise ShapeError("terminal enumerators and grammar tokens differ in number")
    # every binary operator of setexpr_binary / logic_binary must sit on a %left/%right line: otherwise bison
    # resolves the conflicts by its defaults, which the precedence-climbing model does not reproduce
    with_prec = set(t for _, ns in prec for t in ns)
    for t in ("PLUS", "MINUS", "MULTIPLY", "UNION", "SET_MINUS", "SYMMINUS", "INTERSECTION", "DECART",
              "EQUIVALENT", "IMPLICATION", "OR", "AND"):
        if t not in with_prec: raise ShapeError("RSParserImpl.y: operator %s has no %%left/%%right line" % t)
    # productions
    body = strip_actions(rules_txt)
    rules = []
    for chunk in body.split(";"):
        chunk = chunk.strip()
        if not chunk: continue
        m = re.fullmatch(r"([a-zA-Z_0-9]+)\s*:(.*)", chunk, re.S)
        if not m: raise ShapeError("grammar: production shape not recognised: %r" % chunk[:60])
        lhs = m.group(1)
        for alt in m.group(2).split("|"):
            syms = alt.split()
            for s in syms:
                if not re.fullmatch(r"[a-zA-Z_0-9]+", s): raise ShapeError("grammar: symbol %r" % s)
            rules.append((lhs, syms))
    sha = hashlib.sha256(repr(rules).encode()).hexdigest()[:16]
    return [mapping[t] for t in toks], [(k, [mapping[t] for t in ns]) for k, ns in prec], rules, sha


# ------------------------------------------------------------------ Lean output

def lean_nat_list(bs):
    return "[" + ", ".join(str(b) for b in bs) + "]"


def printable(bs, utf8=True):
    try:
        s = bytes(bs).decode("utf-8") if utf8 else "".join(chr(c) for c in bs)
    except (UnicodeDecodeError, ValueError):
        s = repr(bytes(bs))
    return s.replace("\n", "\\n").replace("-/", "- /")


def cps_of_bytes(b):
    try:
        return [ord(c) for c in b.decode("utf-8")]
    except UnicodeDecodeError:
        raise ShapeError("spelling is not valid UTF-8: %r" % b)


def emit_switch(name, doc, cases):
    out = ["/-- %s -/" % doc, "def %s : Tok → Option (List Nat)" % name]
    for nme, b in cases:
        out.append("  | .%s => some %s  -- %s" % (nme, lean_nat_list(cps_of_bytes(b)), printable(b)))
    out.append("  | _ => none")
    return out


def emit_rules(name, doc, rules):
    out = ["/-- %s -/" % doc, "def %s : List LexRule := [" % name]
    for k, (kind, payload, act, raw) in enumerate(rules):
        pat = ".%s" % kind if payload is None else "(.%s %s)" % (kind, lean_nat_list(payload))
        a = "(.tok .%s)" % act[1] if act[0] == "tok" else ".%s" % act[0]
        sep = "," if k + 1 < len(rules) else ""
        out.append("  ⟨%s, %s⟩%s  -- %s" % (pat, a, sep, raw.replace("-/", "- /")))
    out.append("]")
    return out


def gen_tokens():
    names, first = token_ids()
    tc = token_cpp(names)
    mrules = lex_file("src/MathLexerImpl.l", MATH_DEFS, MATH_OPTS, names, True)
    arules = lex_file("src/AsciiLexerImpl.l", ASCII_DEFS, ASCII_OPTS, names, False)
    gtoks, prec, rules, sha = grammar(names, first)
    if sha != EXPECTED_RULES_SHA:
        raise ShapeError("RSParserImpl.y: the production list changed (sha %s, expected %s): the hand-written parser model "
                         "lean/CCVerif/Model/Parser.lean must be reviewed against the new grammar, then EXPECTED_RULES_SHA updated" % (sha, EXPECTED_RULES_SHA))
    L = []
    L.append("import CCVerif.Model.LexSpec")
    L.append("/-!")
    L.append("GENERATED by tools/gen_tables.py from /repo/ccl/rslang (include/ccl/rslang/RSToken.h, src/RSToken.cpp,")
    L.append("src/MathLexerImpl.l, src/AsciiLexerImpl.l, src/RSParserImpl.y) -- do not edit; rewritten on every check run.")
    L.append("Spellings are lists of Unicode code points (the C++ strings are UTF-8).")
    L.append("-/")
    L.append("namespace CCVerif.Generated")
    L.append("open CCVerif.Syntax")
    L.append("")
    L.append("/-- `enum class TokenID` (RSToken.h), enumerators in declaration order -/")
    L.append("def tokenIds : List Tok := [")
    for k in range(0, len(names), 6):
        L.append("  " + ", ".join("." + n for n in names[k:k + 6]) + ("," if k + 6 < len(names) else ""))
    L.append("]")
    L.append("/-- explicit value of the first enumerator -/")
    L.append("def tokenIdFirst : Nat := %d" % first)
    L.append("/-- the shared model's `Tok` is the enumeration of the source, same order (a reordered, added or removed")
    L.append("enumerator breaks this `decide`) -/")
    L.append("theorem tokenIds_eq_all : tokenIds = Tok.all := by decide")
    L.append("theorem tokenIdFirst_eq : tokenIdFirst = Tok.code .ID_LOCAL := by decide")
    L.append("")
    L.append("/-- `default:` of `SharedStr` -/")
    L.append("def unknownToken : List Nat := %s  -- %s" % (lean_nat_list(cps_of_bytes(tc["unknown"])), printable(tc["unknown"])))
    L += emit_switch("sharedStr?", "explicit cases of `SharedStr` (RSToken.cpp)", tc["shared"])
    L += emit_switch("asciiStr?", "explicit cases of `AsciiStr`; `default:` is `SharedStr(id)`", tc["ascii"])
    L += emit_switch("rsStr?", "explicit cases of `RSStr`; `default:` is `SharedStr(id)`", tc["math"])
    L.append("def sharedStr (t : Tok) : List Nat := (sharedStr? t).getD unknownToken")
    L.append("def asciiStr (t : Tok) : List Nat := (asciiStr? t).getD (sharedStr t)")
    L.append("def rsStr (t : Tok) : List Nat := (rsStr? t).getD (sharedStr t)")
    L.append("/-- spelling table of the MATH syntax: `none` where `Token::Str` falls through to \"UNKNOWN TOKEN\" -/")
    L.append("def spellMath (t : Tok) : Option (List Nat) := match rsStr? t with | some s => some s | none => sharedStr? t")
    L.append("/-- spelling table of the ASCII syntax -/")
    L.append("def spellAscii (t : Tok) : Option (List Nat) := match asciiStr? t with | some s => some s | none => sharedStr? t")
    L.append("/-- token kinds with an explicit case in one of the three switches, in source order (RSStr, AsciiStr-only, SharedStr) -/")
    seen, order = set(), []
    for nme, _ in tc["math"] + tc["ascii"] + tc["shared"]:
        if nme not in seen: seen.add(nme); order.append(nme)
    L.append("def spelled : List Tok := [" + ", ".join("." + n for n in order) + "]")
    L.append("")
    cv = tc["convert"]
    L.append("/-- `ConvertID`: substitution string, and the two byte ranges `(firstByte, lo, hi, base)` with the offset into it -/")
    L.append("def convertSubst : List Nat := %s  -- %s" % (lean_nat_list(list(cv["subst"])), printable(cv["subst"])))
    L.append("def convertRange1 : Nat × Nat × Nat × Nat := (%d, %d, %d, %d)" % cv["r1"])
    L.append("def convertRange1Offset : Nat := 0")
    L.append("def convertRange2 : Nat × Nat × Nat × Nat := (%d, %d, %d, %d)" % cv["r2"])
    L.append("def convertRange2Offset : Nat := %d" % cv["pi"])
    L.append("/-- other multi-byte symbols: `%s` + `%s` per byte + `%s` -/" % cv["other"])
    L.append("def convertOtherOpen : Nat := %d" % ord(cv["other"][0]))
    L.append("def convertOtherPerByte : List Nat := %s" % lean_nat_list([ord(c) for c in cv["other"][1]]))
    L.append("def convertOtherClose : Nat := %d" % ord(cv["other"][2]))
    L.append("")
    L.append("/-- `Token::CompareOperations`: the `operations` set (source order) -/")
    L.append("def opSet : List Tok := [" + ", ".join("." + n for n in tc["ops"]) + "]")
    L.append("/-- `Token::CompareOperations`: the `precedences` pairs `(lower, higher)` (source order) -/")
    L.append("def precPairs : List (Tok × Tok) := [")
    for k, (a, b) in enumerate(tc["pairs"]):
        L.append("  (.%s, .%s)%s" % (a, b, "," if k + 1 < len(tc["pairs"]) else ""))
    L.append("]")
    L.append("")
    L += emit_rules("mathRules", "rules section of MathLexerImpl.l in file order (`%option unicode`: units are code points)", mrules)
    L += emit_rules("asciiRules", "rules section of AsciiLexerImpl.l in file order (units are bytes)", arules)
    L.append("")
    L.append("/-- terminals of RSParserImpl.y in declaration order = the first enumerators of `TokenID`, position by position")
    L.append("(bison numbers them from 258; `yylex` returns `static_cast<int>(token.id)`) -/")
    L.append("def grammarTokens : List Tok := [")
    for k in range(0, len(gtoks), 6):
        L.append("  " + ", ".join("." + n for n in gtoks[k:k + 6]) + ("," if k + 6 < len(gtoks) else ""))
    L.append("]")
    L.append("theorem grammarTokens_prefix : grammarTokens = Tok.all.take grammarTokens.length := by decide")
    L.append("/-- `%left` / `%right` lines in file order: later line = higher precedence -/")
    L.append("def precLines : List (Assoc × List Tok) := [")
    for k, (kind, ns) in enumerate(prec):
        L.append("  (.%s, [%s])%s" % (kind, ", ".join("." + n for n in ns), "," if k + 1 < len(prec) else ""))
    L.append("]")
    L.append("/-- productions of RSParserImpl.y (actions stripped); sha256[:16] of this list = %s, the version the" % sha)
    L.append("hand-written parser model follows (gen_tables.py refuses any other) -/")
    L.append("def grammarRules : List (String × List String) := [")
    for k, (lhs, syms) in enumerate(rules):
        L.append("  (\"%s\", [%s])%s" % (lhs, ", ".join('"%s"' % s for s in syms), "," if k + 1 < len(rules) else ""))
    L.append("]")
    L.append("")
    L.append("end CCVerif.Generated")
    return "\n".join(L) + "\n"


GENERATORS = {"Tokens": gen_tokens}


def write_if_changed(path, text):
    try:
        with open(path, encoding="utf-8") as f:
            if f.read() == text: return False
    except OSError:
        pass
    os.makedirs(os.path.dirname(path), exist_ok=True)
    tmp = path + ".tmp%d" % os.getpid()
    with open(tmp, "w", encoding="utf-8") as f:
        f.write(text)
    os.replace(tmp, path)
    return True


def generate(names):
    changed = []
    for n in names:
        if n not in GENERATORS: raise ShapeError("unknown table %s" % n)
        text = GENERATORS[n]()
        if write_if_changed(os.path.join(OUTDIR, n + ".lean"), text): changed.append(n)
    return changed


def generate_all():
    return generate(sorted(GENERATORS))


if __name__ == "__main__":
    try:
        ch = generate(sys.argv[1:] or sorted(GENERATORS))
    except ShapeError as e:
        sys.stderr.write("ShapeError: %s\n" % e); sys.exit(2)
    print("regenerated: %s" % (", ".join(ch) if ch else "(no change)"))
