#!/usr/bin/env python3
"""Build the ConceptCore library from /repo's CURRENT working tree into a content-addressed
cache (/verif/.cache/impl/<hash>/libccl.a), with sanitizers and the verification guard on.

The hash covers every file under /repo/ccl and /repo/pyconcept/src plus the flags, so any edit
to the tree produces a fresh build; an identical tree re-uses the archive.
"""
import hashlib, os, subprocess, sys, shutil, time
from concurrent.futures import ThreadPoolExecutor

VERIF = os.path.dirname(os.path.dirname(os.path.abspath(__file__)))
REPO = os.environ.get("VERIF_REPO", "/repo")
CCL = os.path.join(REPO, "ccl")
CACHE = os.path.join(VERIF, ".cache", "impl")

GUARD = "CONCEPTCORE_VERIF"
CXX = os.environ.get("CXX", "g++")
BASEFLAGS = ["-std=c++20", "-O1", "-g1", "-w", "-fexceptions", "-D" + GUARD,
             "-fsanitize=address,undefined", "-fno-sanitize-recover=undefined",
             "-fno-omit-frame-pointer"]
INC = ["cclCommons/include", "cclGraph/include", "cclLang/include", "rslang/include",
       "core/include", "core/header", "core/import/include", "cclGraph/header",
       "cclGraph/import/include", "rslang/header", "rslang/import/include",
       "rslang/import/reflex/include", "cclLang/header", "cclLang/import/include"]
TUS = ["core/unity/CCL.cpp", "cclGraph/src/CGraph.cpp", "rslang/unity/reflex_unity1.cpp",
       "rslang/unity/reflex_unity2.cpp", "rslang/unity/RSlang.cpp", "rslang/unity/RSlang2.cpp",
       "cclLang/unity/cclLang.cpp"]


def inc_flags():
    return ["-I" + os.path.join(CCL, i) for i in INC]


def tree_hash():
    h = hashlib.sha256()
    h.update(" ".join(BASEFLAGS + INC + TUS).encode())
    roots = [CCL, os.path.join(REPO, "pyconcept", "src")]
    for root in roots:
        for d, dirs, files in os.walk(root):
            dirs.sort()
            if "/test" in d[len(REPO):] and "/test/utils" not in d[len(REPO):]:
                continue
            for f in sorted(files):
                if not f.endswith((".cpp", ".h", ".hpp", ".l", ".y", ".hh", ".inc", ".txt")):
                    continue
                p = os.path.join(d, f)
                h.update(p.encode())
                try:
                    with open(p, "rb") as fh:
                        h.update(fh.read())
                except OSError:
                    pass
    return h.hexdigest()[:20]


def prune(keep):
    """Keep the disk footprint bounded: only the newest 4 cached builds survive."""
    if not os.path.isdir(CACHE):
        return
    ent = []
    for n in os.listdir(CACHE):
        p = os.path.join(CACHE, n)
        if n != keep and os.path.isdir(p):
            # a build directory of another process that is still being filled (checks may run concurrently against
            # different trees) is left alone until it is clearly abandoned
            if ".tmp" in n and time.time() - os.path.getmtime(p) < 1800:
                continue
            ent.append((os.path.getmtime(p), p))
    ent.sort(reverse=True)
    for _, p in ent[3:]:
        shutil.rmtree(p, ignore_errors=True)


def build(verbose=True):
    hsh = tree_hash()
    out = os.path.join(CACHE, hsh)
    lib = os.path.join(out, "libccl.a")
    if os.path.exists(lib):
        os.utime(out, None)
        return out
    tmp = out + ".tmp%d" % os.getpid()
    shutil.rmtree(tmp, ignore_errors=True)
    os.makedirs(tmp)
    t0 = time.time()

    def comp(tu):
        obj = os.path.join(tmp, tu.replace("/", "_") + ".o")
        cmd = [CXX] + BASEFLAGS + inc_flags() + ["-c", os.path.join(CCL, tu), "-o", obj]
        r = subprocess.run(cmd, capture_output=True, text=True)
        return tu, obj, r

    objs = []
    with ThreadPoolExecutor(max_workers=8) as ex:
        for tu, obj, r in ex.map(comp, TUS):
            if r.returncode != 0:
                sys.stderr.write("BUILD FAILED for %s\n%s\n" % (tu, r.stderr[-4000:]))
                shutil.rmtree(tmp, ignore_errors=True)
                return None
            objs.append(obj)
    r = subprocess.run(["ar", "rcs", os.path.join(tmp, "libccl.a")] + objs, capture_output=True, text=True)
    if r.returncode != 0:
        sys.stderr.write(r.stderr)
        shutil.rmtree(tmp, ignore_errors=True)
        return None
    for o in objs:
        os.remove(o)
    try:
        os.rename(tmp, out)
    except OSError:
        shutil.rmtree(tmp, ignore_errors=True)
    prune(hsh)
    if verbose:
        sys.stderr.write("[build_impl] built %s in %.0fs\n" % (out, time.time() - t0))
    return out


def link_harness(impl_dir, sources, name, extra_inc=()):
    """Compile + link a harness main against the cached archive. Harness binaries are cached
    in the same directory keyed by their own source hash."""
    h = hashlib.sha256()
    for s in sources:
        with open(s, "rb") as fh:
            h.update(fh.read())
    for d, _, files in os.walk(os.path.join(VERIF, "harness")):
        for f in sorted(files):
            if f.endswith((".hpp", ".h")):
                with open(os.path.join(d, f), "rb") as fh:
                    h.update(fh.read())
    exe = os.path.join(impl_dir, "%s-%s" % (name, h.hexdigest()[:12]))
    if os.path.exists(exe):
        return exe
    cmd = [CXX] + BASEFLAGS + inc_flags() + ["-I" + os.path.join(VERIF, "harness"),
          "-I" + os.path.join(CCL, "core/test/utils"), "-I" + os.path.join(REPO, "pyconcept/include"),
          "-I" + os.path.join(REPO, "pyconcept/src")]
    cmd += ["-I" + i for i in extra_inc]
    cmd += list(sources) + [os.path.join(impl_dir, "libccl.a"), "-o", exe + ".tmp"]
    r = subprocess.run(cmd, capture_output=True, text=True)
    if r.returncode != 0:
        sys.stderr.write("HARNESS BUILD FAILED %s\n%s\n" % (name, r.stderr[-6000:]))
        return None
    os.rename(exe + ".tmp", exe)
    return exe


if __name__ == "__main__":
    d = build()
    if d is None:
        sys.exit(2)
    print(d)
