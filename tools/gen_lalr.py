#!/usr/bin/env python3
"""Translator for the parser entry point (C04): re-extracts the LALR(1) tables of the bison-generated
RSParserImpl.cpp (yypact_, yydefact_, yypgoto_, yydefgoto_, yytable_, yycheck_, yyr1_, yyr2_, the token
translation table and the constants of the skeleton) and the rules whose semantic action can end the parse
(error productions -> ParseEID, `variable: tuple` -> TupleDeclaration, the Finalize* rules), checks the
shape of the skeleton's driver loop that lean/CCVerif/Model/EntryPoints.lean transcribes, and writes
lean/CCVerif/Generated/Lalr.lean. Unrecognised shape => ShapeError (never guesses)."""
import os, re, sys
HERE = os.path.dirname(os.path.abspath(__file__))
sys.path.insert(0, HERE)
from gen_consts import ShapeError, read, strip_comments, VERIF
OUT = os.path.join(VERIF, "lean", "CCVerif", "Generated", "Lalr.lean")
CPP = "ccl/rslang/src/RSParserImpl.cpp"
HDR = "ccl/rslang/header/RSParserImpl.h"


def table(src, name):
    m = re.search(r"RSParserImpl::%s\[\]\s*=\s*\{([^}]*)\}\s*;" % re.escape(name), src)
    if not m:
        raise ShapeError("table %s not found" % name)
    try:
        return [int(x) for x in m.group(1).replace("\n", " ").split(",") if x.strip()]
    except ValueError:
        raise ShapeError("table %s: non-integer entry" % name)


def const(src, pat, what):
    m = re.search(pat, src)
    if not m:
        raise ShapeError("constant %s not found" % what)
    return int(m.group(1))


def extract():
    raw = read(CPP)
    src = strip_comments(raw)
    hdr = strip_comments(read(HDR))
    t = {n: table(src, n) for n in ("yypact_", "yydefact_", "yypgoto_", "yydefgoto_", "yytable_", "yycheck_", "yyr1_", "yyr2_")}
    m = re.search(r"translate_table\[\]\s*=\s*\{([^}]*)\}\s*;", src)
    if not m:
        raise ShapeError("translate_table not found")
    translate = [int(x) for x in m.group(1).split(",") if x.strip()]
    c = dict(
        pactNinf=const(src, r"RSParserImpl::yypact_ninf_\s*=\s*(-?\d+)\s*;", "yypact_ninf_"),
        tableNinf=const(src, r"RSParserImpl::yytable_ninf_\s*=\s*(-?\d+)\s*;", "yytable_ninf_"),
        last=const(hdr, r"yylast_\s*=\s*(\d+)", "yylast_"),
        final=const(hdr, r"yyfinal_\s*=\s*(\d+)", "yyfinal_"),
        ntokens=const(hdr, r"YYNTOKENS\s*=\s*(\d+)", "YYNTOKENS"),
        codeMax=const(src, r"const int code_max\s*=\s*(\d+)\s*;", "code_max"),
    )
    if len(translate) != c["codeMax"] + 1:
        raise ShapeError("translate_table has %d entries, code_max = %d" % (len(translate), c["codeMax"]))
    if len(t["yytable_"]) != c["last"] + 1 or len(t["yycheck_"]) != c["last"] + 1:
        raise ShapeError("yytable_ / yycheck_ length differs from yylast_ + 1")
    if len(t["yyr1_"]) != len(t["yyr2_"]) or len(t["yypact_"]) != len(t["yydefact_"]):
        raise ShapeError("table lengths inconsistent")
    flat = " ".join(src.split())
    # the shape of the skeleton's loop (lalr1.cc of bison 3.7) the model transcribes
    for piece, what in [
        ("if (yystack_[0].state == yyfinal_) YYACCEPT;", "accept test"),
        ("yyn = yypact_[+yystack_[0].state]; if (yy_pact_value_is_default_ (yyn)) goto yydefault;", "default decision"),
        ("yyn += yyla.kind (); if (yyn < 0 || yylast_ < yyn || yycheck_[yyn] != yyla.kind ()) { goto yydefault; }", "table lookup"),
        ("yyn = yytable_[yyn]; if (yyn <= 0) { if (yy_table_value_is_error_ (yyn)) goto yyerrlab; yyn = -yyn; goto yyreduce; }", "reduce or error"),
        ("if (yyerrstatus_) --yyerrstatus_;", "error status countdown"),
        ("yyn = yydefact_[+yystack_[0].state]; if (yyn == 0) goto yyerrlab; goto yyreduce;", "default reduction"),
        ("if (yyerrstatus_ == 3) { if (yyla.kind () == symbol_kind::S_YYEOF) YYABORT; else if (!yyla.empty ()) { yy_destroy_ (\"Error: discarding\", yyla); yyla.clear (); } }", "discard after a failed recovery"),
        ("yyerrstatus_ = 3; for (;;) { yyn = yypact_[+yystack_[0].state]; if (!yy_pact_value_is_default_ (yyn)) { yyn += symbol_kind::S_YYerror; if (0 <= yyn && yyn <= yylast_ && yycheck_[yyn] == symbol_kind::S_YYerror) { yyn = yytable_[yyn]; if (0 < yyn) break; } } if (yystack_.size () == 1) YYABORT;", "pop until the error token shifts"),
        ("int yyr = yypgoto_[yysym - YYNTOKENS] + yystate; if (0 <= yyr && yyr <= yylast_ && yycheck_[yyr] == yystate) return yytable_[yyr]; else return yydefgoto_[yysym - YYNTOKENS];", "goto"),
        ("return yyvalue == yypact_ninf_;", "pact default"), ("return yyvalue == yytable_ninf_;", "table error"),
        ("if (t <= 0) return symbol_kind::S_YYEOF; else if (t <= code_max) return YY_CAST (symbol_kind_type, translate_table[t]); else return symbol_kind::S_YYUNDEF;", "yytranslate_"),
    ]:
        if piece not in flat:
            raise ShapeError("bison skeleton: %s is not in the expected shape" % what)
    hs = " ".join(hdr.split())
    if "S_YYEOF = 0" not in hs or "S_YYerror = 1" not in hs or "S_YYUNDEF = 2" not in hs:
        raise ShapeError("symbol kinds YYEOF / YYerror / YYUNDEF are not 0 / 1 / 2")
    # yylex (RSParser.cpp): INTERRUPT and END end the input, INTERRUPT counts a critical error
    rs = " ".join(strip_comments(read("ccl/rslang/src/RSParser.cpp")).split())
    if ("const auto token = (*state->nextTokenCall)(); state->currentPosition = token.pos.start; if (token.id == TokenID::INTERRUPT) { "
            "++state->countCriticalErrors; *yylval = nullptr; return endParsing; } else if (token.id == TokenID::END) { *yylval = nullptr; return endParsing; } "
            "else { *yylval = std::make_shared<Node>(token); return static_cast<int>(token.id); }") not in rs:
        raise ShapeError("yylex is not in the expected shape")
    if ("state.NewInput(&input); const auto success = impl->parse() == 0 && state.countCriticalErrors == 0; if (!success) { "
            "if (state.countCriticalErrors == 0) { state.OnError(ParseEID::syntax); } } return success;") not in rs:
        raise ShapeError("RSParser::Parse is not in the expected shape")
    # semantic actions that can end the parse
    eids = dict(re.findall(r"(\w+)\s*=\s*(0x[0-9A-Fa-f]+)", re.search(r"enum class ParseEID[^{]*\{([^}]*)\}", strip_comments(read("ccl/rslang/include/ccl/rslang/RSErrorCodes.hpp"))).group(1)))
    actions = []   # (rule, kind, arg): kind 1 = error production (arg = eid), 2 = TupleDeclaration, 3 = Finalize*
    for mm in re.finditer(r"case (\d+): // ([^\n]*)\n#line[^\n]*\n([^\n]*)\n", raw):
        rule, text, act = int(mm.group(1)), mm.group(2), " ".join(mm.group(3).split())
        if "YYABORT" not in act and "YYERROR" not in act and "YYACCEPT" not in act:
            continue
        m1 = re.fullmatch(r"\{ state->OnError\(ParseEID::(\w+)\); YYABORT; \}", act)
        if m1:
            if m1.group(1) not in eids:
                raise ShapeError("unknown ParseEID %s" % m1.group(1))
            actions.append((rule, 1, int(eids[m1.group(1)], 16))); continue
        if re.fullmatch(r"\{ yylhs\.value = TupleDeclaration\(state, yystack_\[0\]\.value\); if \(!yylhs\.value\) YYABORT; \}", act):
            if text.strip() != "variable: tuple":
                raise ShapeError("TupleDeclaration in an unexpected rule: %s" % text)
            actions.append((rule, 2, 0)); continue
        if re.fullmatch(r"\{ if\(!state->Finalize\w+\((yystack_\[\d\]\.value(, )?)+\)\) YYABORT; \}", act):
            actions.append((rule, 3, 0)); continue
        raise ShapeError("rule %d (%s): action that ends the parse is not in a known shape: %s" % (rule, text, act))
    if not any(k == 3 for _, k, _ in actions) or not any(k == 2 for _, k, _ in actions):
        raise ShapeError("Finalize / TupleDeclaration actions not found")
    for need in ("syntax", "expectedLocal", "invalidImperative"):
        if need not in eids:
            raise ShapeError("ParseEID::%s missing" % need)
    c["eidSyntax"] = int(eids["syntax"], 16); c["eidExpectedLocal"] = int(eids["expectedLocal"], 16)
    c["eidInvalidImperative"] = int(eids["invalidImperative"], 16)
    return t, translate, c, actions


def lean_list(xs):
    return "#[" + ", ".join(str(x) if x >= 0 else "(%d)" % x for x in xs) + "]"


def generate():
    t, translate, c, actions = extract()
    lines = ["/- GENERATED by tools/gen_lalr.py from /repo's current source on every run. Do not edit. -/",
             "namespace CCVerif.Gen.Lalr", "",
             "/-! LALR(1) tables of the bison-generated `RSParserImpl.cpp` (skeleton lalr1.cc, bison 3.7) and the rules whose",
             "semantic action can end the parse. The translator also checks the shape of the skeleton's loop, of `yylex`",
             "and of `RSParser::Parse` that `Model/EntryPoints.lean` transcribes. -/", ""]
    for n in ("yypact_", "yydefact_", "yypgoto_", "yydefgoto_", "yytable_", "yycheck_", "yyr1_", "yyr2_"):
        lines.append("def %s : Array Int := %s" % (n.strip("_").replace("yy", ""), lean_list(t[n])))
    lines.append("def translate : Array Int := %s" % lean_list(translate))
    for k in ("pactNinf", "tableNinf", "last", "final", "ntokens", "codeMax"):
        lines.append("def %s : Int := %d" % (k, c[k]))
    for k in ("eidSyntax", "eidExpectedLocal", "eidInvalidImperative"):
        lines.append("def %s : Nat := 0x%X" % (k, c[k]))
    lines.append("/-- (rule, kind, argument): kind 1 = error production `{ OnError(eid); YYABORT; }`, 2 = `variable: tuple`")
    lines.append("(`TupleDeclaration`), 3 = `Finalize*` (SemanticCheck + CreateSyntaxTree) -/")
    lines.append("def actions : List (Nat × Nat × Nat) := [%s]" % ", ".join("(%d, %d, 0x%X)" % a for a in actions))
    lines += ["", "end CCVerif.Gen.Lalr", ""]
    text = "\n".join(lines)
    old = open(OUT, encoding="utf-8").read() if os.path.exists(OUT) else None
    if old != text:
        tmp = OUT + ".tmp%d" % os.getpid()
        with open(tmp, "w", encoding="utf-8") as f:
            f.write(text)
        os.replace(tmp, OUT)
        return True
    return False


if __name__ == "__main__":
    try:
        print("changed" if generate() else "unchanged")
    except ShapeError as e:
        sys.exit("ShapeError: %s" % e)
