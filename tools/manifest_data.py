HOOKS = dict(
    guard="CONCEPTCORE_VERIF",
    enable="tools/build_impl.py compiles /repo/ccl's seven unity TUs with -DCONCEPTCORE_VERIF -fsanitize=address,undefined into /verif/.cache/impl/<tree-hash>/",
    baseline_off_cmd="cmake --build /repo/_build -- -k 0 ; ctest --test-dir /repo/_build -j8 --timeout 900",
    source_commits=[],
    add_only=True,
)
NOTES = ("Every check: regenerate tables from /repo, lake build the property's theorems (kernel re-check), "
         "#print axioms audit, rebuild /repo's working tree (content-addressed cache), run the correspondence harness "
         "against the compiled Lean model driver and the Lean specification oracle. See DESIGN.md.")

PENDING = "not yet built in this round: no check is registered rather than claiming one that does not exist (machine-checked proof is applicable; see DESIGN.md section 8)"

CHECKS = {
    "C20": dict(
        text="Unbounded theorems (induction over code-point lists, omega over Z) about a line-by-line Lean model of Strings.hpp: UTF-8 iteration offsets, SizeInCodePoints, Substr (in range / empty / out of range), split (join, no delimiter in pieces, count), IsInteger grammar, all StrRange relations against point-set semantics, Intersect, Merge. The model is tied to the header by an exhaustive-for-short-inputs differential run on every check.",
        note="Model hand-written; correspondence exhaustive for strings <= 3 (thorough 4) code points over an 8-symbol alphabet incl. 2/3/4-byte symbols and all ranges, all byte strings <= 5 over 6 symbols, all range pairs in [0,6]^4. TrimWhitespace is covered by the correspondence and the dropWhile oracle; its theorem is listed under partial until proved. int32 wrap-around not modelled.",
    ),
}
NOT_APPLICABLE = {p: PENDING for p in ["C01","C02","C03","C04","C05","C06","C07","C08","C09","C10","C11","C12","C13","C14","C15","C16","C17","C18","C19"]}
