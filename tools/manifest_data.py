HOOKS = dict(
    guard="CONCEPTCORE_VERIF",
    enable="tools/build_impl.py compiles /repo/ccl's seven unity TUs with -DCONCEPTCORE_VERIF -fsanitize=address,undefined into /verif/.cache/impl/<tree-hash>/",
    baseline_off_cmd="cmake --build /repo/_build -- -k 0 ; ctest --test-dir /repo/_build -j8 --timeout 900",
    source_commits=["verif hook: seedable identifier generator under CONCEPTCORE_VERIF"],
    add_only=True,
)
NOTES = ("Every check: regenerate tables from /repo, lake build the property's theorems (kernel re-check), "
         "#print axioms audit, rebuild /repo's working tree (content-addressed cache), run the correspondence harness "
         "against the compiled Lean model driver and the Lean specification oracle. See DESIGN.md.")

PENDING = "not yet built in this round: no check is registered rather than claiming one that does not exist (machine-checked proof is applicable; see DESIGN.md section 8)"

CHECKS = {
    "C20": dict(
        text="Unbounded theorems (induction over code-point lists, omega over Z) about a line-by-line Lean model of Strings.hpp: UTF-8 iteration offsets, SizeInCodePoints, Substr (in range / empty / out of range), split (join, no delimiter in pieces, count), IsInteger grammar, all StrRange relations against point-set semantics, Intersect, Merge. The model is tied to the header by an exhaustive-for-short-inputs differential run on every check.",
        note="Model hand-written; correspondence exhaustive for strings <= 3 (thorough 4) code points over an 8-symbol alphabet incl. 2/3/4-byte symbols and all ranges, all byte strings <= 5 over 6 symbols, all range pairs in [0,6]^4. TrimWhitespace is covered by the correspondence and the dropWhile oracle; its theorem is listed under partial until proved. int32 wrap-around not modelled.",
    ),
    "C14": dict(
        text="Lean model (transcription of CGraph.cpp incl. tombstones, index vectors, iterative 3-colour DFS with duplicate stack entries, worklists, Kosaraju second pass) with the mathematical digraph (paths as an inductive relation) as specification; theorems over all update histories (refinement of mutators, counts, reachability closures, cycle detection, topological order, loop groups = SCCs with a cycle) — those not yet proved are kept as `_statement` definitions and listed as partial in the evidence. Tie: exhaustive short histories + random long ones compared query-by-query with the model and with an independent closure-based digraph oracle.",
        note="std::unordered_set iteration order is passed from the implementation to the model; the uid->slot hash map is modelled as a derived function; int32 index overflow not modelled. The loop-group defect of the pinned code (edges 1>3,1>2,2>1) was found by this check and repaired by a fix: commit.",
    ),
    "C09": dict(
        text="Lean state machine transcribing IdentityManager / CstNameGenerator / CstList (InsertPositionFor, CanMoveBefore, splice) / RSCore insertion paths, Erase, SetAliasFor, ResetAliases / RSForm tracking guards; the invariant (unique uids and aliases, alias letter = kind, list = permutation of the store and kind-sorted, registries = key sets, tracking within keys) is stated over all histories with arbitrary colliding / ill-formed arguments; refused-is-identity and tracked-protected are proved, the history invariant is proved or listed as partial in the evidence. Tie: random histories compared op by op and dump by dump with the model; the invariant, 'refused changes nothing' and 'erased is gone from every view' are also evaluated directly on the implementation.",
        note="Fresh uids come from std::random_device: the harness passes the uid actually drawn. Definitions / texts / analysis are opaque in this model. MergeWith is covered by C12.",
    ),
    "C07": dict(
        text="Lean model of Schema's analysis bookkeeping (storage, per-constituent info, lazily rebuilt UpdatableGraph reusing the C14 graph model, UpdateState, TriggerParse/ParseCst, SetDefinitionFor with the FindExpr short-cut, SetAliasFor, SubstitueAliases, TranslateAll, Insert/Load/Erase) with the per-constituent analysis instantiated on a definition fragment; the property 'incremental = from scratch' is stated over all histories; closed counterexample theorems record the pinned defect (stale self info), the statement for the repaired algorithm is proved or listed partial in the evidence. Tie: fragment histories compared report-by-report with the model and with the model's from-scratch analysis; general histories (all kinds, functions, predicates, texts) are judged on the implementation itself against a copy re-analysed from scratch.",
        note="Outside the definition fragment, and for the Thesaurus clause, only the implementation-level oracle applies. Hash-set iteration orders inside the graph updater are not modelled. The defect found (self reference / closed cycle accepted incrementally) was repaired by a fix: commit.",
    ),
    "C11": dict(
        text="Lean model of RSModel's value bookkeeping (AfterInsert, Erase, SetExpressionFor, ResetDependants, AddBasicElement, SetBasicText, ResetDataFor, Calculate, RecalculateAll) over the C07 schema model, evaluation instantiated on the fragment 'term = union of names'; the property 'no stale calculated value' is stated over all histories against a full recalculation; closed counterexample theorems record the three pinned defects; the statement for the repaired code is proved or listed partial in the evidence. Tie: fragment histories compared report-by-report with the model and with the model's recalculation; general histories (structures with data, statements, functions) judged on the implementation against a freshly loaded, fully recalculated model, in forked children (a crash is an observation).",
        note="Outside the fragment only the implementation-level oracle applies. Found and repaired by fix: commits: stale dependants after SetExpressionFor / same-size SetBasicText / Erase, and the PruneStructure assertion on an untyped structure.",
    ),
    "C16": dict(
        text="Lean transcription of SDCompact::Packer/Unpacker (cursor, row prefixes, unknown-count marker; every .at() an explicit oob outcome) with the structural predicate compat as specification; unbounded theorems by mutual structural induction: round trip (under the explicit no-marker hypothesis; the unrestricted statement is refuted in the model by a 10^7-element witness), no out-of-range access / no fault for any table and any well-formed type, every unpacked value is compatible. Tie: typed values, mutated and ragged tables, exhaustive small tables compared cell by cell with the real Packer/Unpacker; every value the implementation unpacks is re-checked with the Lean compat.",
        note="Latent defect proved on the model only (a set of exactly unknownCount = 10 000 000 elements followed by a sibling does not round-trip); too large to replay under the sanitizer harness, recorded in DESIGN.md. Tuple arity 0/1 is only reachable through the raw Typification constructor (model and code agree).",
    ),
    "C13": dict(
        text="Lean model of the selection logic of OpExtractBasis / OpMaxPart (CheckCst, IsCorrectlyDefined, the repeated list scan, SortSubset, backward closure) over an abstract source (ordered constituents with resolved inputs); specification: least closed set (inductive InMax) and dependency ancestors (inductive DepOf); statements: exact membership, order preserved (sublist), closed under dependencies — proved or listed partial in the evidence; a closed counterexample theorem records the pinned single-scan defect. Tie: generated schemas (random dependency shapes, list orders shuffled by admissible moves, incorrect members, all kinds) x all selections of size 1, sampled sizes 2-3, empty and foreign selections; the result uid list is compared with the model and with an independent Kleene-iteration oracle; closure, order and status/type preservation up to alias renumbering are judged on the implementation's result.",
        note="The copy (bulk InsertCopy + ResetAliases) is not modelled here (C08/C09). The single-scan defect was repaired by a fix: commit.",
    ),
    "C12": dict(
        text="Proved in Lean: the algebra of identifier translations that synthesis, merge and equation compose (EntityTranslation::SubstituteValues = simultaneous substitution independent of iteration order, SuperposeWith = composition with fall-through, Identity, EquationOptions::SwapKeyVal), tied to the real classes by a differential run. The end-to-end clauses of the property (every operand constituent represented by an existing result constituent, one survivor per equated pair, unique aliases, every mention rewritten and nothing else, refused tables change nothing, correctness and typification preserved for like-with-like tables over correct operands) are stated over the observed outcome and judged on the implementation itself for generated operand pairs and tables; there is no Lean model of BinarySynthes::Execute, which is why this check is labelled partial.",
        note="Partial: theorem level covers the translation algebra only; the synthesis pipeline is covered by implementation-level oracles in forked children. Found and repaired: translation chain through deleted duplicates.",
    ),
}
NOT_APPLICABLE = {p: PENDING for p in ["C01","C02","C03","C04","C05","C06","C08","C10","C15","C17","C18","C19"]}
