// C13 harness: OpExtractBasis / OpMaxPart on generated schemas with arbitrary dependency shapes,
// list orders not aligned with dependencies, incorrect members; all selections of <= 3.
#include "common.hpp"
#include <set>
#include <regex>
#include "frag.hpp"
#include "verif_seed.hpp"
#include "ccl/semantic/RSForm.h"
#include "ccl/ops/RSOperations.h"
#include <algorithm>
#include <map>
#include <regex>

using namespace ccl;
using namespace ccl::semantic;
using vh::emit;

static std::string typeStr(const ParsingInfo& info) {
  if (!info.exprType.has_value()) return "-";
  if (const auto* t = std::get_if<rslang::Typification>(&info.exprType.value()); t != nullptr) return t->ToString();
  return "LOGIC";
}

static std::string join(const std::vector<uint32_t>& v, const char* sep) {
  if (v.empty()) return "-";
  std::string out;
  for (size_t i = 0; i < v.size(); ++i) { if (i) out += sep; out += std::to_string(v[i]); }
  return out;
}

// the dependencies are read from a copy re-analysed from scratch, not from the (possibly cached) graph of the
// schema the operations run on: what depends on what is a fact about the definitions
static std::string sourceWire(const RSForm& live) {
  RSForm f = live;
  f.UpdateState();
  std::string out;
  for (const auto uid : f.List()) {
    if (!out.empty()) out += ",";
    std::vector<uint32_t> ins;
    for (const auto in : f.RSLang().Graph().InputsFor(uid)) ins.push_back(in);
    std::sort(ins.begin(), ins.end());
    out += std::to_string(uid) + ":" + join(ins, ";") + ":" + (f.GetRS(uid).definition.empty() ? "1" : "0") + ":" + (IsBaseSet(f.GetRS(uid).type) ? "1" : "0");
  }
  return out.empty() ? "-" : out;
}

// rename identifiers of a text by a map (whole identifiers only)
static std::string renameIds(const std::string& text, const std::map<std::string, std::string>& m) {
  static const std::regex id("[XCSADFTP][0-9]+");
  std::string out; auto it = std::sregex_iterator(text.begin(), text.end(), id); size_t last = 0;
  for (; it != std::sregex_iterator(); ++it) {
    out += text.substr(last, static_cast<size_t>(it->position()) - last);
    const auto f = m.find(it->str());
    out += f == m.end() ? it->str() : f->second;
    last = static_cast<size_t>(it->position() + it->length());
  }
  return out + text.substr(last);
}

// oracles on the implementation's result: closed, order preserved, status/type preserved
static void judge(const RSForm& live, const RSForm& res) {
  RSForm src = live;
  src.UpdateState();
  std::map<std::string, std::string> old2new;
  for (const auto uid : res.List()) if (src.Contains(uid)) old2new[src.GetRS(uid).alias] = res.GetRS(uid).alias;
  // order: result list is a subsequence of the source list
  {
    std::vector<uint32_t> r(res.List().begin(), res.List().end()), s;
    for (const auto uid : src.List()) if (res.Contains(uid)) s.push_back(uid);
    emit("c13 chk order", (r.size() == 1 || r == s) ? "1" : "0:" + join(r, ",") + "_vs_" + join(s, ","));
  }
  // closed: every dependency that resolved in the source resolves in the result
  {
    std::string bad;
    for (const auto uid : res.List()) {
      if (!src.Contains(uid)) { bad = "foreign_" + std::to_string(uid); break; }
      for (const auto in : src.RSLang().Graph().InputsFor(uid))
        if (!res.Contains(in) || !res.RSLang().Graph().InputsFor(uid).contains(in)) { bad = src.GetRS(uid).alias + "_lost_" + src.GetRS(in).alias; break; }
      if (!bad.empty()) break;
    }
    emit("c13 chk closed", bad.empty() ? "1" : "0:" + bad);
  }
  // status and typification up to the alias renumbering
  {
    std::string bad;
    for (const auto uid : res.List()) {
      if (!src.Contains(uid)) continue;
      const auto& a = src.GetParse(uid); const auto& b = res.GetParse(uid);
      if (a.status != b.status) { bad = src.GetRS(uid).alias + "_status_" + std::to_string(static_cast<int>(a.status)) + "_" + std::to_string(static_cast<int>(b.status)); break; }
      if (renameIds(typeStr(a), old2new) != typeStr(b)) { bad = src.GetRS(uid).alias + "_type_" + typeStr(a) + "_" + typeStr(b); break; }
    }
    for (auto& c : bad) if (c == ' ') c = '_';
    // recorded finding: the result re-issues aliases, so a mention that resolved to NOTHING in the source can be
    // captured by a constituent of the result; results in which that happens are judged under their own op name
    bool captured = false;
    {
      static const std::regex id("[XCSADFTP][0-9]+");
      std::set<std::string> srcAliases, resAliases;
      for (const auto uid : src.List()) srcAliases.insert(src.GetRS(uid).alias);
      for (const auto uid : res.List()) resAliases.insert(res.GetRS(uid).alias);
      for (const auto uid : res.List()) {
        if (!src.Contains(uid)) continue;
        const auto& def = src.GetRS(uid).definition;
        for (auto it = std::sregex_iterator(def.begin(), def.end(), id); it != std::sregex_iterator(); ++it)
          if (!srcAliases.count(it->str()) && resAliases.count(it->str())) captured = true;
      }
    }
    emit(captured ? "c13 chk statustype-captured" : "c13 chk statustype", bad.empty() ? "1" : "0:" + bad);
  }
}

static std::string resWire(const std::unique_ptr<RSForm>& r) {
  if (r == nullptr) return "none";
  std::vector<uint32_t> v(r->List().begin(), r->List().end());
  return join(v, ",");
}

static void runOps(const RSForm& f, const SetOfEntities& sel) {
  std::vector<uint32_t> s(sel.begin(), sel.end()); std::sort(s.begin(), s.end());
  {
    ops::OpMaxPart op{ f, sel };
    auto r = op.Execute();
    emit("c13 maxpart " + join(s, ","), resWire(r));
    if (r) judge(f, *r);
  }
  {
    ops::OpExtractBasis op{ f, sel };
    auto r = op.Execute();
    emit("c13 basis " + join(s, ","), resWire(r));
    if (r) judge(f, *r);
  }
}

static void oneSchema(vh::Rng& rng, bool general) {
  RSForm f;
  const std::string IN = "\xE2\x88\x88", XI = "\xCE\xBE", TIMES = "\xC3\x97";
  const std::vector<std::string> gdefs = {
    "X1", "X1" + UNION + "X2", BOOL + "(X1)", "X1" + TIMES + "X2", "D1", "D2", "D1" + UNION + "D2", "D3\\D1", "Pr1(S1)",
    "D{" + XI + IN + "X1 | " + XI + IN + "D1}", "F1[X1]", "F1[D1]", "[\xCE\xB1" + IN + BOOL + "(X1)] \xCE\xB1" + UNION + "D1", "P1[X1]",
    "[\xCE\xB1" + IN + BOOL + "(X1)] \xCE\xB1=\xCE\xB1", "1=1", "card(D1)>0", "A1 & 1=1", "D1=D2", "bad(", "X9", "D9" + UNION + "X1", "D4", "D3", "S1", "" };
  const std::vector<std::string> names = { "X1", "X2", "D1", "D2", "D3", "D4", "D5", "D9" };
  const std::vector<CstType> kinds = { CstType::base, CstType::base, CstType::structured, CstType::axiom, CstType::term, CstType::term, CstType::term,
                                       CstType::function, CstType::predicate };
  const int n = rng.range(3, general ? 9 : 7);
  std::vector<uint32_t> uids;
  for (int i = 0; i < n; ++i) {
    CstType t; std::string def;
    if (general) {
      t = i == 0 ? CstType::base : rng.pick(kinds);
      if (t == CstType::structured) def = BOOL + "(X1" + TIMES + "X1)";
      else if (!IsBaseSet(t)) def = rng.pick(gdefs);
    } else {
      t = (i == 0 || rng.chance(1, 5)) ? CstType::base : CstType::term;
      if (t == CstType::term) {
        FragDef d{ 1, {} };
        const int r = rng.range(0, 99);
        if (r < 6) d.kind = 0; else if (r < 10) d.kind = 2;
        else { const int k = rng.range(1, 3); for (int j = 0; j < k; ++j) d.names.push_back(rng.pick(names)); }
        def = renderDef(d);
      }
    }
    uids.push_back(f.Emplace(t, def));
  }
  // sometimes a base set gets an (erroneous, but storable) non-empty definition
  if (rng.chance(1, 5)) f.SetExpressionFor(uids[0], rng.pick(names));
  // shuffle the list by admissible moves, so that order is not aligned with dependencies
  for (int k = 0; k < 3 * n; ++k) {
    auto it = f.List().begin(); const int pos = rng.range(0, n);
    for (int j = 0; j < pos; ++j) ++it;
    f.MoveBefore(rng.pick(uids), it);
  }
  // the source may be reached by an editing history: incremental edits right before the extraction
  // (renames with and without substitution, definition edits) - no batch operation afterwards
  if (rng.chance(1, 2)) {
    const int edits = rng.range(1, 3);
    for (int k = 0; k < edits; ++k) {
      const auto uid = rng.pick(uids);
      const int r = rng.range(0, 3);
      if (r <= 1) {
        const auto& rs = f.GetRS(uid);
        const std::string letter(1, rs.alias.at(0));
        f.SetAliasFor(uid, letter + std::to_string(rng.range(1, 9)), r == 0);
      } else if (r == 2 && !IsBaseSet(f.GetRS(uid).type)) {
        f.SetExpressionFor(uid, general ? rng.pick(gdefs) : rng.pick(names) + UNION + rng.pick(names));
      } else {
        f.SetConventionFor(uid, "note");
      }
    }
  }
  emit("c13 source " + sourceWire(f), "ok");
  // all selections of size 1, and of size 2..3 (sampled when large)
  for (const auto a : uids) runOps(f, { a });
  for (size_t i = 0; i < uids.size(); ++i) for (size_t j = i + 1; j < uids.size(); ++j) {
    if (uids.size() > 6 && !rng.chance(1, 2)) continue;
    runOps(f, { uids[i], uids[j] });
  }
  for (int k = 0; k < 6; ++k) runOps(f, { rng.pick(uids), rng.pick(uids), rng.pick(uids) });
  runOps(f, {});
  runOps(f, { 4000000000U });
}

int main() {
  vh::Rng rng(vh::seedFromEnv());
  const bool deep = vh::thorough();
  ccl::verif::Seed(7U);
  // corpus: list X1 D2 D1 with D1:=X1, D2:=D1 (the pinned single-scan defect)
  {
    RSForm f;
    const auto x1 = f.Emplace(CstType::base);
    const auto d1 = f.Emplace(CstType::term, "X1");
    const auto d2 = f.Emplace(CstType::term, "D1");
    f.MoveBefore(d2, f.List().Find(d1));
    emit("c13 source " + sourceWire(f), "ok");
    runOps(f, { x1 });
  }
  // corpus: a base set X2 whose definition mentions X1, selected alone (pinned closure gap)
  {
    RSForm f;
    const auto x1 = f.Emplace(CstType::base);
    const auto x2 = f.Emplace(CstType::base);
    f.SetExpressionFor(x2, "X1");
    emit("c13 source " + sourceWire(f), "ok");
    runOps(f, { x2 });
    runOps(f, { x1, x2 });
  }
  const int N = deep ? 1500 : 150;
  ccl::verif::Seed(7U);
  for (int i = 0; i < N; ++i) { const auto cs = rng.next(); vh::Rng sub(cs); vh::forkedEmit([&] { ccl::verif::Seed(static_cast<uint32_t>(cs)); oneSchema(sub, i % 2 == 1); }, "c13 crash"); }
  return 0;
}
