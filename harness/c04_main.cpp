// C04 harness: every public entry point on arbitrary input is total, memory-safe and reports
// failure faithfully (fails <=> at least one critical error; positions inside the input).
// Each call runs in a forked child under ASan/UBSan with an alarm: a crash, sanitizer abort,
// escaped exception or timeout is the observation `fault:<kind>`.
// Ops:  c04 <entry> <class> <hint> <hexText> -> 1 | 0:<why>[+position-out-of-range] | fault:<kind>   (verdict, model `skip`)
//       c04m parse <hint> <hexText>          -> <ok|fail> <errors>                      (compared with Model/EntryPoints.lean parseEntry)
//       c04m audit <hint> <hexText>          -> t=<ok|fail> e=<errors> v=<ok|fail|-> ve=<errors|->   (checkEntry, context exported as `c03 ctx` lines)
//       c04m eval <hint> <hexText>           -> <ok|fail> <errors>   (evalEntry; the model column is `skip` when the text passes the type check:
//         the calculation itself needs the data context and is tied by C01/C02)
//         errors = `-` or `eid@pos,...` (hex eid) in the order of logging: ErrorLogger::All() after Parse / CheckType / CheckValue
//       c04 lexpos <syn> <hexText>           -> <ranges> err=<p|none> fails=<0|1> inrange=<0|1>
//         ranges `lo:hi` of the real lexer's tokens up to and including the first INTERRUPT (`I`) / END (`E`),
//         position of the first `unknownSymbol` error logged by Parse, verdict of Parse, and the harness' own
//         check that the ranges are ordered and inside the text (compared with the lexer / parser MODEL on
//         which Properties/C04.lean proves lex_tiles_input, lex_first_error, lex_error_fails_parse)
#include "common.hpp"
#include "frag.hpp"
#include "verif_seed.hpp"
#include "ast_wire.hpp"
#include "ccl/semantic/RSModel.h"
#include "ccl/rslang/Parser.h"
#include "ccl/rslang/Auditor.h"
#include "ccl/rslang/Interpreter.h"
#include "ccl/rslang/RSGenerator.h"
#include "ccl/api/RSFormJA.h"
#include "ccl/tools/JSON.h"
#include "ccl/lang/Reference.h"
#include "ccl/lang/RefsManager.h"
#include "ccl/lang/ManagedText.h"
#include "ccl/lang/EntityTermContext.hpp"
#include "pyconcept.cpp"   // the seven functions behind the Python binding (pybind11 stubbed)
#include <algorithm>
#include <optional>

using namespace ccl;
using namespace ccl::semantic;
using vh::emit; using vh::hex;

static std::string verdict(bool ok, const rslang::ErrorLogger& log, const std::string& text, bool bytePositions) {
  int critical = 0; bool posOk = true;
  const auto limit = bytePositions ? static_cast<StrPos>(text.size()) : std::max(SizeInCodePoints(text), static_cast<StrPos>(text.size()));
  for (const auto& e : log.All()) {
    if (e.IsCritical()) ++critical;
    if (e.position < 0 || e.position > limit) posOk = false;
  }
  // ok=1 with critical errors, or ok=0 without, is unfaithful
  const bool faithful = ok ? critical == 0 : critical > 0;
  return std::string(faithful ? "1" : (ok ? "0:accepted-with-critical" : "0:failed-silently")) + (posOk ? "" : "+position-out-of-range");
}

// strict UTF-8 (the MATH lexer model works on code points; anything else is outside the model)
static bool validUtf8(const std::string& s) {
  size_t i = 0; const size_t n = s.size();
  auto cont = [&](size_t k) { return k < n && (static_cast<unsigned char>(s[k]) & 0xC0) == 0x80; };
  while (i < n) {
    const unsigned b = static_cast<unsigned char>(s[i]);
    if (b < 0x80) { i += 1; }
    else if (b >= 0xC2 && b < 0xE0) { if (!cont(i + 1)) return false; i += 2; }
    else if (b >= 0xE0 && b < 0xF0) {
      if (!cont(i + 1) || !cont(i + 2)) return false;
      const unsigned cp = ((b - 0xE0) << 12) | ((static_cast<unsigned char>(s[i + 1]) & 0x3F) << 6) | (static_cast<unsigned char>(s[i + 2]) & 0x3F);
      if (cp < 0x800 || (cp >= 0xD800 && cp < 0xE000)) return false;
      i += 3;
    } else if (b >= 0xF0 && b < 0xF5) {
      if (!cont(i + 1) || !cont(i + 2) || !cont(i + 3)) return false;
      const unsigned cp = ((b - 0xF0) << 18) | ((static_cast<unsigned char>(s[i + 1]) & 0x3F) << 12) | ((static_cast<unsigned char>(s[i + 2]) & 0x3F) << 6) | (static_cast<unsigned char>(s[i + 3]) & 0x3F);
      if (cp < 0x10000 || cp >= 0x110000) return false;
      i += 4;
    } else return false;
  }
  return true;
}

static std::string lexpos(const std::string& text, rslang::Syntax syn) {
  using rslang::TokenID;
  const bool ascii = syn == rslang::Syntax::ASCII;
  const bool exact = ascii || validUtf8(text);
  const StrPos n = ascii ? static_cast<StrPos>(text.size())
                         : (exact ? SizeInCodePoints(text) : std::max(SizeInCodePoints(text), static_cast<StrPos>(text.size())));
  rslang::Parser lx{};
  auto stream = lx.Lex(text, syn);
  std::string ranges; bool in = true; StrPos prevHi = 0; std::optional<StrPos> interruptAt{};
  for (int i = 0; i < 100000; ++i) {
    const auto t = stream();
    if (i) ranges += ',';
    if (t.id == TokenID::INTERRUPT) ranges += 'I';
    if (t.id == TokenID::END) ranges += 'E';
    ranges += std::to_string(t.pos.start) + ":" + std::to_string(t.pos.finish);
    if (t.pos.start < 0 || t.pos.start > t.pos.finish || t.pos.finish > n) in = false;
    if (i && t.pos.start < prevHi) in = false;
    prevHi = t.pos.finish;
    if (t.id == TokenID::END) { if (exact && (t.pos.start != n || t.pos.finish != n)) in = false; break; }
    if (t.id == TokenID::INTERRUPT) { interruptAt = t.pos.start; if (t.pos.start >= n) in = false; break; }
  }
  // what LexerBase::Stream reported while the tokens were pulled (the lexers of `lx` log into lx.log)
  std::optional<StrPos> err{};
  for (const auto& e : lx.Errors().All()) {
    if (e.eid == static_cast<uint32_t>(rslang::LexerEID::unknownSymbol)) { err = e.position; break; }
  }
  if (err.has_value() != interruptAt.has_value()) in = false;          // reported iff the stream has an INTERRUPT
  if (err.has_value() && interruptAt.has_value() && err.value() != interruptAt.value()) in = false;
  if (err.has_value() && (err.value() < 0 || err.value() >= n)) in = false;
  // the whole Parse: the parser may stop at a syntax error before it pulls the INTERRUPT token; when it
  // does report the unknown symbol, it is that position
  rslang::Parser p{};
  const bool ok = p.Parse(text, syn);
  for (const auto& e : p.Errors().All()) {
    if (e.eid == static_cast<uint32_t>(rslang::LexerEID::unknownSymbol) && (!interruptAt.has_value() || e.position != interruptAt.value())) in = false;
  }
  return ranges + " err=" + (err.has_value() ? std::to_string(err.value()) : std::string("none"))
    + " fails=" + (ok ? "0" : "1") + " inrange=" + (in ? "1" : "0");
}

// ---------------------------------------------------------------- model tie: the error log itself
static std::string errList(const rslang::ErrorLogger& log) {
  std::string out;
  for (const auto& e : log.All()) {
    if (!out.empty()) out += ',';
    char buf[32]; std::snprintf(buf, sizeof buf, "%x@%d", static_cast<unsigned>(e.eid), static_cast<int>(e.position));
    out += buf;
  }
  return out.empty() ? "-" : out;
}
static std::string tyWire(const rslang::Typification& t) {
  if (t.IsElement()) return t.E().baseID;
  if (t.IsCollection()) return "B[" + tyWire(t.B().Base()) + "]";
  std::string out = "T[";
  for (rslang::Index i = 1; i <= t.T().Arity(); ++i) { if (i > 1) out += ","; out += tyWire(t.T().Component(i)); }
  return out + "]";
}
static std::string etWire(const rslang::ExpressionType& t) {
  return std::holds_alternative<rslang::LogicT>(t) ? "LOGIC" : tyWire(std::get<rslang::Typification>(t));
}
// second field of a forked result ("verdict\x1f detail")
static std::pair<std::string, std::string> splitDetail(const std::string& r) {
  const auto cut = r.find('\x1f');
  if (cut == std::string::npos) return { r, r };   // a fault is reported on both lines
  return { r.substr(0, cut), r.substr(cut + 1) };
}

static void lexposOps(const std::string& text) {
  if (text.size() > 400) return;   // the deep-nesting class is for the implementation only
  // one child for both syntaxes (a fault is reported on both lines)
  const auto both = vh::forked([&] { return lexpos(text, rslang::Syntax::MATH) + "\x1f" + lexpos(text, rslang::Syntax::ASCII); }, 20);
  const auto cut = both.find('\x1f');
  emit("c04 lexpos math " + hex(text), cut == std::string::npos ? both : both.substr(0, cut));
  emit("c04 lexpos ascii " + hex(text), cut == std::string::npos ? both : both.substr(cut + 1));
}

struct World {
  RSModel model;
  std::string schemaJson;
  rslang::DataContext data() const {
    return [this](const std::string& name) -> std::optional<object::StructuredData> {
      const auto uid = model.Core().FindAlias(name);
      if (!uid.has_value()) return std::nullopt;
      return model.Values().SDataFor(uid.value());
    };
  }
};

static void build(World& w) {
  auto& m = w.model;
  const auto x1 = m.Emplace(CstType::base);
  m.Emplace(CstType::base);
  m.Emplace(CstType::constant);
  const auto s1 = m.Emplace(CstType::structured, BOOL + "(X1\xC3\x97X1)");
  m.Emplace(CstType::term, "X1" + UNION + "X1");
  m.Emplace(CstType::term, "Pr1(S1)");
  m.Emplace(CstType::function, "[\xCE\xB1\xE2\x88\x88" + BOOL + "(R1)] \xCE\xB1" + UNION + "\xCE\xB1");
  m.Emplace(CstType::predicate, "[\xCE\xB1\xE2\x88\x88" + BOOL + "(X1)] \xCE\xB1=\xCE\xB1");
  m.Emplace(CstType::function, "[\xCF\x83\xE2\x88\x88" + BOOL + "(Z)] card(\xCF\x83)+card(\xCF\x83)+card(\xCF\x83)+card(\xCF\x83)+card(\xCF\x83)");                         // F2: value-only use far into the body
  m.Emplace(CstType::predicate, "[\xCF\x83\xE2\x88\x88" + BOOL + BOOL + "(X1)] \xE2\x88\x80\xCE\xBE\xE2\x88\x88X1 \xE2\x88\x83\xCE\xB6\xE2\x88\x88\xCF\x83 \xCE\xBE\xE2\x88\x88\xCE\xB6 & card(\xCF\x83)=card(\xCF\x83)");   // P2
  m.Emplace(CstType::axiom, "D1=D1");
  m.Emplace(CstType::theorem, "1=1");
  for (int i = 0; i < 3; ++i) m.Values().AddBasicElement(x1, "a" + std::to_string(i));
  auto data = object::Factory::EmptySet();
  data.ModifyB().AddElement(object::Factory::Tuple({ object::Factory::Val(1), object::Factory::Val(2) }));
  m.Values().SetStructureData(s1, data);
  m.Calculations().RecalculateAll();
  RSForm f;
  for (const auto uid : m.List()) f.InsertCopy(uid, m.Core());
  w.schemaJson = api::RSFormJA::FromData(std::move(f)).ToJSON();
}

// the type / value-class / tree context of the schema, in the line protocol of the C03 driver (state `c03` of ccdriver)
static void exportCtx(const World& w) {
  const auto& schema = w.model.RSLang();
  const auto vc = schema.VCContext();
  const auto asts = schema.ASTContext();
  emit("c03 reset", "ok");
  for (const auto uid : w.model.List()) {
    const std::string n = w.model.GetRS(uid).alias;
    if (const auto tr = schema.TraitsFor(rslang::Typification(n)); tr.has_value()) {
      std::string bits; bits += tr->isIterable ? '1' : '0'; bits += tr->isOrdered ? '1' : '0';
      bits += tr->isOperable ? '1' : '0'; bits += tr->convertsFromInt ? '1' : '0';
      emit("c03 traits " + n + " " + bits, "ok");
    }
    bool isFunc = false;
    if (const auto* t = schema.TypeFor(n); t != nullptr) {
      std::string line = "c03 ctx " + n + " " + etWire(*t);
      if (const auto* a = schema.FunctionArgsFor(n); a != nullptr) {
        isFunc = true;
        for (const auto& arg : *a) line += " " + arg.name + ":" + tyWire(arg.type);
      }
      emit(line, "ok");
    }
    const auto c = vc(n);
    if (c != rslang::ValueClass::invalid) emit("c03 vc " + n + (c == rslang::ValueClass::value ? " value" : " props"), "ok");
    if (isFunc) if (const auto* tree = asts(n); tree != nullptr) emit("c03 ast " + n + " " + vh::astWire(tree->Root()), "ok");
  }
}

// ---------------------------------------------------------------- inputs
static std::string tokenSoup(vh::Rng& rng, int n) {
  static const std::vector<std::string> toks = {
    "X1", "X2", "C1", "S1", "D1", "D2", "F1", "P1", "F2", "P2", "A1", "T1", "R1", "a", "b", "\xCE\xBE", "\xCE\xB1", "1", "0", "2147483647", "99999999999", "9223372036854775807", "9223372036854775808", "18446744073709551616", "123456789012345678901234567890",
    "pr99999999999999999999", "Pr9223372036854775808", "Fi18446744073709551616", "00000000000000000000000001",
    "+", "-", "*", "=", "<", ">", "\xE2\x89\xA0", "\xE2\x88\x88", "\xE2\x88\x89", "\xE2\x8A\x86", "\xE2\x8A\x82", "\xE2\x88\xAA", "\xE2\x88\xA9", "\\", "\xE2\x88\x86", "\xC3\x97", "\xE2\x84\xAC",
    "\xE2\x88\x80", "\xE2\x88\x83", "\xC2\xAC", "&", "\xE2\x88\xA8", "\xE2\x87\x92", "\xE2\x87\x94", "(", ")", "{", "}", "[", "]", "|", ",", ";", ":=", ":==", "::=", ":\xE2\x88\x88",
    "pr1", "pr0", "Pr1,2", "Pr0", "Fi1", "Fi0", "card", "bool", "debool", "red", "D", "R", "I", "Z", "\xE2\x88\x85", " ", "\n", "\t",
    "\\A", "\\E", "\\in", "\\union", "\\ls", "\\less", "\\assign", "\\from", "\\defexpr", "B", "{}", "@", "#", "\xFF", "\xC2", "\xE2\x88", "\xF0\x9D\x94\xB8" };
  std::string s;
  for (int i = 0; i < n; ++i) s += rng.pick(toks);
  return s;
}
static std::string nesting(vh::Rng& rng) {
  const int depth = rng.range(50, vh::thorough() ? 3000 : 700);
  const int kind = rng.range(0, 3);
  std::string s;
  if (kind == 0) { for (int i = 0; i < depth; ++i) s += "("; s += "X1"; for (int i = 0; i < depth; ++i) s += ")"; }
  else if (kind == 1) { for (int i = 0; i < depth; ++i) s += BOOL; s += "(X1)"; }
  else if (kind == 2) { for (int i = 0; i < depth; ++i) s += "\xC2\xAC"; s += "1=1"; }
  else { for (int i = 0; i < depth; ++i) s += "{"; s += "X1"; for (int i = 0; i < depth; ++i) s += "}"; }
  return s;
}
static std::string randomBytes(vh::Rng& rng, int n) {
  std::string s;
  for (int i = 0; i < n; ++i) s.push_back(static_cast<char>(rng.range(1, 255)));
  return s;
}
static const std::vector<std::string>& structured() {
  static const std::string IN = "\xE2\x88\x88", XI = "\xCE\xBE";
  static const std::vector<std::string> v = {
    "X1", "X1" + UNION + "D1", "D{" + XI + IN + "X1 | " + XI + IN + "D1}", "\xE2\x88\x80" + XI + IN + "X1 " + XI + "=" + XI, "F1[X1]", "P1[X1]", "A1", "A1+1", "A1=A1", "{A1}",
    "A1" + UNION + "X1", "card(A1)", "\xE2\x88\x85", "pr0(S1)", "Pr0(S1)", "Fi0[X1](S1)", "I{1 | a:" + IN + "X1}", "2147483647+1", "debool(X1)", "red(S1)",
    "F2[Z]", "P2[" + BOOL + "(X1)]", "F2[Z]=1", "P2[" + BOOL + "(X1)] & 1=1", "F1[" + BOOL + "(X1)]", "card(F2[Z])",
    "9223372036854775808", "X1=99999999999999999999", "pr99999999999999999999(S1)", "Fi99999999999999999999[X1](S1)", "{18446744073709551616}",
    "R{" + XI + ":=0 | " + XI + "+1}", "card(" + BOOL + BOOL + "(X1\xC3\x97X1\xC3\x97X1))", "[\xCE\xB1" + IN + "X1] A1", "S7::=S1", "D3:==", "1=1 & A1", "Fi1[zz](\xE2\x88\x85)", "X1 \\union X2", "a \\ls b" };
  return v;
}

// every global of the context (each constituent kind, a radical, an unknown name) in every syntactic slot: the place where
// an identifier of the 'wrong' kind stands decides which visitor meets it (seeded change C04-3: a logical constituent as the
// whole body of a structure declaration)
static const std::vector<std::string>& slotCases() {
  static const std::string IN = "\xE2\x88\x88", XI = "\xCE\xBE", NOT = "\xC2\xAC", ALL = "\xE2\x88\x80";
  static const std::vector<std::string> v = [] {
    const std::vector<std::string> globals = { "X1", "X2", "C1", "S1", "D1", "D2", "F1", "P1", "F2", "P2", "A1", "T1", "R1", "D99", "F99", "P99" };
    std::vector<std::string> out;
    for (const auto& g : globals) {
      const std::vector<std::string> slots = {
        "S7::=" + g, "D7:==" + g, "[\xCE\xB1" + IN + "X1] " + g, "[\xCE\xB1" + IN + g + "] \xCE\xB1", "S7::=" + BOOL + "(" + g + ")", "S7::=" + g + "\xC3\x97X1",
        g + IN + "X1", "X1" + IN + g, BOOL + "(" + g + ")", g + UNION + "X1", "{" + g + "}", "(" + g + ", " + g + ")", "pr1(" + g + ")", "Pr1(" + g + ")",
        "card(" + g + ")", "bool(" + g + ")", "debool(" + g + ")", "red(" + g + ")", NOT + g, g + " & 1=1", "1=1 \xE2\x87\x92 " + g,
        ALL + XI + IN + g + " 1=1", ALL + XI + IN + "X1 " + g, "D{" + XI + IN + g + " | 1=1}", "D{" + XI + IN + "X1 | " + g + "}",
        "F1[" + g + "]", "P1[" + g + "]", g + "[X1]", "Fi1[" + g + "](S1)", "Fi1[X1](" + g + ")", "R{" + XI + ":=" + g + " | " + XI + "}", "R{" + XI + ":=X1 | " + g + " | " + XI + "}",
        "I{" + g + " | " + XI + ":" + IN + "X1}", "I{" + XI + " | " + XI + ":" + IN + g + "}", "I{" + XI + " | " + XI + ":=" + g + "}", "I{1 | " + XI + ":" + IN + "X1; " + g + "}",
        g + "=" + g, g + "+1", g + "<1", g + "\xC3\x97" + g };
      out.insert(out.end(), slots.begin(), slots.end());
    }
    return out; }();
  return v;
}

static const rslang::Syntax kHints[] = { rslang::Syntax::UNDEF, rslang::Syntax::MATH, rslang::Syntax::ASCII };

static void exprEntryPoints(World& w, const std::string& text, int hintIdx, const std::string& cls) {
  const auto hint = kHints[hintIdx];
  const std::string tag = cls + " " + std::to_string(hintIdx) + " " + hex(text.size() > 400 ? text.substr(0, 60) + "...len" + std::to_string(text.size()) : text);
  const bool tie = text.size() <= 400;   // the model column reproduces the log itself (the deep-nesting class is for the implementation only)
  const std::string mtag = std::to_string(hintIdx) + " " + hex(text);
  {
    const auto r = splitDetail(vh::forked([&] {
      rslang::Parser p{}; const bool ok = p.Parse(text, hint);
      return verdict(ok, p.Errors(), text, p.syntax == rslang::Syntax::ASCII) + "\x1f" + (ok ? "ok " : "fail ") + errList(p.Errors()); }, 20));
    emit("c04 parse " + tag, r.first);
    if (tie) emit("c04m parse " + mtag, r.second);
  }
  {
    const auto r = splitDetail(vh::forked([&] {
      const auto& schema = w.model.RSLang();
      rslang::Auditor a{ schema, schema.VCContext(), schema.ASTContext() };
      const bool ok = a.CheckType(text, hint);
      auto r = verdict(ok, a.Errors(), text, a.parser.syntax == rslang::Syntax::ASCII);
      std::string detail = std::string("t=") + (ok ? "ok" : "fail") + " e=" + errList(a.Errors());
      if (ok) {
        const bool vok = a.CheckValue();
        const auto second = verdict(vok, a.Errors(), text, a.parser.syntax == rslang::Syntax::ASCII);
        if (second != "1") r += "/value:" + second;
        detail += std::string(" v=") + (vok ? "ok" : "fail") + " ve=" + errList(a.Errors());
      } else detail += " v=- ve=-";
      return r + "\x1f" + detail; }, 20));
    emit("c04 audit " + tag, r.first);
    if (tie) emit("c04m audit " + mtag, r.second);
  }
  // the same analyser objects asked again for the SAME text: each call has to report failure iff IT logged a critical
  // error (seeded change C04-4: a parse cache returns early and leaves the log of the previous analysis in place)
  emit("c04 again " + tag, vh::forked([&] {
    const auto& schema = w.model.RSLang();
    rslang::Auditor a{ schema, schema.VCContext(), schema.ASTContext() };
    std::string out;
    for (int round = 0; round < 3; ++round) {
      const bool ok = a.CheckType(text, hint);
      auto r = verdict(ok, a.Errors(), text, a.parser.syntax == rslang::Syntax::ASCII);
      if (ok) {
        const bool vok = a.CheckValue();
        const auto second = verdict(vok, a.Errors(), text, a.parser.syntax == rslang::Syntax::ASCII);
        if (second != "1") r += "/value:" + second;
      }
      if (r != "1") { out = "round" + std::to_string(round) + ":" + r; break; }
    }
    if (out.empty()) {
      rslang::Parser p{};
      for (int round = 0; round < 2 && out.empty(); ++round) {
        const bool ok = p.Parse(text, hint);
        const auto r = verdict(ok, p.Errors(), text, p.syntax == rslang::Syntax::ASCII);
        if (r != "1") out = "parse-round" + std::to_string(round) + ":" + r;
      }
    }
    if (out.empty()) {
      rslang::Interpreter in{ schema, schema.ASTContext(), w.data() };
      for (int round = 0; round < 2 && out.empty() && !text.empty(); ++round) {
        const auto v = in.Evaluate(text, hint);
        const auto r = verdict(v.has_value(), in.Errors(), text, in.parser.syntax == rslang::Syntax::ASCII);
        if (r != "1") out = "eval-round" + std::to_string(round) + ":" + r;
      }
    }
    return out.empty() ? std::string("1") : out; }, 40));
  {
    const auto r = splitDetail(vh::forked([&] {
      const auto& schema = w.model.RSLang();
      rslang::Interpreter in{ schema, schema.ASTContext(), w.data() };
      const auto v = in.Evaluate(text, hint);
      const std::string detail = std::string(v.has_value() ? "ok " : "fail ") + errList(in.Errors());
      // an empty expression is refused without an error by design (documented early return)
      if (text.empty()) return std::string("1") + "\x1f" + detail;
      return verdict(v.has_value(), in.Errors(), text, in.parser.syntax == rslang::Syntax::ASCII) + "\x1f" + detail; }, 30));
    emit("c04 eval " + tag, r.first);
    if (tie) emit("c04m eval " + mtag, r.second);
  }
  emit("c04 convert " + tag, vh::forked([&] {
    (void)rslang::ConvertTo(text, rslang::Syntax::ASCII); (void)rslang::ConvertTo(text, rslang::Syntax::MATH); return std::string("1"); }, 20));
  emit("c04 apiparse " + tag, vh::forked([&] { (void)api::ParseExpression(text, hint); return std::string("1"); }, 20));
  emit("c04 apicheck " + tag, vh::forked([&] {
    auto ja = api::RSFormJA::FromJSON(w.schemaJson);
    (void)ja.CheckExpression(text, hint);
    (void)ja.CheckConstituenta("D7", text, "term");
    (void)ja.CheckConstituenta("F7", text, "function");
    return std::string("1"); }, 30));
  emit("c04 pyconcept " + tag, vh::forked([&] {
    (void)::ConvertToASCII(text); (void)::ConvertToMath(text); (void)::ParseExpression(text);
    (void)::CheckExpression(w.schemaJson, text); (void)::CheckConstituenta(w.schemaJson, "D7", text, "term");
    return std::string("1"); }, 30));
}

class Ctx final : public lang::EntityTermContext {
public:
  [[nodiscard]] bool Contains(const std::string& entity) const override { return entity == "X1" || entity == "D1"; }
  [[nodiscard]] const lang::LexicalTerm* At(const std::string& entity) const override {
    static const lang::LexicalTerm term{ "term", "term" };
    return Contains(entity) ? &term : nullptr;
  }
};

static void textEntryPoints(const std::string& text, const std::string& cls) {
  const std::string tag = cls + " " + hex(text);
  emit("c04 refparse " + tag, vh::forked([&] { (void)lang::Reference::Parse(text); (void)lang::Reference::ExtractAll(text); return std::string("1"); }, 20));
  emit("c04 resolve " + tag, vh::forked([&] {
    Ctx ctx; lang::RefsManager mgr{}; mgr.SetContext(ctx); (void)mgr.Resolve(text);
    lang::ManagedText mt{ text }; mt.InitFrom(text, ctx); (void)mt.Referals(); mt.TranslateRaw(CreateTranslator({ { "X1", "X2" } }));
    return std::string("1"); }, 20));
}

static void jsonEntryPoints(const World& w, const std::string& doc, const std::string& cls) {
  const std::string tag = cls + " " + hex(doc.size() > 200 ? doc.substr(0, 80) + "...len" + std::to_string(doc.size()) : doc);
  // the documented failure mode of the JSON entry points is an nlohmann exception (format / type error)
  emit("c04 json " + tag, vh::forked([&] {
    auto run = [&](auto&& f) -> std::string {
      try { f(); return "ok"; }
      catch (const nlohmann::json::exception&) { return "jsonerror"; }
    };
    std::string out = run([&] { auto ja = api::RSFormJA::FromJSON(doc); (void)ja.ToJSON(); (void)ja.ToMinimalJSON(); (void)ja.CheckExpression("X1"); });
    out += "," + run([&] { (void)::CheckSchema(doc); (void)::ResetAliases(doc); });
    out += "," + run([&] { RSModel m; nlohmann::ordered_json::parse(doc).get_to(m); nlohmann::ordered_json j = m; (void)j.dump(); });
    (void)w;
    return std::string("1"); }, 40));
}

int main() {
  vh::Rng rng(vh::seedFromEnv());
  const bool deep = vh::thorough();
  ccl::verif::Seed(5U);
  World w; build(w);
  exportCtx(w);
  // corpus: inputs that crashed or failed silently before the fix: commits
  for (const auto& s : structured()) { for (int h = 0; h < 3; ++h) exprEntryPoints(w, s, h, "corpus"); lexposOps(s); }
  { int k = 0; for (const auto& s : slotCases()) { exprEntryPoints(w, s, deep ? (k % 3) : 1, "slot"); if (deep) { exprEntryPoints(w, s, (k + 1) % 3, "slot"); } ++k; } }
  // parser-error corpus: every error production of RSParserImpl.y, TupleDeclaration, SemanticCheck, the ParseEID::syntax fallback,
  // an unknown symbol before / after / instead of a syntax error (which tokens the parser pulls decides whether it is logged)
  {
    static const std::string IN = "\xE2\x88\x88", ALL = "\xE2\x88\x80", EX = "\xE2\x88\x83";
    const std::vector<std::string> perr = {
      "(X1", "(X1" + UNION + "X2", "(X1, X2", "{X1", "{X1, X2", "X1 )", "X1 }", ")", "", " ", "X1" + UNION, "card(X1", "Pr1(S1", BOOL + "(X1", "Fi1[X1](S1",
      "D{a" + IN + "X1 | 1=1", "D{a" + IN + "X1 | 1=1)", "D{a" + IN + "X1 1=1}", "R{a:=X1 | a" + UNION + "a", "I{a | a:" + IN + "X1",
      ALL + " X1", ALL, ALL + "a", ALL + "a" + IN, EX + "1" + IN + "X1 1=1", ALL + "a,1" + IN + "X1 1=1", ALL + "a," + IN + "X1 1=1", ALL + "a,,b" + IN + "X1 1=1",
      ALL + "(a,1)" + IN + "X1 1=1", ALL + "(a,(b,X1" + UNION + "X1))" + IN + "X1 1=1", ALL + "(a,(b,c),1,2)" + IN + "X1 1=1", ALL + "((a,b),(X1,c))" + IN + "X1 1=1",
      ALL + "(a,b)" + IN + "X1 1=1", "D{(a,1)" + IN + "X1 | 1=1}", "R{(a,1):=X1 | a}",
      "[", "[a", "[a" + IN + "X1", "[a" + IN + "X1,", "[a" + IN + "X1, 1] a", "[a" + IN + "X1, b] a", "[a b] a", "[1] a", "[a" + IN + "X1] ", "[a" + IN + "X1]",
      "a:=1", "a:" + IN + "X1", "(a:=1) & 1=1", "D{a" + IN + "X1 | a:=1}", "I{a | a:=1; b:=2}", "I{a | 1=1 & a:=1}", "a:=1 )", "R{a:=X1 | a:=a | a}",
      "X1 @", "@", "(X1 @", "{X1 @", ALL + " @", ALL + "a @", "[ @", "[a, @", ") @", "X1 ) @", ALL + "(a,1)" + IN + "X1 @", "a:=1 @", "X1" + UNION + " @ X2", "D1:== @", "D1:==", "D1:== )", "F1:==[a" + IN + "X1] a", "D1::=X1",
      "X1 \\union", "(X1 \\union X2", "\\A a \\in X1 a \\eq a", "\\A (a,1) \\in X1 1 \\eq 1", "a \\assign 1", "\\A $", "{X1 $" };
    for (const auto& s : perr) { exprEntryPoints(w, s, 0, "perr"); lexposOps(s); }
  }
  // fixed lexer position cases: blanks / tabs / newlines / CR before an unknown symbol, multi-byte symbols, empty text
  for (const std::string s : { "", " ", "a @b", "a\n\t @", "\r", "a\r\nb", "\xE2\x88\x80\xCE\xB1\xE2\x88\x88X1 \xCE\xB1=\xCE\xB1\n& a=#", "X1 \\union #", "\xFF", "\xCE", "12,3", "pr1,2,", "Fi1,2[a](b)$" })
    lexposOps(s);
  const int N = deep ? 4000 : 350;
  for (int i = 0; i < N; ++i) {
    const int r = rng.range(0, 99);
    std::string text; std::string cls;
    if (r < 45) { text = tokenSoup(rng, rng.range(1, 12)); cls = "soup"; }
    else if (r < 60) { text = rng.pick(structured()); const int cut = rng.range(0, static_cast<int>(text.size())); text = text.substr(0, static_cast<size_t>(cut)) + tokenSoup(rng, rng.range(0, 3)); cls = "mutant"; }
    else if (r < 75) { text = randomBytes(rng, rng.range(0, 12)); cls = "bytes"; }
    else if (r < 80) { text = nesting(rng); cls = "nest"; }
    else { text = rng.pick(structured()) + tokenSoup(rng, rng.range(0, 2)); cls = "struct"; }
    exprEntryPoints(w, text, rng.range(0, 2), cls);
    lexposOps(text);
  }
  // reference texts
  {
    static const std::vector<std::string> parts = { "a", " ", "@", "{", "}", "|", "@{", "X1", "D1", "nomn", ",sing", "-1", "70000", "99999999999", "\xD1\x82", "\xFF", "@{X1|nomn,sing}", "@{-1|x}", "@{X1|nomn|}", "@@{X1|nomn}" };
    for (int i = 0; i < (deep ? 3000 : 300); ++i) {
      std::string t; const int n = rng.range(0, 7);
      for (int k = 0; k < n; ++k) t += rng.pick(parts);
      textEntryPoints(t, "ref");
    }
  }
  // JSON documents: the valid one, truncations, value mutations, wrong types
  {
    jsonEntryPoints(w, w.schemaJson, "valid");
    for (int i = 0; i < (deep ? 600 : 80); ++i) {
      std::string doc = w.schemaJson;
      const int r = rng.range(0, 5);
      if (r == 0) doc = doc.substr(0, static_cast<size_t>(rng.range(0, static_cast<int>(doc.size()))));
      else if (r == 1) { const auto p = static_cast<size_t>(rng.range(0, static_cast<int>(doc.size()) - 1)); doc[p] = static_cast<char>(rng.range(32, 126)); }
      else if (r == 2) { static const std::vector<std::pair<std::string, std::string>> subst = { { "\"entityUID\"", "\"entityUIDx\"" }, { "\"cstType\": \"term\"", "\"cstType\": 17" }, { "\"alias\": \"X1\"", "\"alias\": \"X2\"" }, { "\"alias\": \"D1\"", "\"alias\": \"\"" }, { "\"items\"", "\"itemz\"" }, { "\"raw\"", "\"rawx\"" }, { "[", "{" }, { "\"term\"", "\"nonsense\"" }, { "\"formal\": \"X1", "\"formal\": \"A1+1" } };
        const auto& s = rng.pick(subst); const auto p = doc.find(s.first); if (p != std::string::npos) doc.replace(p, s.first.size(), s.second); }
      else if (r == 3) doc = rng.pick(std::vector<std::string>{ "", "{}", "[]", "null", "42", "\"x\"", "{\"items\": 5}", "{\"items\": [1,2]}", "{\"items\": [{}]}", "{\"type\":\"rsform\",\"items\":[{\"entityUID\":1,\"cstType\":\"basic\",\"alias\":\"X1\"},{\"entityUID\":1,\"cstType\":\"basic\",\"alias\":\"X1\"}]}" });
      else if (r == 4) { const auto p = doc.find("\"entityUID\": "); if (p != std::string::npos) doc.replace(p + 13, 1, "-"); }
      else doc += randomBytes(rng, 3);
      jsonEntryPoints(w, doc, "mut");
    }
  }
  // model documents (schema + data array): the valid one and tree-level mutations of the data entries
  {
    const nlohmann::ordered_json valid = w.model;
    jsonEntryPoints(w, valid.dump(), "model-valid");
    for (int i = 0; i < (deep ? 600 : 120); ++i) {
      auto j = valid;
      std::string cls = "model-mut";
      if (j.contains("data") && j["data"].is_array() && !j["data"].empty()) {
        auto& data = j["data"];
        auto& entry = data[static_cast<size_t>(rng.range(0, static_cast<int>(data.size()) - 1))];
        switch (rng.range(0, 9)) {
        default:
        case 0: entry["entityUID"] = 123456789U; cls += ":unknown-uid"; break;
        case 1: entry["texts"] = nlohmann::ordered_json::array({ "a", "b" }); cls += ":texts-anywhere"; break;
        case 2: entry["value"] = true; cls += ":value-bool"; break;
        case 3: entry["value"] = nlohmann::ordered_json::array({ nlohmann::ordered_json::array({ 1, 2, 3 }), nlohmann::ordered_json::array({ 7 }) }); cls += ":value-ragged"; break;
        case 4: entry["value"] = nlohmann::ordered_json::array(); cls += ":value-empty"; break;
        case 5: entry.erase("wasCalculated"); cls += ":no-flag"; break;
        case 6: entry["wasCalculated"] = "yes"; cls += ":flag-string"; break;
        case 7: data.push_back(entry); cls += ":repeated-entry"; break;
        case 8: entry["value"] = nlohmann::ordered_json::array({ nlohmann::ordered_json::array({ 1, -5, 2147483647 }) }); cls += ":value-odd-numbers"; break;
        case 9: entry["texts"] = 5; cls += ":texts-number"; break;
        }
      }
      if (rng.chance(1, 5) && j.contains("items") && !j["items"].empty()) {
        auto& item = j["items"][static_cast<size_t>(rng.range(0, static_cast<int>(j["items"].size()) - 1))];
        if (rng.chance(1, 2)) item["cstType"] = "function"; else item["entityUID"] = 7U;
        cls += "+item";
      }
      jsonEntryPoints(w, j.dump(), cls);
    }
  }
  return 0;
}
