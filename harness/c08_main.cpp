// C08 harness: identifier translation.
//  (a) TranslateRS / SubstituteGlobals / ExtractUGlobals on generated MATH texts (multi-byte symbols
//      before/after identifiers, prefix names X1/X11/X111, locals, Greek names, unknown symbols,
//      keywords, adjacent atoms) with maps containing swaps, chains, identity entries and
//      non-identifier values: implementation vs Lean transcription (bytes + count) and vs the
//      word-level specification; `trtok`: arbitrary bytes (ill-formed UTF-8 included) judged against
//      the token stream the real lexer reports.
//      `refs` / `refstrict`: ManagedText::TranslateRaw on reference texts (C17 model + spec; `refstrict`
//      = the strict byte-level oracle of this package: only the bytes of a renamed name change).
//  (b) RSForm histories with SetAliasFor(substitute = true/false), ResetAliases and content edits:
//      after every renaming the whole content (definitions, conventions, raw term / definition
//      texts) and — when the freshness proviso holds — parse status, typification, argument
//      types and dependency edges are compared with the old ones up to the renaming.
#include "common.hpp"
#include "verif_seed.hpp"
#include "ccl/semantic/RSForm.h"
#include "ccl/rslang/RSExpr.h"
#include "ccl/rslang/MathLexer.h"
#include <algorithm>
#include <map>
#include <set>

using namespace ccl;
using namespace ccl::semantic;
using vh::emit;
using vh::hex;

using SV = std::vector<std::string>;

static const SV GLOBALS = { "X1", "X11", "X111", "X2", "X12", "D1", "D12", "D2", "S1", "C1", "F1", "F12", "P1", "P2", "T1", "A1",
  "X", "Xa", "X1a", "X\xCE\xBE", "X\xCE\xBE" "1", "X_1", "F", "P", "Fi", "Pr", "F1a", "R1a", "Da", "Z1" };
static const SV KEYWORDS = { "Pr1", "Pr1,2", "pr1", "pr2,1", "Fi1", "Fi1,2", "R1", "R0", "R12", "D", "Z", "I", "R", "card", "bool", "red", "debool", "B" };
static const SV LOCALS = { "a", "x1", "\xCE\xBE", "\xCE\xB1" "1", "\xCF\x83_2", "_x", "xX1", "\xCE\xBEX1", "a1", "cardx", "pr1a" };
static const SV SYMBOLS = { "\xE2\x88\xAA", "\xE2\x88\xA9", "\xC3\x97", "\xE2\x84\xAC", "\xE2\x88\x88", "\xE2\x88\x89", "\xE2\x88\x80", "\xE2\x88\x83",
  "\xC2\xAC", "\xE2\x87\x92", "\xE2\x87\x94", "\xE2\x88\xA8", "&", "\xE2\x89\xA0", "\xE2\x89\xA4", "\xE2\x89\xA5", "\xE2\x8A\x86", "\xE2\x8A\x82", "\xE2\x8A\x84",
  "\xE2\x88\x86", "\xE2\x88\x85", ":=", ":==", "::=", ":\xE2\x88\x88", "(", ")", "{", "}", "[", "]", "|", ",", ";", "+", "-", "*", "=", "<", ">", "\\" };
static const SV UNKNOWN = { "#", "?", "@", "\xD0\x96", "\xD1\x8F", "\xF0\x9F\x98\x80", "\r", "\t", "\n", " ", "  ", "$", "\xE2\x84\xB5", "\xC3\xA9", "!", ".", "B", "\xCE\xA9", ":", "\xEF\xBF\xBD" };
static const SV NUMS = { "0", "1", "12", "007" };
static const SV NEWNAMES = { "X1", "X11", "X111", "X2", "X12", "D1", "D12", "D2", "F1", "F7", "P1", "P9", "X1234567", "Y", "X\xCE\xBE\xCE\xB6", "D3", "S2",
  "a", "\xCE\xBE", "", "X1 \xE2\x88\xAAX2", "\xE2\x88\x85", "R1", "Pr1", "x y", "X", "\xD0\x96", "T1", "A12", "C3" };

static SV usedAtoms;  // identifier-like atoms of the last generated text (map keys are drawn from them)

static std::string genText(vh::Rng& rng) {
  std::string out;
  usedAtoms.clear();
  const int n = rng.range(0, 12);
  for (int i = 0; i < n; ++i) {
    const int r = rng.range(0, 99);
    if (r < 40) { usedAtoms.push_back(rng.pick(GLOBALS)); out += usedAtoms.back(); }
    else if (r < 50) { usedAtoms.push_back(rng.pick(KEYWORDS)); out += usedAtoms.back(); }
    else if (r < 60) { usedAtoms.push_back(rng.pick(LOCALS)); out += usedAtoms.back(); }
    else if (r < 82) out += rng.pick(SYMBOLS);
    else if (r < 92) out += rng.pick(UNKNOWN);
    else out += rng.pick(NUMS);
    if (rng.chance(2, 5)) out += " ";
  }
  return out;
}

static StrSubstitutes genMap(vh::Rng& rng, bool locals) {
  StrSubstitutes m;
  auto key = [&]() -> std::string {
    if (!usedAtoms.empty() && rng.chance(3, 4)) return rng.pick(usedAtoms);
    const int r = rng.range(0, 99);
    if (r < 70) return rng.pick(GLOBALS);
    if (r < 85) return rng.pick(LOCALS);
    if (r < 95) return rng.pick(KEYWORDS);
    return rng.pick(NUMS);
  };
  (void)locals;
  const int shape = rng.range(0, 9);
  if (shape == 0) { const auto a = key(), b = key(); m[a] = b; m[b] = a; }                        // swap
  else if (shape == 1) { const auto a = key(), b = key(), c = key(); m[a] = b; if (!m.count(b)) m[b] = c; }  // chain
  else if (shape == 2) { const auto a = key(); m[a] = a; }                                       // identity
  else if (shape == 3) { m["X1"] = "X11"; m["X11"] = "X1"; if (rng.chance(1, 2)) m["X111"] = "X1"; } // prefix swap
  const int n = rng.range(shape < 4 ? 0 : 1, 3);
  for (int i = 0; i < n; ++i) { const auto k = key(); if (!m.count(k)) m[k] = rng.pick(NEWNAMES); }
  return m;
}

static std::string mapWire(const StrSubstitutes& m) {
  if (m.empty()) return "none";
  std::vector<std::pair<std::string, std::string>> v(m.begin(), m.end());
  std::sort(v.begin(), v.end());
  std::string out;
  for (const auto& [k, x] : v) { if (!out.empty()) out += ","; out += hex(k) + "=" + hex(x); }
  return out;
}

static std::string namesWire(const std::unordered_set<std::string>& s) {
  if (s.empty()) return "none";
  std::vector<std::string> v(s.begin(), s.end());
  std::sort(v.begin(), v.end());
  std::string out;
  for (const auto& x : v) { if (!out.empty()) out += ","; out += hex(x); }
  return out;
}

static void oneTranslate(const std::string& text, const StrSubstitutes& m, int which) {
  std::string s = text;
  if (which == 2) {
    const auto cnt = rslang::SubstituteGlobals(s, m);
    emit("c08 sub " + hex(text) + " " + mapWire(m), hex(s) + " " + std::to_string(cnt));
  } else {
    const auto& filter = which == 0 ? rslang::TFFactory::FilterGlobals() : rslang::TFFactory::FilterIdentifiers();
    const auto cnt = rslang::TranslateRS(s, filter, CreateTranslator(m));
    emit(std::string("c08 tr ") + (which == 0 ? "g " : "i ") + hex(text) + " " + mapWire(m), hex(s) + " " + std::to_string(cnt));
  }
}

static void oneExtract(const std::string& text) {
  emit("c08 ext " + hex(text), namesWire(rslang::ExtractUGlobals(text)));
}

// arbitrary bytes: the tokens as the real lexer reports them are part of the op line
static void oneTrTok(const std::string& text, const StrSubstitutes& m, bool locals) {
  std::string toks;
  {
    rslang::detail::MathLexer lex{ text };
    int guard = 0;
    for (auto t = lex.lex(); t != rslang::TokenID::END && guard < 100000; t = lex.lex(), ++guard) {
      const auto r = lex.RangeInBytes();
      if (!toks.empty()) toks += ",";
      toks += std::to_string(static_cast<int>(t)) + ":" + std::to_string(r.start) + ":" + std::to_string(lex.Text().size());
    }
  }
  std::string s = text;
  const auto& filter = locals ? rslang::TFFactory::FilterIdentifiers() : rslang::TFFactory::FilterGlobals();
  const auto cnt = rslang::TranslateRS(s, filter, CreateTranslator(m));
  emit(std::string("c08 trtok ") + (locals ? "i " : "g ") + hex(text) + " " + mapWire(m) + " " + (toks.empty() ? "-" : toks),
       hex(s) + " " + std::to_string(cnt));
}

// reference texts: ManagedText::TranslateRaw; `strict` = judged by "only the bytes of the name change"
// (translateRefsStrict; the former finding C08-reference-respelled is repaired in the code)
static void oneRefs(const std::string& text, const StrSubstitutes& m, bool strict) {
  lang::ManagedText t{ text };
  t.TranslateRaw(CreateTranslator(m));
  emit(std::string("c08 ") + (strict ? "refstrict " : "refs ") + hex(text) + " " + mapWire(m), hex(t.Raw()));
}

static const SV REF_TAGS = { "nomn,sing", "sing,nomn", "datv,plur", "nomn", " nomn , sing ", "nomn|sing", "nomn|sing|1", "nomn,zzz", "NOMN,sing", "ablt,plur", "gent" };
static std::string genRefText(vh::Rng& rng) {
  std::string out;
  const int n = rng.range(0, 5);
  for (int i = 0; i < n; ++i) {
    const int r = rng.range(0, 99);
    if (r < 55) out += "@{" + rng.pick(SV{ "X1", "X11", "X111", "X2", "D1", "D12", "F1", "x1", "X\xCE\xBE", " X1", "X1 ", " X11 ", "\tX1" }) + "|" + rng.pick(REF_TAGS) + "}";
    else if (r < 65) out += "@{" + std::to_string(rng.range(-2, 2)) + "|" + rng.pick(SV{ "stem", "X1", "" }) + "}";
    else if (r < 75) out += rng.pick(SV{ "@{X1|nomn,sing", "@{X1}", "@@{X1|nomn}", "{X1}", "@{X1|}", "@{|nomn}", "@{X1|nomn,sing}}", "@{X1|@{X11|nomn}}" });
    else out += rng.pick(SV{ "X1", " ", "\xD0\x96", "\xF0\x9F\x98\x80", "x", "X11 ", "\xE2\x88\xAA" });
  }
  return out;
}

// several renamed references in one text, separated by (possibly empty) runs of multi-byte symbols: positions are counted
// in code points and the replacement is done on bytes, names grow or shrink (seeded change C08-3: one forward pass with a
// byte offset applied to code-point positions)
static std::string genDenseRefText(vh::Rng& rng) {
  std::string out = rng.pick(SV{ "", "\xD0\x96", "a", "\xE2\x80\x94 " });
  const int n = rng.range(2, 5);
  for (int i = 0; i < n; ++i) {
    out += "@{" + rng.pick(SV{ "X1", "X1", "X11", "D1", "X2", " X1", "X1 " }) + "|" + rng.pick(REF_TAGS) + "}";
    const int seps = rng.range(0, 3);
    for (int k = 0; k < seps; ++k) out += rng.pick(SV{ "\xD0\x96", "\xE2\x80\x94", "\xC2\xAB", "\xC2\xBB", "\xF0\x9F\x98\x80", " ", ",", "\xE2\x88\xAA" });
  }
  return out;
}

static std::string mutateBytes(vh::Rng& rng, std::string s) {
  const int k = rng.range(1, 3);
  for (int i = 0; i < k; ++i) {
    const int r = rng.range(0, 3);
    const size_t pos = s.empty() ? 0 : rng.below(static_cast<uint32_t>(s.size() + 1));
    if (r == 0) s.insert(pos, 1, static_cast<char>(rng.range(0x80, 0xFF)));
    else if (r == 1 && !s.empty()) s.erase(std::min(pos, s.size() - 1), 1);
    else if (r == 2 && !s.empty()) s[std::min(pos, s.size() - 1)] = static_cast<char>(rng.range(1, 0xFF));
    else s.insert(pos, rng.pick(SV{ "\xC3", "\xE2\x88", "\xF0\x9F", "\x80", "\xBF", "\xC0\x80", "\xED\xA0\x80", "\xF4\x90\x80\x80" }));
  }
  for (auto& c : s) if (c == 0) c = 'x';
  return s;
}

static void textCorpus() {
  const std::string U = "\xE2\x88\xAA";
  // prefix names, multi-byte before and after, swap, chain with X2 present, identity, keyword look-alikes
  oneTranslate("X1" + U + "X11" + U + "X111", { { "X1", "X2" } }, 0);
  oneTranslate(U + "X1" + U, { { "X1", "X1234567" } }, 0);
  oneTranslate("\xE2\x84\xAC(X1\xC3\x97X2)" + U + "X1", { { "X1", "X2" }, { "X2", "X1" } }, 0);
  oneTranslate("X1" + U + "X2" + U + "X3", { { "X1", "X2" }, { "X2", "X3" } }, 0);
  oneTranslate("X1" + U + "X2", { { "X1", "X1" } }, 0);
  oneTranslate("Pr1(S1)" + U + "pr1(S1) R1 D Z I F1[X1] P1[X1] Fi1[X1](S1)", { { "Pr1", "Q1" }, { "R1", "Q2" }, { "D", "Q3" }, { "F1", "F2" }, { "P1", "P2" }, { "S1", "S2" } }, 0);
  oneTranslate("\xCE\xBE\xE2\x88\x88X1 & \xCE\xBEX1 & xX1 & X1x", { { "X1", "X2" }, { "\xCE\xBE", "\xCE\xB6" } }, 0);
  oneTranslate("\xCE\xBE\xE2\x88\x88X1 & \xCE\xBEX1 & xX1 & X1x", { { "X1", "X2" }, { "\xCE\xBE", "\xCE\xB6" } }, 1);
  oneTranslate("\xD0\x9C\xD0\xBD\xD0\xBE\xD0\xB6\xD0\xB5\xD1\x81\xD1\x82\xD0\xB2\xD0\xBE X1\xD1\x8F \xD0\xB8 X11, D1.", { { "X1", "X22" }, { "D1", "D" } }, 2);
  oneTranslate("X1\rX1\nX1\tX1 1X1 BX1 _X1", { { "X1", "Y" } }, 0);
  oneExtract("X1" + U + "X11 F1[X1] P2[a] Pr1(S1) R1 D Z \xCE\xBE X\xCE\xBE");
}

// ---------------------------------------------------------------- (b) schema level

static std::string typeStr(const ParsingInfo& info) {
  if (!info.exprType.has_value()) return "";
  if (const auto* t = std::get_if<rslang::Typification>(&info.exprType.value()); t != nullptr) return t->ToString();
  return "LOGIC";
}
static char statusChar(ParsingStatus s) { return s == ParsingStatus::VERIFIED ? 'V' : s == ParsingStatus::INCORRECT ? 'I' : 'U'; }

static std::string report(const RSForm& f) {
  std::vector<uint32_t> uids(f.Core().begin(), f.Core().end());
  std::sort(uids.begin(), uids.end());
  std::string out;
  for (const auto uid : uids) {
    const auto& info = f.GetParse(uid);
    if (!out.empty()) out += ";";
    std::string args;
    if (info.arguments.has_value()) for (const auto& a : info.arguments.value()) args += a.name + "/" + a.type.ToString() + ";";
    std::vector<uint32_t> ins;
    for (const auto in : f.RSLang().Graph().InputsFor(uid)) ins.push_back(in);
    std::sort(ins.begin(), ins.end());
    std::string in;
    for (const auto i : ins) { if (!in.empty()) in += ","; in += std::to_string(i); }
    out += std::to_string(uid) + ":" + statusChar(info.status) + ":" + hex(typeStr(info)) + ":" + hex(args) + ":in=" + in;
  }
  return out.empty() ? "-" : out;
}

static std::string content(const RSForm& f) {
  std::vector<uint32_t> uids(f.Core().begin(), f.Core().end());
  std::sort(uids.begin(), uids.end());
  std::string out;
  for (const auto uid : uids) {
    const auto& rs = f.GetRS(uid);
    const auto& tx = f.GetText(uid);
    if (!out.empty()) out += ";";
    out += std::to_string(uid) + ":" + hex(rs.alias) + ":" + hex(rs.definition) + ":" + hex(rs.convention) + ":" +
           hex(tx.term.Text().Raw()) + ":" + hex(tx.definition.Raw());
  }
  return out.empty() ? "-" : out;
}

static void emitAdd(const RSForm& f, uint32_t uid) {
  const auto& rs = f.GetRS(uid);
  const auto& tx = f.GetText(uid);
  emit("c08 add " + std::to_string(uid) + " " + hex(rs.alias) + " " + std::to_string(static_cast<int>(rs.type)) + " " + hex(rs.definition) + " " +
       hex(rs.convention) + " " + hex(tx.term.Text().Raw()) + " " + hex(tx.definition.Raw()), "ok");
}

static const std::string U_ = "\xE2\x88\xAA", B_ = "\xE2\x84\xAC", X_ = "\xC3\x97", IN_ = "\xE2\x88\x88", ALL_ = "\xE2\x88\x80", XI = "\xCE\xBE", AL = "\xCE\xB1", BE = "\xCE\xB2";

static const SV TERM_DEFS = { "X1" + U_ + "X11", "X1" + U_ + "X2", B_ + "(X1" + X_ + "X11)", "X11\\X1", "D1" + U_ + "D12", "D{" + XI + IN_ + "X1 | " + XI + IN_ + "D1}",
  "Pr1(S1)", "pr1(S1)", "F1[X1]", "F1[X1, X11]", "F1[D1]", "card(X1)+1", "X9" + U_ + "X1", "X3", "D9", "red(S1)", "bool(X1)", "debool({X1})",
  "X1" + U_ + " X1 " + U_ + "X1", "X1" + U_ + "(", "X1 # X11", "", "{X1, X11}", "X2" + U_ + "X12" + U_ + "X111", "D2\\D1", "S1", "C1" + U_ + "{1}", "X1" + X_ + "X1", "D3", "X12" };
static const SV FUNC_DEFS = { "[" + AL + IN_ + B_ + "(X1)] " + AL + U_ + "X1", "[" + AL + IN_ + B_ + "(R1)] " + AL + U_ + AL, "[" + AL + IN_ + "X1, " + BE + IN_ + "X11] {(" + AL + ", " + BE + ")}",
  "[" + AL + IN_ + "X11] {" + AL + "}", "[" + AL + IN_ + B_ + "(R1" + X_ + "X1)] Pr2(" + AL + ")" };
static const SV PRED_DEFS = { "[" + AL + IN_ + B_ + "(X1)] " + AL + "=X1", "[" + AL + IN_ + "X1] " + AL + IN_ + "D1", "[" + AL + IN_ + "R1] " + AL + "=" + AL };
static const SV STRUCT_DEFS = { B_ + "(X1" + X_ + "X11)", B_ + "(X1)", "X1" + X_ + "X1", B_ + "(X1" + X_ + B_ + "(X2))", B_ + "(X9)" };
static const SV LOGIC_DEFS = { "X1=X1", "D1=D1", ALL_ + XI + IN_ + "X1 " + XI + IN_ + "X1", "1=1", "card(X11)>0", "P1[X1]", "P1[D1] & X1=X1", "X9=X9", ALL_ + XI + IN_ + "X11 " + XI + IN_ + "D12" };
static const SV CONVENTIONS = { "", "\xD0\x9C\xD0\xBD\xD0\xBE\xD0\xB6\xD0\xB5\xD1\x81\xD1\x82\xD0\xB2\xD0\xBE X1 \xD0\xB8 X11", "\xD1\x81\xD0\xBC. D1, D12; X1\xCE\xB1 X1\xD1\x8F F1[X1]", "X1", "note (X2) x1 X_1",
  "X111" + U_ + "X11" + U_ + "X1", "\xF0\x9F\x98\x80X1\xF0\x9F\x98\x80", "Pr1 R1 D Z X1.", "S1,C1,A1,T1,P1,F1,D1,X1" };
static const SV TEXTS = { "", "\xD1\x87\xD0\xB5\xD0\xBB\xD0\xBE\xD0\xB2\xD0\xB5\xD0\xBA", "@{X1|nomn,sing} \xD0\xB8 @{X11|datv,plur}", "x @{D1|nomn,sing} y X1", "@{X1|sing,nomn}", "@{X1| nomn , sing }",
  "@{X1|nomn|sing}", "@{-1|stem}", "@{X1|nomn,sing", "@{X111|nomn,sing}@{X1|gent,plur}", "\xD0\x96@{X2|nomn}\xD0\x96", "@{D12|ablt,plur} @{1|x} @{D1|nomn,sing}", "@{X1|nomn,sing}@{X1|nomn,plur}",
  "@@{X1|nomn,sing} {X1} @{X1}", "@{S1|nomn,sing} @{F1|nomn,sing} @{X9|nomn,sing}" };

// Term texts feed the term graph; a cycle there (or a term mentioning itself twice) makes the resolved
// texts double on every update (observed: int overflow in RefsManager::GenerateResolved after ~30
// updates) - the acyclicity assumption of C07 / C17. So: terms of base sets carry no entity
// reference to a constituent, terms of the other kinds mention base sets only; definition texts
// (which nothing refers to) use the whole pool.
static const SV BASE_TERMS = { "", "\xD1\x87\xD0\xB5\xD0\xBB\xD0\xBE\xD0\xB2\xD0\xB5\xD0\xBA", "@{-1|stem}", "@{Q9|nomn,sing} x", "X1 {X1} @{X1}", "@{X1|nomn,sing" };
static const SV OTHER_TERMS = { "", "@{X1|nomn,sing} \xD0\xB8 @{X11|datv,plur}", "x @{X1|nomn,sing} y X1", "@{X1|sing,nomn}", "@{X1| nomn , sing }", "@{X1|nomn|sing}",
  "@{X111|nomn,sing}@{X1|gent,plur}", "\xD0\x96@{X2|nomn}\xD0\x96", "@{X12|ablt,plur} @{1|x} @{X1|nomn,sing}", "@{X1|nomn,sing}@{X1|nomn,plur}", "@@{X1|nomn,sing} {X1} @{X1}", "@{X9|nomn,sing} @{X3|nomn}" };
static const SV& termPool(CstType t) { return t == CstType::base ? BASE_TERMS : OTHER_TERMS; }

static std::string letterOf(CstType t) {
  switch (t) {
  case CstType::base: return "X"; case CstType::constant: return "C"; case CstType::structured: return "S"; case CstType::axiom: return "A";
  case CstType::term: return "D"; case CstType::function: return "F"; case CstType::theorem: return "T"; case CstType::predicate: return "P";
  }
  return "X";
}
static const SV NUMBERS = { "1", "2", "3", "11", "12", "111", "9", "01" };

static std::string defFor(vh::Rng& rng, CstType t) {
  switch (t) {
  case CstType::base: case CstType::constant: return rng.chance(1, 12) ? "X1" : "";
  case CstType::structured: return rng.pick(STRUCT_DEFS);
  case CstType::axiom: case CstType::theorem: return rng.pick(LOGIC_DEFS);
  case CstType::function: return rng.pick(FUNC_DEFS);
  case CstType::predicate: return rng.pick(PRED_DEFS);
  default: return rng.pick(TERM_DEFS);
  }
}

static void renameOps(RSForm& f, const std::string& before, bool withIso) {
  emit("c08 content", content(f));
  if (withIso) emit("c08 iso " + before, report(f));
}

static void schemaHistory(vh::Rng& rng, int L) {
  RSForm f;
  emit("c08 reset", "ok");
  static const std::vector<CstType> kinds = { CstType::base, CstType::base, CstType::base, CstType::constant, CstType::structured, CstType::axiom,
                                              CstType::term, CstType::term, CstType::term, CstType::function, CstType::theorem, CstType::predicate };
  std::vector<uint32_t> known;
  uint32_t nextUid = 1;
  auto addOne = [&](CstType t) {
    ConceptRecord rec;
    rec.uid = nextUid++;
    rec.type = t;
    rec.alias = letterOf(t) + rng.pick(NUMBERS);
    rec.rs = defFor(rng, t);
    rec.convention = rng.pick(CONVENTIONS);
    rec.term = lang::LexicalTerm{ rng.pick(termPool(t)) };
    rec.definition = lang::ManagedText{ rng.pick(TEXTS) };
    const auto uid = f.InsertCopy(rec);
    known.push_back(uid);
    emitAdd(f, uid);
  };
  addOne(CstType::base); addOne(CstType::base); addOne(CstType::term);
  const int extra = rng.range(1, 5);
  for (int i = 0; i < extra; ++i) addOne(rng.pick(kinds));
  emit("c08 content", content(f));
  auto pickUid = [&]() -> uint32_t { return (!known.empty() && rng.chance(19, 20)) ? rng.pick(known) : static_cast<uint32_t>(rng.range(1, 20)); };
  for (int i = 0; i < L; ++i) {
    const int r = rng.range(0, 99);
    if (r < 55) {
      const auto uid = pickUid();
      std::string name;
      if (f.Contains(uid) && rng.chance(9, 10)) name = letterOf(f.GetRS(uid).type) + rng.pick(NUMBERS);
      else name = rng.pick(SV{ "X1", "D1", "Q1", "X", "x1", "X1a", "", "F1", "X\xCE\xBE" });
      const bool subst = rng.chance(3, 4);
      const auto before = report(f);
      const bool ok = f.SetAliasFor(uid, name, subst);
      emit("c08 setalias " + std::to_string(uid) + " " + hex(name) + " " + (subst ? "1" : "0"), ok ? "1" : "0");
      renameOps(f, before, ok && subst);
    } else if (r < 70) {
      std::map<uint32_t, std::string> old;
      for (const auto uid : f.Core()) old[uid] = f.GetRS(uid).alias;
      const auto before = report(f);
      f.ResetAliases();
      StrSubstitutes m;
      for (const auto& [uid, a] : old) if (f.GetRS(uid).alias != a) m[a] = f.GetRS(uid).alias;
      emit("c08 resetaliases " + mapWire(m), "ok");
      renameOps(f, before, true);
    } else if (r < 78) {
      const auto uid = pickUid();
      if (f.Contains(uid)) { f.SetExpressionFor(uid, defFor(rng, f.GetRS(uid).type)); emitAdd(f, uid); } else emit("c08 noop", "ok");
    } else if (r < 84) {
      const auto uid = pickUid();
      if (f.Contains(uid)) { f.SetConventionFor(uid, rng.pick(CONVENTIONS)); emitAdd(f, uid); } else emit("c08 noop", "ok");
    } else if (r < 89) {
      const auto uid = pickUid();
      if (f.Contains(uid)) { f.SetTermFor(uid, rng.pick(termPool(f.GetRS(uid).type))); emitAdd(f, uid); } else emit("c08 noop", "ok");
    } else if (r < 94) {
      const auto uid = pickUid();
      if (f.Contains(uid)) { f.SetDefinitionFor(uid, rng.pick(TEXTS)); emitAdd(f, uid); } else emit("c08 noop", "ok");
    } else if (r < 97) {
      const auto uid = pickUid();
      if (f.Erase(uid)) { known.erase(std::remove(known.begin(), known.end(), uid), known.end()); emit("c08 del " + std::to_string(uid), "ok"); }
      else emit("c08 noop", "ok");
    } else {
      addOne(rng.pick(kinds));
    }
  }
}

// fixed histories: prefix names, capture (the new name was an unresolved mention), swap through ResetAliases
static void schemaCorpus() {
  {
    RSForm f; emit("c08 reset", "ok");
    auto add = [&](uint32_t uid, const std::string& alias, CstType t, const std::string& def, const std::string& conv, const std::string& term, const std::string& text) {
      ConceptRecord rec; rec.uid = uid; rec.alias = alias; rec.type = t; rec.rs = def; rec.convention = conv;
      rec.term = lang::LexicalTerm{ term }; rec.definition = lang::ManagedText{ text };
      emitAdd(f, f.InsertCopy(rec));
    };
    add(1, "X1", CstType::base, "", "X1 X11", "", "@{X11|nomn,sing}");
    add(2, "X11", CstType::base, "", "", "", "@{X1|nomn,sing} @{X11|nomn,sing}");
    add(3, "D1", CstType::term, "X1" + U_ + "X1", "", "@{X1|nomn,sing} @{X11|sing,nomn}", "");
    add(4, "D2", CstType::term, B_ + "(X11" + X_ + "X1)" + U_ + "X9", "", "", "");
    auto before = report(f);
    emit("c08 setalias 1 " + hex("X2") + " 1", f.SetAliasFor(1, "X2", true) ? "1" : "0"); renameOps(f, before, true);
    before = report(f);
    emit("c08 setalias 2 " + hex("X1") + " 1", f.SetAliasFor(2, "X1", true) ? "1" : "0"); renameOps(f, before, true);
    before = report(f);   // capture: X9 was mentioned as an unresolved name
    emit("c08 setalias 1 " + hex("X9") + " 1", f.SetAliasFor(1, "X9", true) ? "1" : "0"); renameOps(f, before, true);
    before = report(f);
    std::map<uint32_t, std::string> old;
    for (const auto uid : f.Core()) old[uid] = f.GetRS(uid).alias;
    f.ResetAliases();
    StrSubstitutes m;
    for (const auto& [uid, a] : old) if (f.GetRS(uid).alias != a) m[a] = f.GetRS(uid).alias;
    emit("c08 resetaliases " + mapWire(m), "ok"); renameOps(f, before, true);
  }
}

int main() {
  const auto seed = vh::seedFromEnv();
  vh::Rng rng(seed);
  ccl::verif::Seed(static_cast<uint32_t>(seed * 2654435761U + 8U));
  const bool deep = vh::thorough();
  vh::forkedEmit([&] { textCorpus(); }, "c08 tr corpus");
  const int NT = deep ? 60000 : 6000, NX = deep ? 10000 : 1500, NB = deep ? 20000 : 2000;
  const int chunk = 1000;
  for (int base = 0; base < NT; base += chunk) {
    vh::Rng sub(rng.next());
    vh::forkedEmit([&] {
      for (int i = 0; i < chunk && base + i < NT; ++i) {
        const auto which = sub.range(0, 9);
        const auto text = genText(sub);
        const auto m = genMap(sub, which == 1);
        oneTranslate(text, m, which < 5 ? 0 : which < 8 ? 1 : 2);
      }
    }, "c08 tr chunk");
  }
  {
    vh::Rng sub(rng.next());
    vh::forkedEmit([&] { for (int i = 0; i < NX; ++i) oneExtract(genText(sub)); }, "c08 ext chunk");
  }
  for (int base = 0; base < NB; base += chunk) {
    vh::Rng sub(rng.next());
    vh::forkedEmit([&] {
      for (int i = 0; i < chunk && base + i < NB; ++i) {
        auto text = genText(sub);
        if (sub.chance(4, 5)) text = mutateBytes(sub, text);
        oneTrTok(text, genMap(sub, true), sub.chance(1, 2));
      }
    }, "c08 trtok chunk");
  }
  {
    vh::Rng sub(rng.next());
    vh::forkedEmit([&] {
      const StrSubstitutes one{ { "X1", "X2" } };
      for (const auto& t : TEXTS) { oneRefs(t, one, false); oneRefs(t, one, true); }
      const int NR = deep ? 8000 : 800;
      for (int i = 0; i < NR; ++i) {
        const bool dense = i % 3 == 0;
        const auto text = dense ? genDenseRefText(sub) : genRefText(sub);
        StrSubstitutes m;
        const int shape = dense ? 4 : sub.range(0, 3);
        if (shape == 4) {
          m["X1"] = sub.pick(SV{ "X10", "X1234567", "X", "X11", "C1", "X100" });
          if (sub.chance(1, 2)) m["X11"] = sub.pick(SV{ "X1", "X3", "X111111" });
          if (sub.chance(1, 2)) m["D1"] = sub.pick(SV{ "D", "D1000" });
          oneRefs(text, m, false); oneRefs(text, m, true);
          continue;
        }
        if (shape == 0) { m["X1"] = "X11"; m["X11"] = "X1"; }
        else if (shape == 1) { m["X1"] = "X2"; m["X2"] = "X3"; }
        else if (shape == 2) { m[sub.pick(SV{ "X1", "X11", "D1", "x1" })] = sub.pick(NEWNAMES); }
        else { m["X1"] = "X1"; m["D12"] = "D1"; }
        oneRefs(text, m, false);
        if (sub.chance(1, 2)) oneRefs(text, m, true);
      }
    }, "c08 refs chunk");
  }
  vh::forkedEmit([&] { schemaCorpus(); }, "c08 schema corpus");
  const int NH = deep ? 2500 : 250;
  for (int h = 0; h < NH; ++h) {
    vh::Rng sub(rng.next());
    vh::forkedEmit([&] { schemaHistory(sub, deep ? 16 : 12); }, "c08 history");
  }
  return 0;
}
