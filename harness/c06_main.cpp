// C06 correspondence harness: tree shape and text ranges assigned by the parser, FindMinimalNode, token positions.
// Ops:  c06 tree <syn> <hexText> <expectedWire>   -> fail | astWire            (must equal expectedWire)
//       c06 findmin <syn> <hexText> <lo> <hi>     -> fail | none | NAME:lo:hi:<path>   (path: child indices, `r` = root)
//       c06 lex <syn> <hexText>                   -> tokens NAME:data:lo:hi,... (through END)
#include "syntax_gen.hpp"

using namespace sg;
using vh::hex;
using ccl::rslang::Parser;

static std::string findMin(const std::string& text, Syntax syn, int lo, int hi) {
  Parser p;
  if (!p.Parse(text, syn)) return "fail";
  const auto r = ccl::rslang::FindMinimalNode(p.AST().Root(), StrRange{ lo, hi });
  if (!r.has_value()) return "none";
  SyntaxTree::Cursor w = r.value();
  std::vector<int> path;
  while (!w.IsRoot()) {
    const auto* child = w.get();
    w.MoveToParent();
    int idx = -1;
    for (ccl::rslang::Index i = 0; i < w.ChildrenCount(); ++i) if (w.Child(i).get() == child) { idx = i; break; }
    path.push_back(idx);
  }
  std::reverse(path.begin(), path.end());
  std::string ps;
  if (path.empty()) ps = "r";
  for (size_t i = 0; i < path.size(); ++i) { if (i) ps += '.'; ps += std::to_string(path[i]); }
  const auto& t = *r.value();
  return std::string(vh::tokName(t.id)) + ":" + std::to_string(t.pos.start) + ":" + std::to_string(t.pos.finish) + ":" + ps;
}

static void flatten(const GAst& g, std::vector<const GAst*>& out) { out.push_back(&g); for (const auto& k : g.kids) flatten(k, out); }

struct Ctx {
  Suite S;
  vh::Rng rng{ vh::seedFromEnv() };
  bool deep{ vh::thorough() };
  int findminEvery{ 6 }, counter{ 0 };

  void lex(const std::string& cls, Syntax syn, const std::string& text) {
    S.add(cls, std::string("c06 lex ") + synName(syn) + " " + hex(text), [=] { return lexResult(text, syn); });
  }
  void findmin(const std::string& cls, Syntax syn, const std::string& text, int lo, int hi) {
    S.add(cls, std::string("c06 findmin ") + synName(syn) + " " + hex(text) + " " + std::to_string(lo) + " " + std::to_string(hi),
          [=] { return findMin(text, syn, lo, hi); });
  }
  void queries(const std::string& cls, Syntax syn, const std::string& text, const GAst& g) {
    std::vector<const GAst*> nodes; flatten(g, nodes);
    const int len = syn == Syntax::MATH ? static_cast<int>(cps(text).size()) : static_cast<int>(text.size());
    auto pickNode = [&]() { return nodes[rng.below(static_cast<uint32_t>(nodes.size()))]; };
    { const auto* n = pickNode(); findmin(cls, syn, text, n->lo, n->hi); }                     // exact node range
    { const auto* n = pickNode();                                                              // sub-range of a node
      int a = rng.range(n->lo, n->hi), b = rng.range(n->lo, n->hi); if (a > b) std::swap(a, b);
      findmin(cls, syn, text, a, b); }
    {                                                                                          // spanning two siblings
      std::vector<const GAst*> multi; for (const auto* n : nodes) if (n->kids.size() >= 2) multi.push_back(n);
      if (!multi.empty()) {
        const auto* n = multi[rng.below(static_cast<uint32_t>(multi.size()))];
        const size_t i = rng.below(static_cast<uint32_t>(n->kids.size() - 1));
        if (rng.chance(1, 2)) findmin(cls, syn, text, n->kids[i].lo, n->kids[i + 1].hi);
        else findmin(cls, syn, text, n->kids[i].hi - (rng.chance(1, 2) ? 1 : 0), n->kids[i + 1].lo + (rng.chance(1, 2) ? 1 : 0));
      }
    }
    { const int p = rng.range(0, len); findmin(cls, syn, text, p, p); }                        // empty range anywhere
    { const auto* n = pickNode(); const int p = rng.chance(1, 2) ? n->lo : n->hi; findmin(cls, syn, text, p, p); }  // empty at a border
    switch (rng.below(5)) {                                                                    // partly / fully outside
    case 0: findmin(cls, syn, text, -1, rng.range(0, len)); break;
    case 1: findmin(cls, syn, text, rng.range(0, len), len + rng.range(1, 2)); break;
    case 2: findmin(cls, syn, text, len, len + 1); break;
    case 3: findmin(cls, syn, text, 0, len); break;
    default: findmin(cls, syn, text, g.lo, g.hi + 1); break;
    }
  }
  // one `tree` case (+ every few texts the FindMinimalNode queries and a lex line)
  void tree(const std::string& cls, Syntax syn, const GAst& g0, int parenMode, int wsMode, int declShort) {
    for (int tries = 0; tries < 6; ++tries) {
      GAst g = g0;
      const int ws = tries < 3 ? wsMode : tries < 5 ? std::min(wsMode, 1) : 0;
      const std::string text = render(g, syn, tries < 5 ? parenMode : 0, ws, rng, declShort).text;
      if (text.size() > 200 && tries < 5) continue;
      S.add(cls, std::string("c06 tree ") + synName(syn) + " " + hex(text) + " " + wire(g), [=] { return parseResult(text, syn); });
      if (counter % 5 == 0) {
        // a reused Parser: first a multi-line expression (valid or not), then this text
        static const std::vector<std::string> preMath = { "X1\n\xE2\x88\xAA\nX2", "D{\xCE\xBE\xE2\x88\x88X1 |\n \xCE\xBE=\xCE\xBE\n}", "X1 \xE2\x88\xAA\n\n (", "\n\n\n" };
        static const std::vector<std::string> preAscii = { "X1\n\\union\nX2", "D{a \\in X1 |\n a \\eq a\n}", "X1 \\union\n\n (", "\n\n\n" };
        const std::string pre = syn == Syntax::MATH ? preMath[rng.below(4)] : preAscii[rng.below(4)];
        S.add(cls + ":reused", std::string("c06 treeafter ") + synName(syn) + " " + hex(pre) + " " + hex(text) + " " + wire(g), [=] { return parseResultAfter(pre, text, syn); });
      }
      if (++counter % findminEvery == 0) queries(cls + ":findmin", syn, text, g);
      if (wsMode == 2 && counter % 4 == 0) lex(cls + ":lex", syn, text);
      return;
    }
  }
};

int main() {
  Ctx C;
  auto& S = C.S; auto& rng = C.rng; const bool deep = C.deep;
  const Syntax M = Syntax::MATH, A = Syntax::ASCII;
  const std::vector<Syntax> syns = { M, A };

  // ---- A. exhaustive operator triples, B. constructor forms ---------------------------------
  const int variants = deep ? 12 : 3;
  for (int cfg = 0; cfg < 3; ++cfg) {     // (math, Greek names) (math, ASCII names) (ascii, ASCII names)
    const Syntax syn = cfg < 2 ? M : A;
    const Names nm = cfg == 0 ? namesGreek() : namesAscii();
    for (int fam = 0; fam < 2; ++fam) {
      const auto trees = fam == 0 ? exhaustiveTrees(nm) : formTrees(nm);
      const std::string cls = fam == 0 ? "A" : "B";
      for (const auto& lt : trees) {
        if (fam == 0) S.triples.insert(lt.label);
        for (int v = 0; v < variants; ++v) {
          if (v == 0) C.tree(cls, syn, lt.tree, 0, 0, 0);
          else if (v == 1) C.tree(cls, syn, lt.tree, 1, 1, 1);
          else C.tree(cls, syn, lt.tree, 1, 2, 2);
        }
      }
    }
  }

  // ---- C. random well-formed trees -------------------------------------------------------------
  const int maxD = deep ? 6 : 4;
  const int N = deep ? 5000 : 500;
  for (Syntax syn : syns)
    for (int i = 0; i < N; ++i) {
      GenOpt o; o.greek = syn == M;
      TreeGen g(rng, o);
      GAst t;
      for (int tries = 0;; ++tries) { t = g.genTop(rng.range(1, tries < 20 ? maxD : 2)); if (nodeCount(t) <= 40) break; }
      C.tree("C", syn, t, rng.chance(4, 5) ? 1 : 0, static_cast<int>(rng.below(3)), 2);
    }

  // ---- token positions: multi-byte symbols, tabs, newlines, unknown symbols ------------------------
  const int nLex = deep ? 4000 : 400;
  for (int i = 0; i < nLex; ++i) {
    const std::string t = soupText(rng, rng.chance(1, 2) ? 5 : 14);
    if (t.size() > 190) continue;
    C.lex("D:soup", rng.chance(2, 3) ? M : A, t);
  }
  for (Syntax syn : syns)
    for (const auto& t : fixedMalformed(syn)) if (rng.chance(1, deep ? 1 : 2)) C.lex("D:fixed", syn, t);
  // FindMinimalNode on texts that do not parse
  for (Syntax syn : syns) {
    C.findmin("D:findmin-fail", syn, "(X1)", 0, 1);
    C.findmin("D:findmin-fail", syn, "", 0, 0);
  }

  S.summary("c06");
  S.runAll();
  return 0;
}
