// C15 correspondence harness: drives ccl::object::StructuredData / SDSet / Factory through the
// public API on typed values generated from VERIF_SEED and prints "<op line>\t<impl result>".
// Values are written as construction expressions (no blanks):
//   -?digits  Factory::Val          T(a,b,..) Factory::Tuple      S(a,b,..) Factory::Set (given order, dups)
//   G(a)      Factory::Singleton    P(a)      Factory::Boolean    X(a,b,..) Factory::Decartian
// Results are canonical text: ToString() without blanks, Comparison as lt|eq|gt|inc, 0/1 bits,
// iteration lists joined by ';'.
#include "common.hpp"
#include "ccl/rslang/StructuredData.h"

#include <algorithm>
#include <iterator>
#include <deque>

using namespace ccl;
using namespace ccl::object;
using vh::emit;

namespace {

struct Ex {
  char k{ 'n' };
  int n{ 0 };
  std::vector<Ex> c{};
};

struct Ty {
  int k{ 0 };  // 0 base, 1 tuple, 2 collection
  std::vector<Ty> c{};
};

Ty tBase() { return Ty{ 0, {} }; }
Ty tColl(Ty b) { return Ty{ 2, { std::move(b) } }; }
Ty tTup(std::vector<Ty> cs) { return Ty{ 1, std::move(cs) }; }

Ex num(int n) { return Ex{ 'n', n, {} }; }
Ex node(char k, std::vector<Ex> c) { return Ex{ k, 0, std::move(c) }; }

std::string text(const Ex& e) {
  if (e.k == 'n') return std::to_string(e.n);
  std::string out(1, e.k);
  out += '(';
  for (size_t i = 0; i < e.c.size(); ++i) {
    if (i) out += ',';
    out += text(e.c[i]);
  }
  out += ')';
  return out;
}

StructuredData build(const Ex& e) {
  switch (e.k) {
  default:
  case 'n': return Factory::Val(e.n);
  case 'T': {
    std::vector<StructuredData> cs;
    for (const auto& c : e.c) cs.push_back(build(c));
    return Factory::Tuple(cs);
  }
  case 'S': {
    std::vector<StructuredData> cs;
    for (const auto& c : e.c) cs.push_back(build(c));
    return Factory::Set(cs);
  }
  case 'G': return Factory::Singleton(build(e.c[0]));
  case 'P': return Factory::Boolean(build(e.c[0]));
  case 'X': {
    std::vector<StructuredData> cs;
    for (const auto& c : e.c) cs.push_back(build(c));
    return Factory::Decartian(cs);
  }
  }
}

std::vector<Ex> dedupe(const std::vector<Ex>& v) {
  std::vector<Ex> out;
  std::vector<std::string> seen;
  for (const auto& e : v) {
    const std::string t = text(e);
    if (std::find(seen.begin(), seen.end(), t) == seen.end()) { seen.push_back(t); out.push_back(e); }
  }
  return out;
}

// upper bound of the number of elements an expression of set type iterates (syntactic duplicates removed)
long est(const Ex& e) {
  const long cap = 1L << 20;
  switch (e.k) {
  case 'S': return static_cast<long>(dedupe(e.c).size());
  case 'G': return 1;
  case 'P': { long b = est(e.c[0]); return b >= 20 ? cap : (1L << b); }
  case 'X': { long r = 1; for (const auto& c : e.c) { r *= est(c); if (r > cap) r = cap; } return r; }
  default: return 1;
  }
}

std::string str(const StructuredData& v) {
  std::string s = v.ToString();
  s.erase(std::remove(s.begin(), s.end(), ' '), s.end());
  return s;
}

const char* cmpName(Comparison c) {
  switch (c) {
  case Comparison::LESS: return "lt";
  case Comparison::EQUAL: return "eq";
  case Comparison::GREATER: return "gt";
  default: return "inc";
  }
}

std::string bit(bool b) { return b ? "1" : "0"; }

struct Gen {
  vh::Rng& rng;
  int atoms;

  int atom() {
    if (rng.chance(1, 40)) return rng.pick(std::vector<int>{ -1, 0, -7, 1000000, 2147483647, -2147483647 - 1 });
    return rng.range(1, atoms);
  }

  Ty type(int depth) {
    const int r = depth <= 0 ? 0 : rng.range(0, 9);
    if (r < 3) return tBase();
    if (r < 6) {
      std::vector<Ty> cs;
      const int ar = rng.range(2, 3);
      for (int i = 0; i < ar; ++i) cs.push_back(type(depth - 1));
      return tTup(cs);
    }
    return tColl(type(depth - 1));
  }

  Ex value(const Ty& ty, int maxCard) {
    switch (ty.k) {
    default:
    case 0: return num(atom());
    case 1: {
      std::vector<Ex> cs;
      for (const auto& c : ty.c) cs.push_back(value(c, std::min(maxCard, 3)));
      return node('T', cs);
    }
    case 2: return set(ty, maxCard);
    }
  }

  // a value of collection type with at most maxCard elements
  Ex set(const Ty& ty, int maxCard) {
    const Ty& el = ty.c[0];
    const int r = rng.range(0, 9);
    if (el.k == 2 && maxCard >= 2 && r < 3) {
      int b = 0;
      while ((2 << b) <= maxCard) ++b;  // 2^b <= maxCard
      return node('P', { set(el, b) });
    }
    if (el.k == 1 && maxCard >= 1 && r < 3) {
      const int ar = static_cast<int>(el.c.size());
      int m = 1;
      while (true) { long p = 1; for (int i = 0; i < ar; ++i) p *= (m + 1); if (p > maxCard) break; ++m; }
      std::vector<Ex> fs;
      for (const auto& c : el.c) {
        Ex f = set(tColl(c), m);
        if (est(f) == 0 && !rng.chance(1, 6)) f = node('G', { value(c, 2) });
        fs.push_back(f);
      }
      return node('X', fs);
    }
    if (r == 3 && maxCard >= 1) return node('G', { value(el, std::min(maxCard, 3)) });
    int k = rng.range(0, std::min(maxCard, 4));
    if (rng.chance(1, 5)) k = 0;
    std::vector<Ex> cs;
    for (int i = 0; i < k; ++i) cs.push_back(value(el, std::min(maxCard, 3)));
    // duplicates (same construction or an equal one built differently)
    const int dups = cs.empty() ? 0 : rng.range(0, 2);
    for (int i = 0; i < dups; ++i) {
      const Ex& src = cs[rng.below(static_cast<uint32_t>(cs.size()))];
      cs.push_back(rng.chance(1, 2) ? src : variant(src));
    }
    shuffle(cs);
    return node('S', cs);
  }

  void shuffle(std::vector<Ex>& v) {
    for (size_t i = v.size(); i > 1; --i) std::swap(v[i - 1], v[rng.below(static_cast<uint32_t>(i))]);
  }

  // the elements of a set expression as expressions (duplicates possible)
  std::vector<Ex> expand(const Ex& e) { return dedupe(expandRaw(e)); }
  std::vector<Ex> expandRaw(const Ex& e) {
    switch (e.k) {
    case 'S': return e.c;
    case 'G': return { e.c[0] };
    case 'P': {
      const auto base = expand(e.c[0]);
      std::vector<Ex> out;
      for (unsigned mask = 0; mask < (1U << base.size()); ++mask) {
        std::vector<Ex> sub;
        for (size_t i = 0; i < base.size(); ++i) if (mask & (1U << i)) sub.push_back(base[i]);
        out.push_back(node('S', sub));
      }
      return out;
    }
    case 'X': {
      std::vector<std::vector<Ex>> acc = { {} };
      for (const auto& f : e.c) {
        const auto fe = expand(f);
        std::vector<std::vector<Ex>> next;
        for (const auto& pre : acc) for (const auto& x : fe) { auto t = pre; t.push_back(x); next.push_back(t); }
        acc.swap(next);
      }
      std::vector<Ex> out;
      for (const auto& t : acc) out.push_back(node('T', t));
      return out;
    }
    default: return {};
    }
  }

  // another construction of the same mathematical value
  Ex variant(const Ex& e) {
    switch (e.k) {
    case 'n': return e;
    case 'T': {
      std::vector<Ex> cs;
      for (const auto& c : e.c) cs.push_back(variant(c));
      return node('T', cs);
    }
    case 'S': {
      std::vector<Ex> cs;
      for (const auto& c : e.c) cs.push_back(rng.chance(1, 2) ? variant(c) : c);
      if (!cs.empty() && rng.chance(1, 2)) cs.push_back(cs[rng.below(static_cast<uint32_t>(cs.size()))]);
      shuffle(cs);
      return node('S', cs);
    }
    case 'G':
      if (rng.chance(1, 2)) return node('S', { variant(e.c[0]), e.c[0] });
      return node('G', { variant(e.c[0]) });
    default: {  // P, X: keep lazy with re-built arguments, or enumerate
      if (est(e) <= 32 && rng.chance(2, 3)) {
        auto cs = expand(e);
        shuffle(cs);
        return node('S', cs);
      }
      std::vector<Ex> cs;
      for (const auto& c : e.c) cs.push_back(variant(c));
      return node(e.k, cs);
    }
    }
  }

  // the same value with no lazy constructor at all
  Ex pureOf(const Ex& e) {
    if (e.k == 'n') return e;
    std::vector<Ex> cs;
    if (e.k == 'P' || e.k == 'X') {
      if (est(e) > 64) return e;  // too large to enumerate: stays lazy
      for (const auto& c : expand(e)) cs.push_back(pureOf(c));
      return node('S', cs);
    }
    for (const auto& c : e.c) cs.push_back(pureOf(c));
    return node(e.k, cs);
  }

  // the same value with lazy constructors only on the spine (top level, bases of P, factors of X)
  Ex spineOf(const Ex& e) {
    if (e.k == 'P' || e.k == 'X') {
      std::vector<Ex> cs;
      for (const auto& c : e.c) cs.push_back(spineOf(c));
      return node(e.k, cs);
    }
    return pureOf(e);
  }

  void atomsOf(Ex& e, std::vector<Ex*>& out) {
    if (e.k == 'n') out.push_back(&e);
    for (auto& c : e.c) atomsOf(c, out);
  }

  // a near miss: one atom changed (or, without atoms, a fresh value of the type)
  Ex mutate(const Ex& e, const Ty& ty, int maxCard) {
    Ex m = e;
    std::vector<Ex*> as;
    atomsOf(m, as);
    if (as.empty()) return value(ty, maxCard);
    Ex* a = as[rng.below(static_cast<uint32_t>(as.size()))];
    a->n = a->n % atoms + 1;
    return m;
  }
};

std::string iterLine(const StructuredData& v) {
  std::string out = std::to_string(v.B().Cardinality()) + " ";
  bool first = true;
  for (auto it = v.B().begin(); it != v.B().end(); ++it) {
    if (!first) out += ';';
    first = false;
    out += str(*it);
  }
  if (first) out += '-';
  return out;
}

std::string cmpLine(const StructuredData& a, const StructuredData& b) {
  return std::string(cmpName(a.Compare(b))) + " " + bit(a == b) + " " + bit(a < b);
}

// the order laws evaluated directly on the implementation; every value is built twice so that
// the pointer short cut of Compare is not what answers
std::string lawsLine(const Ex& ea, const Ex& eb, const Ex& ec) {
  const StructuredData v[3] = { build(ea), build(eb), build(ec) };
  const StructuredData w[3] = { build(ea), build(eb), build(ec) };
  auto c = [&](int i, int j) { return v[i].Compare(w[j]); };
  bool refl = true, anti = true, trans = true, total = true;
  for (int i = 0; i < 3; ++i) {
    refl = refl && c(i, i) == Comparison::EQUAL && v[i].Compare(v[i]) == Comparison::EQUAL;
    for (int j = 0; j < 3; ++j) {
      const auto x = c(i, j), y = c(j, i);
      anti = anti && ((x == Comparison::LESS) == (y == Comparison::GREATER)) && ((x == Comparison::EQUAL) == (y == Comparison::EQUAL));
      total = total && x != Comparison::INCOMPARABLE;
      for (int k = 0; k < 3; ++k) {
        const auto p = c(i, j), q = c(j, k), r = c(i, k);
        const bool le1 = p == Comparison::LESS || p == Comparison::EQUAL;
        const bool le2 = q == Comparison::LESS || q == Comparison::EQUAL;
        if (le1 && le2) {
          if (p == Comparison::EQUAL && q == Comparison::EQUAL) trans = trans && r == Comparison::EQUAL;
          else trans = trans && r == Comparison::LESS;
        }
      }
    }
  }
  return bit(refl) + " " + bit(anti) + " " + bit(trans) + " " + bit(total);
}

std::string binLine(const StructuredData& a, const StructuredData& b) {
  return str(a.B().Union(b.B())) + " " + str(a.B().Intersect(b.B())) + " " +
         str(a.B().Diff(b.B())) + " " + str(a.B().SymDiff(b.B()));
}

struct Runner {
  vh::Rng& rng;
  Gen gen;
  bool forkAll{ false };

  std::string guarded(bool risky, const std::function<std::string()>& f) {
    return (risky || forkAll) ? vh::forked(f, 60) : f();
  }
  // VERIF_TRACE=1: the op line goes to stderr before it is executed (to locate a hang / crash)
  static void emit(const std::string& op, const std::string& res) { vh::emit(op, res); }
  static void trace(const std::string& op) {
    static const bool on = std::getenv("VERIF_TRACE") != nullptr;
    if (on) { std::fputs(op.c_str(), stderr); std::fputc('\n', stderr); std::fflush(stderr); }
  }

  // Cardinality() / IsEmpty() without iterating: lazy power sets and products of any size (seeded change C15-4: the
  // product of cardinalities wrapped to 0 for sizes that are multiples of 2^64)
  void opCard(const Ex& a) {
    const std::string op_ = "c15 card " + text(a); trace(op_);
    emit(op_, guarded(true, [&] { const auto v = build(a); return std::to_string(v.B().Cardinality()) + " " + bit(v.B().IsEmpty()); }));
  }
  void opStr(const Ex& a, bool risky = false) {
    const std::string op_ = "c15 str " + text(a); trace(op_); emit(op_, guarded(risky, [&] { return str(build(a)); }));
  }
  void opCmp(const Ex& a, const Ex& b, bool risky = false) {
    const std::string op_ = "c15 cmp " + text(a) + " " + text(b); trace(op_); emit(op_, guarded(risky, [&] { return cmpLine(build(a), build(b)); }));
  }
  void opLaws(const Ex& a, const Ex& b, const Ex& c, bool risky = false) {
    const std::string op_ = "c15 laws " + text(a) + " " + text(b) + " " + text(c); trace(op_); emit(op_, guarded(risky, [&] { return lawsLine(a, b, c); }));
  }
  void opIter(const Ex& a, bool risky = false) {
    const std::string op_ = "c15 iter " + text(a); trace(op_); emit(op_, guarded(risky, [&] { return iterLine(build(a)); }));
  }
  void opHas(const Ex& a, const Ex& x, bool risky = false) {
    const std::string op_ = "c15 has " + text(a) + " " + text(x); trace(op_); emit(op_, guarded(risky, [&] { return bit(build(a).B().Contains(build(x))); }));
  }
  void opSub(const Ex& a, const Ex& b, bool risky = false) {
    const std::string op_ = "c15 sub " + text(a) + " " + text(b); trace(op_); emit(op_, guarded(risky, [&] { return bit(build(a).B().IsSubsetOrEq(build(b).B())); }));
  }
  void opBin(const Ex& a, const Ex& b, bool risky = false) {
    const std::string op_ = "c15 bin " + text(a) + " " + text(b); trace(op_); emit(op_, guarded(risky, [&] { return binLine(build(a), build(b)); }));
  }
  void opProj(const Ex& a, const std::vector<int>& idx, bool risky = false) {
    std::string is;
    std::vector<rslang::Index> v;
    for (size_t i = 0; i < idx.size(); ++i) { if (i) is += ','; is += std::to_string(idx[i]); v.push_back(static_cast<rslang::Index>(idx[i])); }
    const std::string op_ = "c15 proj " + text(a) + " " + is; trace(op_); emit(op_, guarded(risky, [&] { return str(build(a).B().Projection(v)); }));
  }
  void opRed(const Ex& a, bool risky = false) {
    const std::string op_ = "c15 red " + text(a); trace(op_); emit(op_, guarded(risky, [&] { return str(build(a).B().Reduce()); }));
  }
  // nested iteration over one value: every element is paired with itself exactly once
  void opNest(const Ex& a, bool risky = true) {
    const std::string op_ = "c15 nest " + text(a); trace(op_); emit(op_, guarded(risky, [&] {
      const auto v = build(a);
      long eq = 0, total = 0;
      for (const auto& x : v.B()) for (const auto& y : v.B()) { ++total; if (x == y) ++eq; }
      return std::to_string(eq) + " " + std::to_string(total);
    }));
  }
  void opDebool(const Ex& a) {
    const auto v = build(a);
    if (v.B().Cardinality() == 1) emit("c15 debool " + text(a), str(v.B().Debool()));
  }

  // every op that applies to values a, b, c of collection type ty (or any type for str/cmp/laws)
  void battery(const Ty& ty, const Ex& a, const Ex& b, const Ex& c) {
    opStr(a);
    opCmp(a, b); opCmp(b, a); opCmp(a, c);
    opLaws(a, b, c);
    if (ty.k != 2) return;
    const Ty& el = ty.c[0];
    opIter(a);
    // membership: an element that is there (built differently), and fresh ones
    const Ex as = gen.spineOf(a), bs = gen.spineOf(b), cs = gen.spineOf(c);
    const auto members = est(a) <= 64 ? gen.expand(a) : std::vector<Ex>{};
    if (!members.empty()) {
      const Ex m = gen.variant(members[rng.below(static_cast<uint32_t>(members.size()))]);
      opHas(a, m); opHas(as, gen.spineOf(m));
    }
    { const Ex x = gen.value(el, 3); opHas(a, x); opHas(as, gen.spineOf(x)); }
    { const Ex x = gen.value(el, 3); opHas(bs, gen.spineOf(x)); }
    opSub(a, b); opSub(as, bs); opSub(bs, as); opSub(as, cs); opSub(cs, as);
    opBin(as, bs); opBin(as, cs); opBin(bs, as);
    if (el.k == 1) {
      const int ar = static_cast<int>(el.c.size());
      std::vector<int> idx;
      const int n = rng.range(1, 3);
      for (int i = 0; i < n; ++i) idx.push_back(rng.range(1, ar));
      opProj(a, idx);
      opProj(b, { rng.range(1, ar) });
    }
    if (el.k == 2) { opRed(a); opRed(b); }
    opDebool(a);
    if (est(a) <= 40) opNest(a, false);
    { const Ex g = node('G', { a }); opStr(g); opDebool(g); }
  }

  void randomCase(int depth, int maxCard) {
    Ty ty = gen.type(depth);
    if (rng.chance(3, 4)) ty = tColl(ty.k == 2 && depth >= 3 ? ty.c[0] : ty);
    const Ex a = gen.value(ty, maxCard);
    Ex b;
    switch (rng.range(0, 3)) {
    case 0: b = gen.variant(a); break;
    case 1: b = gen.mutate(a, ty, maxCard); break;
    case 2: b = gen.mutate(gen.variant(a), ty, maxCard); break;
    default: b = gen.value(ty, maxCard); break;
    }
    const Ex c = rng.chance(1, 3) ? gen.mutate(b, ty, maxCard) : gen.value(ty, maxCard);
    battery(ty, a, b, c);
  }

  // histories of copy / assign / AddElement on shared handles; after every op all handles are printed
  void history(int len) {
    emit("c15 reset", "ok");
    std::deque<StructuredData> hs;
    std::vector<Ty> tys;
    const Ty inner = rng.chance(1, 2) ? tColl(tBase()) : (rng.chance(1, 2) ? tBase() : tTup({ tBase(), tBase() }));
    const Ty outer = tColl(inner);
    auto all = [&](const std::string& r) {
      std::string out = r;
      for (const auto& h : hs) out += " " + str(h);
      if (hs.empty()) out += " -";
      return out;
    };
    auto fresh = [&](const Ty& ty) {
      Ex e = gen.value(ty, 3);
      while (est(e) > 64) e = gen.value(ty, 3);
      if (e.k != 'S' && e.k != 'G') e = node('S', gen.expand(e));  // handles that get modified are enumerated sets
      return e;
    };
    auto newHandle = [&](const Ty& ty) {
      const Ex e = fresh(ty);
      hs.push_back(build(e)); tys.push_back(ty);
      emit("c15 new " + text(e), all("-"));
    };
    newHandle(outer);
    if (inner.k == 2) newHandle(inner);
    auto pickOf = [&](const Ty& ty) {
      std::vector<int> cand;
      for (size_t i = 0; i < tys.size(); ++i)
        if (tys[i].k == ty.k && (ty.k != 2 || tys[i].c[0].k == ty.c[0].k)) cand.push_back(static_cast<int>(i));
      return cand.empty() ? -1 : cand[rng.below(static_cast<uint32_t>(cand.size()))];
    };
    for (int step = 0; step < len && hs.size() < 14; ++step) {
      const int r = rng.range(0, 11);
      const int k = rng.chance(2, 3) ? pickOf(outer) : (inner.k == 2 ? pickOf(inner) : pickOf(outer));
      if (k < 0) continue;
      const Ty tk = tys[static_cast<size_t>(k)];
      if (r < 2) {
        newHandle(rng.chance(1, 2) || inner.k != 2 ? outer : inner);
      } else if (r < 5) {
        hs.push_back(hs[static_cast<size_t>(k)]); tys.push_back(tk);
        emit("c15 copy " + std::to_string(k), all("-"));
      } else if (r < 6) {
        const int j = pickOf(tk);
        if (j < 0 || j == k) continue;
        hs[static_cast<size_t>(k)] = hs[static_cast<size_t>(j)];
        emit("c15 assign " + std::to_string(k) + " " + std::to_string(j), all("-"));
      } else if (r < 9) {
        const Ex e = gen.value(tk.c[0], 3);
        const bool res = hs[static_cast<size_t>(k)].ModifyB().AddElement(build(e));
        emit("c15 add " + std::to_string(k) + " " + text(e), all(bit(res)));
      } else if (r < 10) {
        if (tk.c[0].k != 2) continue;
        const int j = pickOf(tk.c[0]);
        if (j < 0) continue;
        const bool res = hs[static_cast<size_t>(k)].ModifyB().AddElement(hs[static_cast<size_t>(j)]);
        emit("c15 addh " + std::to_string(k) + " " + std::to_string(j), all(bit(res)));
      } else if (r < 11) {
        const auto card = hs[static_cast<size_t>(k)].B().Cardinality();
        if (card == 0) continue;
        const int i = rng.range(0, card - 1);
        auto it = hs[static_cast<size_t>(k)].B().begin();
        for (int s = 0; s < i; ++s) ++it;
        hs.push_back(*it); tys.push_back(tk.c[0]);   // shares its Impl with the stored element
        emit("c15 elem " + std::to_string(k) + " " + std::to_string(i), all("-"));
      } else {
        if (hs[static_cast<size_t>(k)].B().Cardinality() != 1) continue;
        hs.push_back(hs[static_cast<size_t>(k)].B().Debool()); tys.push_back(tk.c[0]);
        emit("c15 hdebool " + std::to_string(k), all("-"));
      }
    }
  }
};

// all values (as expressions of enumerated sets) of a type over atoms 1..atoms, sets of at most maxCard elements
std::vector<Ex> allValues(const Ty& ty, int atoms, size_t limit) {
  std::vector<Ex> out;
  switch (ty.k) {
  default:
  case 0:
    for (int i = 1; i <= atoms; ++i) out.push_back(num(i));
    break;
  case 1: {
    std::vector<std::vector<Ex>> acc = { {} };
    for (const auto& c : ty.c) {
      const auto vs = allValues(c, atoms, limit);
      std::vector<std::vector<Ex>> next;
      for (const auto& pre : acc) for (const auto& x : vs) { auto t = pre; t.push_back(x); next.push_back(t); }
      acc.swap(next);
    }
    for (const auto& t : acc) out.push_back(node('T', t));
    break;
  }
  case 2: {
    const auto el = allValues(ty.c[0], atoms, limit);
    if (el.size() > 12) break;
    for (unsigned mask = 0; mask < (1U << el.size()); ++mask) {
      std::vector<Ex> sub;
      for (size_t i = el.size(); i-- > 0;) if (mask & (1U << i)) sub.push_back(el[i]);  // descending: never the stored order
      out.push_back(node('S', sub));
    }
    break;
  }
  }
  if (out.size() > limit) out.resize(limit);
  return out;
}

} // namespace

int main() {
  vh::Rng rng(vh::seedFromEnv());
  const bool deep = vh::thorough();
  Runner run{ rng, Gen{ rng, deep ? 4 : 3 } };

  // fixed corner cases
  {
    const Ty sb = tColl(tBase()), ssb = tColl(sb);
    const Ex empty = node('S', {});
    run.battery(sb, empty, node('S', {}), node('S', { num(1) }));
    run.battery(ssb, node('S', { empty }), node('G', { empty }), node('P', { empty }));
    run.battery(ssb, node('P', { node('S', { num(1), num(2) }) }),
                node('S', { node('S', { num(2), num(1) }), empty, node('S', { num(2) }), node('S', { num(1) }) }),
                node('S', { node('S', { num(1), num(2) }), empty, node('S', { num(2) }), node('S', { num(3) }) }));
    run.battery(tColl(ssb), node('P', { node('P', { empty }) }), node('P', { node('P', { node('G', { num(1) }) }) }),
                node('S', { node('S', { empty }), empty }));
    const Ty pr = tColl(tTup({ tBase(), tBase() }));
    run.battery(pr, node('X', { node('S', { num(2), num(1) }), node('S', { num(3), num(3), num(1) }) }),
                node('S', { node('T', { num(2), num(3) }), node('T', { num(1), num(1) }), node('T', { num(2), num(1) }), node('T', { num(1), num(3) }) }),
                node('X', { empty, node('S', { num(1) }) }));
    run.battery(sb, node('S', { num(1), num(2), num(3) }), node('S', { num(1), num(2), num(4) }), node('S', { num(1), num(2) }));
    run.battery(sb, node('S', { num(-2147483647 - 1), num(2147483647), num(0) }), node('S', { num(0), num(-1) }), node('S', { num(2147483647) }));
    // sizes: enumerations of k members, their power sets, products of two to four of them - never iterated
    {
      auto range = [&](int k) { std::vector<Ex> v; for (int i = 1; i <= k; ++i) v.push_back(num(i)); return node('S', v); };
      std::vector<Ex> atoms;
      for (int k : { 0, 1, 2, 5, 16, 22, 27, 30, 31, 32, 40 }) { atoms.push_back(range(k)); atoms.push_back(node('P', { range(k) })); }
      atoms.push_back(node('P', { node('P', { range(3) }) }));
      for (const auto& a : atoms) run.opCard(a);
      for (int i = 0; i < (deep ? 600 : 150); ++i) {
        std::vector<Ex> fs;
        const int n = rng.range(2, 4);
        const bool pow2 = rng.chance(1, 2);   // powers of two multiply to exact multiples of 2^64
        for (int k = 0; k < n; ++k) fs.push_back(pow2 ? node('P', { range(rng.pick(std::vector<int>{ 16, 22, 27, 30, 32 })) }) : rng.pick(atoms));
        run.opCard(node('X', fs));
        if (rng.chance(1, 4)) run.opCard(node('P', { node('X', fs) }));
      }
      run.opCard(node('X', { node('P', { range(22) }), node('P', { range(22) }), node('P', { range(22) }) }));
      run.opCard(node('X', { node('P', { range(16) }), node('P', { range(16) }), node('P', { range(16) }), node('P', { range(16) }) }));
      // the division test of SDDecartian::UpdateSize is `product <= SET_INFINITY` at every factor (since 9d0a596; before it was
      // order dependent: {1,2,3}xB(X26) reported SET_INFINITY, C15.pinned_product_size_order_counterexample):
      // B(X26)x{1,2,3} and {1,2,3}xB(X26) both report their 201326592 members (C15.card_exact_of_small), {1}xB(X27) its 2^27;
      // {1,2}xB(X27) = 2^28 = SET_INFINITY + 1 and {1,2,3}xB(X27) saturate in either order (C15.card_saturates);
      // B(X29), B(X30) report 2^29, 2^30 > SET_INFINITY un-saturated (C15.card_exact)
      run.opCard(node('X', { range(2), node('P', { range(27) }) }));
      run.opCard(node('X', { node('P', { range(27) }), range(2) }));
      run.opCard(node('X', { range(3), node('P', { range(27) }) }));
      run.opCard(node('X', { node('P', { range(27) }), range(3) }));
      run.opCard(node('X', { node('P', { range(14) }), range(1), node('P', { range(13) }), range(2) }));
      run.opCard(node('X', { node('P', { range(26) }), range(3) }));
      run.opCard(node('X', { range(3), node('P', { range(26) }) }));
      run.opCard(node('X', { range(1), node('P', { range(27) }) }));
      run.opCard(node('P', { range(29) }));
      run.opCard(node('X', { node('P', { range(5) }), range(0), node('P', { range(40) }) }));
    }
    // IsSubsetOrEq / Contains with a lazy left operand: first element missing, a later one missing, none missing
    const Ex p12 = node('P', { node('S', { num(1), num(2) }) });
    const Ex s1 = node('S', { num(1) }), s2 = node('S', { num(2) }), s12 = node('S', { num(1), num(2) });
    run.opSub(p12, node('S', { s1, s2, s12 }));
    run.opSub(p12, node('S', { empty, s2, s12 }));
    run.opSub(p12, node('S', { empty, s1, s2, s12, node('S', { num(3) }) }));
    run.opSub(node('P', { empty }), empty);                                   // B({}) <= {}   (regression: was answered true)
    run.opSub(node('X', { s12, node('S', { num(1), num(3) }) }), empty);       // {1,2}x{1,3} <= {}
    run.opBin(node('P', { empty }), empty);
    run.opBin(node('S', { node('X', { s12, s1 }) }), node('P', { node('S', { node('T', { num(1), num(1) }) }) }));
    run.opSub(node('X', { s12, s12 }), node('S', { node('T', { num(1), num(2) }), node('T', { num(2), num(1) }), node('T', { num(2), num(2) }) }));
    run.opSub(node('X', { s12, s12 }), node('S', { node('T', { num(1), num(1) }), node('T', { num(2), num(1) }), node('T', { num(2), num(2) }) }));
    run.opSub(node('X', { s12, s12 }), node('X', { node('S', { num(1), num(2), num(3) }), s12 }));
    run.opHas(node('P', { node('S', { node('T', { num(1), num(1) }) }) }), node('X', { s12, s1 }));
    run.opHas(node('P', { node('X', { s12, s12 }) }), node('X', { s12, s1 }));
    run.opHas(node('P', { node('S', { s1 }) }), node('P', { s1 }));
    run.opHas(node('P', { p12 }), node('P', { s1 }));
    const Ty tr = tColl(tTup({ tBase(), sb, tBase() }));
    run.battery(tr, node('X', { node('S', { num(1), num(2) }), node('P', { node('S', { num(1) }) }), node('G', { num(7) }) }),
                node('X', { node('S', { num(2), num(1) }), node('S', { node('S', { num(1) }), empty }), node('S', { num(7), num(7) }) }),
                node('S', {}));
  }

  const int cases = deep ? 30000 : 7000;
  for (int i = 0; i < cases; ++i) run.randomCase(rng.range(1, 3), deep ? 16 : 8);

  const int hist = deep ? 8000 : 2000;
  for (int i = 0; i < hist; ++i) run.history(rng.range(6, 24));

  // lazy sets with more than 100 elements: the element cache of CachedSD is recycled while iterating
  {
    std::vector<Ex> seven, eleven, twelve;
    for (int i = 1; i <= 7; ++i) seven.push_back(num(i));
    for (int i = 1; i <= 11; ++i) eleven.push_back(num(i));
    for (int i = 12; i >= 1; --i) twelve.push_back(num(i));
    const Ex p7 = node('P', { node('S', seven) });
    const Ex x121 = node('X', { node('S', eleven), node('S', eleven) });
    const Ex x132 = node('X', { node('S', eleven), node('S', twelve) });
    run.opNest(p7);
    run.opNest(x121);
    run.opNest(node('P', { node('S', { num(1), num(2), num(3) }) }));
    run.opIter(p7, true);
    run.opStr(p7, true);
    run.opCmp(p7, p7, true);
    run.opBin(p7, p7, true);
    run.opSub(p7, p7, true);
    run.opRed(p7, true);
    run.opIter(x121, true);
    run.opCmp(x121, x132, true);
    run.opCmp(x121, x121, true);
    run.opBin(x121, x132, true);
    run.opSub(x121, x132, true);
    run.opSub(x132, x121, true);
    run.opProj(x132, { 2 }, true);
    run.opProj(x132, { 2, 1 }, true);
    run.opLaws(p7, node('P', { node('S', { num(1), num(2), num(3), num(4), num(5), num(6), num(8) }) }), p7, true);
    const Ex xpp = node('X', { p7, node('S', { num(1), num(2) }) });
    run.opIter(xpp, true);
    run.opHas(xpp, node('T', { node('S', { num(7), num(3) }), num(2) }), true);
    run.opHas(p7, node('S', { num(7), num(3) }), true);
    run.opHas(p7, node('S', { num(7), num(8) }), true);
    if (deep) {
      std::vector<Ex> nine;
      for (int i = 1; i <= 9; ++i) nine.push_back(num(i));
      const Ex p9 = node('P', { node('S', nine) });
      run.opIter(p9, true);
      run.opCmp(p9, p9, true);
      run.opBin(p9, p7, true);
      run.opIter(node('X', { p7, p7 }), true);
    }
  }

  // exhaustive: every value of every small type over 2 (3) atoms, all pairs / sampled triples
  {
    const int atoms = 2;
    std::vector<Ty> tys = { tBase(), tTup({ tBase(), tBase() }), tColl(tBase()), tColl(tColl(tBase())),
                            tColl(tTup({ tBase(), tBase() })), tTup({ tColl(tBase()), tBase() }), tColl(tTup({ tColl(tBase()), tBase() })) };
    for (const auto& ty : tys) {
      const auto vals = allValues(ty, atoms, deep ? 256 : 64);
      for (const auto& a : vals) {
        run.opStr(a);
        if (ty.k == 2) run.opIter(a);
      }
      const size_t pairCap = deep ? 70000 : 1500;
      const size_t total = vals.size() * vals.size();
      for (size_t i = 0; i < vals.size(); ++i)
        for (size_t j = 0; j < vals.size(); ++j) {
          if (total > pairCap && !rng.chance(static_cast<int>(pairCap / 16), static_cast<int>(total / 16 + 1))) continue;
          run.opCmp(vals[i], vals[j]);
          if (ty.k == 2 && (vals.size() <= 16 || rng.chance(1, 8))) run.opBin(vals[i], vals[j]);
        }
      const int triples = deep ? 4000 : 300;
      for (int t = 0; t < triples && vals.size() > 1; ++t)
        run.opLaws(rng.pick(vals), rng.pick(vals), rng.pick(vals));
    }
    if (deep) {
      const Ty ty = tColl(tColl(tBase()));
      const auto vals = allValues(ty, 3, 256);
      for (size_t i = 0; i < vals.size(); ++i) {
        run.opStr(vals[i]);
        for (size_t j = 0; j < vals.size(); ++j) if (rng.chance(1, 3)) run.opCmp(vals[i], vals[j]);
      }
    }
  }
  return 0;
}
