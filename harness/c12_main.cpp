// C12 harness: translation algebra (correspondence with the Lean model) and synthesis / merge /
// equation judged on the implementation by the clauses of the property.
#include "common.hpp"
#include "frag.hpp"
#include "verif_seed.hpp"
#include "ccl/semantic/RSForm.h"
#include "ccl/ops/RSOperations.h"
#include "ccl/ops/EquationOptions.h"
#include <algorithm>
#include <map>
#include <regex>
#include <set>

using namespace ccl;
using namespace ccl::semantic;
using vh::emit;

static const std::string TIMES = "\xC3\x97";

static std::string trWire(const EntityTranslation& t) {
  std::vector<std::pair<uint32_t, uint32_t>> v(t.begin(), t.end());
  std::sort(v.begin(), v.end());
  if (v.empty()) return "-";
  std::string out;
  for (size_t i = 0; i < v.size(); ++i) { if (i) out += ","; out += std::to_string(v[i].first) + ">" + std::to_string(v[i].second); }
  return out;
}
// entries in the iteration order of the map itself (the order the implementation used)
static std::string trWireRaw(const EntityTranslation& t) {
  std::string out;
  for (const auto& [k, v] : t) { if (!out.empty()) out += ","; out += std::to_string(k) + ">" + std::to_string(v); }
  return out.empty() ? "-" : out;
}

static void algebra(vh::Rng& rng, int n) {
  for (int i = 0; i < n; ++i) {
    EntityTranslation a, b;
    const int na = rng.range(0, 5), nb = rng.range(0, 5);
    for (int k = 0; k < na; ++k) a.Insert(static_cast<uint32_t>(rng.range(1, 7)), static_cast<uint32_t>(rng.range(1, 7)));
    for (int k = 0; k < nb; ++k) b.Insert(static_cast<uint32_t>(rng.range(1, 7)), static_cast<uint32_t>(rng.range(1, 7)));
    { auto c = a; c.SubstituteValues(b); emit("c12 subst " + trWireRaw(a) + " " + trWireRaw(b), trWire(c)); }
    { auto c = a; c.SuperposeWith(b); emit("c12 superpose " + trWireRaw(a) + " " + trWireRaw(b), trWire(c)); }
    if (na > 0) {
      ops::EquationOptions e;
      std::string modes;
      for (const auto& [k, v] : a) {
        const int m = rng.range(1, 3);
        e.Insert(k, v, ops::Equation{ static_cast<ops::Equation::Mode>(m), "t" });
        if (!modes.empty()) modes += ","; modes += std::to_string(k) + ">" + std::to_string(m);
      }
      const auto key = static_cast<uint32_t>(rng.range(1, 7));
      const bool ok = e.SwapKeyVal(key);
      EntityTranslation after; std::string m2;
      std::vector<std::pair<uint32_t, int>> ms;
      for (const auto& [k, v] : e) { after.Insert(k, v); ms.emplace_back(k, static_cast<int>(e.PropsFor(k).mode)); }
      std::sort(ms.begin(), ms.end());
      for (const auto& [k, m] : ms) { if (!m2.empty()) m2 += ","; m2 += std::to_string(k) + ">" + std::to_string(m); }
      emit("c12 swap " + trWireRaw(a) + " " + modes + " " + std::to_string(key), std::string(ok ? "1 " : "0 ") + trWire(after) + " " + (m2.empty() ? "-" : m2));
    }
  }
}

// ---------------------------------------------------------------- schema generation

static std::string typeStr(const ParsingInfo& info) {
  if (!info.exprType.has_value()) return "-";
  if (const auto* t = std::get_if<rslang::Typification>(&info.exprType.value()); t != nullptr) return t->ToString();
  return "LOGIC";
}
static std::string renameIds(const std::string& text, const std::map<std::string, std::string>& m) {
  static const std::regex id("[XCSADFTP][0-9]+");
  std::string out; auto it = std::sregex_iterator(text.begin(), text.end(), id); size_t last = 0;
  for (; it != std::sregex_iterator(); ++it) {
    out += text.substr(last, static_cast<size_t>(it->position()) - last);
    const auto f = m.find(it->str());
    out += f == m.end() ? it->str() : f->second;
    last = static_cast<size_t>(it->position() + it->length());
  }
  return out + text.substr(last);
}
static std::string nosp(std::string s) { for (auto& c : s) if (c == ' ' || c == '\n' || c == '\t') c = '_'; return s; }

struct Gen {
  std::vector<uint32_t> bases, structs, terms, others;
};

// a schema that is fully correct by construction (unless `spoil`), over 1-2 base sets
static Gen makeSchema(RSForm& f, vh::Rng& rng, bool spoil) {
  Gen g;
  const int nb = rng.range(1, 2);
  for (int i = 0; i < nb; ++i) g.bases.push_back(f.Emplace(CstType::base));
  auto alias = [&](uint32_t u) { return f.GetRS(u).alias; };
  const auto X = alias(g.bases[0]);
  const auto Y = alias(g.bases.back());
  if (rng.chance(1, 2)) g.structs.push_back(f.Emplace(CstType::structured, BOOL + "(" + X + TIMES + Y + ")"));
  const int nt = rng.range(1, 4);
  for (int i = 0; i < nt; ++i) {
    std::string def;
    const int r = rng.range(0, 5);
    if (r == 0 || g.terms.empty()) def = X + UNION + X;
    else if (r == 1) def = X + "\\" + alias(rng.pick(g.terms));
    else if (r == 2) def = alias(rng.pick(g.terms)) + UNION + alias(rng.pick(g.terms));
    else if (r == 3 && !g.structs.empty()) def = "Pr1(" + alias(g.structs[0]) + ")";
    else if (r == 4) def = alias(rng.pick(g.terms)) + "\xE2\x88\xA9" + X;
    else def = X;
    g.terms.push_back(f.Emplace(CstType::term, def));
  }
  if (rng.chance(1, 3)) g.others.push_back(f.Emplace(CstType::axiom, alias(g.terms[0]) + "=" + alias(g.terms[0])));
  if (rng.chance(1, 4)) {
    // duplicates inside one operand: a repeated term and axioms about it (listed before the terms), so that
    // removing one duplicate can make another pair identical (cascade across passes of DeleteDuplicates)
    const auto t = rng.pick(g.terms);
    const auto def = f.GetRS(t).definition;
    const auto copy = f.Emplace(CstType::term, def);
    g.terms.push_back(copy);
    const int na = rng.range(1, 3);
    for (int i = 0; i < na; ++i) {
      const auto who = rng.chance(1, 2) ? t : copy;
      g.others.push_back(f.Emplace(CstType::axiom, alias(who) + "=" + alias(who)));
    }
  }
  if (rng.chance(1, 3)) g.others.push_back(f.Emplace(CstType::function, "[\xCE\xB1\xE2\x88\x88" + BOOL + "(" + X + ")] \xCE\xB1" + UNION + alias(g.terms[0])));
  if (spoil) {
    const int r = rng.range(0, 2);
    if (r == 0) g.terms.push_back(f.Emplace(CstType::term, "X9" + UNION + X));
    else if (r == 1) g.terms.push_back(f.Emplace(CstType::term, "bad("));
    else f.SetExpressionFor(rng.pick(g.terms), "D9");
  }
  // some texts so that text references are translated too
  if (!g.terms.empty()) {
    f.SetTermFor(g.terms[0], "term of " + alias(g.terms[0]));
    f.SetDefinitionFor(g.terms[0], "see @{" + X + "|nomn,sing} and @{" + alias(g.terms[0]) + "|nomn,sing}");
    f.SetConventionFor(g.bases[0], "conv " + X);
    // conventions mention OTHER constituents too (a convention is translated like a definition, but no
    // dependency graph records its mentions)
    std::vector<uint32_t> all;
    for (const auto uid : f.Core()) all.push_back(uid);
    const int nc = rng.range(0, 3);
    for (int i = 0; i < nc; ++i) {
      const auto who = rng.pick(all);
      f.SetConventionFor(who, "cf. " + alias(rng.pick(all)) + (rng.chance(1, 2) ? " and " + alias(rng.pick(all)) : std::string{}));
    }
  }
  return g;
}

static bool fullyCorrect(const RSForm& f) {
  for (const auto uid : f.Core()) if (f.GetParse(uid).status != ParsingStatus::VERIFIED) return false;
  return true;
}

static std::string dumpForm(const RSForm& f) {
  std::string out;
  for (const auto uid : f.List()) {
    const auto& rs = f.GetRS(uid); const auto& tx = f.GetText(uid);
    out += std::to_string(uid) + ";" + rs.alias + ";" + rs.definition + ";" + rs.convention + ";" + tx.term.Text().Raw() + ";" + tx.definition.Raw() + "|";
  }
  return out;
}

// the dump handed to the Lean model of DeleteDuplicatesInternal: as dumpForm, plus the kind (CstType) after the
// alias; records end with '#'
static std::string dumpFormK(const RSForm& f) {
  std::string out;
  for (const auto uid : f.List()) {
    const auto& rs = f.GetRS(uid); const auto& tx = f.GetText(uid);
    out += std::to_string(uid) + ";" + rs.alias + ";" + std::to_string(static_cast<int>(rs.type)) + ";" + rs.definition + ";" + rs.convention + ";"
         + tx.term.Text().Raw() + ";" + tx.definition.Raw() + "#";   // '#': text references contain '|'
  }
  return out;
}

// an equation table in the iteration order of its map: key>value/mode/arg;...
static std::string tableWire(const ops::EquationOptions& eq) {
  std::string out;
  for (const auto& [k, v] : eq) {
    if (!out.empty()) out += ";";
    out += std::to_string(k) + ">" + std::to_string(v) + "/" + std::to_string(static_cast<int>(eq.PropsFor(k).mode)) + "/" + nosp(eq.PropsFor(k).arg);
  }
  return out.empty() ? "-" : out;
}

static void chk(const std::string& name, const std::string& bad) { emit("c12 chk " + name, bad.empty() ? "1" : "0:" + nosp(bad)); }

static void judgeSynthesis(const RSForm& a, const RSForm& b, const ops::EquationOptions& eq, bool likeWithLike, vh::Rng& rng) {
  const std::string before1 = dumpForm(a), before2 = dumpForm(b);
  if (std::getenv("VERIF_TRACE") != nullptr) {
    std::string eqs;
    for (const auto& [k, v] : eq) eqs += (a.Contains(k) ? a.GetRS(k).alias : std::to_string(k)) + "=" + (b.Contains(v) ? b.GetRS(v).alias : std::to_string(v)) + ",";
    fprintf(stderr, "TRACE synth A[%s]B[%s]EQ[%s]\n", before1.c_str(), before2.c_str(), eqs.c_str());
  }
  // identifiers the merge re-issues for operand-2 constituents whose uid is taken in operand 1: learnt from a probe merge
  // under the same generator seed (hook ccl::verif::Seed), so that the Lean model is given exactly the uids the
  // implementation will draw
  const auto uidSeed = static_cast<uint32_t>(rng.next());
  std::string freshUids;
  {
    ccl::verif::Seed(uidSeed);
    RSForm probe = a;
    const auto mtr = probe.Ops().MergeWith(b);
    for (const auto uid : b.List()) if (mtr.ContainsKey(uid) && mtr(uid) != uid) { if (!freshUids.empty()) freshUids += ","; freshUids += std::to_string(mtr(uid)); }
    ccl::verif::Seed(uidSeed);
  }
  ops::BinarySynthes synth{ a, b, eq };
  const bool defined = synth.IsCorrectlyDefined();
  auto res = synth.Execute();
  {
    std::string eqs;
    for (const auto& [k, v] : eq) eqs += (a.Contains(k) ? a.GetRS(k).alias : std::to_string(k)) + "=" + (b.Contains(v) ? b.GetRS(v).alias : std::to_string(v)) + "/" + std::to_string(static_cast<int>(eq.PropsFor(k).mode)) + ",";
    emit("c12 synth " + nosp("A[" + before1 + "]B[" + before2 + "]EQ[" + eqs + "]"), std::string(defined ? "defined" : "refused") + (res ? " result" : " none"));
  }
  // the whole synthesis against the Lean model (BinarySynthes = merge, translate the table, equate or delete
  // duplicates, reset aliases, substitute the translations)
  emit("c12 synthM " + nosp(dumpFormK(a)) + " " + nosp(dumpFormK(b)) + " " + tableWire(eq) + " " + (freshUids.empty() ? "-" : freshUids) + " " + (defined ? "acc" : "ref"),
       (defined && res) ? trWire(synth.Translations().at(0)) + " " + trWire(synth.Translations().at(1)) + " " + nosp(dumpFormK(*res)) : std::string("refused"));
  chk("operands-untouched", (before1 == dumpForm(a) && before2 == dumpForm(b)) ? "" : "operand modified");
  if (!defined) { chk("refused-gives-nothing", res == nullptr ? "" : "result although refused"); return; }
  if (res == nullptr) { chk("defined-gives-result", "no result"); return; }
  const auto& tr = synth.Translations();
  // unique, well-formed aliases
  {
    std::set<std::string> seen; std::string bad;
    for (const auto uid : res->Core()) {
      const auto& al = res->GetRS(uid).alias;
      if (!seen.insert(al).second) bad = "duplicate alias " + al;
    }
    chk("aliases-unique", bad);
  }
  // translations total and valid; equated pairs map to one survivor
  {
    std::string bad;
    for (const auto uid : a.Core()) if (!tr.at(0).ContainsKey(uid) || !res->Contains(tr.at(0)(uid))) bad = "op1 " + a.GetRS(uid).alias + " not represented";
    for (const auto uid : b.Core()) if (!tr.at(1).ContainsKey(uid) || !res->Contains(tr.at(1)(uid))) bad = "op2 " + b.GetRS(uid).alias + " not represented";
    if (bad.empty()) for (const auto& [k, v] : eq) if (tr.at(0)(k) != tr.at(1)(v)) bad = "equated pair " + a.GetRS(k).alias + "=" + b.GetRS(v).alias + " has two images";
    chk("translations-total", bad);
    if (!bad.empty()) return;
  }
  // every mention rewritten to its image, nothing else changed
  std::map<std::string, std::string> m1, m2;
  for (const auto uid : a.Core()) m1[a.GetRS(uid).alias] = res->GetRS(tr.at(0)(uid)).alias;
  for (const auto uid : b.Core()) m2[b.GetRS(uid).alias] = res->GetRS(tr.at(1)(uid)).alias;
  {
    std::string bad;
    std::set<uint32_t> deleted;   // operand-1 keys of equations are the deleted side unless swapped: detect by survivorship
    auto checkOperand = [&](const RSForm& op, const EntityTranslation& t, const std::map<std::string, std::string>& m, const char* tag) {
      for (const auto uid : op.Core()) {
        const auto img = t(uid);
        // an operand constituent whose image is shared with another operand constituent may be the deleted side: then
        // the survivor's definition is the other one's; accept if EITHER side's renamed definition equals the image's
        const auto want = renameIds(op.GetRS(uid).definition, m);
        // the convention is translated like the definition: every mention of an operand constituent becomes its image
        {
          const auto wantConv = renameIds(op.GetRS(uid).convention, m);
          bool sharedImg = false;
          for (const auto u1 : a.Core()) if (&op != &a || u1 != uid) if (tr.at(0)(u1) == img) sharedImg = true;
          for (const auto u2 : b.Core()) if (&op != &b || u2 != uid) if (tr.at(1)(u2) == img) sharedImg = true;
          bool unresolvedConv = false;
          {
            static const std::regex idc("[XCSADFTP][0-9]+");
            const auto& conv = op.GetRS(uid).convention;
            for (auto it = std::sregex_iterator(conv.begin(), conv.end(), idc); it != std::sregex_iterator(); ++it)
              if (!m.count(it->str())) unresolvedConv = true;
          }
          if (!sharedImg && !unresolvedConv && wantConv != res->GetRS(img).convention)
            bad = std::string(tag) + " " + op.GetRS(uid).alias + ": convention [" + res->GetRS(img).convention + "] expected [" + wantConv + "]";
        }
        if (want == res->GetRS(img).definition) continue;
        // a mention that did not resolve in the operand may be captured by a re-issued alias in the
        // result (the property's proviso about unresolved names): not judged
        {
          static const std::regex id("[XCSADFTP][0-9]+");
          bool unresolved = false;
          const auto& def = op.GetRS(uid).definition;
          for (auto it = std::sregex_iterator(def.begin(), def.end(), id); it != std::sregex_iterator(); ++it)
            if (!m.count(it->str())) unresolved = true;
          if (unresolved) continue;
        }
        bool shared = false;
        for (const auto u1 : a.Core()) if (&op != &a || u1 != uid) if (tr.at(0)(u1) == img) shared = true;
        for (const auto u2 : b.Core()) if (&op != &b || u2 != uid) if (tr.at(1)(u2) == img) shared = true;
        if (!shared) bad = std::string(tag) + " " + op.GetRS(uid).alias + ": definition [" + res->GetRS(img).definition + "] expected [" + want + "]";
      }
    };
    checkOperand(a, tr.at(0), m1, "op1");
    checkOperand(b, tr.at(1), m2, "op2");
    // no result definition mentions an alias that does not resolve although it resolved in its operand: covered by equality above
    chk("mentions-rewritten", bad);
  }
  // correctness and types preserved for like-with-like tables over fully correct operands
  if (likeWithLike && fullyCorrect(a) && fullyCorrect(b)) {
    std::string bad;
    if (!fullyCorrect(*res)) {
      for (const auto uid : res->Core()) if (res->GetParse(uid).status != ParsingStatus::VERIFIED) bad = "result " + res->GetRS(uid).alias + " := " + res->GetRS(uid).definition + " is not correct";
    }
    if (bad.empty()) {
      for (const auto uid : a.Core()) if (renameIds(typeStr(a.GetParse(uid)), m1) != typeStr(res->GetParse(tr.at(0)(uid)))) bad = "op1 " + a.GetRS(uid).alias + " type " + typeStr(a.GetParse(uid)) + " became " + typeStr(res->GetParse(tr.at(0)(uid)));
      for (const auto uid : b.Core()) if (renameIds(typeStr(b.GetParse(uid)), m2) != typeStr(res->GetParse(tr.at(1)(uid)))) bad = "op2 " + b.GetRS(uid).alias + " type " + typeStr(b.GetParse(uid)) + " became " + typeStr(res->GetParse(tr.at(1)(uid)));
    }
    chk("correct-and-typed", bad);
  }
}

static void synthesisCase(vh::Rng& rng) {
  RSForm a, b;
  const bool spoilA = rng.chance(1, 6), spoilB = rng.chance(1, 6);
  const auto ga = makeSchema(a, rng, spoilA);
  const auto gb = makeSchema(b, rng, spoilB);
  // like-with-like table: bases pairwise, then terms whose typification matches under the base identification
  {
    ops::EquationOptions eq;
    std::map<std::string, std::string> baseMap;   // alias in a -> alias in b
    const size_t nb = std::min(ga.bases.size(), gb.bases.size());
    const size_t useB = static_cast<size_t>(rng.range(0, static_cast<int>(nb)));
    for (size_t i = 0; i < useB; ++i) {
      eq.Insert(ga.bases[i], gb.bases[i], ops::Equation{ static_cast<ops::Equation::Mode>(rng.range(1, 3)), "new term" });
      baseMap[a.GetRS(ga.bases[i]).alias] = b.GetRS(gb.bases[i]).alias;
    }
    if (useB > 0 && rng.chance(1, 2)) {
      for (const auto ta : ga.terms) {
        if (!rng.chance(1, 2)) continue;
        for (const auto tb : gb.terms) {
          if (eq.ContainsValue(tb)) continue;
          if (renameIds(typeStr(a.GetParse(ta)), baseMap) == typeStr(b.GetParse(tb)) && typeStr(b.GetParse(tb)) != "-") {
            // only when every base of the type is identified
            bool allIdentified = true;
            for (const auto& u : ga.bases) if (typeStr(a.GetParse(ta)).find(a.GetRS(u).alias) != std::string::npos && !baseMap.count(a.GetRS(u).alias)) allIdentified = false;
            if (allIdentified) { eq.Insert(ta, tb, ops::Equation{ static_cast<ops::Equation::Mode>(rng.range(1, 3)), "merged" }); break; }
          }
        }
      }
    }
    judgeSynthesis(a, b, eq, true, rng);
  }
  // operands that SHARE identifiers (two versions of one schema, or a part copied out of the other operand: the merge
  // re-issues the colliding uids) with pairs the synthesis has to turn round (a derived constituent of operand 1 equated
  // with a base notion of operand 2) - seeded change C12-4: the turned key was no longer translated to its result id
  {
    RSForm b2;
    for (const auto uid : a.List()) if (rng.chance(2, 3)) b2.InsertCopy(uid, a.Core());
    const auto extraBase = b2.Emplace(CstType::base);
    std::vector<uint32_t> derivedA, notionsB;
    for (const auto uid : a.List()) { const auto t = a.GetRS(uid).type; if (t == CstType::structured || t == CstType::term) derivedA.push_back(uid); }
    for (const auto uid : b2.List()) { const auto t = b2.GetRS(uid).type; if (t == CstType::base || t == CstType::constant || t == CstType::structured) notionsB.push_back(uid); }
    ops::EquationOptions eq;
    const int want = rng.range(1, 2);
    for (int tries = 0; tries < 8 && static_cast<int>(std::size(eq)) < want && !derivedA.empty() && !notionsB.empty(); ++tries) {
      const auto k = rng.pick(derivedA), v = rng.chance(1, 3) ? extraBase : rng.pick(notionsB);
      if (eq.ContainsKey(k) || eq.ContainsValue(v)) continue;
      eq.Insert(k, v, ops::Equation{ static_cast<ops::Equation::Mode>(rng.range(1, 3)), "turned" });
    }
    if (!std::empty(eq)) judgeSynthesis(a, b2, eq, false, rng);
    // and base with base between the two versions (the same uid on both sides)
    ops::EquationOptions eq2;
    for (const auto uid : ga.bases) if (b2.Contains(uid) && rng.chance(1, 2)) eq2.Insert(uid, uid, ops::Equation{ static_cast<ops::Equation::Mode>(rng.range(1, 3)), "same" });
    if (!std::empty(eq2)) judgeSynthesis(a, b2, eq2, false, rng);
  }
  // arbitrary (mostly inadmissible) table
  {
    ops::EquationOptions eq;
    std::vector<uint32_t> ua, ub;
    for (const auto u : a.Core()) ua.push_back(u);
    for (const auto u : b.Core()) ub.push_back(u);
    const int n = rng.range(1, 3);
    for (int i = 0; i < n; ++i) {
      const auto k = rng.chance(9, 10) ? rng.pick(ua) : 4000000000U;
      const auto v = rng.chance(9, 10) ? rng.pick(ub) : 4000000001U;
      eq.Insert(k, v, ops::Equation{ static_cast<ops::Equation::Mode>(rng.range(1, 3)), "x" });
    }
    judgeSynthesis(a, b, eq, false, rng);
  }
  // in-schema equation: refused table leaves the schema untouched; accepted one keeps aliases unique
  {
    RSForm c = a;
    std::vector<uint32_t> uc;
    for (const auto u : c.Core()) uc.push_back(u);
    ops::EquationOptions eq;
    eq.Insert(rng.pick(uc), rng.pick(uc), ops::Equation{ static_cast<ops::Equation::Mode>(rng.range(1, 3)), "x" });
    if (rng.chance(1, 2)) eq.Insert(rng.pick(uc), rng.pick(uc), ops::Equation{});
    const auto before = dumpForm(c);
    const auto beforeK = dumpFormK(c);
    const auto table = tableWire(eq);
    const auto tr = c.Ops().Equate(eq);
    emit("c12 equate", tr.has_value() ? "accepted" : "refused");
    emit("c12 equateM " + nosp(beforeK) + " " + table + " " + (tr.has_value() ? "acc" : "ref"),
         (tr.has_value() ? trWire(*tr) : std::string("refused")) + " " + nosp(dumpFormK(c)));
    if (!tr.has_value()) chk("refused-is-identity", before == dumpForm(c) ? "" : "schema modified by a refused equation");
    else {
      std::string bad; std::set<std::string> seen;
      for (const auto uid : c.Core()) if (!seen.insert(c.GetRS(uid).alias).second) bad = "duplicate alias";
      for (const auto& [k, v] : eq) if (c.Contains(k)) bad = "equated key " + std::to_string(k) + " still present";
      for (const auto& [k, v] : *tr) if (!c.Contains(v)) bad = "translation points to a removed constituent";
      chk("equate-consistent", bad);
    }
  }
  // in-schema equation of like with like (terms of equal typification, base sets): mostly admissible; all three text
  // modes; sometimes two keys with one value; tied to the Lean model of RSEquationProcessor::Execute.
  // Up to three rounds on the SAME schema object (the processor is a long-lived member of the operations facet: a later
  // call must not see anything of an earlier one - seeded change C12-3), sometimes re-inserting an equated-away uid.
  {
    RSForm c = a;
    const int rounds = rng.range(1, 3);
    std::vector<uint32_t> removed;
    for (int round = 0; round < rounds; ++round) {
      if (!removed.empty() && rng.chance(1, 2)) {   // bring an erased identifier back as a fresh term
        const auto uid = removed.back(); removed.pop_back();
        std::vector<uint32_t> terms;
        for (const auto u : c.List()) if (c.GetRS(u).type == semantic::CstType::term && typeStr(c.GetParse(u)) != "-") terms.push_back(u);
        if (!terms.empty() && !c.Contains(uid)) {
          const auto src = rng.pick(terms);
          semantic::ConceptRecord rec;
          rec.uid = uid; rec.type = semantic::CstType::term; rec.rs = c.GetRS(src).definition;
          c.InsertCopy(rec);
        }
      }
      std::vector<uint32_t> uc;
      for (const auto u : c.List()) uc.push_back(u);
      ops::EquationOptions eq;
      const int want = rng.range(1, 3);
      for (int tries = 0; tries < 12 && static_cast<int>(std::size(eq)) < want; ++tries) {
        const auto k = rng.pick(uc), v = rng.pick(uc);
        if (k == v || eq.ContainsKey(k) || eq.ContainsKey(v) || eq.ContainsValue(k)) continue;
        if (c.GetRS(k).type != c.GetRS(v).type || typeStr(c.GetParse(k)) != typeStr(c.GetParse(v)) || typeStr(c.GetParse(k)) == "-") continue;
        eq.Insert(k, v, ops::Equation{ static_cast<ops::Equation::Mode>(rng.range(1, 3)), "new @{" + c.GetRS(v).alias + "|nomn,sing} term" });
      }
      if (std::empty(eq)) break;
      const auto beforeK = dumpFormK(c);
      std::set<uint32_t> beforeUids;
      for (const auto u : c.Core()) beforeUids.insert(u);
      const auto table = tableWire(eq);
      const auto tr = c.Ops().Equate(eq);
      emit("c12 equateM " + nosp(beforeK) + " " + table + " " + (tr.has_value() ? "acc" : "ref"),
           (tr.has_value() ? trWire(*tr) : std::string("refused")) + " " + nosp(dumpFormK(c)));
      if (!tr.has_value()) break;
      std::string bad; std::set<std::string> seen;
      for (const auto uid : c.Core()) if (!seen.insert(c.GetRS(uid).alias).second) bad = "duplicate alias";
      for (const auto& [k, v] : eq) if (c.Contains(k)) bad = "equated key still present";
      for (const auto& [k, v] : eq) if (!tr->ContainsKey(k) || !c.Contains((*tr)(k))) bad = "equated key not represented";
      for (const auto& [k, v] : eq) if (bad.empty() && (*tr)(k) != (tr->ContainsKey(v) ? (*tr)(v) : v)) bad = "equated pair has two survivors";
      for (const auto& [k, v] : *tr) if (!c.Contains(v)) bad = "translation points to a removed constituent";
      for (const auto& [k, v] : *tr) if (!beforeUids.count(k)) bad = "translation maps " + std::to_string(k) + " which is no constituent of the operand";
      chk(round == 0 ? "equate-like-consistent" : "equate-like-consistent-again", bad);
      for (const auto& [k, v] : eq) removed.push_back(k);
    }
  }
  // merge: every constituent of the second schema is represented, aliases unique
  {
    RSForm c = a;
    const auto tr = c.Ops().MergeWith(b);
    std::string bad; std::set<std::string> seen;
    for (const auto uid : c.Core()) if (!seen.insert(c.GetRS(uid).alias).second) bad = "duplicate alias";
    std::map<std::string, std::string> m;
    for (const auto uid : b.Core()) {
      if (!tr.ContainsKey(uid) || !c.Contains(tr(uid))) { bad = "not represented"; break; }
      m[b.GetRS(uid).alias] = c.GetRS(tr(uid)).alias;
    }
    if (bad.empty()) for (const auto uid : b.Core())
      if (b.GetRS(uid).definition.find("9") == std::string::npos && renameIds(b.GetRS(uid).definition, m) != c.GetRS(tr(uid)).definition)
        bad = b.GetRS(uid).alias + ": [" + c.GetRS(tr(uid)).definition + "] expected [" + renameIds(b.GetRS(uid).definition, m) + "]";
    emit("c12 merge", "done");
    chk("merge-consistent", bad);
  }
  // MergeWith against the Lean model (translation and resulting content), and against the specification
  // "the copy carries the operand's content with every mention renamed once". `selfcollide`: some operand
  // constituent mentions itself, was renamed, and its new alias is also an alias of the operand (the case repaired by
  // d6a760d: the self-mention used to be renamed twice); both op names are judged by the same exact-content spec
  auto mergeModel = [&](const RSForm& into, const RSForm& operand) {
    RSForm c = into;
    const auto tr = c.Ops().MergeWith(operand);
    std::string fresh; bool collide = false;
    std::set<std::string> opAliases;
    for (const auto uid : operand.Core()) opAliases.insert(operand.GetRS(uid).alias);
    for (const auto uid : operand.List()) {
      if (!tr.ContainsKey(uid) || !c.Contains(tr(uid))) continue;
      if (tr(uid) != uid) { if (!fresh.empty()) fresh += ","; fresh += std::to_string(tr(uid)); }
      const auto& old = operand.GetRS(uid).alias; const auto& now = c.GetRS(tr(uid)).alias;
      if (old == now || !opAliases.count(now)) continue;
      static const std::regex id("[XCSADFTP][0-9]+");
      const auto& rs = operand.GetRS(uid); const auto& tx = operand.GetText(uid);
      for (const auto* text : { &rs.definition, &rs.convention })
        for (auto it = std::sregex_iterator(text->begin(), text->end(), id); it != std::sregex_iterator(); ++it) if (it->str() == old) collide = true;
      for (const auto& text : { tx.term.Text().Raw(), tx.definition.Raw() }) if (text.find("@{" + old + "|") != std::string::npos) collide = true;
    }
    emit(std::string(collide ? "c12 mergeM-selfcollide " : "c12 mergeM ") + nosp(dumpFormK(into)) + " " + nosp(dumpFormK(operand)) + " " + (fresh.empty() ? "-" : fresh),
         trWire(tr) + " " + nosp(dumpFormK(c)));
  };
  mergeModel(a, b);
  mergeModel(a, a);   // every uid and every alias of the operand is taken
}

// duplicates inside one schema: DeleteDuplicates gives a translation from every removed constituent to
// its survivor; nothing else changes except the mentions of the removed aliases
static void dupCase(vh::Rng& rng) {
  RSForm f;
  std::vector<uint32_t> bases, terms;
  const int nb = rng.range(1, 2);
  for (int i = 0; i < nb; ++i) bases.push_back(f.Emplace(CstType::base));
  auto alias = [&](uint32_t u) { return f.GetRS(u).alias; };
  // planned constituents, emplaced in a random interleaving (the list keeps axioms, terms, theorems in emplace order),
  // so that a constituent may mention duplicates listed after it: the aliases D1..Dn are predicted
  const int nt = rng.range(2, 5);
  std::vector<std::pair<CstType, std::string>> plan;
  std::vector<std::string> tnames;
  for (int i = 0; i < nt; ++i) tnames.push_back("D" + std::to_string(i + 1));
  const bool narrow0 = rng.chance(1, 2);   // the first two terms are copies of each other
  for (int i = 0; i < nt; ++i) {
    std::string def;
    const auto X = alias(i < 2 && narrow0 ? bases[0] : rng.pick(bases));
    switch (i < 2 && narrow0 ? 0 : rng.range(0, 3)) {
    default:
    case 0: def = X + "\\" + X; break;
    case 1: def = X + UNION + X; break;
    case 2: def = i == 0 ? X : tnames[static_cast<size_t>(rng.range(0, i - 1))] + UNION + X; break;
    case 3: def = i == 0 ? X : tnames[static_cast<size_t>(rng.range(0, i - 1))]; break;
    }
    plan.emplace_back(CstType::term, def);
  }
  const int na = rng.range(0, 6);
  const bool narrow = rng.chance(1, 2);   // axioms about few terms: identical axioms and cascades are likely
  auto pickName = [&] { return narrow ? tnames[static_cast<size_t>(rng.range(0, 1))] : rng.pick(tnames); };
  for (int i = 0; i < na; ++i) {
    const auto l = pickName();
    const auto r = rng.chance(2, 3) ? l : pickName();
    const auto pos = static_cast<size_t>(rng.range(0, static_cast<int>(plan.size())));
    plan.insert(plan.begin() + static_cast<std::ptrdiff_t>(pos), { rng.chance(3, 4) ? CstType::axiom : CstType::theorem, l + "=" + r });
  }
  for (const auto& [type, def] : plan) {
    const auto uid = f.Emplace(type, def);
    if (type == CstType::term) terms.push_back(uid);
  }
  if (rng.chance(1, 3)) for (int i = 0; i < 2; ++i)
    f.Emplace(CstType::function, "[\xCE\xB1\xE2\x88\x88" + BOOL + "(" + alias(bases[0]) + ")] \xCE\xB1" + UNION + alias(rng.pick(terms)));
  if (rng.chance(1, 3)) { const auto t = rng.pick(terms); f.SetTermFor(t, "name"); }
  // conventions and text references that mention terms (TranslateAll rewrites them too, and they take part in the
  // comparison of constituents): the same text on the first two terms keeps copies identical
  if (rng.chance(1, 3)) {
    const auto n = pickName();
    const int how = rng.range(0, 2);
    for (size_t i = 0; i < 2 && i < terms.size(); ++i) {
      if (how != 1) f.SetConventionFor(terms[i], "about " + n);
      if (how != 0) f.SetDefinitionFor(terms[i], "see @{" + n + "|nomn,sing} and " + n);
      if (!rng.chance(3, 4)) break;
    }
  }
  const RSForm before = f;
  const auto tr = f.Ops().DeleteDuplicates();
  emit("c12 dups " + nosp(dumpFormK(before)), trWire(tr) + " " + nosp(dumpFormK(f)));   // translation and resulting content: both compared with the Lean model
  std::string bad;
  for (const auto& [k, v] : tr) {
    if (!before.Contains(k)) bad = "key " + std::to_string(k) + " never existed";
    else if (f.Contains(k)) bad = "removed " + before.GetRS(k).alias + " is still present";
    else if (!f.Contains(v)) bad = "image of " + before.GetRS(k).alias + " (uid " + std::to_string(v) + ") is not in the schema";
  }
  if (bad.empty() && std::size(f.Core()) + std::size(tr) != std::size(before.Core())) bad = "constituent count does not match the translation";
  chk("dups-translation-valid", bad);
  if (!bad.empty()) return;
  std::map<std::string, std::string> m;
  for (const auto uid : before.Core()) m[before.GetRS(uid).alias] = f.GetRS(tr.ContainsKey(uid) ? tr(uid) : uid).alias;
  for (const auto uid : before.Core()) {
    const auto img = tr.ContainsKey(uid) ? tr(uid) : uid;
    const auto want = renameIds(before.GetRS(uid).definition, m);
    if (want != f.GetRS(img).definition) bad = before.GetRS(uid).alias + ": definition [" + f.GetRS(img).definition + "] expected [" + want + "]";
    if (before.GetRS(uid).type != f.GetRS(img).type) bad = before.GetRS(uid).alias + ": kind changed";
  }
  chk("dups-mentions-rewritten", bad);
  bad.clear();
  for (const auto u1 : f.Core()) for (const auto u2 : f.Core()) {
    if (u1 >= u2) continue;
    const auto& r1 = f.GetRS(u1); const auto& r2 = f.GetRS(u2);
    if (r1.definition.empty() && r1.convention.empty()) continue;
    if (r1.type == r2.type && r1.definition == r2.definition && r1.convention == r2.convention && f.GetText(u1) == f.GetText(u2))
      bad = r1.alias + " and " + r2.alias + " are still duplicates";
  }
  chk("dups-none-left", bad);
}

int main() {
  vh::Rng rng(vh::seedFromEnv());
  const bool deep = vh::thorough();
  algebra(rng, deep ? 20000 : 2000);
  const int N = deep ? 2500 : 250;
  const char* only = std::getenv("VERIF_CASE");   // debugging aid: run one case in-process
  for (int i = 0; i < N; ++i) {
    const auto cs = rng.next();
    vh::Rng sub(cs);
    if (only != nullptr) { if (std::atoi(only) == i) { ccl::verif::Seed(static_cast<uint32_t>(cs)); synthesisCase(sub); } continue; }
    vh::forkedEmit([&] { ccl::verif::Seed(static_cast<uint32_t>(cs)); synthesisCase(sub); }, "c12 crash", 60);
    vh::forkedEmit([&] { ccl::verif::Seed(static_cast<uint32_t>(cs)); vh::Rng sub2(cs ^ 0x9E3779B97F4A7C15ULL); dupCase(sub2); }, "c12 crash", 60);
  }
  return 0;
}
