// Shared helpers for the schema-level harnesses (C07, C11, …): the definition fragment
// (empty / unparsable / union of global names) and its wire form.
#pragma once
#include "common.hpp"
#include <string>
#include <vector>

static const std::string UNION = "\xE2\x88\xAA";
static const std::string BOOL = "\xE2\x84\xAC";

struct FragDef { int kind; std::vector<std::string> names; };  // 0 empty, 1 union, 2 bad

inline std::string renderDef(const FragDef& d) {
  if (d.kind == 0) return "";
  if (d.kind == 2) return UNION + "(";
  std::string out;
  for (size_t i = 0; i < d.names.size(); ++i) { if (i) out += UNION; out += d.names[i]; }
  return out;
}
inline std::string wireDef(const FragDef& d) {
  if (d.kind == 0) return "-";
  if (d.kind == 2) return "bad";
  std::string out = "u:";
  for (size_t i = 0; i < d.names.size(); ++i) { if (i) out += "+"; out += d.names[i]; }
  return out;
}

// wire form of a definition text as stored by the implementation (insertion may have renamed
// self-mentions when the alias was re-issued)
inline std::string wireOfText(const std::string& t) {
  if (t.empty()) return "-";
  if (t.find('(') != std::string::npos) return "bad";
  std::string out = "u:", cur;
  size_t i = 0;
  while (i < t.size()) {
    if (t.compare(i, UNION.size(), UNION) == 0) { out += cur + "+"; cur.clear(); i += UNION.size(); }
    else cur.push_back(t[i++]);
  }
  return out + cur;
}

