// C03 correspondence harness: the real parser + Auditor::CheckType/CheckValue over generated
// contexts (real Schema objects and a hand-made TypeContext) and generated expressions
// (type-directed, every node kind, near-miss mutants, both syntaxes). Every check runs in a
// forked child: an escaped exception / sanitizer abort / assert is the observation `fault:...`.
//
// Lines:  c03 reset | c03 traits | c03 ctx | c03 vc | c03 ast   (context, impl column "ok")
//         c03 check <ast wire>      impl: `<verdict> <type> e=<errs> a=<args> v=<vclass> ve=<errs>`
//         c03 chkerrs lo hi errs    impl: `1` (requirement: a rejected input carries >= 1 critical
//                                   error positioned inside the expression)
// The inputs of the defects K1..K7 that this check found (all repaired in /repo) stay in the
// always-run corpus below; their generator classes (logic-global / idx0 mutants, binders in
// argument domains, filters over empty sets) are part of every run.
#include "common.hpp"
#include "ast_wire.hpp"
#include "ccl/rslang/Auditor.h"
#include "ccl/rslang/Parser.h"
#include "ccl/semantic/Schema.h"
#include <algorithm>
#include <map>
#include <set>
#include <optional>

using namespace ccl;
using rslang::Typification;
using rslang::ExpressionType;
using rslang::LogicT;
using rslang::Syntax;
using rslang::TokenID;
using semantic::CstType;
using vh::emit;


// ------------------------------------------------------------------ types
static Typification TB(const std::string& id) { return Typification(id); }
static Typification TC(const Typification& t) { return t.Bool(); }
static Typification TT(std::vector<Typification> cs) { return Typification::Tuple(std::move(cs)); }

static std::string tyWire(const Typification& t) {
  if (t.IsElement()) return t.E().baseID;
  if (t.IsCollection()) return "B[" + tyWire(t.B().Base()) + "]";
  std::string out = "T[";
  for (rslang::Index i = 1; i <= t.T().Arity(); ++i) { if (i > 1) out += ","; out += tyWire(t.T().Component(i)); }
  return out + "]";
}
static std::string etWire(const ExpressionType& t) {
  return std::holds_alternative<LogicT>(t) ? "LOGIC" : tyWire(std::get<Typification>(t));
}
static std::string etStr(const ExpressionType& t) {
  return std::holds_alternative<LogicT>(t) ? "LOGIC" : std::get<Typification>(t).ToString();
}

// ------------------------------------------------------------------ hand-made context
struct FakeEnv final : rslang::TypeContext {
  struct El {
    std::optional<ExpressionType> type;
    std::optional<rslang::FunctionArguments> args;
    std::optional<rslang::TypeTraits> traits;
    rslang::ValueClass vc{ rslang::ValueClass::invalid };
    std::optional<rslang::SyntaxTree> ast;
  };
  std::map<std::string, El> data;
  const ExpressionType* TypeFor(const std::string& n) const final {
    auto it = data.find(n); return it == data.end() || !it->second.type ? nullptr : &*it->second.type;
  }
  const rslang::FunctionArguments* FunctionArgsFor(const std::string& n) const final {
    auto it = data.find(n); return it == data.end() || !it->second.args ? nullptr : &*it->second.args;
  }
  // same decision sequence as Schema::TraitsFor
  std::optional<rslang::TypeTraits> TraitsFor(const Typification& t) const final {
    if (!t.IsElement()) return std::nullopt;
    if (t == Typification::Integer()) return rslang::TraitsIntegral;
    auto it = data.find(t.E().baseID); if (it == data.end()) return std::nullopt;
    return it->second.traits;
  }
  rslang::ValueClassContext VC() const {
    return [this](const std::string& n) { auto it = data.find(n); return it == data.end() ? rslang::ValueClass::invalid : it->second.vc; };
  }
  rslang::SyntaxTreeContext AST() const {
    return [this](const std::string& n) -> const rslang::SyntaxTree* {
      auto it = data.find(n); return it == data.end() || !it->second.ast ? nullptr : &*it->second.ast; };
  }
};

// what the generator knows about a global (read back from the real context object)
struct GInfo {
  std::string name;
  bool typed{ false };
  bool logic{ false };
  Typification type{ "?" };
  std::vector<std::pair<std::string, Typification>> args;
  bool isFunc{ false };
};

struct CtxView {
  const rslang::TypeContext* types{};
  rslang::ValueClassContext vc;
  rslang::SyntaxTreeContext ast;
  std::vector<std::string> names;
  std::vector<GInfo> globals;
};

static void exportCtx(CtxView& cv) {
  emit("c03 reset", "ok");
  cv.globals.clear();
  for (const auto& n : cv.names) {
    if (const auto tr = cv.types->TraitsFor(TB(n)); tr.has_value()) {
      std::string bits; bits += tr->isIterable ? '1' : '0'; bits += tr->isOrdered ? '1' : '0';
      bits += tr->isOperable ? '1' : '0'; bits += tr->convertsFromInt ? '1' : '0';
      emit("c03 traits " + n + " " + bits, "ok");
    }
    GInfo g; g.name = n;
    if (const auto* t = cv.types->TypeFor(n); t != nullptr) {
      g.typed = true; g.logic = std::holds_alternative<LogicT>(*t);
      if (!g.logic) g.type = std::get<Typification>(*t);
      std::string line = "c03 ctx " + n + " " + etWire(*t);
      if (const auto* a = cv.types->FunctionArgsFor(n); a != nullptr) {
        g.isFunc = true;
        for (const auto& arg : *a) { line += " " + arg.name + ":" + tyWire(arg.type); g.args.emplace_back(arg.name, arg.type); }
      }
      emit(line, "ok");
    }
    const auto c = cv.vc(n);
    if (c != rslang::ValueClass::invalid) emit("c03 vc " + n + (c == rslang::ValueClass::value ? " value" : " props"), "ok");
    if (g.isFunc) if (const auto* tree = cv.ast(n); tree != nullptr) emit("c03 ast " + n + " " + vh::astWire(tree->Root()), "ok");
    cv.globals.push_back(g);
  }
}

// ------------------------------------------------------------------ expression trees + rendering
struct E {
  std::string op;
  std::vector<E> k;
  std::string name;
  std::vector<int> idx;
};
static E mk(std::string op, std::vector<E> k = {}, std::string name = {}, std::vector<int> idx = {}) {
  return E{ std::move(op), std::move(k), std::move(name), std::move(idx) };
}
static E id(const std::string& n) { return mk("id", {}, n); }

struct Sp { const char* op; const char* math; const char* ascii; };
static const Sp SPELL[] = {
  {"union", "\xE2\x88\xAA", " \\union "}, {"inter", "\xE2\x88\xA9", " \\intersect "}, {"minus", "\\", " \\setminus "},
  {"symm", "\xE2\x88\x86", " \\symmdiff "}, {"plus", "+", " \\plus "}, {"sub", "-", " \\minus "}, {"mul", "*", " \\multiply "},
  {"decart", "\xC3\x97", "*"},
  {"in", "\xE2\x88\x88", " \\in "}, {"notin", "\xE2\x88\x89", " \\notin "}, {"subset", "\xE2\x8A\x82", " \\subset "},
  {"subseteq", "\xE2\x8A\x86", " \\subseteq "}, {"notsubset", "\xE2\x8A\x84", " \\notsubset "},
  {"eq", "=", " \\eq "}, {"neq", "\xE2\x89\xA0", " \\noteq "}, {"gr", ">", " \\gr "}, {"ls", "<", " \\ls "},
  {"ge", "\xE2\x89\xA5", " \\ge "}, {"le", "\xE2\x89\xA4", " \\le "},
  {"and", " & ", " \\and "}, {"or", " \xE2\x88\xA8 ", " \\or "}, {"impl", " \xE2\x87\x92 ", " \\impl "}, {"equiv", " \xE2\x87\x94 ", " \\equiv "},
  {"not", "\xC2\xAC", "\\neg "}, {"forall", "\xE2\x88\x80", "\\A "}, {"exists", "\xE2\x88\x83", "\\E "},
  {"B", "\xE2\x84\xAC", "B"}, {"empty", "\xE2\x88\x85", "{}"}, {"iter", ":\xE2\x88\x88", " \\from "}, {"assign", ":=", " \\assign "},
  {"define", ":==", " \\defexpr "}, {"struct", "::=", " \\deftype "},
};
static std::string sp(const std::string& op, bool ascii) {
  for (const auto& s : SPELL) if (op == s.op) return ascii ? s.ascii : s.math;
  return "?" + op + "?";
}
static bool isSetBin(const std::string& op) {
  return op == "union" || op == "inter" || op == "minus" || op == "symm" || op == "plus" || op == "sub" || op == "mul" || op == "decart";
}
static bool isPred(const std::string& op) {
  return op == "in" || op == "notin" || op == "subset" || op == "subseteq" || op == "notsubset" || op == "eq" || op == "neq" ||
         op == "gr" || op == "ls" || op == "ge" || op == "le";
}
static bool isLogBin(const std::string& op) { return op == "and" || op == "or" || op == "impl" || op == "equiv"; }

static std::string render(const E& e, bool ascii);
static std::string renderOperand(const E& e, bool ascii) {   // operand of a set-level binary operation / predicate
  if (isSetBin(e.op)) return "(" + render(e, ascii) + ")";
  return render(e, ascii);
}
static std::string renderLogicOperand(const E& e, bool ascii) {
  if (isLogBin(e.op)) return "(" + render(e, ascii) + ")";
  return render(e, ascii);
}
static std::string idxStr(const std::vector<int>& idx) {
  std::string s; for (size_t i = 0; i < idx.size(); ++i) { if (i) s += ","; s += std::to_string(idx[i]); } return s;
}
static std::string commaList(const std::vector<E>& k, size_t from, size_t to, bool ascii) {
  std::string s; for (size_t i = from; i < to; ++i) { if (i > from) s += ", "; s += render(k[i], ascii); } return s;
}
static std::string render(const E& e, bool ascii) {
  const auto& op = e.op;
  if (op == "id" || op == "int") return e.name;
  if (op == "Z") return "Z";
  if (op == "empty") return sp("empty", ascii);
  if (isSetBin(op)) {
    std::string s;
    for (size_t i = 0; i < e.k.size(); ++i) { if (i) s += sp(op, ascii); s += renderOperand(e.k[i], ascii); }
    return s;
  }
  if (isPred(op)) return renderOperand(e.k[0], ascii) + sp(op, ascii) + renderOperand(e.k[1], ascii);
  if (op == "ppred") return "(" + render(e.k[0], ascii) + ")";
  if (isLogBin(op)) return renderLogicOperand(e.k[0], ascii) + sp(op, ascii) + renderLogicOperand(e.k[1], ascii);
  if (op == "not") return sp(op, ascii) + renderLogicOperand(e.k[0], ascii);
  if (op == "forall" || op == "exists")
    return sp(op, ascii) + render(e.k[0], ascii) + sp("in", ascii) + renderOperand(e.k[1], ascii) + " " + renderLogicOperand(e.k[2], ascii);
  if (op == "venum") return commaList(e.k, 0, e.k.size(), ascii);
  if (op == "vtuple" || op == "tuple") return "(" + commaList(e.k, 0, e.k.size(), ascii) + ")";
  if (op == "enum") return "{" + commaList(e.k, 0, e.k.size(), ascii) + "}";
  if (op == "card" || op == "bool" || op == "debool" || op == "red") return op + "(" + render(e.k[0], ascii) + ")";
  if (op == "pr" || op == "Pr") return op + idxStr(e.idx) + "(" + render(e.k[0], ascii) + ")";
  if (op == "Fi") return "Fi" + idxStr(e.idx) + "[" + commaList(e.k, 0, e.k.size() - 1, ascii) + "](" + render(e.k.back(), ascii) + ")";
  if (op == "B") {
    if (e.k[0].op == "B") return sp("B", ascii) + render(e.k[0], ascii);
    return sp("B", ascii) + "(" + render(e.k[0], ascii) + ")";
  }
  if (op == "D") return "D{" + render(e.k[0], ascii) + sp("in", ascii) + renderOperand(e.k[1], ascii) + " | " + render(e.k[2], ascii) + "}";
  if (op == "Dshort") return "{" + render(e.k[0], ascii) + sp("in", ascii) + renderOperand(e.k[1], ascii) + " | " + render(e.k[2], ascii) + "}";
  if (op == "R") return "R{" + render(e.k[0], ascii) + sp("assign", ascii) + render(e.k[1], ascii) + " | " + render(e.k[2], ascii) + "}";
  if (op == "Rfull") return "R{" + render(e.k[0], ascii) + sp("assign", ascii) + render(e.k[1], ascii) + " | " + render(e.k[2], ascii) + " | " + render(e.k[3], ascii) + "}";
  if (op == "I") {
    std::string s = "I{" + render(e.k[0], ascii) + " | ";
    for (size_t i = 1; i < e.k.size(); ++i) { if (i > 1) s += "; "; s += render(e.k[i], ascii); }
    return s + "}";
  }
  if (op == "iter" || op == "assign") return render(e.k[0], ascii) + sp(op, ascii) + render(e.k[1], ascii);
  if (op == "call") return e.name + "[" + commaList(e.k, 0, e.k.size(), ascii) + "]";
  if (op == "argdecl") return e.name + sp("in", ascii) + render(e.k[0], ascii);
  if (op == "funcdef") return "[" + commaList(e.k, 0, e.k.size() - 1, ascii) + "] " + render(e.k.back(), ascii);
  if (op == "define") return e.name + sp("define", ascii) + (e.k.empty() ? std::string{} : render(e.k[0], ascii));
  if (op == "struct") return e.name + sp("struct", ascii) + render(e.k[0], ascii);
  return "?" + op + "?";
}

// ------------------------------------------------------------------ generator
struct Gen {
  vh::Rng& rng;
  const CtxView& cv;
  std::vector<std::pair<std::string, Typification>> locals;
  std::vector<std::string> retired;   // names whose scope has ended (reuse => double-declare warning)
  int counter{ 0 };
  bool allowReuse{ true };

  Gen(vh::Rng& r, const CtxView& c) : rng(r), cv(c) {}

  std::vector<std::string> baseIds() const {
    std::vector<std::string> out{ "Z" };
    for (const auto& g : cv.globals)
      if (g.typed && !g.logic && !g.isFunc && g.type == TC(TB(g.name))) out.push_back(g.name);
    return out;
  }
  Typification randTy(int d) {
    const auto bases = baseIds();
    const int r = rng.range(0, 99);
    if (d <= 0 || r < 40) return TB(rng.pick(bases));
    if (r < 70) return TC(randTy(d - 1));
    std::vector<Typification> cs; const int n = rng.range(2, 3);
    for (int i = 0; i < n; ++i) cs.push_back(randTy(d - 1));
    return TT(cs);
  }
  std::string freshName() {
    if (allowReuse && !retired.empty() && rng.chance(1, 6)) {
      const auto n = rng.pick(retired);
      bool live = false; for (auto& l : locals) if (l.first == n) live = true;
      if (!live) return n;
    }
    static const char* pool[] = { "a", "b", "c", "d", "x", "y", "z", "w", "t", "s", "u", "v" };
    std::string n = pool[counter % 12]; if (counter >= 12) n += std::to_string(counter / 12);
    ++counter; return n;
  }
  bool hasBaseGlobal(const std::string& idn) const {
    for (const auto& g : cv.globals) if (g.name == idn && g.typed && !g.logic && !g.isFunc && g.type == TC(TB(idn))) return true;
    return false;
  }
  // canonical set expression of type B(s)
  std::optional<E> canonSet(const Typification& s) {
    if (s.IsElement()) {
      if (s == Typification::Integer()) return mk("Z");
      if (hasBaseGlobal(s.E().baseID)) return id(s.E().baseID);
      for (const auto& l : locals) if (l.second == TC(s)) return id(l.first);
      return std::nullopt;
    }
    if (s.IsCollection()) { auto in = canonSet(s.B().Base()); if (!in) return std::nullopt; return mk("B", { *in }); }
    std::vector<E> fs;
    for (rslang::Index i = 1; i <= s.T().Arity(); ++i) { auto f = canonSet(s.T().Component(i)); if (!f) return std::nullopt; fs.push_back(*f); }
    return mk("decart", fs);
  }
  // expression of type t, smallest form
  E canon(const Typification& t) {
    for (const auto& l : locals) if (l.second == t && rng.chance(3, 4)) return id(l.first);
    if (t == Typification::Integer()) return mk("int", {}, std::to_string(rng.range(0, 9)));
    if (t.IsCollection()) { if (auto s = canonSet(t.B().Base())) return *s; return mk("empty"); }
    if (t.IsTuple()) { std::vector<E> cs; for (rslang::Index i = 1; i <= t.T().Arity(); ++i) cs.push_back(canon(t.T().Component(i))); return mk("tuple", cs); }
    for (const auto& l : locals) if (l.second == t) return id(l.first);
    if (auto s = canonSet(t)) return mk("debool", { *s });
    return mk("debool", { mk("enum", { mk("int", {}, "1") }) });   // no way to build it: will be ill-typed
  }
  Typification tupleAround(const Typification& t, int& pos) {
    const int n = rng.range(2, 3); pos = rng.range(1, n);
    std::vector<Typification> cs;
    for (int i = 1; i <= n; ++i) cs.push_back(i == pos ? t : randTy(1));
    return TT(cs);
  }
  bool integral(const Typification& t) const {
    const auto tr = cv.types->TraitsFor(t); return tr.has_value() && tr->isOperable;
  }
  bool ordered(const Typification& t) const {
    const auto tr = cv.types->TraitsFor(t); return tr.has_value() && tr->isOrdered;
  }

  // bind a declaration pattern for an element of type t: returns the pattern and pushes locals
  E declare(const Typification& t, int d) {
    if (t.IsTuple() && d > 0 && rng.chance(1, 2)) {
      std::vector<E> ks;
      for (rslang::Index i = 1; i <= t.T().Arity(); ++i) ks.push_back(declare(t.T().Component(i), d - 1));
      return mk("vtuple", ks);
    }
    const auto n = freshName(); locals.emplace_back(n, t); return id(n);
  }
  void popTo(size_t mark) {
    while (locals.size() > mark) { retired.push_back(locals.back().first); locals.pop_back(); }
  }

  E elem(const Typification& t, int d) {
    std::vector<int> opts;
    // 0 local, 1 global, 2 canon
    for (const auto& l : locals) if (l.second == t) { opts.push_back(0); opts.push_back(0); break; }
    for (const auto& g : cv.globals) if (g.typed && !g.logic && !g.isFunc && g.type == t) { opts.push_back(1); break; }
    if (d <= 0) {
      if (!opts.empty() && rng.chance(4, 5)) {
        if (rng.pick(opts) == 0) { std::vector<std::string> c; for (auto& l : locals) if (l.second == t) c.push_back(l.first); return id(rng.pick(c)); }
        std::vector<std::string> c; for (auto& g : cv.globals) if (g.typed && !g.logic && !g.isFunc && g.type == t) c.push_back(g.name);
        if (!c.empty()) return id(rng.pick(c));
      }
      return canon(t);
    }
    opts.push_back(2);
    opts.push_back(10);                                   // pr_i of a bigger tuple
    opts.push_back(11);                                   // debool
    if (t.IsTuple()) { opts.push_back(12); opts.push_back(12); }   // tuple literal
    if (t == Typification::Integer()) { opts.push_back(13); opts.push_back(14); }   // card, arithmetic
    else if (t.IsElement() && integral(t)) opts.push_back(14);
    if (t.IsCollection()) for (int o = 20; o <= 33; ++o) opts.push_back(o);
    for (const auto& g : cv.globals) if (g.isFunc && !g.logic) { opts.push_back(40); break; }
    const int o = rng.pick(opts);
    switch (o) {
    case 0: { std::vector<std::string> c; for (auto& l : locals) if (l.second == t) c.push_back(l.first); return id(rng.pick(c)); }
    case 1: { std::vector<std::string> c; for (auto& g : cv.globals) if (g.typed && !g.logic && !g.isFunc && g.type == t) c.push_back(g.name); return id(rng.pick(c)); }
    case 2: return canon(t);
    case 10: { int pos = 1; const auto big = tupleAround(t, pos); return mk("pr", { elem(big, d - 1) }, {}, { pos }); }
    case 11: return mk("debool", { elem(TC(t), d - 1) });
    case 12: { std::vector<E> cs; for (rslang::Index i = 1; i <= t.T().Arity(); ++i) cs.push_back(elem(t.T().Component(i), d - 1)); return mk("tuple", cs); }
    case 13: return mk("card", { elem(TC(randTy(1)), d - 1) });
    case 14: {
      static const char* ops[] = { "plus", "sub", "mul" };
      const bool mix = !(t == Typification::Integer()) && rng.chance(1, 2);
      return mk(ops[rng.below(3)], { elem(t, d - 1), elem(mix ? Typification::Integer() : t, d - 1) });
    }
    default: break;
    }
    if (o == 40) {
      // call of a term-function whose (instantiated) result is t, if one matches
      std::vector<const GInfo*> fs; for (auto& g : cv.globals) if (g.isFunc && !g.logic) fs.push_back(&g);
      const auto* f = fs[rng.below(static_cast<uint32_t>(fs.size()))];
      Typification::Substitutes sub;
      if (matchTy(f->type, t, sub)) return call(*f, sub, d);
      return canon(t);
    }
    const auto s = t.B().Base();   // t = B(s)
    switch (o) {
    case 20: case 21: { std::vector<E> cs; const int n = rng.range(1, 3); for (int i = 0; i < n; ++i) cs.push_back(elem(s, d - 1)); return mk("enum", cs); }
    case 22: return mk("bool", { elem(s, d - 1) });
    case 23: case 24: { static const char* ops[] = { "union", "inter", "minus", "symm" }; return mk(ops[rng.below(4)], { elem(t, d - 1), elem(t, d - 1) }); }
    case 25: case 26: {
      const size_t mark = locals.size();
      auto dom = elem(t, d - 1);
      auto var = declare(s, 1);
      auto pred = logic(d - 1);
      popTo(mark);
      const bool shortForm = var.op == "id" && rng.chance(1, 2);
      return mk(shortForm ? "Dshort" : "D", { var, dom, pred });
    }
    case 27: if (s.IsCollection()) return mk("B", { elem(s, d - 1) }); return canon(t);
    case 28: if (s.IsTuple()) { std::vector<E> fs; for (rslang::Index i = 1; i <= s.T().Arity(); ++i) fs.push_back(elem(TC(s.T().Component(i)), d - 1)); return mk("decart", fs); } return canon(t);
    case 29: { int pos = 1; const auto big = tupleAround(s, pos); return mk("Pr", { elem(TC(big), d - 1) }, {}, { pos }); }
    case 30: if (s.IsTuple()) {
      const int n = s.T().Arity(); const int i = rng.range(1, n);
      if (rng.chance(1, 2) || n < 2) return mk("Fi", { elem(TC(s.T().Component(static_cast<rslang::Index>(i))), d - 1), elem(t, d - 1) }, {}, { i });
      int j = rng.range(1, n); if (j == i) j = i % n + 1;
      if (rng.chance(1, 2))
        return mk("Fi", { elem(TC(s.T().Component(static_cast<rslang::Index>(i))), d - 1), elem(TC(s.T().Component(static_cast<rslang::Index>(j))), d - 1), elem(t, d - 1) }, {}, { i, j });
      return mk("Fi", { elem(TC(TT({ s.T().Component(static_cast<rslang::Index>(i)), s.T().Component(static_cast<rslang::Index>(j)) })), d - 1), elem(t, d - 1) }, {}, { i, j });
    } return canon(t);
    case 31: return mk("red", { elem(TC(t), d - 1) });
    case 32: {   // imperative
      const size_t mark = locals.size();
      std::vector<E> blocks;
      const int n = rng.range(1, 3);
      for (int i = 0; i < n; ++i) {
        const int r = rng.range(0, 2);
        if (r == 0) { const auto vt = (i == 0) ? s : randTy(1); auto dom = elem(TC(vt), d - 1); auto var = declare(vt, 1); blocks.push_back(mk("iter", { var, dom })); }
        else if (r == 1) { const auto vt = randTy(1); auto ex = elem(vt, d - 1); auto var = declare(vt, 1); blocks.push_back(mk("assign", { var, ex })); }
        else blocks.push_back(logic(d - 1));
      }
      auto value = elem(s, d - 1);
      popTo(mark);
      std::vector<E> ks{ value }; ks.insert(ks.end(), blocks.begin(), blocks.end());
      return mk("I", ks);
    }
    case 33: {   // recursion
      const size_t mark = locals.size();
      auto init = elem(t, d - 1);
      auto var = declare(t, 0);
      const bool full = rng.chance(1, 3);
      std::optional<E> cond; if (full) cond = logic(d - 1);
      auto body = rng.chance(1, 2) ? mk("union", { id(var.name), elem(t, d - 1) }) : elem(t, d - 1);
      popTo(mark);
      if (full) return mk("Rfull", { var, init, *cond, body });
      return mk("R", { var, init, body });
    }
    default: return canon(t);
    }
  }

  static bool radicalId(const std::string& s) { return s.size() >= 2 && s[0] == 'R' && s[1] != '0' && std::isdigit(static_cast<unsigned char>(s[1])); }
  // pattern (declared type with radicals) against a concrete type
  bool matchTy(const Typification& pat, const Typification& t, Typification::Substitutes& sub) {
    if (pat.IsElement()) {
      if (radicalId(pat.E().baseID)) {
        auto it = sub.find(pat.E().baseID);
        if (it == sub.end()) { sub.insert({ pat.E().baseID, t }); return true; }
        return it->second == t;
      }
      return pat == t;
    }
    if (pat.IsCollection()) return t.IsCollection() && matchTy(pat.B().Base(), t.B().Base(), sub);
    if (!t.IsTuple() || t.T().Arity() != pat.T().Arity()) return false;
    for (rslang::Index i = 1; i <= pat.T().Arity(); ++i) if (!matchTy(pat.T().Component(i), t.T().Component(i), sub)) return false;
    return true;
  }
  void collectRadicals(const Typification& t, std::set<std::string>& out) {
    if (t.IsElement()) { if (radicalId(t.E().baseID)) out.insert(t.E().baseID); return; }
    if (t.IsCollection()) { collectRadicals(t.B().Base(), out); return; }
    for (rslang::Index i = 1; i <= t.T().Arity(); ++i) collectRadicals(t.T().Component(i), out);
  }
  E call(const GInfo& f, Typification::Substitutes sub, int d) {
    std::set<std::string> rads;
    for (const auto& a : f.args) collectRadicals(a.second, rads);
    for (const auto& r : rads) if (!sub.contains(r)) sub.insert({ r, randTy(1) });
    std::vector<E> as;
    for (const auto& a : f.args) {
      Typification at = a.second; if (!sub.empty()) at.SubstituteBase(sub);
      if (at.IsCollection() && rng.chance(1, 12)) as.push_back(mk("empty")); else as.push_back(elem(at, d - 1));
    }
    return mk("call", as, f.name);
  }

  E logic(int d) {
    const int r = rng.range(0, d <= 0 ? 5 : 13);
    switch (r) {
    default:
    case 0: case 1: { const auto t = randTy(d <= 0 ? 0 : 1); return mk(rng.chance(3, 4) ? "eq" : "neq", { elem(t, d - 1), elem(t, d - 1) }); }
    case 2: case 3: { const auto t = randTy(d <= 0 ? 0 : 1); return mk(rng.chance(3, 4) ? "in" : "notin", { elem(t, d - 1), elem(TC(t), d - 1) }); }
    case 4: { const auto t = TC(randTy(d <= 0 ? 0 : 1)); static const char* ops[] = { "subset", "subseteq", "notsubset" }; return mk(ops[rng.below(3)], { elem(t, d - 1), elem(t, d - 1) }); }
    case 5: {
      std::vector<Typification> os{ Typification::Integer() };
      for (const auto& b : baseIds()) if (ordered(TB(b))) os.push_back(TB(b));
      const auto t = rng.pick(os); static const char* ops[] = { "gr", "ls", "ge", "le" };
      return mk(ops[rng.below(4)], { elem(t, d - 1), elem(rng.chance(1, 4) ? Typification::Integer() : t, d - 1) });
    }
    case 6: return mk("not", { logic(d - 1) });
    case 7: case 8: { static const char* ops[] = { "and", "or", "impl", "equiv" }; return mk(ops[rng.below(4)], { logic(d - 1), logic(d - 1) }); }
    case 9: case 10: case 11: {
      const size_t mark = locals.size();
      const auto t = randTy(1);
      auto dom = elem(TC(t), d - 1);
      E var = mk("?");
      if (rng.chance(1, 4)) { std::vector<E> vs; const int n = rng.range(2, 3); for (int i = 0; i < n; ++i) vs.push_back(declare(t, 1)); var = mk("venum", vs); }
      else var = declare(t, 1);
      auto body = logic(d - 1);
      popTo(mark);
      return mk(rng.chance(1, 2) ? "forall" : "exists", { var, dom, body });
    }
    case 12: {
      std::vector<const GInfo*> ps; for (auto& g : cv.globals) if (g.isFunc && g.logic) ps.push_back(&g);
      if (ps.empty()) return logic(d - 1);
      return call(*ps[rng.below(static_cast<uint32_t>(ps.size()))], {}, d);
    }
    case 13: { auto p = logic(0); if (isPred(p.op)) return mk("ppred", { p }); return p; }
    }
  }

  // [args] body
  E funcdef(int d, bool pred) {
    const size_t mark = locals.size();
    std::vector<E> ks;
    const int n = rng.range(1, 3);
    int rad = 1;
    for (int i = 0; i < n; ++i) {
      // domain: a set expression, possibly with radicals
      Typification et = randTy(1);
      E dom = mk("?");
      const int r = rng.range(0, 3);
      if (r == 0) { const auto rn = "R" + std::to_string(rng.chance(1, 3) && rad > 1 ? rad - 1 : rad++); et = TB(rn); dom = id(rn); }
      else if (r == 1) { const auto rn = "R" + std::to_string(rad++); et = TC(TB(rn)); dom = mk("B", { id(rn) }); }
      else if (r == 2) { const auto rn = "R" + std::to_string(rad++); const auto other = randTy(0); et = TT({ TB(rn), other }); auto oc = canonSet(other); dom = mk("decart", { id(rn), oc ? *oc : mk("Z") }); }
      else { dom = elem(TC(et), d - 1); }
      const auto an = freshName(); locals.emplace_back(an, et);
      ks.push_back(mk("argdecl", { dom }, an));
    }
    ks.push_back(pred ? logic(d) : elem(rng.chance(1, 2) && !locals.empty() ? TC(locals.back().second) : TC(randTy(1)), d));
    popTo(mark);
    return mk("funcdef", ks);
  }
};

// ------------------------------------------------------------------ mutation
static void collect(E& e, std::vector<E*>& out) { out.push_back(&e); for (auto& k : e.k) collect(k, out); }

struct MutInfo { std::string kind; bool known{ false }; };

static MutInfo mutate(E& root, vh::Rng& rng, const CtxView& cv) {
  std::vector<E*> nodes; collect(root, nodes);
  std::string logicGlobal, funcName;
  for (auto& g : cv.globals) { if (g.typed && g.logic && !g.isFunc) logicGlobal = g.name; if (g.isFunc) funcName = g.name; }
  for (int attempt = 0; attempt < 20; ++attempt) {
    E& n = *nodes[rng.below(static_cast<uint32_t>(nodes.size()))];
    const int m = rng.range(0, 13);
    const bool operand = n.op != "vtuple" && n.op != "venum" && n.op != "argdecl" && n.op != "iter" && n.op != "assign" && n.op != "funcdef" &&
      !isPred(n.op) && !isLogBin(n.op) && n.op != "not" && n.op != "forall" && n.op != "exists" && n.op != "ppred" && n.op != "define" && n.op != "struct";
    switch (m) {
    case 0: if (operand && !logicGlobal.empty() && &n != &root) { n = id(logicGlobal); return { "logic-global", true }; } break;
    case 1: if (operand && &n != &root) { n = mk("empty"); return { "emptyset", false }; } break;
    case 2: if (n.k.size() == 2 && (isPred(n.op) || isSetBin(n.op))) { std::swap(n.k[0], n.k[1]); return { "swap", false }; } break;
    case 3: if (!n.idx.empty()) { n.idx[rng.below(static_cast<uint32_t>(n.idx.size()))] = 0; bool all0 = true; for (int i : n.idx) if (i) all0 = false; return { "idx0", all0 }; } break;
    case 4: if (!n.idx.empty()) { n.idx[rng.below(static_cast<uint32_t>(n.idx.size()))] = rng.range(3, 5); return { "idx-big", false }; } break;
    case 5: if ((n.op == "tuple" || n.op == "vtuple") && n.k.size() > 2) { n.k.pop_back(); return { "arity-drop", false }; } break;
    case 6: if (n.op == "tuple" || n.op == "vtuple" || n.op == "call" || n.op == "enum") { n.k.push_back(n.k[0]); return { "arity-add", false }; } break;
    case 7: if (n.op == "call" && n.k.size() > 1) { n.k.pop_back(); return { "call-arity", false }; } break;
    case 8: if (n.op == "id" && !n.name.empty() && std::islower(static_cast<unsigned char>(n.name[0]))) { n.name = "q9"; return { "undeclared", false }; } break;
    case 9: if (n.op == "int") { n.name = rng.chance(1, 2) ? "2147483647" : "0"; return { "int-corner", false }; } break;
    case 10: if (operand && &n != &root) { n = mk("int", {}, "1"); return { "int-for-any", false }; } break;
    case 11: if (operand && &n != &root) { n = mk("Z"); return { "Z-for-any", false }; } break;
    case 12: if (operand && &n != &root && !funcName.empty()) { n = id(funcName); return { "func-no-args", false }; } break;
    case 13: if (n.op == "Fi" && n.k.size() >= 2) { n.idx.push_back(1); return { "filter-arity", false }; } break;
    default: break;
    }
  }
  return { "none", false };
}

// ------------------------------------------------------------------ running one case
static std::map<std::string, long> hist;

static void walk(rslang::SyntaxTree::Cursor c) {
  ++hist[std::string("node:") + vh::tokName(c->id)];
  for (rslang::Index i = 0; i < c.ChildrenCount(); ++i) walk(c.Child(i));
}

static std::string errList(const std::vector<rslang::Error>& all, size_t from, size_t to) {
  std::vector<std::pair<uint32_t, int>> v;
  for (size_t i = from; i < to; ++i) v.emplace_back(all[i].eid, all[i].position);
  std::sort(v.begin(), v.end());
  if (v.empty()) return "-";
  std::string s; char buf[32];
  for (size_t i = 0; i < v.size(); ++i) { if (i) s += ","; std::snprintf(buf, sizeof buf, "%x@%d", v[i].first, v[i].second); s += buf; }
  return s;
}

static void runCase(const CtxView& cv, const std::string& text, Syntax syn, const std::string& cls) {
  rslang::Parser parser{};
  if (!parser.Parse(text, syn)) { ++hist["parse-fail:" + cls]; return; }
  const auto root = parser.AST().Root();
  walk(root);
  const auto wire = vh::astWire(root);
  const int lo = root->pos.start, hi = root->pos.finish;
  const auto res = vh::forked([&]() -> std::string {
    if (!std::getenv("VERIF_CHILD_STDERR")) (void)!freopen("/dev/null", "w", stderr);   // sanitizer reports of expected faults
    rslang::Auditor aud{ *cv.types, cv.vc, cv.ast };
    const bool ok = aud.CheckType(text, syn);
    if (!aud.isParsed) return "noparse";
    const auto n1 = aud.Errors().All().size();
    if (!ok) return "fail - e=" + errList(aud.Errors().All(), 0, n1) + " a=- v=- ve=-";
    std::string args;
    for (const auto& a : aud.GetDeclarationArgs()) { if (!args.empty()) args += ";"; args += a.name + ":" + a.type.ToString(); }
    if (args.empty()) args = "-";
    const std::string type = etStr(aud.GetType());
    const bool vok = aud.CheckValue();
    const auto vc = aud.GetValueClass();
    const std::string v = !vok ? "fail" : vc == rslang::ValueClass::value ? "value" : vc == rslang::ValueClass::props ? "props" : "invalid";
    return "ok " + type + " e=" + errList(aud.Errors().All(), 0, n1) + " a=" + args + " v=" + v + " ve=" + errList(aud.Errors().All(), n1, aud.Errors().All().size());
  });
  // the one input class of the recorded finding C03-recursion-deduction-bound has its own op name (the specification
  // column demands acceptance there: Properties/C03 recursion_needs_bound_counterexample shows the input typable)
  emit(std::string(cls == "K12:recursion-bound" ? "c03 check-recbound " : "c03 check ") + wire, res);
  ++hist["class:" + cls];
  if (res.rfind("fault:", 0) == 0) { ++hist["verdict:fault"]; ++hist["fault:" + cls]; return; }
  if (res.rfind("ok ", 0) == 0) { ++hist["verdict:ok"]; }
  else if (res.rfind("fail", 0) == 0) {
    ++hist["verdict:fail"];
    const auto e = res.substr(res.find("e=") + 2, res.find(" a=") - res.find("e=") - 2);
    emit("c03 chkerrs " + std::to_string(lo) + " " + std::to_string(hi) + " " + e, "1");
    if (e == "-") ++hist["silent-fail:" + cls];
    size_t p = 0;
    while (p < e.size() && e != "-") { const auto q = e.find('@', p); ++hist["eid:" + e.substr(p, q - p)]; const auto c = e.find(',', q); if (c == std::string::npos) break; p = c + 1; }
  }
}

static void runBoth(const CtxView& cv, const E& e, const std::string& cls) {
  runCase(cv, render(e, false), Syntax::MATH, cls);
  runCase(cv, render(e, true), Syntax::ASCII, cls);
}

// ------------------------------------------------------------------ contexts
struct SchemaCtx {
  semantic::Schema schema;
  CtxView cv;
  EntityUID next{ 1 };
  void add(const std::string& alias, CstType t, const std::string& def = {}) {
    schema.Emplace(next++, alias, t, def);
    cv.names.push_back(alias);
  }
  void finish() {
    cv.types = &schema; cv.vc = schema.VCContext(); cv.ast = schema.ASTContext();
    exportCtx(cv);
  }
  void refresh() {   // names known so far, without emitting
    cv.types = &schema; cv.vc = schema.VCContext(); cv.ast = schema.ASTContext();
    cv.globals.clear();
    for (const auto& n : cv.names) {
      GInfo g; g.name = n;
      if (const auto* t = schema.TypeFor(n)) {
        g.typed = true; g.logic = std::holds_alternative<LogicT>(*t); if (!g.logic) g.type = std::get<Typification>(*t);
        if (const auto* a = schema.FunctionArgsFor(n)) { g.isFunc = true; for (const auto& arg : *a) g.args.emplace_back(arg.name, arg.type); }
      }
      cv.globals.push_back(g);
    }
  }
};

static void buildSchema(SchemaCtx& sc, vh::Rng& rng, bool rich) {
  sc.add("X1", CstType::base);
  sc.add("X2", CstType::base);
  sc.add("C1", CstType::constant);
  sc.refresh();
  const int nS = rich ? rng.range(2, 4) : 2;
  for (int i = 1; i <= nS; ++i) {
    Gen g(rng, sc.cv);
    Typification t = i == 1 ? TC(TT({ TB("X1"), TB("X1") })) : g.randTy(rng.range(1, 3));
    auto dom = g.canonSet(t);
    sc.add("S" + std::to_string(i), CstType::structured, render(dom ? *dom : id("X1"), false));
    sc.refresh();
  }
  sc.add("A1", CstType::axiom, "1=1");
  sc.refresh();
  const int nD = rich ? rng.range(2, 4) : 2;
  for (int i = 1; i <= nD; ++i) {
    Gen g(rng, sc.cv); g.allowReuse = false;
    sc.add("D" + std::to_string(i), CstType::term, render(g.elem(TC(g.randTy(rng.range(0, 2))), 2), false));
    sc.refresh();
  }
  sc.add("D9", CstType::term, "X1\xE2\x88\xAAS1\xE2\x88\xAA" "1");       // deliberately broken: no type
  sc.add("D8", CstType::term, "\xE2\x88\x85");                            // B(R0)
  sc.add("F1", CstType::function, "[\xCE\xB1\xE2\x88\x88\xE2\x84\xAC(R1), \xCE\xB2\xE2\x88\x88R1] \xCE\xB1\\{\xCE\xB2}");   // [α∈ℬ(R1), β∈R1] α\{β}
  sc.add("F2", CstType::function, "[\xCF\x83\xE2\x88\x88\xE2\x84\xAC(R1\xC3\x97R2)] Pr1(\xCF\x83)");                          // [σ∈ℬ(R1×R2)] Pr1(σ)
  sc.add("F6", CstType::function, "[\xCE\xB1\xE2\x88\x88\xE2\x84\xAC(R1), \xCE\xB2\xE2\x88\x88\xE2\x84\xAC(R1)] \xCE\xB1\xE2\x88\xAA\xCE\xB2");       // [α∈ℬ(R1), β∈ℬ(R1)] α∪β
  // one radical in two parameters, the later one nested deeper (seeded change C02-5: an any-typed later argument
  // overwrote the binding made by an informative earlier one)
  sc.add("F8", CstType::function, "[\xCE\xB1\xE2\x88\x88\xE2\x84\xAC(R1), \xCE\xB2\xE2\x88\x88\xE2\x84\xAC\xE2\x84\xAC(R1)] \xCE\xB1");         // [α∈ℬ(R1), β∈ℬℬ(R1)] α
  sc.add("P1", CstType::predicate, "[a\xE2\x88\x88X1, b\xE2\x88\x88\xE2\x84\xAC(X1)] a\xE2\x88\x88" "b");                   // [a∈X1, b∈ℬ(X1)] a∈b
  sc.refresh();
  const int nF = rich ? rng.range(1, 3) : 0;
  for (int i = 0; i < nF; ++i) {
    Gen g(rng, sc.cv); g.allowReuse = false;
    const bool pred = rng.chance(1, 3);
    sc.add((pred ? "P" : "F") + std::to_string(3 + i), pred ? CstType::predicate : CstType::function, render(g.funcdef(2, pred), false));
    sc.refresh();
  }
  sc.add("T1", CstType::theorem, "\xE2\x88\x80x\xE2\x88\x88X1 x=x");
  sc.finish();
}

static void buildFake(FakeEnv& env, CtxView& cv) {
  auto base = [&](const std::string& n, rslang::TypeTraits tr) {
    env.data[n].type = ExpressionType{ TC(TB(n)) }; env.data[n].traits = tr; env.data[n].vc = rslang::ValueClass::value;
  };
  base("X1", rslang::TraitsNominal); base("X2", rslang::TraitsNominal);
  base("C1", rslang::TraitsIntegral); base("C2", rslang::TraitsOrdered); base("C3", rslang::TypeTraits{ true, true, true, false });
  auto put = [&](const std::string& n, ExpressionType t, rslang::ValueClass vc = rslang::ValueClass::value) { env.data[n].type = std::move(t); env.data[n].vc = vc; };
  put("S1", TC(TT({ TB("X1"), TB("X1") })));
  put("S2", TC(TC(TB("X1"))));
  put("S3", TC(TT({ TB("X1"), TC(TB("X2")), TB("C1") })));
  put("S4", TB("C1")); put("S5", TB("C2")); put("S6", TB("C3"));
  put("D1", TC(TB("X1")), rslang::ValueClass::props);
  put("D2", TC(TB("R0")));
  put("D3", TC(TT({ TB("R0"), TB("X1") })));
  put("A1", LogicT{});
  put("F1", TC(TB("R1"))); env.data["F1"].args = rslang::FunctionArguments{ rslang::TypedID{ "a", TC(TB("R1")) }, rslang::TypedID{ "b", TB("R1") } };
  put("F2", TB("R2")); env.data["F2"].args = rslang::FunctionArguments{ rslang::TypedID{ "a", TC(TT({ TB("R1"), TB("R2") })) }, rslang::TypedID{ "b", TB("R1") } };
  put("F6", TC(TB("R1"))); env.data["F6"].args = rslang::FunctionArguments{ rslang::TypedID{ "a", TC(TB("R1")) }, rslang::TypedID{ "b", TC(TB("R1")) } };
  put("F8", TC(TB("R1"))); env.data["F8"].args = rslang::FunctionArguments{ rslang::TypedID{ "a", TC(TB("R1")) }, rslang::TypedID{ "b", TC(TC(TB("R1"))) } };
  put("F3", TC(TB("C1"))); env.data["F3"].args = rslang::FunctionArguments{ rslang::TypedID{ "a", TB("C1") } };
  put("P1", LogicT{}); env.data["P1"].args = rslang::FunctionArguments{ rslang::TypedID{ "a", TB("X1") }, rslang::TypedID{ "b", TC(TB("X1")) } };
  env.data["F4"].args = rslang::FunctionArguments{ rslang::TypedID{ "a", TB("X1") } };   // arguments but no type
  cv.types = &env; cv.vc = env.VC(); cv.ast = env.AST();
  for (const auto& [n, el] : env.data) cv.names.push_back(n);
  exportCtx(cv);
}

// ------------------------------------------------------------------ hand-written corpus (MATH), run in every context
struct Fixed { const char* text; const char* cls; bool known; };
static const Fixed CORPUS[] = {
  // DESIGN section 10 findings 6-9 and their relatives
  { "pr0(S1)", "K4:empty-index", true }, { "Pr0(S1)", "K4:empty-index", true }, { "Fi0[X1](S1)", "K4:empty-index", true },
  { "\xE2\x88\x85", "K3:lone-emptyset", true },
  { "A1+1", "K1:logic-get", true }, { "A1=A1", "K1:logic-get", true }, { "(A1,X1)", "K1:logic-get", true }, { "{A1}", "K1:logic-get", true },
  { "pr1(A1)", "K1:logic-get", true }, { "red(A1)", "K1:logic-get", true }, { "bool(A1)", "K1:logic-get", true }, { "A1<1", "K1:logic-get", true },
  { "I{A1 | a:\xE2\x88\x88X1}", "K1:logic-get", true }, { "I{a | a:=A1}", "K1:logic-get", true }, { "R{a:=A1 | a}", "K1:logic-get", true },
  { "Fi1[A1](S1)", "K1:logic-get", true }, { "Fi1[X1](A1)", "K1:logic-get", true }, { "S7::=A1", "K1:logic-get", true },
  { "A1\xE2\x88\xAAX1", "K2:logic-silent", true }, { "card(A1)", "K2:logic-silent", true }, { "debool(A1)", "K2:logic-silent", true },
  { "\xE2\x84\xAC(A1)", "K2:logic-silent", true }, { "X1\xC3\x97" "A1", "K2:logic-silent", true }, { "Pr1(A1)", "K2:logic-silent", true },
  { "1\xE2\x88\x88" "A1", "K2:logic-silent", true }, { "X1\xE2\x8A\x86" "A1", "K2:logic-silent", true }, { "\xE2\x88\x80x\xE2\x88\x88" "A1 x=x", "K2:logic-silent", true },
  { "D{x\xE2\x88\x88" "A1 | x=x}", "K2:logic-silent", true }, { "I{a | a:\xE2\x88\x88" "A1}", "K2:logic-silent", true }, { "[a\xE2\x88\x88" "A1] a", "K2:logic-silent", true },
  { "F1[A1, X1]", "K2:logic-silent", true }, { "P1[A1, X1]", "K2:logic-silent", true },
  { "S7::=S4", "K5:struct-nonset", true }, { "S7::=S1\xC3\x97S4", "K5:struct-nonset-decart", false },
  { "[a\xE2\x88\x88" "D{x\xE2\x88\x88X1 | x=x}, b\xE2\x88\x88R{y:=X1 | y\xE2\x88\xAAX1}] a", "K6:stale-args", true },
  { "[a\xE2\x88\x88" "D{x\xE2\x88\x88" "D{z\xE2\x88\x88X1 | z=z} | x=x}, b\xE2\x88\x88R{y:=X1 | y\xE2\x88\xAAX1}] a", "K6:stale-args", true },
  { "[a\xE2\x88\x88" "D{x\xE2\x88\x88X1 | x=x}, x\xE2\x88\x88X1] a=x", "K6:stale-args", true },
  { "Fi1[zz](\xE2\x88\x85)", "K7:filter-any-unchecked", true }, { "Fi1,2[zz](\xE2\x88\x85)", "K7:filter-any-unchecked", true },
  // A1 in admissible positions (whole input, under :==, body of a function definition)
  { "A1", "fixed", false }, { "T7:==A1", "fixed", false },
  { "[a\xE2\x88\x88X1] A1", "K1:logic-body", true }, { "P9:==[a\xE2\x88\x88X1] A1", "K1:logic-body", true }, { "A1\xE2\x88\x88X1", "fixed", false }, { "A1\xE2\x8A\x86X1", "fixed", false },
  // every error code once
  { "a", "fixed", false }, { "\xE2\x88\x80x\xE2\x88\x88X1 \xE2\x88\x80x\xE2\x88\x88X1 x=x", "fixed", false }, { "X1\xE2\x88\xAA" "D9", "fixed", false },
  { "X1\xC3\x97" "1", "fixed", false }, { "\xE2\x84\xAC(1)", "fixed", false }, { "1\xE2\x88\xAA" "1", "fixed", false }, { "card(1)", "fixed", false }, { "debool(1)", "fixed", false },
  { "F9[X1]", "fixed", false }, { "F1", "fixed", false }, { "F4[X1]", "fixed", false }, { "red(X1)", "fixed", false }, { "pr1(X1)", "fixed", false }, { "Pr1(X1)", "fixed", false },
  { "pr3(debool(S1))", "fixed", false }, { "Pr3(S1)", "fixed", false }, { "{1, X1}", "fixed", false }, { "\xE2\x88\x80(a,b,c)\xE2\x88\x88S1 a=b", "fixed", false },
  { "(\xE2\x88\x80x\xE2\x88\x88X1 x=x) & x=x", "fixed", false }, { "X1\xE2\x88\x88X1", "fixed", false }, { "card(\xE2\x88\x85)", "fixed", false }, { "X1\xE2\x88\xAA\xE2\x88\x85", "fixed", false },
  { "F1[X1]", "fixed", false }, { "F1[X1, X1]", "fixed", false }, { "S1::=X1\xE2\x88\xAAX1", "fixed", false }, { "R1", "fixed", false },
  { "Fi1[X1](X1)", "fixed", false }, { "Fi1,2[X1,X1,X1](S1)", "fixed", false }, { "Fi3[X1](S1)", "fixed", false }, { "Fi1[1](S1)", "fixed", false },
  { "X1+1", "fixed", false }, { "1+X1", "fixed", false }, { "X1<1", "fixed", false }, { "1<X1", "fixed", false }, { "1=X1", "fixed", false }, { "X1\xE2\x8A\x86X2", "fixed", false },
  { "R{a:=X1 | X2}", "fixed", false }, { "X1\xE2\x88\x88\xE2\x84\xAC(X2)", "fixed", false },
  // accepted forms
  { "X1", "fixed", false }, { "1", "fixed", false }, { "Z", "fixed", false }, { "X1\xC3\x97X1\xC3\x97X2", "fixed", false }, { "(X1\xC3\x97X1)\xC3\x97X2", "fixed", false },
  { "\xE2\x84\xAC\xE2\x84\xAC(X1)", "fixed", false }, { "{\xE2\x88\x85, X1}", "fixed", false }, { "{X1, \xE2\x88\x85}", "fixed", false }, { "X1=\xE2\x88\x85", "fixed", false },
  { "\xE2\x88\x85=\xE2\x88\x85", "fixed", false }, { "debool({\xE2\x88\x85})", "fixed", false }, { "pr1(debool(\xE2\x88\x85))", "fixed", false }, { "Pr1({\xE2\x88\x85})", "fixed", false },
  { "red({\xE2\x88\x85})", "fixed", false }, { "Fi1[X1](D8)", "fixed", false }, { "card(D8)", "fixed", false }, { "D8\xE2\x88\xAAX1", "fixed", false }, { "D8\xE2\x88\xAA" "D8", "fixed", false },
  { "\xE2\x88\x80x\xE2\x88\x88" "D8 x=1", "fixed", false }, { "\xE2\x88\x80x\xE2\x88\x88" "D8 pr1(x)=1", "fixed", false }, { "D{x\xE2\x88\x88" "D8 | x\xE2\x88\x88X1}", "fixed", false },
  { "F1[\xE2\x88\x85, 1]", "fixed", false }, { "F1[\xE2\x88\x85, \xE2\x88\x85]", "fixed", false }, { "F1[X1, debool(X1)]", "fixed", false }, { "F1[Z, 1]", "fixed", false },
  { "F2[S1]", "fixed", false }, { "F2[\xE2\x88\x85]", "fixed", false }, { "F2[X1\xC3\x97\xE2\x84\xAC(X2)]", "fixed", false },
  // the type of a recursion joins the type of the initial value (reported by seed agent C02: R{a:=X1 | 1=2 | ∅} was ℬ(R0))
  { "R{a:=X1 | 1=2 | \xE2\x88\x85}", "K9:recursion-init-type", true }, { "R{a:=X1 | \xE2\x88\x85}", "K9:recursion-init-type", true },
  { "\xE2\x88\x80x\xE2\x88\x88R{a:=X1 | 1=2 | \xE2\x88\x85} pr1(x)=x", "K9:recursion-init-type", true }, { "R{a:=S1 | 1=2 | \xE2\x88\x85}\xE2\x88\xAAX1", "K9:recursion-init-type", true },
  { "R{a:=\xE2\x88\x85 | 1=2 | X1}", "fixed", false }, { "R{(a,b):=(X1,\xE2\x88\x85) | (\xE2\x88\x85, b)}", "K9:recursion-init-type", true },
  // the same name re-declared at different nesting depths (seeded change C03-2)
  { "\xE2\x88\x80x\xE2\x88\x88X1 \xE2\x88\x80" "a\xE2\x88\x88X1 a=x & \xE2\x88\x80" "a\xE2\x88\x88X1 (\xE2\x88\x83" "b\xE2\x88\x88X1 a=b & a=a)", "fixed", false },
  { "\xE2\x88\x80" "a\xE2\x88\x88X1 a=a & \xE2\x88\x80x\xE2\x88\x88X1 (\xE2\x88\x80" "a\xE2\x88\x88X1 a=x & a=x)", "fixed", false },
  // a recursion whose step type never stabilises has no type (found by prover-C03: accepted as ℬℬℬℬℬℬℬ(R0))
  { "R{\xCE\xBE:=\xE2\x88\x85 | {\xCE\xBE}}", "K10:recursion-unstable", true }, { "R{\xCE\xBE:=\xE2\x88\x85 | \xE2\x84\xAC(\xCE\xBE)}", "K10:recursion-unstable", true },
  { "R{\xCE\xBE:=\xE2\x88\x85 | \xCE\xBE\xE2\x88\xAA{\xCE\xBE}}", "K10:recursion-unstable", true }, { "R{\xCE\xBE:=\xE2\x88\x85 | 1=1 | {\xCE\xBE}}", "K10:recursion-unstable", true },
  { "R{\xCE\xBE:=\xE2\x88\x85 | \xCE\xBE\xE2\x88\xAA{X1}}", "fixed", false }, { "R{\xCE\xBE:=\xE2\x88\x85 | \xCE\xBE\xE2\x88\xAA{{X1}}}", "fixed", false },
  // the variable of a recursion is typed by the join of the initial value and the step, also while the condition and the
  // step are analysed (K11, repaired in /repo 374179a: R{a:=X1 | ∀x∈a pr1(x)=x | ∅} was accepted with ℬ(X1) and crashed in evaluation)
  { "R{a:=X1 | \xE2\x88\x80x\xE2\x88\x88" "a pr1(x)=x | \xE2\x88\x85}", "K11:recursion-var-type", true },
  { "R{a:=X1 | 1=2 | \xE2\x88\x85}", "fixed", false },
  { "R{a:=X1 | \xE2\x88\x80x\xE2\x88\x88" "a pr1(x)=x | a}", "fixed", false },
  { "R{a:=X1 | D{x\xE2\x88\x88" "a | pr1(x)=x}\xE2\x88\xA9\xE2\x88\x85}", "fixed", false },
  { "R{a:=X1 | \xE2\x88\x83x\xE2\x88\x88" "a card(x)=0 | \xE2\x88\x85}", "K11:recursion-var-type", true },
  { "R{a:=X1 | \xE2\x88\x80x\xE2\x88\x88" "a \xE2\x88\x80y\xE2\x88\x88x y=y | D8}", "K11:recursion-var-type", true },
  { "R{a:=S1 | \xE2\x88\x80x\xE2\x88\x88" "a pr3(x)=x | \xE2\x88\x85}", "K11:recursion-var-type", true },
  { "R{a:=S1 | \xE2\x88\x80x\xE2\x88\x88" "a pr1(x)=pr2(x) | \xE2\x88\x85}", "fixed", false },
  { "R{a:=X1 | red(a)=a | \xE2\x88\x85}", "K11:recursion-var-type", true },
  { "R{a:=1 | pr1(a)=a | debool(\xE2\x88\x85)}", "fixed", false }, { "R{a:=1 | pr1(a)=a | debool(D8)}", "K11:recursion-var-type", true },
  { "R{(a,b):=(X1,X2) | \xE2\x88\x80x\xE2\x88\x88" "b pr1(x)=x | (a, \xE2\x88\x85)}", "K11:recursion-var-type", true },
  { "R{a:=X1 | \xE2\x88\x80x\xE2\x88\x88" "a pr1(x)=x | R{b:=\xE2\x88\x85 | b}}", "K11:recursion-var-type", true },
  { "R{a:=\xE2\x88\x85 | \xE2\x88\x80x\xE2\x88\x88" "a pr1(x)=x | \xE2\x88\x85}", "fixed", false },
  { "R{a:=\xE2\x88\x85 | \xE2\x88\x80x\xE2\x88\x88" "a pr1(x)=x | a\xE2\x88\xAAX1}", "fixed", false },
  { "R{a:=\xE2\x88\x85 | D{x\xE2\x88\x88" "a | pr1(x)=x}\xE2\x88\xAAX1}", "fixed", false },
  { "R{a:=\xE2\x88\x85 | D{x\xE2\x88\x88" "a | pr1(x)=x}\xE2\x88\xAAS1}", "fixed", false },
  { "R{a:={\xE2\x88\x85} | a\xE2\x88\xAA{X1}}", "fixed", false }, { "R{a:={1} | a\xE2\x88\xAA" "C1}", "fixed", false }, { "R{a:=C1 | a\xE2\x88\xAA{1}}", "fixed", false },
  // template parameters that meet only the any-type (found through seeded change C03-1)
  { "F6[\xE2\x88\x85, \xE2\x88\x85]", "K8:template-any", true }, { "F6[\xE2\x88\x85, \xE2\x88\x85]\xE2\x88\xAAX1", "K8:template-any", true }, { "F6[\xE2\x88\x85, X1]", "fixed", false }, { "F6[X1, \xE2\x88\x85]", "fixed", false },
  { "F6[F6[\xE2\x88\x85, \xE2\x88\x85], X1]", "K8:template-any", true }, { "D7:==F6[\xE2\x88\x85, \xE2\x88\x85]", "K8:template-any", true }, { "F6[\xE2\x88\x85, \xE2\x88\x85]=X1", "K8:template-any", true },
  { "F2[\xE2\x88\x85]\xE2\x88\xAAX1", "K8:template-any", true }, { "F2[\xE2\x88\x85]=X1", "K8:template-any", true }, { "F1[F2[\xE2\x88\x85], debool(X1)]", "K8:template-any", true },
  { "[a\xE2\x88\x88\xE2\x84\xAC(R1)] F6[a, \xE2\x88\x85]", "fixed", false }, { "[a\xE2\x88\x88R1] F6[\xE2\x88\x85, \xE2\x88\x85]\xE2\x88\xAA{a}", "K8:template-any", true },
  { "R{a:=\xE2\x88\x85 | a\xE2\x88\xAAX1}", "fixed", false }, { "R{a:=\xE2\x88\x85 | {a}}", "fixed", false }, { "R{a:=X1 | a\xE2\x88\xAA\xE2\x88\x85}", "fixed", false },
  { "R{(a,b):=(\xE2\x88\x85,\xE2\x88\x85) | (a\xE2\x88\xAAX1, b\xE2\x88\xAAX2)}", "fixed", false }, { "R{a:=0 | a<10 | a+1}", "fixed", false }, { "R{a:=\xE2\x88\x85 | card(a)<3 | a\xE2\x88\xAA{a}}", "fixed", false },
  { "I{(a, b) | a:\xE2\x88\x88X1; b:=a}", "fixed", false }, { "I{a | a:\xE2\x88\x88X1; a:\xE2\x88\x88X1}", "fixed", false }, { "I{a | a:\xE2\x88\x88X1; a=a}", "fixed", false },
  { "\xE2\x88\x80" "a,b\xE2\x88\x88X1 a=b", "fixed", false }, { "\xE2\x88\x80(a,b)\xE2\x88\x88S1 a=b", "fixed", false }, { "\xE2\x88\x80" "a\xE2\x88\x88X1 1=1", "fixed", false },
  { "(\xE2\x88\x83" "a\xE2\x88\x88X1 a=a) & (\xE2\x88\x83" "a\xE2\x88\x88X1 a=a)", "fixed", false },
  { "[a\xE2\x88\x88R1, b\xE2\x88\x88\xE2\x84\xAC(R1)] a\xE2\x88\x88" "b", "fixed", false }, { "[a\xE2\x88\x88X1, a\xE2\x88\x88X1] a=a", "fixed", false }, { "[a\xE2\x88\x88R0] {a}", "fixed", false },
  { "[a\xE2\x88\x88X1, b\xE2\x88\x88\xE2\x84\xAC(a)] b", "fixed", false }, { "[a\xE2\x88\x88R1] {a}\xE2\x88\xAAR1", "fixed", false }, { "[a\xE2\x88\x88R1] F1[{a}, a]", "fixed", false },
  { "D7:==", "fixed", false }, { "D7:==X1\xE2\x88\xAAX1", "fixed", false }, { "D7:==[a\xE2\x88\x88X1] {a}", "fixed", false }, { "S7::=\xE2\x84\xAC(X1\xC3\x97Z)", "fixed", false },
  { "S7::={X1, X1}", "fixed", false }, { "S7::=D8", "fixed", false }, { "S7::=Z", "fixed", false }, { "S7::=1", "fixed", false },
  { "1+C1", "fixed", false }, { "debool(C1)+1", "fixed", false }, { "1+debool(C1)", "fixed", false }, { "debool(C1)<1", "fixed", false }, { "debool(C1)=1", "fixed", false },
  { "{1, debool(C1)}", "fixed", false }, { "{debool(C1), 1}", "fixed", false }, { "Z\xE2\x88\xAA" "C1", "fixed", false }, { "C1\xE2\x88\xAAZ", "fixed", false }, { "1\xE2\x88\x88" "C1", "fixed", false },
  // type deduction of a recursion variable that needs more rounds than typeDeductionDepth (Properties/C03
  // recursion_needs_bound_counterexample: typable by the rules, rejected by ViRecursion); one component less is accepted
  { "R{a:=(1,1,1,1,1,1) | (S4, pr1(a), pr2(a), pr3(a), pr4(a), pr5(a))}", "K12:recursion-bound", true },
  { "R{a:=(1,1,1,1,1) | (S4, pr1(a), pr2(a), pr3(a), pr4(a))}", "fixed", false },
  { "F8[X1, \xE2\x88\x85]", "fixed", false }, { "F8[\xE2\x88\x85, \xE2\x84\xAC(X1)]", "fixed", false }, { "Pr1(F8[S1, \xE2\x88\x85])", "fixed", false }, { "red(F8[X1, \xE2\x88\x85])", "fixed", false },
  { "F8[X1, {\xE2\x88\x85}]", "fixed", false }, { "F8[X1, \xE2\x84\xAC(X1)]", "fixed", false }, { "F8[X1, \xE2\x84\xAC(X2)]", "fixed", false }, { "F8[\xE2\x88\x85, \xE2\x88\x85]", "fixed", false },
  // completeness corners of filters and template calls (check_complete_partial2)
  { "Fi1,2[S1](S1)", "fixed", false }, { "Fi1[X1](\xE2\x88\x85)", "fixed", false }, { "Fi1[S1](S1)", "fixed", false },
  { "F1[X1\xC3\x97X1, debool(S1)]", "fixed", false }, { "F1[X1, S4]", "fixed", false },
  { "2147483647+1", "fixed", false }, { "P1[debool(X1), X1]", "fixed", false }, { "P1[debool(X1), \xE2\x88\x85]", "fixed", false }, { "\xC2\xACP1[debool(X1), X1]", "fixed", false },
};

// scope stress: quantifiers over the three names a, b, c re-declared freely at any depth (after their scope
// ended: a warning; inside it: an error), atoms that use any of the names whether in scope or not
static std::string scopeStress(vh::Rng& rng, int depth) {
  static const std::vector<std::string> names = { "a", "b", "c" };
  auto atom = [&] { return rng.pick(names) + "=" + rng.pick(names); };
  if (depth <= 0) return atom();
  switch (rng.range(0, 5)) {
  default:
  case 0: return atom();
  case 1: case 2: return std::string(rng.chance(1, 2) ? "\xE2\x88\x80" : "\xE2\x88\x83") + rng.pick(names) + "\xE2\x88\x88X1 " + scopeStress(rng, depth - 1);
  case 3: return "(" + scopeStress(rng, depth - 1) + ") & (" + scopeStress(rng, depth - 1) + ")";
  case 4: return std::string(rng.chance(1, 2) ? "\xE2\x88\x80" : "\xE2\x88\x83") + rng.pick(names) + "\xE2\x88\x88X1 (" + scopeStress(rng, depth - 1) + " & " + scopeStress(rng, depth - 1) + ")";
  case 5: return scopeStress(rng, depth - 1) + " & " + scopeStress(rng, depth - 1);
  }
}

// recursion whose initial value is typed while the step is any-typed (∅-like), with the condition / the step / the
// user of the result using the variable (or its elements) structurally — as a tuple, a set of sets, a number. The variable
// holds the initial value, so it must be analysed with the join of both types (class of the defect K11); the inputs
// mix uses that fit the initial value with uses that do not
static std::string recAnyStep(vh::Rng& rng) {
  static const std::vector<std::string> inits = { "X1", "X2", "S1", "Z", "C1", "\xE2\x84\xAC(X1)", "X1\xC3\x97X2", "{X1}", "{1}", "{(1,X1)}",
    "\xE2\x88\x85", "D8", "{\xE2\x88\x85}", "1", "(1,2)", "(X1,\xE2\x88\x85)", "debool(X1)" };
  static const std::vector<std::string> anySteps = { "\xE2\x88\x85", "\xE2\x88\x85", "D8", "D{y\xE2\x88\x88\xE2\x88\x85 | 1=1}", "R{b:=\xE2\x88\x85 | b}",
    "debool(D8)", "{\xE2\x88\x85}", "D8\xE2\x88\xAA" "D8", "red({\xE2\x88\x85})", "Pr1(D8)", "(\xE2\x88\x85,\xE2\x88\x85)" };
  auto use = [&](const std::string& x) -> std::string {   // a statement using x structurally
    switch (rng.range(0, 13)) {
    default:
    case 0: return "pr1(" + x + ")=" + x;
    case 1: return "pr2(" + x + ")=pr1(" + x + ")";
    case 2: return "pr3(" + x + ")\xE2\x88\x88X1";
    case 3: return "card(" + x + ")=0";
    case 4: return "\xE2\x88\x80y\xE2\x88\x88" + x + " y=y";
    case 5: return "\xE2\x88\x83y\xE2\x88\x88" + x + " pr1(y)=y";
    case 6: return x + "+1=1";
    case 7: return x + "<1";
    case 8: return "red(" + x + ")=" + x;
    case 9: return "Pr1(" + x + ")=Pr2(" + x + ")";
    case 10: return x + "\xE2\x88\x88X1";
    case 11: return x + "\xE2\x8A\x86X1";
    case 12: return "debool(" + x + ")=1";
    case 13: return "\xE2\x88\x80(y,z)\xE2\x88\x88" + x + " y=z";
    }
  };
  auto cond = [&](const std::string& v) -> std::string {
    switch (rng.range(0, 5)) {
    default:
    case 0: case 1: return "\xE2\x88\x80x\xE2\x88\x88" + v + " " + use("x");
    case 2: return "\xE2\x88\x83x\xE2\x88\x88" + v + " " + use("x");
    case 3: case 4: return use(v);
    case 5: return "1=2";
    }
  };
  auto step = [&](const std::string& v, bool allowVar) -> std::string {
    const int r = rng.range(0, 9);
    if (r < 6 || !allowVar) return rng.pick(anySteps);
    if (r == 6) return v;
    if (r == 7) return "D{x\xE2\x88\x88" + v + " | " + use("x") + "}";
    if (r == 8) return "D{x\xE2\x88\x88" + v + " | " + use("x") + "}\\" + v;
    return v + "\xE2\x88\xAAX1";
  };
  std::string r;
  if (rng.chance(1, 6)) {   // tuple declaration: one component keeps its type, the other gets an any-typed step
    const auto i1 = rng.pick(inits), i2 = rng.pick(inits);
    const std::string v = rng.chance(1, 2) ? "a" : "b";
    const auto s1 = rng.chance(1, 2) ? std::string("a") : step("a", false), s2 = rng.chance(1, 2) ? std::string("b") : step("b", false);
    r = "R{(a,b):=(" + i1 + "," + i2 + ") | " + (rng.chance(2, 3) ? cond(v) + " | " : std::string()) + "(" + s1 + ", " + s2 + ")}";
  } else {
    const auto init = rng.pick(inits);
    if (rng.chance(3, 4)) r = "R{a:=" + init + " | " + cond("a") + " | " + step("a", rng.chance(1, 3)) + "}";
    else r = "R{a:=" + init + " | " + step("a", true) + "}";
  }
  switch (rng.range(0, 7)) {   // user of the result
  case 0: return "\xE2\x88\x80z\xE2\x88\x88" + r + " " + use("z");
  case 1: return r + "\xE2\x88\xAAX1";
  case 2: return use(r);
  default: return r;
  }
}

int main() {
  vh::Rng rng(vh::seedFromEnv());
  const bool deep = vh::thorough();
  const int nCtx = deep ? 24 : 5;
  const int perCtx = deep ? 260 : 110;

  for (int c = 0; c < nCtx; ++c) {
    SchemaCtx sc; FakeEnv fake; CtxView fakeView;
    const bool useFake = (c % 4 == 3);
    if (useFake) buildFake(fake, fakeView); else buildSchema(sc, rng, c != 0);
    const CtxView& cv = useFake ? fakeView : sc.cv;

    for (const auto& f : CORPUS) {
      runCase(cv, f.text, Syntax::MATH, f.cls);
    }
    for (int i = 0; i < (deep ? 120 : 60); ++i) runCase(cv, scopeStress(rng, rng.range(2, 5)), Syntax::MATH, "gen:scope-stress");
    for (int i = 0; i < (deep ? 160 : 70); ++i) runCase(cv, recAnyStep(rng), Syntax::MATH, "gen:rec-any-step");
    for (int i = 0; i < perCtx; ++i) {
      Gen g(rng, cv);
      const int kind = rng.range(0, 9);
      E e = mk("?");
      std::string cls;
      if (kind < 4) { e = g.elem(g.randTy(rng.range(0, 3)), rng.range(1, 4)); cls = "gen:term"; }
      else if (kind < 7) { e = g.logic(rng.range(1, 4)); cls = "gen:logic"; }
      else if (kind < 8) { e = g.funcdef(rng.range(1, 3), rng.chance(1, 3)); cls = "gen:funcdef"; }
      else if (kind < 9) {
        const bool fd = rng.chance(1, 3);
        e = mk("define", { fd ? g.funcdef(2, rng.chance(1, 3)) : (rng.chance(1, 2) ? g.elem(g.randTy(2), 3) : g.logic(2)) }, fd ? "F7" : "D7");
        cls = "gen:define";
      } else {
        const auto t = g.randTy(rng.range(1, 3)); auto dom = g.canonSet(t);
        e = mk("struct", { dom ? *dom : id("X1") }, "S7"); cls = "gen:struct";
      }
      runBoth(cv, e, cls);
      const int muts = rng.range(1, 2);
      for (int m = 0; m < muts; ++m) {
        E me = e;
        const auto info = mutate(me, rng, cv);
        if (info.kind == "none") continue;
        if (rng.chance(1, 2)) runCase(cv, render(me, false), Syntax::MATH, "mut:" + info.kind);
        else runCase(cv, render(me, true), Syntax::ASCII, "mut:" + info.kind);
      }
    }
  }
  std::fprintf(stderr, "[c03] coverage histogram\n");
  for (const auto& [k, v] : hist) std::fprintf(stderr, "[c03]   %-40s %ld\n", k.c_str(), v);
  // node kinds of the grammar that never appeared
  static const char* expected[] = { "ID_LOCAL", "ID_GLOBAL", "ID_FUNCTION", "ID_PREDICATE", "ID_RADICAL", "LIT_INTEGER", "LIT_INTSET", "LIT_EMPTYSET",
    "PLUS", "MINUS", "MULTIPLY", "GREATER", "LESSER", "GREATER_OR_EQ", "LESSER_OR_EQ", "EQUAL", "NOTEQUAL", "FORALL", "EXISTS", "NOT", "EQUIVALENT",
    "IMPLICATION", "OR", "AND", "IN", "NOTIN", "SUBSET", "SUBSET_OR_EQ", "NOTSUBSET", "DECART", "UNION", "INTERSECTION", "SET_MINUS", "SYMMINUS",
    "BOOLEAN", "BIGPR", "SMALLPR", "FILTER", "CARD", "BOOL", "DEBOOL", "REDUCE", "ITERATE", "ASSIGN", "PUNC_DEFINE", "PUNC_STRUCT",
    "NT_ENUM_DECL", "NT_TUPLE", "NT_ENUMERATION", "NT_TUPLE_DECL", "NT_ARG_DECL", "NT_FUNC_DEFINITION", "NT_ARGUMENTS", "NT_FUNC_CALL",
    "NT_DECLARATIVE_EXPR", "NT_IMPERATIVE_EXPR", "NT_RECURSIVE_FULL", "NT_RECURSIVE_SHORT" };
  int missing = 0;
  for (const auto* k : expected) if (!hist.count(std::string("node:") + k)) { std::fprintf(stderr, "[c03] MISSING node kind %s\n", k); ++missing; }
  std::fprintf(stderr, "[c03] node kinds covered: %d/%d\n", static_cast<int>(sizeof expected / sizeof *expected) - missing, static_cast<int>(sizeof expected / sizeof *expected));
  return 0;
}
