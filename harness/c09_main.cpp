// C09 correspondence harness: identity / ordering bookkeeping of RSForm under random histories
// with colliding and ill-formed identifiers and aliases.
#include "common.hpp"
#include "verif_seed.hpp"
#include "ccl/semantic/RSForm.h"
#include <algorithm>
#include <set>
#include <map>

using namespace ccl;
using namespace ccl::semantic;
using vh::emit; using vh::hex;

static const char* typeName(CstType t) {
  switch (t) {
  case CstType::base: return "base"; case CstType::constant: return "constant";
  case CstType::structured: return "structured"; case CstType::axiom: return "axiom";
  case CstType::term: return "term"; case CstType::function: return "function";
  case CstType::theorem: return "theorem"; case CstType::predicate: return "predicate";
  default: return "?";
  }
}
static const std::vector<CstType> kTypes = { CstType::base, CstType::constant, CstType::structured, CstType::axiom,
  CstType::term, CstType::function, CstType::theorem, CstType::predicate };

static std::string nats(std::vector<uint32_t> v) {
  std::sort(v.begin(), v.end());
  if (v.empty()) return "-";
  std::string out;
  for (size_t i = 0; i < v.size(); ++i) { if (i) out += ","; out += std::to_string(v[i]); }
  return out;
}

struct Ctx {
  RSForm form;
  std::set<uint32_t> everUids;
  std::set<std::string> everAliases;

  std::string dump() const {
    std::string list;
    for (const auto uid : form.List()) {
      if (!list.empty()) list += ",";
      list += std::to_string(uid) + ":";
      if (form.Contains(uid)) { list += form.GetRS(uid).alias + ":" + typeName(form.GetRS(uid).type); }
      else list += "?:?";
    }
    if (list.empty()) list = "-";
    std::vector<uint32_t> store, texts, track;
    for (const auto uid : form.Core()) store.push_back(uid);
    for (const auto& t : form.Texts()) texts.push_back(t.uid);
    for (const auto uid : everUids) if (form.Mods().IsTracking(uid)) track.push_back(uid);
    return "list=" + list + " store=" + nats(store) + " texts=" + nats(texts) + " track=" + nats(track);
  }
  // everything observable, to decide "a refused operation changes nothing"
  std::string fullDump() const {
    std::string out = dump();
    for (const auto uid : form.Core()) {
      const auto& rs = form.GetRS(uid); const auto& tx = form.GetText(uid);
      out += "|" + std::to_string(uid) + ";" + rs.alias + ";" + rs.definition + ";" + rs.convention + ";" +
        tx.alias + ";" + tx.term.Text().Raw() + ";" + tx.definition.Raw() + ";" +
        std::to_string(static_cast<int>(form.GetParse(uid).status));
    }
    for (const auto& a : everAliases) { const auto f = form.Core().FindAlias(a); out += "|" + a + "=" + (f ? std::to_string(*f) : "-"); }
    return out;
  }
  // "a unique alias in EVERY view": the formal part, the text part and both alias indexes agree constituent by constituent
  // (seeded change C09-4: a copy whose alias was re-issued kept the source alias in its text part)
  std::string viewsAgree() const {
    std::set<std::string> seenText;
    for (const auto uid : form.Core()) {
      const auto& rs = form.GetRS(uid); const auto& tx = form.GetText(uid);
      if (tx.alias != rs.alias) return "0:text-alias[" + tx.alias + "]formal[" + rs.alias + "]";
      if (!seenText.insert(tx.alias).second) return "0:duplicate-text-alias[" + tx.alias + "]";
      const auto f1 = form.Core().FindAlias(rs.alias);
      if (!f1.has_value() || *f1 != uid) return "0:core-index[" + rs.alias + "]";
      const auto f2 = form.Texts().FindAlias(rs.alias);
      if (!f2.has_value() || *f2 != uid) return "0:text-index[" + rs.alias + "]";
      const auto f3 = form.RSLang().FindAlias(rs.alias);
      if (!f3.has_value() || *f3 != uid) return "0:formal-index[" + rs.alias + "]";
    }
    return "1";
  }
  void report() {
    const auto d = dump();
    emit("c09 dump", d);
    emit("c09 chk " + d, "1");
    emit("c09 views", viewsAgree());
  }
};

static std::string goneCheck(const Ctx& c, uint32_t uid, const std::string& oldAlias) {
  bool gone = !c.form.Contains(uid) && !c.form.Texts().Contains(uid) && !c.form.RSLang().Contains(uid) &&
    !c.form.Mods().IsTracking(uid) && !c.form.RSLang().Graph().Contains(uid) &&
    c.form.List().Find(uid) == c.form.List().end();
  const auto f = c.form.Core().FindAlias(oldAlias);
  if (f.has_value()) gone = false;
  return gone ? "1" : "0";
}

int main() {
  vh::Rng rng(vh::seedFromEnv());
  ccl::verif::Seed(static_cast<uint32_t>(vh::seedFromEnv() * 2654435761U + 17U));
  const bool deep = vh::thorough();
  const std::vector<std::string> aliasPool = { "X1", "X2", "X11", "C1", "C2", "S1", "S2", "D1", "D2", "D11", "A1", "F1", "T1", "P1",
    "", "X", "x1", "Y1", "X1a", "D01", "\xD0\x96" "1", "X-1", "1X", "D1 " };
  const std::vector<std::string> defs = { "", "X1", "X1\xE2\x88\xAAX2", "D1\xE2\x88\xA9X1", "\xE2\x84\xAC(X1)", "D2", "X11", "S1", "1=1", "bad(", "F1[X1]" };
  const int H = deep ? 2500 : 300, L = deep ? 40 : 25;
  for (int h = 0; h < H; ++h) {
    Ctx c;
    emit("c09 reset", "ok");
    std::vector<uint32_t> known;   // uids that exist or existed
    auto pickUid = [&]() -> uint32_t {
      if (!known.empty() && rng.chance(4, 5)) return rng.pick(known);
      return static_cast<uint32_t>(rng.range(1, 9));
    };
    for (int i = 0; i < L; ++i) {
      const int r = rng.range(0, 99);
      if (r < 22) {
        const auto t = rng.pick(kTypes);
        const auto def = rng.pick(defs);
        const auto uid = c.form.Emplace(t, def);
        known.push_back(uid); c.everUids.insert(uid); c.everAliases.insert(c.form.GetRS(uid).alias);
        emit(std::string("c09 emplace ") + typeName(t) + " " + std::to_string(uid), std::to_string(uid) + ":" + c.form.GetRS(uid).alias);
      } else if (r < 50) {
        ConceptRecord rec;
        rec.uid = rng.chance(1, 2) ? pickUid() : static_cast<uint32_t>(rng.range(1, 9));
        rec.alias = rng.pick(aliasPool);
        rec.type = rng.pick(kTypes);
        rec.rs = rng.pick(defs);
        const int how = rng.range(0, 3);
        uint32_t uid = 0;
        if (how == 0) uid = c.form.InsertCopy(rec);
        else if (how == 1) uid = c.form.Load(ConceptRecord{ rec });
        else if (how == 2) { auto v = c.form.InsertCopy(std::vector<ConceptRecord>{ rec }); uid = v.at(0); }
        else {
          RSForm other; const auto src = other.InsertCopy(rec);
          // the source keeps rec's uid; its alias may have been re-issued by the source itself
          rec.uid = src; rec.alias = other.GetRS(src).alias;
          if (rng.chance(1, 2)) uid = c.form.InsertCopy(src, other.Core());
          else uid = c.form.InsertCopy(VectorOfEntities{ src }, other.Core()).at(0);
        }
        known.push_back(uid); c.everUids.insert(uid); c.everUids.insert(rec.uid);
        c.everAliases.insert(rec.alias); c.everAliases.insert(c.form.GetRS(uid).alias);
        emit("c09 insert " + std::to_string(rec.uid) + " " + hex(rec.alias) + " " + typeName(rec.type) + " " + std::to_string(uid),
             std::to_string(uid) + ":" + c.form.GetRS(uid).alias);
      } else if (r < 62) {
        const auto uid = pickUid();
        const std::string oldAlias = c.form.Contains(uid) ? c.form.GetRS(uid).alias : std::string{ "<none>" };
        const auto before = c.fullDump();
        const bool ok = c.form.Erase(uid);
        emit("c09 erase " + std::to_string(uid), ok ? "1" : "0");
        if (ok) emit("c09 gone " + std::to_string(uid), goneCheck(c, uid, oldAlias));
        else emit("c09 same erase", before == c.fullDump() ? "1" : "0");
      } else if (r < 76) {
        const auto uid = pickUid();
        const auto name = rng.pick(aliasPool);
        c.everAliases.insert(name);
        const auto before = c.fullDump();
        const bool ok = c.form.SetAliasFor(uid, name, rng.chance(1, 2));
        emit("c09 setalias " + std::to_string(uid) + " " + hex(name), ok ? "1" : "0");
        if (!ok) emit("c09 same setalias", before == c.fullDump() ? "1" : "0");
      } else if (r < 86) {
        const auto uid = pickUid();
        const int n = static_cast<int>(c.form.List().size());
        const int pos = rng.range(0, n);
        auto it = c.form.List().begin();
        for (int k = 0; k < pos; ++k) ++it;
        const auto before = c.fullDump();
        const bool ok = c.form.MoveBefore(uid, it);
        emit("c09 move " + std::to_string(uid) + " " + std::to_string(pos), ok ? "1" : "0");
        if (!ok) emit("c09 same move", before == c.fullDump() ? "1" : "0");
      } else if (r < 88 && !known.empty()) {
        // duplicate removal: the only path that erases a constituent without the tracking guard
        // (RSForm::EraseInternal from DeleteDuplicatesInternal). Make an exact duplicate of an
        // existing non-empty constituent, track one of the two, then delete duplicates.
        const auto orig = rng.pick(known);
        if (c.form.Contains(orig) && !c.form.GetRS(orig).IsEmpty()) {
          ConceptRecord rec = c.form.Core().AsRecord(orig);
          rec.uid = static_cast<uint32_t>(rng.range(1, 9));
          const auto dup = c.form.InsertCopy(rec);
          known.push_back(dup); c.everUids.insert(dup); c.everUids.insert(rec.uid);
          c.everAliases.insert(rec.alias); c.everAliases.insert(c.form.GetRS(dup).alias);
          emit("c09 insert " + std::to_string(rec.uid) + " " + hex(rec.alias) + " " + typeName(rec.type) + " " + std::to_string(dup),
               std::to_string(dup) + ":" + c.form.GetRS(dup).alias);
          if (rng.chance(2, 3)) { const auto t = rng.chance(1, 2) ? dup : orig; c.form.Mods().Track(t); emit("c09 track " + std::to_string(t), "ok"); }
          std::map<uint32_t, std::string> aliasBefore;
          for (const auto uid : c.form.Core()) aliasBefore[uid] = c.form.GetRS(uid).alias;
          const auto translation = c.form.Ops().DeleteDuplicates();
          std::vector<uint32_t> erased;
          for (const auto& [from, to] : translation) erased.push_back(from);
          std::sort(erased.begin(), erased.end());
          for (const auto uid : erased) {
            emit("c09 eraseint " + std::to_string(uid), c.form.Contains(uid) ? "0" : "1");
            emit("c09 gone " + std::to_string(uid), goneCheck(c, uid, aliasBefore[uid]));
          }
        } else emit("c09 track " + std::to_string(orig), (c.form.Mods().Track(orig), "ok"));
      } else if (r < 90) {
        c.form.ResetAliases();
        for (const auto uid : c.form.Core()) c.everAliases.insert(c.form.GetRS(uid).alias);
        emit("c09 resetaliases", "ok");
      } else if (r < 95) {
        const auto uid = pickUid();
        c.form.Mods().Track(uid);
        emit("c09 track " + std::to_string(uid), "ok");
      } else {
        const auto uid = pickUid();
        const auto def = rng.pick(defs);
        const bool tracked = c.form.Mods().IsTracking(uid);
        const auto before = c.fullDump();
        const bool ok = c.form.SetExpressionFor(uid, def);
        emit("c09 setexpr " + std::to_string(uid) + " " + hex(def), ok ? "1" : "0");
        if (tracked || !c.form.Contains(uid)) emit("c09 same setexpr", before == c.fullDump() ? "1" : "0");
      }
      c.report();
    }
  }
  return 0;
}
