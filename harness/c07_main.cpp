// C07 harness: incremental re-analysis of a schema vs analysis from scratch.
//  * fragment histories (definitions = unions of names / empty / unparsable): every op is
//    mirrored to the Lean model (`c07 …` lines), reports are compared with the model and with
//    the model's from-scratch analysis;
//  * general histories (any definitions, all kinds): the property oracle is evaluated on the
//    implementation itself: a copy of the schema re-analysed from scratch must report the same
//    (`c07 scratchimpl` must be 1).
#include "common.hpp"
#include "frag.hpp"
#include "verif_seed.hpp"
#include "ccl/semantic/RSForm.h"
#include <algorithm>
#include <map>

using namespace ccl;
using namespace ccl::semantic;
using vh::emit;

static std::string typeStr(const ParsingInfo& info) {
  if (!info.exprType.has_value()) return "-";
  if (const auto* t = std::get_if<rslang::Typification>(&info.exprType.value()); t != nullptr) return t->ToString();
  return "LOGIC";
}
// ℬ(X1) -> X1 (the fragment's type name)
static std::string fragType(const std::string& t) {
  if (t.size() > BOOL.size() + 2 && t.compare(0, BOOL.size(), BOOL) == 0 && t[BOOL.size()] == '(' && t.back() == ')')
    return t.substr(BOOL.size() + 1, t.size() - BOOL.size() - 2);
  return t;
}
static char statusChar(ParsingStatus s) { return s == ParsingStatus::VERIFIED ? 'V' : s == ParsingStatus::INCORRECT ? 'I' : 'U'; }

static std::string fragReport(const RSForm& f) {
  std::string items, edges;
  std::vector<std::pair<uint32_t, uint32_t>> es;
  for (const auto uid : f.Core()) {
    const auto& info = f.GetParse(uid);
    if (!items.empty()) items += ",";
    items += std::to_string(uid) + ":" + statusChar(info.status) + ":" + fragType(typeStr(info));
    for (const auto in : f.RSLang().Graph().InputsFor(uid)) es.emplace_back(in, uid);
  }
  std::sort(es.begin(), es.end());
  for (const auto& e : es) { if (!edges.empty()) edges += ","; edges += std::to_string(e.first) + ">" + std::to_string(e.second); }
  return (items.empty() ? "-" : items) + " edges=" + (edges.empty() ? "-" : edges);
}

// everything the property lists, per constituent
static std::string fullReport(const RSForm& f) {
  std::string out;
  for (const auto uid : f.Core()) {
    const auto& info = f.GetParse(uid);
    out += std::to_string(uid) + ":" + statusChar(info.status) + ":" + typeStr(info) + ":args=";
    if (info.arguments.has_value()) for (const auto& a : info.arguments.value()) out += a.name + "/" + a.type.ToString() + ";";
    out += ":vc=" + std::to_string(static_cast<int>(info.valueClass));
    out += ":ast=" + (info.ast ? rslang::AST2String::Apply(*info.ast) : std::string("-"));
    std::vector<uint32_t> ins;
    for (const auto in : f.RSLang().Graph().InputsFor(uid)) ins.push_back(in);
    std::sort(ins.begin(), ins.end());
    out += ":in=";
    for (auto i : ins) out += std::to_string(i) + ",";
    out += "\n";
  }
  return out;
}
static std::string textReport(const RSForm& f) {
  std::string out;
  for (const auto uid : f.Core()) {
    const auto& t = f.GetText(uid);
    out += std::to_string(uid) + ":" + t.term.Text().Str() + "|" + t.term.Nominal() + "|" + t.definition.Str() + "\n";
  }
  return out;
}

// "a schema freshly built from the same content": every record loaded into an EMPTY schema (same uids, aliases, kinds,
// definitions, texts, same list order), then analysed once. A copy of `f` would carry f's cached analysis with it
// (seeded change C07-4: a reset that forgets one field of the per-constituent cache is invisible on a copy).
static RSForm freshFrom(const RSForm& f) {
  RSForm fresh;
  for (const auto uid : f.List()) fresh.Load(f.Core().AsRecord(uid));
  fresh.UpdateState();
  return fresh;
}
static std::string scratchOracle(const RSForm& f) {
  const RSForm copy = freshFrom(f);
  const auto a = fullReport(f), b = fullReport(copy);
  if (a != b) {
    // first differing line
    std::istringstream sa(a), sb(b); std::string la, lb;
    while (std::getline(sa, la) && std::getline(sb, lb)) if (la != lb) return "0:incr[" + la + "]scratch[" + lb + "]";
    return "0:length";
  }
  if (!f.Texts().TermGraph().HasLoop() && !f.Texts().DefGraph().HasLoop()) {
    const auto ta = textReport(f), tb = textReport(copy);
    if (ta != tb) {
      std::istringstream sa(ta), sb(tb); std::string la, lb;
      while (std::getline(sa, la) && std::getline(sb, lb)) if (la != lb) return "0:text incr[" + la + "]scratch[" + lb + "]";
      return "0:text-length";
    }
  }
  return "1";
}
static std::string noSpace(std::string s) { for (auto& c : s) if (c == ' ' || c == '\t' || c == '\n') c = '_'; return s; }

static const char* kindName(CstType t) { return t == CstType::base ? "base" : "term"; }

static void fragmentHistory(vh::Rng& rng, int L) {
  RSForm f;
  emit("c07 reset", "ok");
  const std::vector<std::string> names = { "X1", "X2", "D1", "D2", "D3", "D4", "D9" };
  auto genDef = [&](bool forBase) {
    FragDef d{ 0, {} };
    const int r = rng.range(0, 99);
    if (forBase) { if (r < 85) return d; }
    if (r < 8) { d.kind = 0; return d; }
    if (r < 16) { d.kind = 2; return d; }
    d.kind = 1;
    const int n = rng.range(1, 3);
    for (int i = 0; i < n; ++i) d.names.push_back(rng.pick(names));
    return d;
  };
  std::vector<uint32_t> known;
  auto pickUid = [&]() -> uint32_t { return (!known.empty() && rng.chance(9, 10)) ? rng.pick(known) : static_cast<uint32_t>(rng.range(1, 9)); };
  for (int i = 0; i < L; ++i) {
    const int r = rng.range(0, 99);
    if (r < 30 || known.size() < 2) {
      ConceptRecord rec;
      rec.uid = static_cast<uint32_t>(rng.range(1, 12));
      rec.type = rng.chance(1, 3) ? CstType::base : CstType::term;
      rec.alias = rec.type == CstType::base ? (rng.chance(1, 2) ? "X1" : "X2") : rng.pick(std::vector<std::string>{ "D1", "D2", "D3", "D4" });
      const auto d = genDef(rec.type == CstType::base);
      rec.rs = renderDef(d);
      const bool viaLoad = rng.chance(1, 5);
      const auto uid = viaLoad ? f.Load(ConceptRecord{ rec }) : f.InsertCopy(rec);
      known.push_back(uid);
      emit(std::string("c07 ") + (viaLoad ? "load " : "insert ") + std::to_string(uid) + " " + f.GetRS(uid).alias + " " + kindName(rec.type) + " " + wireOfText(f.GetRS(uid).definition), "ok");
      if (viaLoad) { f.UpdateState(); emit("c07 update", "ok"); }
    } else if (r < 42) {
      const auto uid = pickUid();
      const bool ok = f.Erase(uid);
      emit(ok ? "c07 erase " + std::to_string(uid) : std::string("c07 noop"), "ok");
    } else if (r < 80) {
      const auto uid = pickUid();
      const auto d = genDef(f.Contains(uid) && f.GetRS(uid).type == CstType::base);
      const bool existed = f.Contains(uid);
      f.SetExpressionFor(uid, renderDef(d));
      emit(existed ? "c07 setdef " + std::to_string(uid) + " " + wireDef(d) : std::string("c07 noop"), "ok");
    } else if (r < 92) {
      const auto uid = pickUid();
      if (!f.Contains(uid)) { emit("c07 noop", "ok"); }
      else {
        const auto letter = f.GetRS(uid).type == CstType::base ? std::string("X") : std::string("D");
        const auto name = letter + std::to_string(rng.range(1, 5));
        const bool subst = rng.chance(1, 2);
        const bool ok = f.SetAliasFor(uid, name, subst);
        emit(ok ? "c07 setalias " + std::to_string(uid) + " " + name + " " + (subst ? "1" : "0") : std::string("c07 noop"), "ok");
      }
    } else if (r < 97) {
      std::map<uint32_t, std::string> before;
      for (const auto uid : f.Core()) before[uid] = f.GetRS(uid).alias;
      f.ResetAliases();
      std::string m;
      for (const auto& [uid, a] : before) if (f.GetRS(uid).alias != a) { if (!m.empty()) m += ","; m += a + ">" + f.GetRS(uid).alias; }
      emit("c07 subst " + (m.empty() ? std::string("-") : m), "ok");
    } else {
      f.UpdateState();
      emit("c07 update", "ok");
    }
    emit("c07 report", fragReport(f));
    emit("c07 scratchimpl", noSpace(scratchOracle(f)));
  }
}

static void generalHistory(vh::Rng& rng, int L) {
  RSForm f;
  emit("c07 reset", "ok");
  const std::vector<std::string> defs = {
    "X1", "X1" + UNION + "X2", BOOL + "(X1)", "X1\xC3\x97X2", "D1", "D2", "D1" + UNION + "D2", "D3\\D1", "S1", "Pr1(S1)",
    "D{\xCE\xBE\xE2\x88\x88X1 | \xCE\xBE=\xCE\xBE}", "F1[X1]", "F1[D1]", "[\xCE\xB1\xE2\x88\x88" + BOOL + "(R1)] \xCE\xB1" + UNION + "\xCE\xB1", "[\xCE\xB1\xE2\x88\x88X1] {\xCE\xB1}",
    "P1[X1]", "[\xCE\xB1\xE2\x88\x88" + BOOL + "(X1)] \xCE\xB1=\xCE\xB1", "1=1", "card(X1)>0", "A1", "D1=D1", "\xE2\x88\x80\xCE\xBE\xE2\x88\x88X1 \xCE\xBE\xE2\x88\x88" "D1",
    "", "bad(", "X9", "D9" + UNION + "X1", "T1 & A1", BOOL + "(X1\xC3\x97X1)", "red(D4)", "bool(D1)", "debool({X1})", "C1", "C1" + UNION + "{1}", "card(C1)+1" };
  const std::vector<CstType> kinds = { CstType::base, CstType::constant, CstType::structured, CstType::axiom, CstType::term, CstType::term,
                                       CstType::function, CstType::theorem, CstType::predicate };
  const std::vector<std::string> texts = { "", "plain", "@{X1|nomn,sing}", "x @{D1|nomn,sing} y", "@{D2|datv,plur}", "@{-1|stem}", "@{X9|nomn,sing}" };
  std::vector<uint32_t> known;
  auto pickUid = [&]() -> uint32_t { return (!known.empty() && rng.chance(9, 10)) ? rng.pick(known) : static_cast<uint32_t>(rng.range(1, 9)); };
  for (int i = 0; i < L; ++i) {
    const int r = rng.range(0, 99);
    std::string what;
    if (r < 28 || known.size() < 3) {
      const auto t = rng.pick(kinds);
      const auto uid = f.Emplace(t, IsBaseSet(t) ? std::string{} : rng.pick(defs));
      known.push_back(uid); what = "emplace";
    } else if (r < 38) { f.Erase(pickUid()); what = "erase"; }
    else if (r < 66) { f.SetExpressionFor(pickUid(), rng.pick(defs)); what = "setexpr"; }
    else if (r < 76) {
      const auto uid = pickUid();
      if (f.Contains(uid)) {
        static const char letters[] = "XCSADFTP";
        std::string name(1, letters[rng.range(0, 7)]); name += std::to_string(rng.range(1, 4));
        f.SetAliasFor(uid, name, rng.chance(1, 2));
      }
      what = "setalias";
    } else if (r < 82) { f.SetTermFor(pickUid(), rng.pick(texts)); what = "setterm"; }
    else if (r < 88) { f.SetDefinitionFor(pickUid(), rng.pick(texts)); what = "settext"; }
    else if (r < 91) {
      const int n = static_cast<int>(f.List().size());
      auto it = f.List().begin(); const int pos = rng.range(0, n);
      for (int k = 0; k < pos; ++k) ++it;
      f.MoveBefore(pickUid(), it); what = "move";
    } else if (r < 94) { f.ResetAliases(); what = "resetaliases"; }
    else if (r < 97) {
      RSForm other;
      std::vector<uint32_t> src;
      src.push_back(other.Emplace(CstType::base));
      src.push_back(other.Emplace(CstType::term, rng.pick(defs)));
      src.push_back(other.Emplace(CstType::term, "D1" + UNION + "X1"));
      for (const auto uid : f.InsertCopy(VectorOfEntities(src.begin(), src.end()), other.Core())) known.push_back(uid);
      what = "bulkinsert";
    } else if (r < 98) { f.SetConventionFor(pickUid(), "note X1"); what = "convention"; }
    else if (r < 99) {
      // equations: RSEquationProcessor -> EquateTextsOf, RSCore::Translate of every constituent, UpdateState
      const auto a = pickUid(), b2 = pickUid();
      if (a != b2 && f.Contains(a) && f.Contains(b2)) {
        const ops::EquationOptions eq{ a, b2 };
        if (f.Ops().IsEquatable(eq)) { f.Ops().Equate(eq); known.erase(std::remove(known.begin(), known.end(), a), known.end()); }
      }
      what = "equate";
    } else {
      // the RSCore entry points of the Translate* family (what RSAggregator / InsertCopy drive), names of the text pool
      const auto uid = pickUid();
      const auto tr = CreateTranslator(StrSubstitutes{ { "X1", rng.chance(1, 2) ? "D1" : "X9" }, { "D2", "X1" } });
      switch (f.Contains(uid) ? rng.range(0, 3) : 3) {
      case 0: f.LoadCore().TranslateTexts(uid, tr); what = "translatetexts"; break;
      case 1: f.LoadCore().TranslateTerm(uid, tr); what = "translateterm"; break;
      case 2: f.LoadCore().TranslateDef(uid, tr); what = "translatedef"; break;
      default: f.LoadCore().TranslateAll(tr); what = "translateall"; break;
      }
    }
    emit("c07 scratchimpl " + what, noSpace(scratchOracle(f)));
  }
}

// text layer: chains of references through terms into definition texts; only incremental term / text edits
// afterwards (a batch path would heal a missed update), the from-scratch oracle after every step
static void textChainHistory(vh::Rng& rng, int L) {
  RSForm f;
  emit("c07 reset", "ok");
  std::vector<uint32_t> ids;
  ids.push_back(f.Emplace(CstType::base));
  const int n = rng.range(3, 6);
  for (int i = 1; i < n; ++i) ids.push_back(f.Emplace(CstType::term, "X1"));
  auto alias = [&](size_t i) { return f.GetRS(ids[i]).alias; };
  auto ref = [&](size_t i) { return "@{" + alias(i) + (rng.chance(1, 2) ? "|nomn,sing}" : "|datv,plur}"); };
  // a chain (sometimes a tree) of term references: term(i) mentions term(j) for some j < i
  f.SetTermFor(ids[0], "alpha");
  for (size_t i = 1; i < ids.size(); ++i) {
    const auto j = static_cast<size_t>(rng.chance(2, 3) ? i - 1 : static_cast<size_t>(rng.range(0, static_cast<int>(i) - 1)));
    if (rng.chance(4, 5)) f.SetTermFor(ids[i], "t" + std::to_string(i) + " " + ref(j));
    else f.SetTermFor(ids[i], "word" + std::to_string(i));
  }
  // definition texts mention terms, mostly NOT the root of the chain
  for (size_t i = 0; i < ids.size(); ++i)
    if (rng.chance(2, 3)) f.SetDefinitionFor(ids[i], "see " + ref(static_cast<size_t>(rng.range(static_cast<int>(ids.size()) > 2 ? 1 : 0, static_cast<int>(ids.size()) - 1))) + " end");
  emit("c07 scratchimpl textchain-built", noSpace(scratchOracle(f)));
  for (int step = 0; step < L; ++step) {
    const auto i = static_cast<size_t>(rng.range(0, static_cast<int>(ids.size()) - 1));
    std::string what;
    switch (rng.range(0, 4)) {
    default:
    case 0: case 1: f.SetTermFor(ids[i], "new" + std::to_string(step)); what = "setterm-plain"; break;
    case 2: { const auto j = static_cast<size_t>(rng.range(0, static_cast<int>(ids.size()) - 1));
              if (j != i) f.SetTermFor(ids[i], "r" + std::to_string(step) + " " + ref(j)); what = "setterm-ref"; break; }
    case 3: f.SetTermFormFor(ids[i], "form" + std::to_string(step), lang::Morphology{ lang::Grammem::datv, lang::Grammem::plur }); what = "settermform"; break;
    case 4: { const auto j = static_cast<size_t>(rng.range(0, static_cast<int>(ids.size()) - 1));
              f.SetDefinitionFor(ids[i], "d" + std::to_string(step) + " " + ref(j)); what = "settext-ref"; break; }
    }
    emit("c07 scratchimpl textchain-" + what, noSpace(scratchOracle(f)));
  }
}

// text layer mirrored to the Lean model (Model/Thesaurus.lean): the Thesaurus class driven directly; every op is
// a `c07 t…` line, after every op `c07 treport` = every resolved term / definition, compared with the model
// AND with the model's from-scratch rebuild (spec column; n/a while term references are cyclic).
// Term texts never mention their own entity (LexicalTerm::cachedForms is not modelled, see the model's header).
static std::string tReport(const Thesaurus& t) {
  std::string out;
  for (const auto& cst : t) {
    if (!out.empty()) out += ",";
    out += std::to_string(cst.uid) + ":" + vh::hex(cst.term.Nominal()) + "|" + vh::hex(cst.definition.Str());
  }
  return out.empty() ? "-" : out;
}
// what the mirrored histories keep out: a term that mentions its own entity (cachedForms, see above) and shared aliases
static bool textStateOk(const Thesaurus& t) {
  std::vector<std::string> seen;
  for (const auto& cst : t) {
    for (const auto in : t.TermGraph().InputsFor(cst.uid)) if (in == cst.uid) return false;
    if (std::find(seen.begin(), seen.end(), cst.alias) != seen.end()) return false;
    seen.push_back(cst.alias);
  }
  return true;
}
static std::string wireMap(const StrSubstitutes& m, const std::vector<std::string>& order) {
  std::string out;
  for (const auto& k : order) { if (!out.empty()) out += ","; out += vh::hex(k) + ">" + vh::hex(m.at(k)); }
  return out.empty() ? "-" : out;
}
static void textModelHistory(vh::Rng& rng, int L, int fixedChain) {
  Thesaurus t;
  emit("c07 treset", "ok");
  std::vector<uint32_t> ids;
  const std::vector<std::string> aliases = { "X1", "D1", "D2", "D3", "D4" };
  auto hx = [](const std::string& s) { return vh::hex(s); };
  auto ins = [&](uint32_t uid, const std::string& a, const std::string& term, const std::string& def) {
    const bool ok = t.Emplace(uid, a, lang::LexicalTerm{ term }, lang::ManagedText{ def });
    emit(ok ? "c07 tins " + std::to_string(uid) + " " + hx(a) + " " + hx(term) + " " + hx(def) : std::string("c07 noop"), "ok");
    if (ok) ids.push_back(uid);
    emit("c07 treport", tReport(t));
  };
  auto refTo = [&](const std::string& a) { return "@{" + a + (rng.chance(1, 2) ? "|nomn,sing}" : "|datv,plur}"); };
  if (fixedChain == 2) {
    // the non-vacuity history of terms_eq_scratch_partial2 (renameHist ++ translateHist of Properties/C07.lean):
    // X1 "множество" <- term of D1 <- definition text of D2; X1 is renamed to X5 WITH substitution, then the Translate* family
    auto one = [&](const std::string& line) { emit(line, "ok"); emit("c07 treport", tReport(t)); };
    auto mp = [&](std::initializer_list<std::pair<std::string, std::string>> l) {
      StrSubstitutes m; std::vector<std::string> order;
      for (const auto& p : l) { m.insert(p); order.push_back(p.first); }
      return std::pair{ m, wireMap(m, order) };
    };
    ins(1, "X1", "\xD0\xBC\xD0\xBD\xD0\xBE\xD0\xB6\xD0\xB5\xD1\x81\xD1\x82\xD0\xB2\xD0\xBE", "");
    ins(2, "D1", "\xD0\xB1\xD0\xBE\xD0\xBB\xD1\x8C\xD1\x88\xD0\xBE\xD0\xB5 @{X1|nomn,sing}", "");
    ins(3, "D2", "", "\xD1\x81\xD0\xBC. @{D1|nomn,sing} \xD0\xB4\xD0\xB0\xD0\xBB\xD0\xB5\xD0\xB5");
    t.SetAliasFor(1, "X5", true); one("c07 talias 1 " + hx("X5") + " 1");
    { const auto [m, w] = mp({ { "X5", "X1" } }); t.Translate(2, CreateTranslator(m)); one("c07 ttr 2 " + w); }
    { const auto [m, w] = mp({ { "D1", "D7" }, { "X5", "X2" } }); t.SubstitueAliases(CreateTranslator(m)); one("c07 tsubst " + w); }
    { const auto [m, w] = mp({ { "X2", "X5" } }); t.TranslateTerm(2, CreateTranslator(m)); one("c07 ttrt 2 " + w); }
    { const auto [m, w] = mp({ { "D7", "D1" } }); t.TranslateDef(3, CreateTranslator(m)); one("c07 ttrd 3 " + w); }
    { const auto [m, w] = mp({ { "X5", "X2" }, { "D1", "D7" } }); t.TranslateAll(CreateTranslator(m)); one("c07 ttrall " + w); }
    t.Erase(1); one("c07 terase 1");
    return;
  }
  if (fixedChain == 3) {
    // histTextDup (terms_dup_alias_counterexample): two entities with the alias D2, the one the mention denotes is erased,
    // the other one is edited; the real code must behave as the model in the incremental AND in the rebuilt state
    // (which differ from each other: the history is outside the admissible class, no oracle on these lines)
    auto insx = [&](uint32_t uid, const std::string& a, const std::string& term) {
      t.Emplace(uid, a, lang::LexicalTerm{ term }, lang::ManagedText{});
      emit("c07 tins " + std::to_string(uid) + " " + hx(a) + " " + hx(term) + " -", "ok");
    };
    insx(1, "D2", "w1"); insx(2, "D2", "w2"); insx(3, "D3", "w3 @{D2|nomn,sing}");
    t.Erase(1); emit("c07 terase 1", "ok");
    t.SetTermFor(2, "n6"); emit("c07 tset 2 " + hx("n6"), "ok");
    emit("c07 treportx", tReport(t));
    Thesaurus rebuilt = t; rebuilt.UpdateState();
    emit("c07 tscratchx", tReport(rebuilt));
    return;
  }
  if (fixedChain == 1) {
    // X1 <- term of D1 <- definition text of D2; then the term of X1 is edited
    ins(1, "X1", "alpha", "");
    ins(2, "D1", "big @{X1|nomn,sing}", "");
    ins(3, "D2", "", "see @{D1|nomn,sing} end");
    t.SetTermFor(1, "beta"); emit("c07 tset 1 " + hx("beta"), "ok"); emit("c07 treport", tReport(t));
    return;
  }
  const int n = rng.range(3, 5);
  for (int i = 0; i < n; ++i) {
    const auto a = aliases[static_cast<size_t>(i)];
    std::string term = "w" + std::to_string(i);
    if (i > 0 && rng.chance(3, 4)) term += " " + refTo(aliases[static_cast<size_t>(rng.range(0, i - 1))]);
    std::string def = rng.chance(2, 3) ? "see " + refTo(rng.pick(aliases)) + " end" : std::string{};
    ins(static_cast<uint32_t>(i + 1), a, term, def);
  }
  auto pick = [&]() -> uint32_t { return (!ids.empty() && rng.chance(9, 10)) ? rng.pick(ids) : static_cast<uint32_t>(rng.range(1, 7)); };
  auto aliasOf = [&](uint32_t uid) { return t.Contains(uid) ? t.At(uid).alias : std::string("Q9"); };
  for (int step = 0; step < L; ++step) {
    const auto u = pick();
    if (rng.chance(1, 4)) {
      // SubstitueAliases (what ResetAliases / a renaming of several names at once does, swaps included) and the
      // Translate* family, with maps over the names the texts mention
      const std::vector<std::string> names = { "X1", "D1", "D2", "D3", "D4", "D5", "D6" };
      StrSubstitutes m; std::vector<std::string> order;
      const int pairs = rng.range(1, 3);
      for (int k = 0; k < pairs; ++k) {
        const auto from = rng.pick(names), to = rng.pick(names);
        if (from != to && !m.contains(from)) { m.insert({ from, to }); order.push_back(from); }
      }
      const auto w = wireMap(m, order);
      const auto tr = CreateTranslator(m);
      const int kind = rng.range(0, 4);
      const auto apply = [&](Thesaurus& th) {
        switch (kind) {
        case 0: th.SubstitueAliases(tr); break;
        case 1: th.Translate(u, tr); break;
        case 2: th.TranslateTerm(u, tr); break;
        case 3: th.TranslateDef(u, tr); break;
        default: th.TranslateAll(tr); break;
        }
      };
      bool ok = (kind == 0 || kind == 4 || t.Contains(u));   // storage.at(target) of the single-entity forms is unchecked
      if (ok) { Thesaurus probe = t; apply(probe); ok = textStateOk(probe); }
      if (ok) {
        apply(t);
        const auto us = std::to_string(u);
        emit(kind == 0 ? "c07 tsubst " + w : kind == 1 ? "c07 ttr " + us + " " + w : kind == 2 ? "c07 ttrt " + us + " " + w
             : kind == 3 ? "c07 ttrd " + us + " " + w : "c07 ttrall " + w, "ok");
      } else emit("c07 noop", "ok");
      emit("c07 treport", tReport(t));
      continue;
    }
    const int r = rng.range(0, 99);
    if (r < 25) {
      const auto text = "n" + std::to_string(step);
      t.SetTermFor(u, text); emit("c07 tset " + std::to_string(u) + " " + hx(text), "ok");
    } else if (r < 50) {
      auto other = rng.pick(aliases);
      if (other == aliasOf(u)) other = "Z9";                       // no self-mention in a term
      const auto text = "r" + std::to_string(step) + " " + refTo(other) + (rng.chance(1, 4) ? " @{-1|stem}" : "");
      t.SetTermFor(u, text); emit("c07 tset " + std::to_string(u) + " " + hx(text), "ok");
    } else if (r < 65) {
      const auto text = "d" + std::to_string(step) + " " + refTo(rng.pick(aliases)) + (rng.chance(1, 3) ? " and " + refTo(rng.pick(aliases)) : "");
      t.SetDefinitionFor(u, text); emit("c07 dset " + std::to_string(u) + " " + hx(text), "ok");
    } else if (r < 75) {
      const auto text = "f" + std::to_string(step % 3);
      t.SetTermFormFor(u, text, lang::Morphology{ lang::Grammem::datv, lang::Grammem::plur });
      emit("c07 tform " + std::to_string(u) + " " + hx(text), "ok");
    } else if (r < 82) {
      // erase (aliases stay pairwise distinct in these histories)
      t.Erase(u); emit("c07 terase " + std::to_string(u), "ok");
      ids.erase(std::remove(ids.begin(), ids.end(), u), ids.end());
    } else if (r < 88) {
      std::string a;
      for (const auto& cand : std::vector<std::string>{ "X1", "D1", "D2", "D3", "D4", "D5", "D6" })
        if (!t.FindAlias(cand).has_value()) { a = cand; break; }
      const auto uid = static_cast<uint32_t>(rng.range(1, 7));
      if (!a.empty()) { ins(uid, a, "k" + std::to_string(step), rng.chance(1, 2) ? "of " + refTo(rng.pick(aliases)) : std::string{}); continue; }
      emit("c07 noop", "ok");
    } else if (r < 94) {
      std::string a;
      for (const auto& cand : std::vector<std::string>{ "D5", "D6", "D1", "D2", "D3", "D4", "X1" })
        if (!t.FindAlias(cand).has_value()) { a = cand; break; }
      const bool subst = rng.chance(1, 2);
      if (!a.empty() && t.Contains(u)) { t.SetAliasFor(u, a, subst); emit("c07 talias " + std::to_string(u) + " " + hx(a) + " " + (subst ? "1" : "0"), "ok"); }
      else emit("c07 noop", "ok");
    } else if (r < 97) {
      t.UpdateState(); emit("c07 tupdate", "ok");
    } else {
      emit("c07 noop", "ok");
    }
    emit("c07 treport", tReport(t));
  }
}

int main() {
  vh::Rng rng(vh::seedFromEnv());
  ccl::verif::Seed(static_cast<uint32_t>(vh::seedFromEnv() * 2654435761U + 17U));
  const bool deep = vh::thorough();
  // corpus: the self-reference and closed-cycle histories of the pinned defect run always
  {
    RSForm f; emit("c07 reset", "ok");
    ConceptRecord x; x.uid = 1; x.alias = "X1"; x.type = CstType::base;
    ConceptRecord d; d.uid = 2; d.alias = "D1"; d.type = CstType::term; d.rs = "X1";
    ConceptRecord e; e.uid = 3; e.alias = "D2"; e.type = CstType::term; e.rs = "D1";
    f.InsertCopy(x); emit("c07 insert 1 X1 base -", "ok");
    f.InsertCopy(d); emit("c07 insert 2 D1 term u:X1", "ok");
    f.InsertCopy(e); emit("c07 insert 3 D2 term u:D1", "ok");
    f.SetExpressionFor(2, "D1" + UNION + "X1"); emit("c07 setdef 2 u:D1+X1", "ok");
    emit("c07 report", fragReport(f)); emit("c07 scratchimpl", noSpace(scratchOracle(f)));
    f.SetExpressionFor(2, "X1"); emit("c07 setdef 2 u:X1", "ok");
    f.SetExpressionFor(2, "D2"); emit("c07 setdef 2 u:D2", "ok");
    emit("c07 report", fragReport(f)); emit("c07 scratchimpl", noSpace(scratchOracle(f)));
  }
  const int HF = deep ? 3000 : 300, HG = deep ? 1500 : 120;
  for (int h = 0; h < HF; ++h) fragmentHistory(rng, deep ? 30 : 20);
  for (int h = 0; h < HG; ++h) generalHistory(rng, deep ? 30 : 20);
  for (int h = 0; h < HG; ++h) textChainHistory(rng, deep ? 16 : 10);
  textModelHistory(rng, 0, 1);
  textModelHistory(rng, 0, 2);
  textModelHistory(rng, 0, 3);
  for (int h = 0; h < (deep ? 1500 : 200); ++h) textModelHistory(rng, deep ? 20 : 14, 0);
  return 0;
}
