// C01 / C02 harness: generated RSLang expressions over generated data contexts, evaluated by the
// real parser + TypeAuditor + Interpreter (ASan/UBSan, forked).  argv[1] = "c01" (default) | "c02".
//
//   c01 reset | c01 data <name> <hex type> <value> | c01 func <name> <ast wire>        context
//   c01 text <hex of the MATH text>   (informational: the source of the next case)
//   c01 eval <wire>            impl: "<res> it:<n>"        model: transcription   spec: x
//   c01 judge <res> <wire>     impl: ok                    spec: ok | want:<⟦·⟧>      (judge-defn: the same, for definitions)
//   c01 norm <wire>            impl: wire of the normalised tree   model: Normalize.lean
//   c01 meta <kind> <r1> <r2>  impl: 1                     spec: 1 iff r1 = r2   (ASCII syntax, redundant parentheses)
//   c02 eval <wire>            as c01 eval (faults are observations)
//   c02 sound <hex type> <res> impl: ok                    spec: ok | bad:<why>       (sound-defn: the same, for definitions)
//   c02 hastype <hex type> <v> impl: 1                     spec: ValHasTy (1/0) for every produced value
//   c02 compat <hex type> <v>  impl: CheckCompatible       model: its transcription
// <res> = v:<value, no spaces> | b:0|1 | e:<EID>@<pos> | fault:<kind>
// The inputs on which the pinned code failed (repaired since by fix: commits) run always as a corpus.
// Definitions evaluated directly (recorded finding: ValueEID::unknownError) come only from `definitionCases`
// and are judged under their own op names `c01 judge-defn` / `c02 sound-defn`.
#include "common.hpp"
#include <functional>
#include "ast_wire.hpp"
#include "ccl/rslang/Interpreter.h"
#include "ccl/rslang/TypeAuditor.h"
#include "ccl/rslang/Parser.h"
#include <map>
#include <memory>
#include <optional>
#include <unordered_map>
#include <algorithm>

using namespace ccl;
using namespace ccl::rslang;
using ccl::object::StructuredData;
using ccl::object::Factory;
using T = TokenID;
using vh::emit;

// ------------------------------------------------------------------ environment
struct Element {
  std::optional<ExpressionType> type{};
  std::optional<TypeTraits> traits{};
  std::optional<FunctionArguments> arguments{};
  std::optional<SyntaxTree> ast{};
  std::optional<StructuredData> objects{};
};
struct Env final : public TypeContext {
  std::unordered_map<std::string, Element> data{};
  const ExpressionType* TypeFor(const std::string& n) const final {
    auto it = data.find(n);
    return it == data.end() || !it->second.type.has_value() ? nullptr : &it->second.type.value();
  }
  const FunctionArguments* FunctionArgsFor(const std::string& n) const final {
    auto it = data.find(n);
    return it == data.end() || !it->second.arguments.has_value() ? nullptr : &it->second.arguments.value();
  }
  std::optional<TypeTraits> TraitsFor(const Typification& type) const final {
    if (!type.IsElement()) return std::nullopt;
    if (type == Typification::Integer()) return TraitsIntegral;
    auto it = data.find(type.E().baseID);
    if (it == data.end()) return std::nullopt;
    return it->second.traits;
  }
  DataContext GetDataContext() const {
    return [this](const std::string& n) -> std::optional<StructuredData> {
      auto it = data.find(n);
      if (it == data.end()) return std::nullopt;
      return it->second.objects;
    };
  }
  SyntaxTreeContext GetAST() const {
    return [this](const std::string& n) -> const SyntaxTree* {
      auto it = data.find(n);
      if (it == data.end() || !it->second.ast.has_value()) return nullptr;
      return &it->second.ast.value();
    };
  }
};

static std::string typeString(const ExpressionType& t) {
  return std::holds_alternative<LogicT>(t) ? std::string("LOGIC") : std::get<Typification>(t).ToString();
}
static std::string strip(const std::string& s) { std::string o; for (char c : s) if (c != ' ') o.push_back(c); return o; }

// ------------------------------------------------------------------ generator types
struct Ty; using TyP = std::shared_ptr<const Ty>;
struct Ty { int k; std::string base; std::vector<TyP> cs; };   // k: 0 base, 1 tuple, 2 set (cs[0])
static TyP tB(const std::string& b) { return std::make_shared<Ty>(Ty{ 0, b, {} }); }
static TyP tT(std::vector<TyP> cs) { return std::make_shared<Ty>(Ty{ 1, "", std::move(cs) }); }
static TyP tS(TyP b) { return std::make_shared<Ty>(Ty{ 2, "", { std::move(b) } }); }
static std::string key(const TyP& t) {
  if (t->k == 0) return t->base;
  if (t->k == 2) return "B(" + key(t->cs[0]) + ")";
  std::string o = "(";
  for (size_t i = 0; i < t->cs.size(); ++i) { if (i) o += "*"; o += key(t->cs[i]); }
  return o + ")";
}
static bool same(const TyP& a, const TyP& b) { return key(a) == key(b); }
static bool isInt(const TyP& t) { return t->k == 0 && t->base == "Z"; }
static bool isRadical(const TyP& t) { return t->k == 0 && t->base.size() >= 2 && t->base[0] == 'R'; }

// ------------------------------------------------------------------ expression trees of the generator
struct E; using EP = std::shared_ptr<E>;
struct E {
  T id; std::string name; int num{ 0 }; std::vector<int> idx; std::vector<EP> kids; bool shortForm{ false };
};
static EP mk(T id, std::vector<EP> kids = {}) { auto e = std::make_shared<E>(); e->id = id; e->kids = std::move(kids); return e; }
static EP mkName(T id, const std::string& n) { auto e = mk(id); e->name = n; return e; }
static EP mkInt(int n) { auto e = mk(T::LIT_INTEGER); e->num = n; return e; }
static EP mkIdx(T id, std::vector<int> idx, std::vector<EP> kids) { auto e = mk(id, std::move(kids)); e->idx = std::move(idx); return e; }
static bool mentionsLocal(const EP& e) {
  if (e->id == T::ID_LOCAL) return true;
  for (auto& k : e->kids) if (mentionsLocal(k)) return true;
  return false;
}

static const char* sym(T id, bool ascii) {
  switch (id) {
  case T::PLUS: return ascii ? " \\plus " : "+";
  case T::MINUS: return ascii ? " \\minus " : "-";
  case T::MULTIPLY: return ascii ? " \\multiply " : "*";
  case T::GREATER: return ascii ? " \\gr " : ">";
  case T::LESSER: return ascii ? " \\ls " : "<";
  case T::GREATER_OR_EQ: return ascii ? " \\ge " : "\xE2\x89\xA5";
  case T::LESSER_OR_EQ: return ascii ? " \\le " : "\xE2\x89\xA4";
  case T::EQUAL: return ascii ? " \\eq " : "=";
  case T::NOTEQUAL: return ascii ? " \\noteq " : "\xE2\x89\xA0";
  case T::FORALL: return ascii ? "\\A " : "\xE2\x88\x80";
  case T::EXISTS: return ascii ? "\\E " : "\xE2\x88\x83";
  case T::NOT: return ascii ? "\\neg " : "\xC2\xAC";
  case T::AND: return ascii ? " \\and " : " & ";
  case T::OR: return ascii ? " \\or " : " \xE2\x88\xA8 ";
  case T::IMPLICATION: return ascii ? " \\impl " : " \xE2\x87\x92 ";
  case T::EQUIVALENT: return ascii ? " \\equiv " : " \xE2\x87\x94 ";
  case T::IN: return ascii ? " \\in " : "\xE2\x88\x88";
  case T::NOTIN: return ascii ? " \\notin " : "\xE2\x88\x89";
  case T::SUBSET: return ascii ? " \\subset " : "\xE2\x8A\x82";
  case T::SUBSET_OR_EQ: return ascii ? " \\subseteq " : "\xE2\x8A\x86";
  case T::NOTSUBSET: return ascii ? " \\notsubset " : "\xE2\x8A\x84";
  case T::ASSIGN: return ascii ? " \\assign " : ":=";
  case T::ITERATE: return ascii ? " \\from " : ":\xE2\x88\x88";
  case T::UNION: return ascii ? " \\union " : "\xE2\x88\xAA";
  case T::INTERSECTION: return ascii ? " \\intersect " : "\xE2\x88\xA9";
  case T::SET_MINUS: return ascii ? " \\setminus " : "\\";
  case T::SYMMINUS: return ascii ? " \\symmdiff " : "\xE2\x88\x86";
  case T::DECART: return ascii ? "*" : "\xC3\x97";
  case T::BOOLEAN: return ascii ? "B" : "\xE2\x84\xAC";
  case T::LIT_EMPTYSET: return ascii ? "{}" : "\xE2\x88\x85";
  case T::PUNC_DEFINE: return ascii ? " \\defexpr " : ":==";
  case T::PUNC_STRUCT: return ascii ? " \\deftype " : "::=";
  case T::BIGPR: return "Pr"; case T::SMALLPR: return "pr"; case T::FILTER: return "Fi";
  case T::CARD: return "card"; case T::BOOL: return "bool"; case T::DEBOOL: return "debool"; case T::REDUCE: return "red";
  default: return "?";
  }
}
static bool isSetBin(T id) {
  return id == T::PLUS || id == T::MINUS || id == T::MULTIPLY || id == T::UNION || id == T::INTERSECTION ||
    id == T::SET_MINUS || id == T::SYMMINUS || id == T::DECART;
}
static int precSet(T id) { return id == T::PLUS || id == T::MINUS ? 1 : id == T::MULTIPLY ? 2 : 3; }
static bool isLogicBin(T id) { return id == T::AND || id == T::OR || id == T::IMPLICATION || id == T::EQUIVALENT; }
static int precLogic(T id) { return id == T::EQUIVALENT ? 1 : id == T::IMPLICATION ? 2 : id == T::OR ? 3 : 4; }
static bool isPredicate(T id) {
  switch (id) {
  case T::IN: case T::NOTIN: case T::SUBSET: case T::SUBSET_OR_EQ: case T::NOTSUBSET: case T::EQUAL: case T::NOTEQUAL:
  case T::GREATER: case T::LESSER: case T::GREATER_OR_EQ: case T::LESSER_OR_EQ: return true;
  default: return false;
  }
}

// mode 0: parentheses only where the grammar needs them; mode 1: every admissible redundant pair
static std::string render(const EP& e, bool ascii, int mode);
static std::string join(const std::vector<EP>& v, size_t from, size_t to, bool ascii, int mode, const char* sep) {
  std::string o;
  for (size_t i = from; i < to; ++i) { if (i > from) o += sep; o += render(v[i], ascii, mode); }
  return o;
}
static std::string idxStr(const std::vector<int>& idx) {
  std::string o; for (size_t i = 0; i < idx.size(); ++i) { if (i) o += ","; o += std::to_string(idx[i]); } return o;
}
static std::string setOperand(const EP& parent, const EP& k, bool left, bool ascii, int mode) {
  std::string s = render(k, ascii, mode);
  if (!isSetBin(k->id)) return s;
  bool need;
  if (parent->id == T::DECART && k->id == T::DECART) need = true;       // nested product: parentheses carry meaning
  else if (mode == 1) need = true;
  else need = left ? precSet(k->id) < precSet(parent->id) : precSet(k->id) <= precSet(parent->id);
  return need ? "(" + s + ")" : s;
}
static std::string logicOperand(const EP& parent, const EP& k, bool left, bool ascii, int mode) {
  std::string s = render(k, ascii, mode);
  if (isLogicBin(k->id)) {
    bool need = mode == 1 || (left ? precLogic(k->id) < precLogic(parent->id) : precLogic(k->id) <= precLogic(parent->id));
    return need ? "(" + s + ")" : s;
  }
  if (isPredicate(k->id) && mode == 1) return "(" + s + ")";
  return s;
}
// operand of ¬ and body of a quantifier: logic_no_binary
static std::string tight(const EP& k, bool ascii, int mode) {
  std::string s = render(k, ascii, mode);
  if (isLogicBin(k->id)) return "(" + s + ")";
  if (isPredicate(k->id) && mode == 1) return "(" + s + ")";
  return s;
}
static std::string render(const EP& e, bool ascii, int mode) {
  const auto& k = e->kids;
  switch (e->id) {
  case T::ID_LOCAL: case T::ID_GLOBAL: case T::ID_FUNCTION: case T::ID_PREDICATE: case T::ID_RADICAL: return e->name;
  case T::LIT_INTEGER: return std::to_string(e->num);
  case T::LIT_INTSET: return "Z";
  case T::LIT_EMPTYSET: return sym(e->id, ascii);
  case T::PLUS: case T::MINUS: case T::MULTIPLY: case T::UNION: case T::INTERSECTION: case T::SET_MINUS: case T::SYMMINUS:
    return setOperand(e, k[0], true, ascii, mode) + sym(e->id, ascii) + setOperand(e, k[1], false, ascii, mode);
  case T::DECART: {
    std::string o;
    for (size_t i = 0; i < k.size(); ++i) { if (i) o += sym(T::DECART, ascii); o += setOperand(e, k[i], i == 0, ascii, mode); }
    return o;
  }
  case T::GREATER: case T::LESSER: case T::GREATER_OR_EQ: case T::LESSER_OR_EQ: case T::EQUAL: case T::NOTEQUAL:
  case T::IN: case T::NOTIN: case T::SUBSET: case T::SUBSET_OR_EQ: case T::NOTSUBSET: case T::ITERATE: case T::ASSIGN:
    return render(k[0], ascii, mode) + sym(e->id, ascii) + render(k[1], ascii, mode);
  case T::FORALL: case T::EXISTS:
    return std::string(sym(e->id, ascii)) + render(k[0], ascii, mode) + sym(T::IN, ascii) + render(k[1], ascii, mode) + " " + tight(k[2], ascii, mode);
  case T::NOT: return std::string(sym(T::NOT, ascii)) + tight(k[0], ascii, mode);
  case T::AND: case T::OR: case T::IMPLICATION: case T::EQUIVALENT:
    return logicOperand(e, k[0], true, ascii, mode) + sym(e->id, ascii) + logicOperand(e, k[1], false, ascii, mode);
  case T::NT_ENUM_DECL: return join(k, 0, k.size(), ascii, mode, ",");
  case T::NT_TUPLE: case T::NT_TUPLE_DECL: return "(" + join(k, 0, k.size(), ascii, mode, ",") + ")";
  case T::NT_ENUMERATION: return "{" + join(k, 0, k.size(), ascii, mode, ",") + "}";
  case T::BOOLEAN: return std::string(sym(T::BOOLEAN, ascii)) + (k[0]->id == T::BOOLEAN && mode == 0 ? render(k[0], ascii, mode) : "(" + render(k[0], ascii, mode) + ")");
  case T::CARD: case T::BOOL: case T::DEBOOL: case T::REDUCE:
    return std::string(sym(e->id, ascii)) + "(" + render(k[0], ascii, mode) + ")";
  case T::BIGPR: case T::SMALLPR:
    return std::string(sym(e->id, ascii)) + idxStr(e->idx) + "(" + render(k[0], ascii, mode) + ")";
  case T::FILTER:
    return "Fi" + idxStr(e->idx) + "[" + join(k, 0, k.size() - 1, ascii, mode, ",") + "](" + render(k.back(), ascii, mode) + ")";
  case T::NT_DECLARATIVE_EXPR:
    return std::string(e->shortForm ? "{" : "D{") + render(k[0], ascii, mode) + sym(T::IN, ascii) + render(k[1], ascii, mode) + " | " + render(k[2], ascii, mode) + "}";
  case T::NT_RECURSIVE_SHORT:
    return "R{" + render(k[0], ascii, mode) + sym(T::ASSIGN, ascii) + render(k[1], ascii, mode) + " | " + render(k[2], ascii, mode) + "}";
  case T::NT_RECURSIVE_FULL:
    return "R{" + render(k[0], ascii, mode) + sym(T::ASSIGN, ascii) + render(k[1], ascii, mode) + " | " + render(k[2], ascii, mode) + " | " + render(k[3], ascii, mode) + "}";
  case T::NT_IMPERATIVE_EXPR:
    return "I{" + render(k[0], ascii, mode) + " | " + join(k, 1, k.size(), ascii, mode, "; ") + "}";
  case T::NT_FUNC_CALL:
    return k[0]->name + "[" + join(k, 1, k.size(), ascii, mode, ",") + "]";
  case T::PUNC_DEFINE: case T::PUNC_STRUCT: return render(k[0], ascii, mode) + sym(e->id, ascii) + render(k[1], ascii, mode);
  case T::NT_FUNC_DEFINITION: return "[" + render(k[0], ascii, mode) + "] " + render(k[1], ascii, mode);
  case T::NT_ARGUMENTS: return join(k, 0, k.size(), ascii, mode, ", ");
  case T::NT_ARG_DECL: return render(k[0], ascii, mode) + sym(T::IN, ascii) + render(k[1], ascii, mode);
  default: return "?";
  }
}

// ------------------------------------------------------------------ context
struct GlobalInfo { std::string name; TyP ty; };
struct FuncInfo { std::string name; std::vector<std::pair<std::string, TyP>> params; TyP result; bool isPred; };   // result null for predicates

struct Stats {
  std::map<std::string, long> h;
  void add(const std::string& k, long n = 1) { h[k] += n; }
};
static Stats stats;
static bool gC02 = false;

struct Ctx {
  Env env;
  std::vector<GlobalInfo> globals;     // set-typed and other globals usable in expressions
  std::vector<FuncInfo> funcs;
  int n1{ 0 }, n2{ 0 };
  std::vector<int> ints;               // members of C1
};

static StructuredData setOfInts(const std::vector<int>& v) {
  std::vector<object::DataID> d(v.begin(), v.end());
  return Factory::SetV(d);
}

// ------------------------------------------------------------------ generator
struct Var { std::string name; TyP ty; };
struct Scope { std::vector<Var> vars; double mult{ 1 }; };

struct Gen {
  vh::Rng& rng; Ctx& cx; bool wild;
  std::vector<std::string> radicals{};       // type variables usable inside a function body
  int nameCounter{ 0 };
  Gen(vh::Rng& r, Ctx& c, bool w) : rng(r), cx(c), wild(w) {}

  double maxCard(const TyP& t) const {
    if (t->k == 0) {
      if (t->base == "X1") return std::max(1, cx.n1);
      if (t->base == "X2") return std::max(1, cx.n2);
      if (t->base == "Z") return 6;
      return 4;
    }
    if (t->k == 1) { double p = 1; for (auto& c : t->cs) p *= maxCard(c); return p; }
    const double b = maxCard(t->cs[0]);
    return b > 20 ? 1e9 : static_cast<double>(1u << static_cast<unsigned>(b));
  }
  TyP randBase() {
    std::vector<std::string> b{ "X1", "X1", "X2", "Z", "Z" };
    for (auto& r : radicals) b.push_back(r);
    return tB(rng.pick(b));
  }
  TyP randTy(int d) {
    const int r = rng.range(0, 99);
    if (d <= 0 || r < 50) return randBase();
    if (r < 78) { std::vector<TyP> cs; const int n = rng.chance(1, 4) ? 3 : 2; for (int i = 0; i < n; ++i) cs.push_back(randTy(d - 1)); return tT(cs); }
    return tS(randTy(d - 1));
  }
  // binder names may be re-used after their scope has ended (one data slot per name must be sound
  // for that); the `wild` classes draw from a pool whose concatenations collide (a,bc / ab,c) and
  // which contains the names the normaliser generates (__var1)
  std::string fresh(const Scope& sc) {
    static const std::vector<std::string> wildNames{ "a", "b", "ab", "bc", "c", "abc", "x", "y", "__var1", "__var2", "d", "cd" };
    for (int tries = 0; tries < 50; ++tries) {
      std::string n;
      if (wild && rng.chance(3, 4)) n = rng.pick(wildNames);
      else n = std::string(1, static_cast<char>('a' + rng.range(0, 7))) + std::to_string(rng.range(1, 3));
      bool used = false;
      for (auto& v : sc.vars) if (v.name == n) used = true;
      if (!used) return n;
    }
    return "z" + std::to_string(++nameCounter + 10);
  }
  std::vector<const Var*> varsOf(const Scope& sc, const TyP& t) {
    std::vector<const Var*> r; for (auto& v : sc.vars) if (same(v.ty, t)) r.push_back(&v); return r;
  }
  bool elemSource(const TyP& t, const Scope& sc) {
    if (isInt(t)) return true;
    if (t->k == 0) return !varsOf(sc, t).empty();
    if (t->k == 1) { for (auto& c : t->cs) if (!elemSource(c, sc)) return false; return true; }
    return true;
  }
  // declaration for a bound variable of type t: a name or (sometimes) a tuple pattern
  EP declFor(const TyP& t, Scope& sc, bool allowPattern = true) {
    if (t->k == 1 && allowPattern && rng.chance(1, 2)) {
      std::vector<EP> ks;
      for (auto& c : t->cs) ks.push_back(declFor(c, sc, rng.chance(1, 2)));
      return mk(T::NT_TUPLE_DECL, ks);
    }
    const auto n = fresh(sc);
    sc.vars.push_back({ n, t });
    return mkName(T::ID_LOCAL, n);
  }

  // ---- leaves
  EP leafSet(const TyP& el, const Scope& sc, T parent) {
    auto vs = varsOf(sc, tS(el));
    if (!vs.empty() && rng.chance(1, 2)) return mkName(T::ID_LOCAL, rng.pick(vs)->name);
    std::vector<const GlobalInfo*> gs;
    for (auto& g : cx.globals) if (same(g.ty, tS(el)) || (isInt(el) && key(g.ty) == "B(Z)")) gs.push_back(&g);
    if (!gs.empty() && rng.chance(4, 5)) return mkName(T::ID_GLOBAL, rng.pick(gs)->name);
    const bool emptyOk = parent != T::CARD && parent != T::DEBOOL && parent != T::UNION && parent != T::INTERSECTION &&
      parent != T::SET_MINUS && parent != T::SYMMINUS && parent != T::REDUCE && parent != T::BIGPR && parent != T::SMALLPR &&
      parent != T::INTERRUPT;
    if (emptyOk && rng.chance(1, 6)) return mk(T::LIT_EMPTYSET);
    if (isInt(el)) { std::vector<EP> ks; const int n = rng.range(1, 3); for (int i = 0; i < n; ++i) ks.push_back(mkInt(rng.range(0, 4))); return mk(T::NT_ENUMERATION, ks); }
    if (el->k == 0) {
      if (isRadical(el)) { if (!vs.empty()) return mkName(T::ID_LOCAL, vs[0]->name); auto ev = varsOf(sc, el); if (!ev.empty()) return mk(T::NT_ENUMERATION, { mkName(T::ID_LOCAL, ev[0]->name) }); return mk(T::LIT_EMPTYSET); }
      return mkName(T::ID_GLOBAL, el->base);
    }
    if (el->k == 1) { std::vector<EP> ks; for (auto& c : el->cs) ks.push_back(leafSet(c, sc, T::DECART)); return mk(T::DECART, ks); }
    if (maxCard(el->cs[0]) <= 4 && rng.chance(1, 2)) return mk(T::BOOLEAN, { leafSet(el->cs[0], sc, T::BOOLEAN) });
    return mk(T::NT_ENUMERATION, { leafSet(el->cs[0], sc, T::NT_ENUMERATION) });
  }
  EP leaf(const TyP& t, const Scope& sc, T parent) {
    if (t->k == 2) return leafSet(t->cs[0], sc, parent);
    auto vs = varsOf(sc, t);
    if (!vs.empty() && (!isInt(t) || rng.chance(2, 3))) return mkName(T::ID_LOCAL, rng.pick(vs)->name);
    if (isInt(t)) return mkInt(rng.range(0, 5));
    if (t->k == 1) { std::vector<EP> ks; for (auto& c : t->cs) ks.push_back(leaf(c, sc, T::NT_TUPLE)); return mk(T::NT_TUPLE, ks); }
    return mk(T::DEBOOL, { leafSet(t, sc, T::DEBOOL) });
  }

  // ---- any type through an eliminator
  EP eliminator(const TyP& t, Scope& sc, int d) {
    const int r = rng.range(0, 99);
    if (r < 30) {
      // debool of a singleton-ish set
      if (elemSource(t, sc) && rng.chance(3, 4)) return mk(T::DEBOOL, { mk(T::NT_ENUMERATION, { gen(t, sc, d - 1, T::NT_ENUMERATION) }) });
      return mk(T::DEBOOL, { genSet(t, sc, d - 1, T::DEBOOL) });
    }
    if (r < 65) {
      // projection of a tuple
      const int n = rng.range(2, 3), at = rng.range(1, n);
      std::vector<TyP> cs;
      for (int i = 1; i <= n; ++i) cs.push_back(i == at ? t : randTy(0));
      bool ok = true; for (auto& c : cs) if (!elemSource(c, sc) && c != t) ok = false;
      if (ok) return mkIdx(T::SMALLPR, { at }, { gen(tT(cs), sc, d - 1, T::SMALLPR) });
    }
    if (r < 85) { if (auto c = call(t, sc, d)) return c; }
    if (d >= 1 && sc.mult * 8 <= 4000) {
      // recursion over any type: R{x := e | body}
      Scope in = sc; in.mult *= 8;
      auto init = gen(t, sc, d - 1, T::NT_RECURSIVE_SHORT);
      const auto n = fresh(in); in.vars.push_back({ n, t });
      if (t->k == 2) {
        auto body = mk(rng.chance(1, 2) ? T::UNION : T::INTERSECTION, { mkName(T::ID_LOCAL, n), genSet(t->cs[0], in, d - 1, T::UNION) });
        if (rng.chance(1, 2)) return mk(T::NT_RECURSIVE_SHORT, { mkName(T::ID_LOCAL, n), init, body });
        auto cond = mk(T::LESSER, { mk(T::CARD, { mkName(T::ID_LOCAL, n) }), mkInt(rng.range(1, 4)) });
        return mk(T::NT_RECURSIVE_FULL, { mkName(T::ID_LOCAL, n), init, cond, body });
      }
      if (isInt(t)) {
        auto cond = mk(T::LESSER, { mkName(T::ID_LOCAL, n), mkInt(rng.range(2, 6)) });
        auto body = mk(T::PLUS, { mkName(T::ID_LOCAL, n), mkInt(rng.range(1, 2)) });
        return mk(T::NT_RECURSIVE_FULL, { mkName(T::ID_LOCAL, n), init, cond, body });
      }
      return mk(T::NT_RECURSIVE_SHORT, { mkName(T::ID_LOCAL, n), init, gen(t, in, d - 1, T::NT_RECURSIVE_SHORT) });
    }
    return leaf(t, sc, T::INTERRUPT);
  }

  // ---- unification of a function's result pattern with a wanted type
  static bool match(const TyP& pat, const TyP& want, std::map<std::string, TyP>& sub) {
    if (isRadical(pat)) {
      auto it = sub.find(pat->base);
      if (it == sub.end()) { sub[pat->base] = want; return true; }
      return same(it->second, want);
    }
    if (pat->k != want->k) return false;
    if (pat->k == 0) return pat->base == want->base;
    if (pat->cs.size() != want->cs.size()) return false;
    for (size_t i = 0; i < pat->cs.size(); ++i) if (!match(pat->cs[i], want->cs[i], sub)) return false;
    return true;
  }
  static TyP subst(const TyP& t, const std::map<std::string, TyP>& sub) {
    if (isRadical(t)) { auto it = sub.find(t->base); return it == sub.end() ? t : it->second; }
    if (t->k == 0) return t;
    std::vector<TyP> cs; for (auto& c : t->cs) cs.push_back(subst(c, sub));
    return t->k == 1 ? tT(cs) : tS(cs[0]);
  }
  static void radicalsOf(const TyP& t, std::vector<std::string>& out) {
    if (isRadical(t)) { if (std::find(out.begin(), out.end(), t->base) == out.end()) out.push_back(t->base); return; }
    for (auto& c : t->cs) radicalsOf(c, out);
  }
  EP call(const TyP& want, Scope& sc, int d) {   // want == nullptr: predicate call
    std::vector<std::pair<const FuncInfo*, std::map<std::string, TyP>>> cand;
    for (auto& f : cx.funcs) {
      std::map<std::string, TyP> sub;
      if (want == nullptr) { if (f.isPred) cand.push_back({ &f, sub }); }
      else if (!f.isPred && match(f.result, want, sub)) cand.push_back({ &f, sub });
    }
    if (cand.empty() || sc.mult * 30 > 4000) return nullptr;
    auto [f, sub] = cand[rng.below(static_cast<uint32_t>(cand.size()))];
    std::vector<std::string> rs; for (auto& p : f->params) radicalsOf(p.second, rs);
    for (auto& r : rs) if (!sub.count(r)) { auto saved = radicals; radicals.clear(); sub[r] = randTy(1); radicals = saved; }
    std::vector<EP> ks{ mkName(f->isPred ? T::ID_PREDICATE : T::ID_FUNCTION, f->name) };
    Scope in = sc; in.mult *= 30;
    for (auto& p : f->params) {
      const auto pt = subst(p.second, sub);
      if (!elemSource(pt, in)) return nullptr;
      ks.push_back(gen(pt, in, d - 1, T::NT_FUNC_CALL));
    }
    return mk(T::NT_FUNC_CALL, ks);
  }

  // ---- sets
  EP genSet(const TyP& el, Scope& sc, int d, T parent) {
    if (d <= 0) return leafSet(el, sc, parent);
    const TyP st = tS(el);
    for (int tries = 0; tries < 6; ++tries) {
      const int r = rng.range(0, 99);
      if (r < 14) return leafSet(el, sc, parent);
      if (r < 24) {
        if (!elemSource(el, sc)) continue;
        std::vector<EP> ks; const int n = rng.range(1, 3);
        for (int i = 0; i < n; ++i) ks.push_back(gen(el, sc, d - 1, T::NT_ENUMERATION));
        return mk(T::NT_ENUMERATION, ks);
      }
      if (r < 40) {
        static const std::vector<T> ops{ T::UNION, T::INTERSECTION, T::SET_MINUS, T::SYMMINUS };
        const T op = rng.pick(ops);
        return mk(op, { genSet(el, sc, d - 1, op), genSet(el, sc, d - 1, op) });
      }
      if (r < 47) {
        if (el->k != 1) continue;
        std::vector<EP> ks; for (auto& c : el->cs) ks.push_back(genSet(c, sc, d - 1, T::DECART));
        return mk(T::DECART, ks);
      }
      if (r < 53) {
        if (el->k != 2 || maxCard(el->cs[0]) > 8) continue;
        return mk(T::BOOLEAN, { genSet(el->cs[0], sc, d - 1, T::BOOLEAN) });
      }
      if (r < 57) {
        if (!elemSource(el, sc)) continue;
        return mk(T::BOOL, { gen(el, sc, d - 1, T::BOOL) });
      }
      if (r < 67) {
        // declarative
        if (sc.mult * maxCard(el) > 4000) continue;
        Scope in = sc; in.mult *= maxCard(el);
        auto dom = genSet(el, sc, d - 1, T::NT_DECLARATIVE_EXPR);
        auto decl = declFor(el, in);
        auto e = mk(T::NT_DECLARATIVE_EXPR, { decl, dom, genLogic(in, d - 1) });
        e->shortForm = decl->id == T::ID_LOCAL && rng.chance(1, 2);
        return e;
      }
      if (r < 76) { if (auto e = imperative(el, sc, d)) return e; continue; }
      if (r < 81) {
        if (el->k != 1) continue;
        // filter
        auto arg = genSet(el, sc, d - 1, T::FILTER);
        const int ar = static_cast<int>(el->cs.size());
        std::vector<int> idx;
        for (int i = 1; i <= ar; ++i) if (rng.chance(1, 2)) idx.push_back(i);
        if (idx.empty()) idx.push_back(rng.range(1, ar));
        if (rng.chance(1, 3)) std::reverse(idx.begin(), idx.end());
        std::vector<EP> ks;
        if (idx.size() >= 2 && rng.chance(1, 3)) {
          std::vector<TyP> cs; for (int i : idx) cs.push_back(el->cs[static_cast<size_t>(i - 1)]);
          ks.push_back(genSet(tT(cs), sc, d - 1, T::FILTER));
        } else for (int i : idx) ks.push_back(genSet(el->cs[static_cast<size_t>(i - 1)], sc, d - 1, T::FILTER));
        ks.push_back(arg);
        return mkIdx(T::FILTER, idx, ks);
      }
      if (r < 86) {
        // big projection from a set of wider tuples
        const int n = rng.range(2, 3);
        std::vector<TyP> cs; std::vector<int> idx;
        if (el->k == 1 && static_cast<int>(el->cs.size()) <= n) {
          // choose positions for the components of el
          std::vector<int> pos; for (int i = 1; i <= n; ++i) pos.push_back(i);
          for (size_t i = pos.size(); i > 1; --i) std::swap(pos[i - 1], pos[rng.below(static_cast<uint32_t>(i))]);
          cs.assign(static_cast<size_t>(n), nullptr);
          for (size_t i = 0; i < el->cs.size(); ++i) { cs[static_cast<size_t>(pos[i] - 1)] = el->cs[i]; idx.push_back(pos[i]); }
          for (auto& c : cs) if (!c) c = randTy(0);
        } else {
          const int at = rng.range(1, n);
          for (int i = 1; i <= n; ++i) cs.push_back(i == at ? el : randTy(0));
          idx.push_back(at);
        }
        if (maxCard(tT(cs)) > 300) continue;
        return mkIdx(T::BIGPR, idx, { genSet(tT(cs), sc, d - 1, T::BIGPR) });
      }
      if (r < 90) {
        if (maxCard(el) > 8) continue;
        return mk(T::REDUCE, { genSet(st, sc, d - 1, T::REDUCE) });
      }
      if (r < 95) { if (auto c = call(st, sc, d)) return c; continue; }
      return eliminator(st, sc, d);
    }
    return leafSet(el, sc, parent);
  }

  EP imperative(const TyP& el, Scope& sc, int d) {
    // I{ value | x :∈ S ; [y := e ;] [guard ;] … }
    const TyP it = rng.chance(1, 2) ? el : randTy(1);
    if (sc.mult * maxCard(it) > 4000) return nullptr;
    Scope in = sc; in.mult *= maxCard(it);
    std::vector<EP> blocks;
    auto dom = genSet(it, sc, d - 1, T::ITERATE);
    if (rng.chance(1, 4) && in.mult * maxCard(it) <= 4000) {
      // chained form: x :∈ S ; s := <set depending on x> ; y :∈ s  - the domain of the second loop changes
      // with every pass of the first one although it mentions no loop variable itself
      auto x = declFor(it, in, false);
      blocks.push_back(mk(T::ITERATE, { x, dom }));
      const auto single = mk(T::NT_ENUMERATION, { x });
      EP dep;
      switch (rng.range(0, 3)) {
      default:
      case 0: dep = mk(T::SET_MINUS, { dom, single }); break;
      case 1: dep = single; break;
      case 2: dep = mk(T::UNION, { single, single }); break;
      case 3: dep = mk(T::INTERSECTION, { dom, single }); break;
      }
      const auto sName = fresh(in);
      in.vars.push_back({ sName, tS(it) });
      blocks.push_back(mk(T::ASSIGN, { mkName(T::ID_LOCAL, sName), dep }));
      if (rng.chance(1, 3)) { auto g = genLogic(in, d - 1); if (g->id != T::ITERATE && g->id != T::ASSIGN) blocks.push_back(g); }
      in.mult *= maxCard(it);
      auto y = declFor(it, in);
      blocks.push_back(mk(T::ITERATE, { y, mkName(T::ID_LOCAL, sName) }));
      if (!elemSource(el, in)) return nullptr;
      auto value = gen(el, in, d - 1, T::NT_IMPERATIVE_EXPR);
      std::vector<EP> ks{ value }; ks.insert(ks.end(), blocks.begin(), blocks.end());
      return mk(T::NT_IMPERATIVE_EXPR, ks);
    }
    auto decl = declFor(it, in);
    blocks.push_back(mk(T::ITERATE, { decl, dom }));
    const int extra = rng.range(0, 2);
    for (int i = 0; i < extra; ++i) {
      const int r = rng.range(0, 2);
      if (r == 0) {
        const TyP at = rng.chance(1, 2) ? el : randTy(1);
        if (!elemSource(at, in)) continue;
        auto val = gen(at, in, d - 1, T::ASSIGN);
        auto dd = declFor(at, in);
        blocks.push_back(mk(T::ASSIGN, { dd, val }));
      } else if (r == 1) {
        auto g = genLogic(in, d - 1);
        if (g->id == T::ITERATE || g->id == T::ASSIGN) continue;
        blocks.push_back(g);
      } else {
        const TyP it2 = randTy(1);
        if (in.mult * maxCard(it2) > 4000) continue;
        auto dom2 = genSet(it2, in, d - 1, T::ITERATE);
        in.mult *= maxCard(it2);
        auto d2 = declFor(it2, in);
        blocks.push_back(mk(T::ITERATE, { d2, dom2 }));
      }
    }
    if (!elemSource(el, in)) return nullptr;
    auto value = gen(el, in, d - 1, T::NT_IMPERATIVE_EXPR);
    std::vector<EP> ks{ value }; ks.insert(ks.end(), blocks.begin(), blocks.end());
    return mk(T::NT_IMPERATIVE_EXPR, ks);
  }

  // ---- integers
  EP genInt(Scope& sc, int d, T parent) {
    if (d <= 0) return leaf(tB("Z"), sc, parent);
    const int r = rng.range(0, 99);
    if (r < 25) return leaf(tB("Z"), sc, parent);
    if (r < 45) return mk(T::CARD, { genSet(randTy(1), sc, d - 1, T::CARD) });
    if (r < 80) {
      static const std::vector<T> ops{ T::PLUS, T::MINUS, T::MULTIPLY };
      const T op = rng.pick(ops);
      return mk(op, { genInt(sc, d - 1, op), genInt(sc, d - 1, op) });
    }
    return eliminator(tB("Z"), sc, d);
  }

  EP gen(const TyP& t, Scope& sc, int d, T parent) {
    if (t->k == 2) return genSet(t->cs[0], sc, d, parent);
    if (isInt(t)) return genInt(sc, d, parent);
    if (d <= 0) return leaf(t, sc, parent);
    if (t->k == 1) {
      if (rng.chance(3, 5) && elemSource(t, sc)) {
        std::vector<EP> ks; for (auto& c : t->cs) ks.push_back(gen(c, sc, d - 1, T::NT_TUPLE));
        return mk(T::NT_TUPLE, ks);
      }
      auto vs = varsOf(sc, t);
      if (!vs.empty() && rng.chance(1, 2)) return mkName(T::ID_LOCAL, rng.pick(vs)->name);
      return eliminator(t, sc, d);
    }
    auto vs = varsOf(sc, t);
    if (!vs.empty() && rng.chance(3, 5)) return mkName(T::ID_LOCAL, rng.pick(vs)->name);
    return eliminator(t, sc, d);
  }

  // ---- logic
  EP genLogic(Scope& sc, int d) {
    const int r = rng.range(0, 99);
    if (d <= 0 || r < 40) {
      const int p = rng.range(0, 99);
      if (p < 25) {
        TyP t = randTy(1); if (!elemSource(t, sc)) t = tS(t);
        return mk(rng.chance(2, 3) ? T::EQUAL : T::NOTEQUAL, { gen(t, sc, d - 1, T::EQUAL), gen(t, sc, d - 1, T::EQUAL) });
      }
      if (p < 40) {
        static const std::vector<T> ops{ T::GREATER, T::LESSER, T::GREATER_OR_EQ, T::LESSER_OR_EQ };
        const T op = rng.pick(ops);
        return mk(op, { genInt(sc, d - 1, op), genInt(sc, d - 1, op) });
      }
      if (p < 75) {
        TyP t = randTy(1); if (!elemSource(t, sc)) t = tS(t);
        const T op = rng.chance(2, 3) ? T::IN : T::NOTIN;
        return mk(op, { gen(t, sc, d - 1, op), genSet(t, sc, d - 1, op) });
      }
      static const std::vector<T> ops{ T::SUBSET, T::SUBSET_OR_EQ, T::NOTSUBSET };
      const T op = rng.pick(ops);
      const TyP t = randTy(1);
      return mk(op, { genSet(t, sc, d - 1, op), genSet(t, sc, d - 1, op) });
    }
    if (r < 48) return mk(T::NOT, { genLogic(sc, d - 1) });
    if (r < 70) {
      static const std::vector<T> ops{ T::AND, T::OR, T::IMPLICATION, T::EQUIVALENT };
      const T op = rng.pick(ops);
      return mk(op, { genLogic(sc, d - 1), genLogic(sc, d - 1) });
    }
    if (r < 93) {
      // quantifier
      const TyP el = randTy(1);
      const int nv = rng.chance(1, 4) ? rng.range(2, 3) : 1;
      double cost = 1; for (int i = 0; i < nv; ++i) cost *= maxCard(el);
      if (sc.mult * cost <= 4000) {
        Scope in = sc; in.mult *= cost;
        auto dom = genSet(el, sc, d - 1, T::FORALL);
        EP decl;
        if (nv == 1) decl = declFor(el, in);
        else {
          std::vector<EP> ds;
          for (int i = 0; i < nv; ++i) ds.push_back(declFor(el, in));
          decl = mk(T::NT_ENUM_DECL, ds);
        }
        return mk(rng.chance(1, 2) ? T::FORALL : T::EXISTS, { decl, dom, genLogic(in, d - 1) });
      }
    }
    if (auto c = call(nullptr, sc, d)) return c;
    return genLogic(sc, 0);
  }

  // near-miss for C02: `Q (a,b),c ∈ S  body`, the body written for `b` but spelled with `c` (c really ranges over
  // the whole tuple). A sound checker rejects it unless the two types happen to agree; an accepted one is evaluated.
  static void renameLocal(const EP& e, const std::string& from, const std::string& to) {
    if (e->id == T::ID_LOCAL && e->kids.empty() && e->name == from) e->name = to;
    for (auto& k : e->kids) renameLocal(k, from, to);
  }
  static bool mentions(const EP& e, const std::string& n) {
    if (e->id == T::ID_LOCAL && e->kids.empty() && e->name == n) return true;
    for (auto& k : e->kids) if (mentions(k, n)) return true;
    return false;
  }
  // near-miss for C02: the same bound name declared in two SIBLING scopes over domains of different element
  // types; the second body is written for the FIRST type. A sound checker rejects it (unless the types agree).
  EP siblingConfusion(Scope& sc, int d) {
    const TyP t1 = rng.chance(1, 2) ? tS(randTy(0)) : randTy(1);
    TyP t2 = randTy(rng.range(0, 1));
    if (same(t1, t2)) t2 = tT({ t2, t2 });
    if (sc.mult * (maxCard(t1) + maxCard(t2)) > 4000) return nullptr;
    auto dom1 = genSet(t1, sc, d - 1, T::FORALL);
    auto dom2 = genSet(t2, sc, d - 1, T::FORALL);
    const auto name = fresh(sc);
    Scope in = sc; in.mult *= std::max(maxCard(t1), maxCard(t2));
    in.vars.push_back({ name, t1 });
    EP body1, body2;
    for (int tries = 0; tries < 6; ++tries) { body1 = genLogic(in, std::max(1, d - 1)); if (mentions(body1, name)) break; }
    for (int tries = 0; tries < 6; ++tries) { body2 = genLogic(in, std::max(1, d - 1)); if (mentions(body2, name)) break; }
    if (!mentions(body2, name)) body2 = mk(T::EQUAL, { mkName(T::ID_LOCAL, name), mkName(T::ID_LOCAL, name) });
    const auto v = [&] { return mkName(T::ID_LOCAL, name); };
    // first scope over t1 (well-typed), second scope over t2 with a body typed for t1
    EP first, second;
    switch (rng.range(0, 2)) {
    default:
    case 0: first = mk(rng.chance(1, 2) ? T::FORALL : T::EXISTS, { v(), dom1, body1 }); break;
    case 1: first = mk(T::EQUAL, { mk(T::NT_DECLARATIVE_EXPR, { v(), dom1, body1 }), dom1 }); break;
    case 2: first = mk(T::SUBSET_OR_EQ, { mk(T::NT_IMPERATIVE_EXPR, { v(), mk(T::ITERATE, { v(), dom1 }) }), dom1 }); break;
    }
    switch (rng.range(0, 1)) {
    default:
    case 0: second = mk(rng.chance(1, 2) ? T::FORALL : T::EXISTS, { v(), dom2, body2 }); break;
    case 1: second = mk(T::EQUAL, { mk(T::NT_DECLARATIVE_EXPR, { v(), dom2, body2 }), dom2 }); break;
    }
    return mk(T::AND, { first, second });
  }

  EP enumConfusion(Scope& sc, int d) {
    const TyP t1 = randTy(rng.range(0, 1));
    const TyP t2 = rng.chance(2, 3) ? tS(randTy(0)) : randTy(1);
    const TyP tup = rng.chance(1, 3) ? tT({ t1, t1, t2 }) : tT({ t1, t2 });
    const double cost = maxCard(tup) * maxCard(tup);
    if (sc.mult * cost > 4000) return nullptr;
    auto dom = genSet(tup, sc, d - 1, T::FORALL);
    Scope in = sc; in.mult *= cost;
    std::vector<EP> pat;
    std::string bName;
    for (size_t i = 0; i < tup->cs.size(); ++i) {
      const auto n = fresh(in);
      in.vars.push_back({ n, tup->cs[i] });
      pat.push_back(mkName(T::ID_LOCAL, n));
      bName = n;
    }
    EP body;
    for (int tries = 0; tries < 6; ++tries) { body = genLogic(in, std::max(1, d - 1)); if (mentions(body, bName)) break; }
    if (!body || !mentions(body, bName)) {
      // make the last component matter: card / equality on it
      body = mk(T::EQUAL, { mkName(T::ID_LOCAL, bName), mkName(T::ID_LOCAL, bName) });
    }
    const auto cName = fresh(in);
    auto copy = std::make_shared<E>(*body);
    std::function<EP(const EP&)> clone = [&](const EP& x) { auto c = std::make_shared<E>(*x); for (auto& k : c->kids) k = clone(k); return c; };
    auto b2 = clone(body);
    renameLocal(b2, bName, cName);
    const bool patternFirst = rng.chance(3, 4);
    std::vector<EP> ds;
    if (patternFirst) { ds.push_back(mk(T::NT_TUPLE_DECL, pat)); ds.push_back(mkName(T::ID_LOCAL, cName)); }
    else { ds.push_back(mkName(T::ID_LOCAL, cName)); ds.push_back(mk(T::NT_TUPLE_DECL, pat)); }
    return mk(rng.chance(1, 2) ? T::FORALL : T::EXISTS, { mk(T::NT_ENUM_DECL, ds), dom, b2 });
  }
};

// ------------------------------------------------------------------ running cases
static std::string resultToken(Interpreter& it, const std::optional<ExpressionValue>& v, bool withPos) {
  if (v.has_value()) {
    if (std::holds_alternative<bool>(*v)) return std::string("b:") + (std::get<bool>(*v) ? "1" : "0");
    return "v:" + strip(std::get<StructuredData>(*v).ToString());
  }
  for (const auto& e : it.Errors().All()) {
    if (e.eid >= 0x8A00 && e.eid <= 0x8AFF) {
      char buf[32]; std::snprintf(buf, sizeof buf, "e:%04X", e.eid);
      return withPos ? std::string(buf) + "@" + std::to_string(e.position) : std::string(buf);
    }
  }
  for (const auto& e : it.Errors().All()) if (e.IsCritical()) { char buf[32]; std::snprintf(buf, sizeof buf, "reject:%04X", e.eid); return buf; }
  return "reject:none";
}
static std::string dropPos(const std::string& r) { auto p = r.find('@'); return r.rfind("e:", 0) == 0 && p != std::string::npos ? r.substr(0, p) : r; }

static void countNodes(SyntaxTree::Cursor c) {
  stats.add(std::string("node.") + vh::tokName(c->id));
  for (Index i = 0; i < c.ChildrenCount(); ++i) countNodes(c.Child(i));
}

static const char* pfx() { return gC02 ? "c02" : "c01"; }

// returns the implementation's result token for the MATH text (or "" if the text was not accepted)
static std::string runCase(Ctx& cx, const EP& e, const std::string& cls, bool metamorphic, const char* opSuffix = "") {
  const std::string text = render(e, false, 0);
  stats.add("cases.generated");
  Parser parser;
  if (!parser.Parse(text, Syntax::MATH)) { stats.add("reject.parse." + cls); if (std::getenv("VERIF_DEBUG")) std::fprintf(stderr, "PARSE-REJECT %s\n", text.c_str()); return ""; }
  auto ast = parser.ExtractAST();
  ErrorLogger log;
  TypeAuditor auditor(cx.env, log.SendReporter());
  if (!auditor.CheckType(*ast)) {
    stats.add("reject.type." + cls);
    if (std::getenv("VERIF_DEBUG")) { std::fprintf(stderr, "TYPE-REJECT %s", text.c_str()); for (auto& er : log.All()) std::fprintf(stderr, " %04X@%d", er.eid, er.position); std::fprintf(stderr, "\n"); }
    return "";
  }
  const ExpressionType type = auditor.GetType();
  const std::string tstr = typeString(type);
  const std::string wire = vh::astWire(ast->Root());
  countNodes(ast->Root());
  stats.add("cases.accepted"); stats.add("class." + cls);

  const std::string out = vh::forked([&]() {
    Interpreter it(cx.env, cx.env.GetAST(), cx.env.GetDataContext());
    const auto v = it.Evaluate(text, Syntax::MATH);
    std::string r = resultToken(it, v, true) + " it:" + std::to_string(it.Iterations());
    r += "\x1f"; r += vh::astWire(it.NormalizedParseTree().Root());
    r += "\x1f";
    if (v.has_value() && std::holds_alternative<StructuredData>(*v) && std::holds_alternative<Typification>(type))
      r += object::CheckCompatible(std::get<StructuredData>(*v), std::get<Typification>(type)) ? "1" : "0";
    return r;
  }, 30);
  std::string res, normWire, compat;
  if (out.rfind("fault:", 0) == 0) res = out;
  else {
    const auto p1 = out.find('\x1f'); const auto p2 = out.find('\x1f', p1 + 1);
    res = out.substr(0, p1); normWire = out.substr(p1 + 1, p2 - p1 - 1); compat = out.substr(p2 + 1);
  }
  const std::string tok = res.substr(0, res.find(' '));
  stats.add("result." + (tok.rfind("e:", 0) == 0 ? dropPos(tok) : tok.substr(0, tok.find(':'))));
  if (std::getenv("VERIF_DEBUG")) std::fprintf(stderr, "CASE [%s] %s  : %s => %s\n", cls.c_str(), text.c_str(), tstr.c_str(), res.c_str());

  emit("c01 text " + vh::hex(text), "ok");
  emit(std::string(pfx()) + " eval " + wire, res);
  if (!gC02) {
    if (res.rfind("fault:", 0) != 0) {
      emit(std::string("c01 judge") + opSuffix + " " + tok + " " + wire, "ok");
      emit("c01 norm " + wire, normWire);
    }
  } else {
    if (res.rfind("fault:", 0) != 0) {
      emit(std::string("c02 sound") + opSuffix + " " + vh::hex(tstr) + " " + tok, "ok");
      if (tok.rfind("v:", 0) == 0) emit("c02 hastype " + vh::hex(tstr) + " " + tok.substr(2), "1");
      else if (tok.rfind("b:", 0) == 0) emit("c02 hastype " + vh::hex(tstr) + " " + tok, "1");
      if (!compat.empty()) emit("c02 compat " + vh::hex(tstr) + " " + tok.substr(2), compat);
    }
  }
  if (metamorphic && !gC02 && res.rfind("fault:", 0) != 0) {
    struct Variant { const char* kind; std::string text; Syntax syn; };
    std::vector<Variant> vs{ { "ascii", render(e, true, 0), Syntax::ASCII }, { "parens", render(e, false, 1), Syntax::MATH },
                             { "ascii-parens", render(e, true, 1), Syntax::ASCII } };
    for (auto& v : vs) {
      Parser p2;
      if (!p2.Parse(v.text, v.syn)) { stats.add(std::string("meta.parse-reject.") + v.kind); if (std::getenv("VERIF_DEBUG")) std::fprintf(stderr, "META-PARSE-REJECT %s\n", v.text.c_str()); continue; }
      if (!(p2.AST() == *ast)) { stats.add(std::string("meta.tree-differs.") + v.kind); if (std::getenv("VERIF_DEBUG")) std::fprintf(stderr, "META-TREE-DIFFERS %s | %s\n", text.c_str(), v.text.c_str()); continue; }
      const std::string r2 = vh::forked([&]() {
        Interpreter it(cx.env, cx.env.GetAST(), cx.env.GetDataContext());
        const auto val = it.Evaluate(v.text, v.syn);
        return resultToken(it, val, false);
      }, 30);
      stats.add(std::string("meta.") + v.kind);
      emit(std::string("c01 meta ") + v.kind + " " + dropPos(tok) + " " + r2, "1");
    }
  }
  return tok;
}

// register a global by its definition text; returns false if the real parser / auditor rejects it
static bool defineGlobal(Ctx& cx, const std::string& name, const std::string& text, bool keepAst) {
  Parser parser;
  if (!parser.Parse(text, Syntax::MATH)) return false;
  auto ast = parser.ExtractAST();
  TypeAuditor auditor(cx.env);
  if (!auditor.CheckType(*ast)) return false;
  auto& el = cx.env.data[name];
  el.type = auditor.GetType();
  if (keepAst) {
    el.arguments = auditor.GetDeclarationArgs();
    el.ast = *ast;
    emit("c01 func " + name + " " + vh::astWire(ast->Root()), "ok");
  }
  return true;
}
static void bindData(Ctx& cx, const std::string& name, const StructuredData& v) {
  cx.env.data[name].objects = v;
  emit("c01 data " + name + " " + vh::hex(typeString(*cx.env.data[name].type)) + " " + strip(v.ToString()), "ok");
}

static std::string tyExpr(const TyP& t) {
  if (t->k == 0) return t->base;
  if (t->k == 2) return "\xE2\x84\xAC(" + tyExpr(t->cs[0]) + ")";
  std::string o;
  for (size_t i = 0; i < t->cs.size(); ++i) { if (i) o += "\xC3\x97"; o += t->cs[i]->k == 1 ? "(" + tyExpr(t->cs[i]) + ")" : tyExpr(t->cs[i]); }
  return o;
}

// random value of a type, built through the real factory
static std::optional<StructuredData> randVal(vh::Rng& rng, const Ctx& cx, const TyP& t) {
  if (t->k == 0) {
    if (t->base == "X1") { if (cx.n1 == 0) return std::nullopt; return Factory::Val(rng.range(1, cx.n1)); }
    if (t->base == "X2") { if (cx.n2 == 0) return std::nullopt; return Factory::Val(rng.range(1, cx.n2)); }
    return Factory::Val(cx.ints.empty() || rng.chance(1, 3) ? rng.range(0, 5) : rng.pick(cx.ints));
  }
  if (t->k == 1) {
    std::vector<StructuredData> cs;
    for (auto& c : t->cs) { auto v = randVal(rng, cx, c); if (!v) return std::nullopt; cs.push_back(*v); }
    return Factory::Tuple(cs);
  }
  std::vector<StructuredData> xs;
  const int n = rng.chance(1, 5) ? 0 : rng.range(1, 4);
  for (int i = 0; i < n; ++i) if (auto v = randVal(rng, cx, t->cs[0])) xs.push_back(*v);
  return Factory::Set(xs);
}

static void makeContext(vh::Rng& rng, Ctx& cx, bool big);
static void makeContextPtr(vh::Rng& rng, Ctx& cx) { makeContext(rng, cx, false); }
static void makeContext(vh::Rng& rng, Ctx& cx, bool big) {
  emit("c01 reset", "ok");
  cx.n1 = rng.range(0, 4); cx.n2 = rng.range(0, 3);
  if (rng.chance(3, 4) && cx.n1 == 0) cx.n1 = rng.range(1, 4);
  auto base = [&](const std::string& n, int card, TypeTraits tr) {
    cx.env.data[n].type = Typification(n).Bool(); cx.env.data[n].traits = tr;
    std::vector<int> v; for (int i = 1; i <= card; ++i) v.push_back(i);
    bindData(cx, n, setOfInts(v));
    cx.globals.push_back({ n, tS(tB(n)) });
  };
  base("X1", cx.n1, TraitsNominal);
  base("X2", cx.n2, TraitsNominal);
  {
    // constant set: integral traits, members are integers
    const int k = big ? rng.range(5, 8) : rng.range(1, 4);
    std::vector<int> pool{ 0, 1, 2, 3, 4, 5, 7, 10, -1, -3 };
    while (static_cast<int>(cx.ints.size()) < k) { const int v = rng.pick(pool); if (std::find(cx.ints.begin(), cx.ints.end(), v) == cx.ints.end()) cx.ints.push_back(v); }
    cx.env.data["C1"].type = Typification("C1").Bool(); cx.env.data["C1"].traits = TraitsIntegral;
    bindData(cx, "C1", setOfInts(cx.ints));
    cx.globals.push_back({ "C1", tS(tB("Z")) });
  }
  Gen g(rng, cx, false);
  // structures S1..S3: declared domain, random interpretation
  for (int i = 1; i <= 3; ++i) {
    const std::string n = "S" + std::to_string(i);
    TyP el = i == 1 ? tT({ tB("X1"), tB("X1") }) : g.randTy(2);
    if (g.maxCard(el) > 600) el = tT({ tB("X1"), tB("X2") });
    std::string dom = tyExpr(el);
    for (size_t p = 0; (p = dom.find("Z", p)) != std::string::npos; ++p) {}   // Z stays Z (integer domain)
    if (!defineGlobal(cx, n, n + "::=" + tyExpr(tS(el)), false)) { stats.add("ctx.struct-rejected"); continue; }
    if (auto v = randVal(rng, cx, tS(el))) { if (!rng.chance(1, 12)) bindData(cx, n, *v); else stats.add("ctx.global-without-data"); }
    cx.globals.push_back({ n, tS(el) });
  }
  // term functions and a predicate (templated over R1, R2)
  const int nf = rng.range(2, 4);
  for (int i = 1; i <= nf; ++i) {
    const bool pred = i == nf;
    const std::string n = (pred ? "P" : "F") + std::to_string(pred ? 1 : i);
    Gen fg(rng, cx, false);
    fg.radicals = rng.chance(2, 3) ? std::vector<std::string>{ "R1" } : std::vector<std::string>{ "R1", "R2" };
    if (rng.chance(1, 4)) fg.radicals.clear();
    Scope sc; std::vector<std::pair<std::string, TyP>> params;
    const int np = rng.range(1, 2);
    std::string args;
    for (int p = 0; p < np; ++p) {
      TyP pt = fg.randTy(2);
      if (p == 0 && !fg.radicals.empty() && rng.chance(1, 2)) pt = tS(tB("R1"));
      const std::string pn = std::string(1, static_cast<char>('s' + p));
      sc.vars.push_back({ pn, pt }); params.push_back({ pn, pt });
      if (p) args += ", ";
      args += pn + "\xE2\x88\x88" + tyExpr(pt);
    }
    TyP res = nullptr; EP body;
    if (pred) body = fg.genLogic(sc, 2);
    else {
      res = rng.chance(1, 2) ? params[0].second : fg.randTy(2);
      if (!fg.elemSource(res, sc)) res = tS(res);
      body = fg.gen(res, sc, 2, T::NT_FUNC_DEFINITION);
    }
    const std::string text = n + ":==[" + args + "] " + render(body, false, 0);
    if (!defineGlobal(cx, n, text, true)) { stats.add("ctx.func-rejected"); if (std::getenv("VERIF_DEBUG")) std::fprintf(stderr, "FUNC-REJECT %s\n", text.c_str()); cx.env.data.erase(n); continue; }
    if (std::getenv("VERIF_DEBUG")) std::fprintf(stderr, "FUNC %s\n", text.c_str());
    cx.funcs.push_back({ n, params, res, pred });
    stats.add(pred ? "ctx.predicates" : "ctx.functions");
  }
  // terms D1, D2: defined by an expression, interpreted by evaluating it
  for (int i = 1; i <= 2; ++i) {
    const std::string n = "D" + std::to_string(i);
    Scope sc; const TyP el = g.randTy(1);
    auto body = g.genSet(el, sc, 2, T::PUNC_DEFINE);
    const std::string text = n + ":==" + render(body, false, 0);
    Parser parser;
    if (!parser.Parse(text, Syntax::MATH)) continue;
    auto ast = parser.ExtractAST();
    TypeAuditor auditor(cx.env);
    if (!auditor.CheckType(*ast)) continue;
    const std::string r = vh::forked([&]() {
      Interpreter it(cx.env, cx.env.GetAST(), cx.env.GetDataContext());
      const auto v = it.Evaluate(text, Syntax::MATH);
      return v.has_value() && std::holds_alternative<StructuredData>(*v) ? std::string("ok") : std::string("no");
    }, 30);
    cx.env.data[n].type = auditor.GetType();
    if (r == "ok") {
      Interpreter it(cx.env, cx.env.GetAST(), cx.env.GetDataContext());
      const auto v = it.Evaluate(text, Syntax::MATH);
      bindData(cx, n, std::get<StructuredData>(*v));
    } else stats.add("ctx.global-without-data");
    cx.globals.push_back({ n, tS(el) });
    stats.add("ctx.terms");
  }
}

// near-miss mutants for C02: most are rejected by the checker, the accepted ones must stay sound
static EP cloneTree(const EP& e) { auto c = std::make_shared<E>(*e); for (auto& k : c->kids) k = cloneTree(k); return c; }
static void collectNodes(const EP& e, std::vector<EP>& out) { out.push_back(e); for (auto& k : e->kids) collectNodes(k, out); }
static EP mutate(vh::Rng& rng, const EP& e) {
  auto c = cloneTree(e);
  std::vector<EP> nodes; collectNodes(c, nodes);
  auto& n = nodes[rng.below(static_cast<uint32_t>(nodes.size()))];
  switch (rng.range(0, 7)) {
  case 6:
  case 7: {
    // variable confusion: one occurrence of a bound variable is replaced by another variable of the expression
    // (usually of another type): a sound checker rejects it unless the types happen to agree
    std::vector<EP> locals;
    for (auto& x : nodes) if (x->id == T::ID_LOCAL && x->kids.empty()) locals.push_back(x);
    if (locals.size() >= 2) {
      auto& a = locals[rng.below(static_cast<uint32_t>(locals.size()))];
      auto& b = locals[rng.below(static_cast<uint32_t>(locals.size()))];
      if (a->name != b->name) a->name = b->name;
    }
    break;
  }
  case 0: if (n->kids.size() >= 2 && n->id != T::NT_FUNC_CALL && n->id != T::FORALL && n->id != T::EXISTS && n->id != T::NT_DECLARATIVE_EXPR &&
              n->id != T::NT_IMPERATIVE_EXPR && n->id != T::NT_RECURSIVE_FULL && n->id != T::NT_RECURSIVE_SHORT && n->id != T::ITERATE && n->id != T::ASSIGN)
            std::swap(n->kids[0], n->kids[1]);
          break;
  case 1: if (n->kids.empty() && n->id != T::ID_FUNCTION && n->id != T::ID_PREDICATE) { n->id = T::LIT_INTEGER; n->num = rng.range(0, 3); } break;
  case 2: if (n->kids.empty() && n->id == T::ID_GLOBAL) n->name = rng.chance(1, 2) ? "X1" : "C1"; break;
  case 3: if (!n->idx.empty()) n->idx[0] = rng.range(1, 3); break;
  case 4: if (n->id == T::UNION) n->id = T::SET_MINUS; else if (n->id == T::IN) n->id = T::SUBSET_OR_EQ; else if (n->id == T::EQUAL) n->id = T::IN; break;
  default: if (n->id == T::NT_ENUMERATION && n->kids.size() == 1) { n->id = T::BOOL; } else if (n->id == T::BOOL) n->id = T::DEBOOL; break;
  }
  return c;
}

// ------------------------------------------------------------------ corpus of past failing inputs
static EP L(const std::string& n) { return mkName(T::ID_LOCAL, n); }
static EP G(const std::string& n) { return mkName(T::ID_GLOBAL, n); }

// the inputs on which the code pinned at the start of this work violated C01 / C02 (DESIGN findings 19-22,
// 27 and four more found by this package); all repaired by fix: commits, kept as an always-run corpus
static void corpusCases(vh::Rng& rng) {
  Ctx cx;
  emit("c01 reset", "ok");
  cx.n1 = 2; cx.n2 = 1; cx.ints = { 1, 2, 3, 4, 5, 6, 7 };
  auto base = [&](const std::string& n, std::vector<int> v, TypeTraits tr) {
    cx.env.data[n].type = Typification(n).Bool(); cx.env.data[n].traits = tr; bindData(cx, n, setOfInts(v));
  };
  base("X1", { 1, 2 }, TraitsNominal); base("X2", { 1 }, TraitsNominal); base("C1", cx.ints, TraitsIntegral);
  defineGlobal(cx, "F1", "F1:==[s\xE2\x88\x88\xE2\x84\xAC(X1)] D{y\xE2\x88\x88X1 | y\xE2\x88\x88s}", true);
  auto x1x1 = [&] { return mk(T::DECART, { G("X1"), G("X1") }); };
  // finding 19: value of I{…} without a variable
  for (auto& v : std::vector<EP>{ mkInt(1), mk(T::LIT_EMPTYSET), mk(T::NT_ENUMERATION, { mkInt(1) }), mk(T::NT_TUPLE, { mkInt(1), mkInt(2) }) })
    runCase(cx, mk(T::NT_IMPERATIVE_EXPR, { v, mk(T::ITERATE, { L("a"), G("X1") }) }), "corpus.imperative-ground-value", false);
  runCase(cx, mk(T::NT_IMPERATIVE_EXPR, { mkInt(rng.range(0, 9)), mk(T::ASSIGN, { L("a"), G("X1") }) }), "corpus.imperative-ground-value", false);
  // finding 20: tuple binders whose concatenated names coincide
  {
    auto inner = mk(T::EXISTS, { mk(T::NT_TUPLE_DECL, { L("ab"), L("c") }), x1x1(), mk(T::NOTEQUAL, { L("a"), L("ab") }) });
    runCase(cx, mk(T::FORALL, { mk(T::NT_TUPLE_DECL, { L("a"), L("bc") }), x1x1(), inner }), "corpus.binder-name-collision", false);
    auto inner2 = mk(T::NT_DECLARATIVE_EXPR, { mk(T::NT_TUPLE_DECL, { L("xy"), L("z") }), x1x1(), mk(T::NOTEQUAL, { L("x"), L("xy") }) });
    runCase(cx, mk(T::NT_DECLARATIVE_EXPR, { mk(T::NT_TUPLE_DECL, { L("x"), L("yz") }), x1x1(), mk(T::NOTEQUAL, { inner2, mk(T::LIT_EMPTYSET) }) }), "corpus.binder-name-collision", false);
  }
  // generated binder names: three patterns with one concatenation (@abcd, @abcd@, @abcd@@), the same pattern
  // twice (one name re-used), and a user variable that looks like a generated one
  {
    auto q3 = mk(T::EXISTS, { mk(T::NT_TUPLE_DECL, { L("abc"), L("d") }), x1x1(), mk(T::AND, { mk(T::NOTEQUAL, { L("a"), L("ab") }), mk(T::EQUAL, { L("abc"), L("a") }) }) });
    auto q2 = mk(T::EXISTS, { mk(T::NT_TUPLE_DECL, { L("ab"), L("cd") }), x1x1(), q3 });
    runCase(cx, mk(T::FORALL, { mk(T::NT_TUPLE_DECL, { L("a"), L("bcd") }), x1x1(), q2 }), "corpus.binder-name-collision", true);
    auto p1 = mk(T::FORALL, { mk(T::NT_TUPLE_DECL, { L("a"), L("bc") }), x1x1(), mk(T::EQUAL, { L("a"), L("bc") }) });
    auto p2 = mk(T::EXISTS, { mk(T::NT_TUPLE_DECL, { L("a"), L("bc") }), x1x1(), mk(T::EXISTS, { mk(T::NT_TUPLE_DECL, { L("ab"), L("c") }), x1x1(), mk(T::NOTEQUAL, { L("a"), L("ab") }) }) });
    runCase(cx, mk(T::OR, { p1, p2 }), "corpus.binder-name-collision", true);
    auto callA = mk(T::NT_FUNC_CALL, { mkName(T::ID_FUNCTION, "F1"), mk(T::NT_ENUMERATION, { L("__var1") }) });
    auto callB = mk(T::NT_FUNC_CALL, { mkName(T::ID_FUNCTION, "F1"), mk(T::NT_ENUMERATION, { L("__var2") }) });
    runCase(cx, mk(T::NT_DECLARATIVE_EXPR, { L("__var1"), G("X1"), mk(T::EXISTS, { L("__var2"), G("X1"),
      mk(T::AND, { mk(T::EQUAL, { callA, mk(T::NT_ENUMERATION, { L("__var1") }) }), mk(T::EQUAL, { mk(T::UNION, { callA, callB }), mk(T::NT_ENUMERATION, { L("__var1"), L("__var2") }) }) }) }) }), "corpus.inline-capture", true);
  }
  // a pattern variable of an enumerated declaration has the name of a variable bound inside the (copied) domain
  {
    auto rec = [&] { return mk(T::NT_RECURSIVE_FULL, { L("d"), x1x1(), mk(T::LESSER, { mk(T::CARD, { L("d") }), mkInt(1) }), mk(T::UNION, { L("d"), x1x1() }) }); };
    runCase(cx, mk(T::EXISTS, { mk(T::NT_ENUM_DECL, { mk(T::NT_TUPLE_DECL, { L("d"), L("a") }), L("b") }), rec(), mk(T::EQUAL, { L("b"), L("b") }) }), "corpus.enum-pattern-domain-copy", false);
    runCase(cx, mk(T::FORALL, { mk(T::NT_ENUM_DECL, { mk(T::NT_TUPLE_DECL, { L("d"), L("a") }), L("b") }), rec(), mk(T::EQUAL, { mk(T::NT_TUPLE, { L("d"), L("a") }), L("b") }) }), "corpus.enum-pattern-domain-copy", false);
    auto decl = [&] { return mk(T::NT_DECLARATIVE_EXPR, { L("a"), x1x1(), mk(T::EQUAL, { L("a"), L("a") }) }); };
    runCase(cx, mk(T::EXISTS, { mk(T::NT_ENUM_DECL, { mk(T::NT_TUPLE_DECL, { L("a"), L("c") }), L("b") }), decl(), mk(T::EQUAL, { L("b"), mk(T::NT_TUPLE, { L("a"), L("c") }) }) }), "corpus.enum-pattern-domain-copy", false);
  }
  // a recursion whose step is typed by the any-type must still have the type of its initial value
  // (∀x∈R{a:=X1 | 1=2 | ∅} pr1(x)=x was accepted with x : R0 and crashed)
  {
    auto rec = mk(T::NT_RECURSIVE_FULL, { L("a"), G("X1"), mk(T::EQUAL, { mkInt(1), mkInt(2) }), mk(T::LIT_EMPTYSET) });
    runCase(cx, rec, "corpus.recursion-init-type", false);
    auto pr = mk(T::SMALLPR, { L("x") }); pr->idx = { 1 };
    runCase(cx, mk(T::FORALL, { L("x"), rec, mk(T::EQUAL, { pr, L("x") }) }), "corpus.recursion-init-type", false);
  }
  // the condition / step of a recursion see the variable with the type of the INITIAL value too (repaired defect
  // C02-recursion-condition-type: R{a:=X1 | ∀x∈a pr1(x)=x | ∅} was accepted and crashed)
  {
    auto pr = [&](const std::string& v) { auto e = mk(T::SMALLPR, { L(v) }); e->idx = { 1 }; return e; };
    auto cond = [&] { return mk(T::FORALL, { L("x"), L("a"), mk(T::EQUAL, { pr("x"), L("x") }) }); };
    runCase(cx, mk(T::NT_RECURSIVE_FULL, { L("a"), G("X1"), cond(), mk(T::LIT_EMPTYSET) }), "corpus.recursion-condition-type", false);
    runCase(cx, mk(T::NT_RECURSIVE_FULL, { L("a"), G("X1"), cond(), L("a") }), "corpus.recursion-condition-type", false);
    runCase(cx, mk(T::NT_RECURSIVE_SHORT, { L("a"), G("X1"), mk(T::INTERSECTION, { mk(T::NT_DECLARATIVE_EXPR, { L("x"), L("a"), mk(T::EQUAL, { pr("x"), L("x") }) }), mk(T::LIT_EMPTYSET) }) }), "corpus.recursion-condition-type", false);
    runCase(cx, mk(T::NT_RECURSIVE_FULL, { L("a"), mk(T::LIT_EMPTYSET), mk(T::FORALL, { L("x"), L("a"), mk(T::IN, { L("x"), G("X1") }) }), mk(T::UNION, { L("a"), G("X1") }) }), "corpus.recursion-condition-type", false);
  }
  // a template parameter bound by an informative argument must not be re-bound by a later any-typed one (seeded change
  // C02-5): the calls below are accepted with the informative instance, or rejected - never accepted with ℬ(R0)
  {
    defineGlobal(cx, "F8", "F8:==[\xCE\xB1\xE2\x88\x88\xE2\x84\xAC(R1), \xCE\xB2\xE2\x88\x88\xE2\x84\xAC\xE2\x84\xAC(R1)] \xCE\xB1", true);
    auto call = [&](EP a, EP b) { return mk(T::NT_FUNC_CALL, { mkName(T::ID_FUNCTION, "F8"), std::move(a), std::move(b) }); };
    runCase(cx, call(G("X1"), mk(T::LIT_EMPTYSET)), "anytype.template-rebind", false);
    runCase(cx, mk(T::EQUAL, { mk(T::REDUCE, { call(G("X1"), mk(T::LIT_EMPTYSET)) }), mk(T::LIT_EMPTYSET) }), "anytype.template-rebind", false);
    runCase(cx, mk(T::EQUAL, { mkIdx(T::BIGPR, { 1 }, { call(G("X1"), mk(T::LIT_EMPTYSET)) }), mk(T::LIT_EMPTYSET) }), "anytype.template-rebind", false);
    runCase(cx, mk(T::FORALL, { L("x"), call(G("X1"), mk(T::LIT_EMPTYSET)), mk(T::EQUAL, { mkIdx(T::SMALLPR, { 1 }, { L("x") }), L("x") }) }), "anytype.template-rebind", false);
    runCase(cx, call(mk(T::LIT_EMPTYSET), mk(T::BOOLEAN, { G("X1") })), "anytype.template-rebind", false);
  }
  // leniency of the checker towards the any-type (an operand typed ℬ(R0): ∅, {} of nothing, ℬ(∅)) must be matched by an
  // evaluator that never touches what was not checked (seeded change C02-3: filter parameters of an empty argument)
  {
    auto empties = [&]() { return std::vector<EP>{ mk(T::LIT_EMPTYSET), mk(T::SET_MINUS, { mk(T::LIT_EMPTYSET), mk(T::LIT_EMPTYSET) }), mk(T::DEBOOL, { mk(T::NT_ENUMERATION, { mk(T::LIT_EMPTYSET) }) }) }; };
    auto params = [&]() { return std::vector<EP>{ mkInt(1), mk(T::NT_TUPLE, { mkInt(1), mkInt(2) }), G("X1"), mk(T::NT_ENUMERATION, { mkInt(1) }), mk(T::DEBOOL, { mk(T::NT_ENUMERATION, { mkInt(3) }) }), mk(T::CARD, { G("X1") }) }; };
    for (const auto& em : empties())
      for (const auto& pa : params()) {
        runCase(cx, mkIdx(T::FILTER, { 1 }, { cloneTree(pa), cloneTree(em) }), "anytype.filter", false);
        runCase(cx, mk(T::EQUAL, { mkIdx(T::FILTER, { 2 }, { cloneTree(pa), cloneTree(em) }), mk(T::LIT_EMPTYSET) }), "anytype.filter", false);
      }
    runCase(cx, mkIdx(T::FILTER, { 1, 2 }, { mk(T::NT_TUPLE, { mkInt(1), mkInt(2) }), mk(T::LIT_EMPTYSET) }), "anytype.filter", false);
    runCase(cx, mkIdx(T::FILTER, { 1, 2 }, { mkInt(1), G("X1"), mk(T::LIT_EMPTYSET) }), "anytype.filter", false);
    // ∀s∈ℬ(∅) ∀e∈X1 Fi1[e](s)=∅
    runCase(cx, mk(T::FORALL, { L("s"), mk(T::BOOLEAN, { mk(T::LIT_EMPTYSET) }), mk(T::FORALL, { L("e"), G("X1"),
      mk(T::EQUAL, { mkIdx(T::FILTER, { 1 }, { L("e"), L("s") }), mk(T::LIT_EMPTYSET) }) }) }), "anytype.filter", false);
    for (const auto& em : empties()) {
      auto bigpr = mkIdx(T::BIGPR, { 1 }, { cloneTree(em) });
      runCase(cx, mk(T::EQUAL, { bigpr, mk(T::LIT_EMPTYSET) }), "anytype.misc", false);
      runCase(cx, mk(T::EQUAL, { mk(T::REDUCE, { cloneTree(em) }), mk(T::LIT_EMPTYSET) }), "anytype.misc", false);
      runCase(cx, mk(T::EQUAL, { mk(T::CARD, { cloneTree(em) }), mkInt(0) }), "anytype.misc", false);
      runCase(cx, mk(T::FORALL, { L("x"), cloneTree(em), mk(T::EQUAL, { mkIdx(T::SMALLPR, { 2 }, { L("x") }), L("x") }) }), "anytype.misc", false);
      runCase(cx, mk(T::NT_DECLARATIVE_EXPR, { mk(T::NT_TUPLE_DECL, { L("u"), L("v") }), cloneTree(em), mk(T::EQUAL, { L("u"), L("v") }) }), "anytype.misc", false);
      runCase(cx, mk(T::NT_FUNC_CALL, { mkName(T::ID_FUNCTION, "F1"), cloneTree(em) }), "anytype.misc", false);
      runCase(cx, mk(T::DECART, { cloneTree(em), G("X1") }), "anytype.misc", false);
      runCase(cx, mk(T::IN, { mkInt(1), mk(T::UNION, { cloneTree(em), G("C1") }) }), "anytype.misc", false);
    }
  }
  // finding 21: int32 overflow
  runCase(cx, mk(T::PLUS, { mkInt(2147483647), mkInt(1) }), "corpus.int-overflow", false);
  runCase(cx, mk(T::NT_ENUMERATION, { mk(T::MULTIPLY, { mkInt(65536), mkInt(65536) }) }), "corpus.int-overflow", false);
  runCase(cx, mk(T::MINUS, { mk(T::MINUS, { mkInt(0), mkInt(2147483647) }), mkInt(2 + rng.range(0, 5)) }), "corpus.int-overflow", false);
  // finding 22: one lazy power set (> 100 members) iterated inside its own iteration
  {
    auto inner = mk(T::NT_DECLARATIVE_EXPR, { L("a"), L("s"), mk(T::EXISTS, { L("b"), L("s"), mk(T::EQUAL, { L("b"), L("a") }) }) });
    runCase(cx, mk(T::NT_IMPERATIVE_EXPR, { L("r"), mk(T::ASSIGN, { L("s"), mk(T::BOOLEAN, { G("C1") }) }), mk(T::ASSIGN, { L("r"), inner }) }), "corpus.lazy-cache", false);
    auto q = mk(T::FORALL, { L("s"), mk(T::NT_ENUMERATION, { mk(T::BOOLEAN, { G("C1") }) }),
      mk(T::FORALL, { L("a"), L("s"), mk(T::EXISTS, { L("b"), L("s"), mk(T::EQUAL, { L("b"), L("a") }) }) }) });
    runCase(cx, q, "corpus.lazy-cache", false);
  }
  // finding 27: a user local called __var1 is captured by inlining
  {
    auto callF = mk(T::NT_FUNC_CALL, { mkName(T::ID_FUNCTION, "F1"), mk(T::NT_ENUMERATION, { L("__var1") }) });
    auto e = mk(T::NT_DECLARATIVE_EXPR, { L("__var1"), G("X1"), mk(T::EQUAL, { callF, mk(T::NT_ENUMERATION, { L("__var1") }) }) });
    runCase(cx, e, "corpus.inline-capture", false);
  }
  // the substitution of tuple-pattern components reaches the binder's own domain, where a homonym
  // of an already closed scope lives
  {
    auto dom = mk(T::NT_DECLARATIVE_EXPR, { L("a"), x1x1(), mk(T::EQUAL, { mkIdx(T::SMALLPR, { 1 }, { L("a") }), mkIdx(T::SMALLPR, { 1 }, { L("a") }) }) });
    dom->shortForm = true;
    runCase(cx, mk(T::NT_DECLARATIVE_EXPR, { mk(T::NT_TUPLE_DECL, { L("a"), L("b") }), dom, mk(T::EQUAL, { L("a"), L("b") }) }), "corpus.pattern-subst-scope", false);
    auto inner = mk(T::NT_IMPERATIVE_EXPR, { L("a"), mk(T::ITERATE, { L("a"), G("X1") }) });
    runCase(cx, mk(T::NT_IMPERATIVE_EXPR, { L("b"), mk(T::ITERATE, { L("c"), inner }), mk(T::ITERATE, { mk(T::NT_TUPLE_DECL, { L("a"), L("b") }), x1x1() }) }), "corpus.pattern-subst-scope", false);
  }
  // tuple pattern that is not the last element of an enumerated declaration stays un-normalised
  {
    auto e = mk(T::FORALL, { mk(T::NT_ENUM_DECL, { mk(T::NT_TUPLE_DECL, { L("a"), L("b") }), L("c") }), x1x1(),
      mk(T::AND, { mk(T::IN, { L("a"), G("X1") }), mk(T::EQUAL, { L("c"), L("c") }) }) });
    runCase(cx, e, "corpus.enum-tuple-pattern", false);
    auto e2 = mk(T::EXISTS, { mk(T::NT_ENUM_DECL, { mk(T::NT_TUPLE_DECL, { L("a"), L("b") }), L("c") }), x1x1(),
      mk(T::AND, { mk(T::EQUAL, { L("a"), L("b") }), mk(T::EQUAL, { L("c"), L("c") }) }) });
    runCase(cx, e2, "corpus.enum-tuple-pattern", false);
  }
  // the copied domain of an enumerated declaration binds a variable named like an earlier variable of
  // the declaration: every binder restores the outer value of its slot (SlotGuard)
  {
    auto dom = [&](EP base) { return mk(T::NT_DECLARATIVE_EXPR, { L("a"), base, mk(T::EQUAL, { mkInt(1), mkInt(1) }) }); };
    auto s12 = [&] { return mk(T::NT_ENUMERATION, { mkInt(1), mkInt(2) }); };
    runCase(cx, mk(T::EXISTS, { mk(T::NT_ENUM_DECL, { L("a"), L("b") }), dom(s12()),
      mk(T::AND, { mk(T::EQUAL, { L("a"), mkInt(1) }), mk(T::EQUAL, { L("b"), L("b") }) }) }), "corpus.enum-domain-rebinds", false);
    runCase(cx, mk(T::FORALL, { mk(T::NT_ENUM_DECL, { L("a"), L("b"), L("c") }), dom(s12()),
      mk(T::OR, { mk(T::EQUAL, { L("a"), L("b") }), mk(T::OR, { mk(T::EQUAL, { L("b"), L("c") }), mk(T::EQUAL, { L("a"), L("c") }) }) }) }),
      "corpus.enum-domain-rebinds", false);
    runCase(cx, mk(T::EXISTS, { mk(T::NT_ENUM_DECL, { L("a"), L("b") }), dom(G("X1")),
      mk(T::AND, { mk(T::NOTEQUAL, { L("a"), L("b") }), mk(T::IN, { L("a"), mk(T::NT_ENUMERATION, { L("b"), L("a") }) }) }) }),
      "corpus.enum-domain-rebinds", false);
    // the same through the other binders: recursion, imperative blocks
    runCase(cx, mk(T::EXISTS, { mk(T::NT_ENUM_DECL, { L("a"), L("b") }),
      mk(T::NT_IMPERATIVE_EXPR, { L("a"), mk(T::ITERATE, { L("a"), s12() }) }),
      mk(T::AND, { mk(T::EQUAL, { L("a"), mkInt(1) }), mk(T::EQUAL, { L("b"), L("b") }) }) }), "corpus.enum-domain-rebinds", false);
  }
  // stage 9: NESTED tuple patterns (one generated variable '@'+all leaves, leaves = chains of projections); patterns of
  // different shape over the same leaves share the signature "a,b,c," (one generated name re-used with other paths),
  // and the flat pattern (ab,c) has the same candidate name @abc
  {
    auto s3l = [&] { return mk(T::DECART, { x1x1(), G("X1") }); };   // (X1×X1)×X1
    auto s3r = [&] { return mk(T::DECART, { G("X1"), x1x1() }); };   // X1×(X1×X1)
    auto patL = [&] { return mk(T::NT_TUPLE_DECL, { mk(T::NT_TUPLE_DECL, { L("a"), L("b") }), L("c") }); };
    auto patR = [&] { return mk(T::NT_TUPLE_DECL, { L("a"), mk(T::NT_TUPLE_DECL, { L("b"), L("c") }) }); };
    runCase(cx, mk(T::FORALL, { patL(), s3l(), mk(T::OR, { mk(T::EQUAL, { L("a"), L("c") }), mk(T::EQUAL, { L("b"), L("c") }) }) }), "corpus.nested-pattern", false);
    runCase(cx, mk(T::NT_DECLARATIVE_EXPR, { patL(), s3l(), mk(T::EQUAL, { L("a"), L("b") }) }), "corpus.nested-pattern", false);
    auto qL = mk(T::EXISTS, { patL(), s3l(), mk(T::AND, { mk(T::EQUAL, { L("a"), L("b") }), mk(T::NOTEQUAL, { L("b"), L("c") }) }) });
    auto qR = mk(T::EXISTS, { patR(), s3r(), mk(T::AND, { mk(T::NOTEQUAL, { L("a"), L("b") }), mk(T::EQUAL, { L("b"), L("c") }) }) });
    auto qF = mk(T::EXISTS, { mk(T::NT_TUPLE_DECL, { L("ab"), L("c") }), x1x1(), mk(T::NOTEQUAL, { L("ab"), L("c") }) });
    runCase(cx, mk(T::AND, { qL, mk(T::AND, { qR, qF }) }), "corpus.nested-pattern", false);
    // a nested pattern inside the scope of another shape over other leaves
    runCase(cx, mk(T::FORALL, { patL(), s3l(), mk(T::EXISTS, { mk(T::NT_TUPLE_DECL, { L("d"), mk(T::NT_TUPLE_DECL, { L("e"), L("f") }) }), s3r(),
      mk(T::AND, { mk(T::EQUAL, { L("a"), L("d") }), mk(T::AND, { mk(T::EQUAL, { L("b"), L("e") }), mk(T::EQUAL, { L("c"), L("f") }) }) }) }) }), "corpus.nested-pattern", false);
    // the same leaves, other shape, in the DOMAIN of the binder: D{(a,(b,c))∈X1×(X1×X1) | a=b} as the set quantified over
    runCase(cx, mk(T::EXISTS, { mk(T::NT_TUPLE_DECL, { L("a"), mk(T::NT_TUPLE_DECL, { L("b"), L("c") }) }),
      mk(T::NT_DECLARATIVE_EXPR, { patR(), s3r(), mk(T::EQUAL, { L("a"), L("b") }) }), mk(T::NOTEQUAL, { L("b"), L("c") }) }), "corpus.nested-pattern", false);
  }
}

// recorded finding: a function / predicate definition or a structure declaration is accepted by the
// checker, evaluating it answers ValueEID::unknownError (`return false; // TODO: specify error` in
// NameCollector::ViGlobalDeclaration).  These inputs come from here only, under their own op names.
static void definitionCases(vh::Rng& rng) {
  Ctx cx;
  makeContextPtr(rng, cx);
  for (int i = 0; i < 4; ++i) {
    Gen g(rng, cx, false);
    g.radicals = rng.chance(1, 2) ? std::vector<std::string>{ "R1" } : std::vector<std::string>{};
    Scope sc; std::vector<EP> decls;
    const int np = rng.range(1, 2);
    for (int p = 0; p < np; ++p) {
      const TyP pt = g.randTy(1);
      const std::string pn = std::string(1, static_cast<char>('s' + p));
      sc.vars.push_back({ pn, pt });
      auto dom = mkName(T::ID_GLOBAL, tyExpr(pt));      // rendered verbatim: a structure-domain expression
      decls.push_back(mk(T::NT_ARG_DECL, { L(pn), dom }));
    }
    const bool pred = rng.chance(1, 3);
    EP body;
    if (pred) body = g.genLogic(sc, 1);
    else { TyP res = g.randTy(1); if (!g.elemSource(res, sc)) res = tS(res); body = g.gen(res, sc, 1, T::NT_FUNC_DEFINITION); }
    auto fdef = mk(T::NT_FUNC_DEFINITION, { mk(T::NT_ARGUMENTS, decls), body });
    runCase(cx, mk(T::PUNC_DEFINE, { mkName(pred ? T::ID_PREDICATE : T::ID_FUNCTION, pred ? "P9" : "F9"), fdef }), "definition.function", false, "-defn");
  }
  for (int i = 0; i < 3; ++i) {
    Gen g(rng, cx, false);
    TyP el = g.randTy(2);
    runCase(cx, mk(T::PUNC_STRUCT, { G("S9"), mkName(T::ID_GLOBAL, tyExpr(tS(el))) }), "definition.structure", false, "-defn");
  }
}

// lazy sets beyond the element cache (CachedSD keeps 100 elements): products / power sets with more than 100
// members, bound to a NAME (global term or bound variable) and enumerated by two nested iterations at once -
// the outer iteration holds a reference to an element while the inner one walks the same set past its cache
// (found missing by seeded change C01-3: one overflow slot per set instead of one per iterator)
static void lazyCases(vh::Rng& rng) {
  Ctx cx;
  emit("c01 reset", "ok");
  const int n1 = rng.range(11, 12);
  cx.n1 = n1; cx.n2 = 7; cx.ints = { 1, 2, 3 };
  auto base = [&](const std::string& n, int card, TypeTraits tr) {
    cx.env.data[n].type = Typification(n).Bool(); cx.env.data[n].traits = tr;
    std::vector<int> v; for (int i = 1; i <= card; ++i) v.push_back(i);
    bindData(cx, n, setOfInts(v));
  };
  base("X1", n1, TraitsNominal); base("X2", 7, TraitsNominal); base("C1", 3, TraitsIntegral);
  // D1 = X1×X1 (121 / 144 pairs), D2 = ℬ(X2) (128 subsets): the values are the LAZY sets the evaluator returns
  auto term = [&](const std::string& n, const std::string& rhs) {
    const std::string text = n + ":==" + rhs;
    if (!defineGlobal(cx, n, text, false)) { stats.add("lazy.term-rejected"); return false; }
    Interpreter it(cx.env, cx.env.GetAST(), cx.env.GetDataContext());
    const auto v = it.Evaluate(text, Syntax::MATH);
    if (!v.has_value() || !std::holds_alternative<StructuredData>(*v)) { stats.add("lazy.term-without-value"); return false; }
    bindData(cx, n, std::get<StructuredData>(*v));
    return true;
  };
  if (!term("D1", "X1\xC3\x97X1") || !term("D2", "\xE2\x84\xAC(X2)")) return;
  auto pr = [&](int i, EP e) { return mkIdx(T::SMALLPR, { i }, { std::move(e) }); };
  auto same2 = [&](T q, const std::string& set) {                       // Q b∈set (a=b)
    return mk(q, { L("b"), G(set), mk(T::EQUAL, { L("a"), L("b") }) });
  };
  for (const std::string set : { "D1", "D2" }) {
    // D{a∈S | ∃b∈S (a=b)} = S ;  D{a∈S | ∀b∈S (a=b ∨ a≠b)} = S
    runCase(cx, mk(T::NT_DECLARATIVE_EXPR, { L("a"), G(set), same2(T::EXISTS, set) }), "lazy.builder-exists", true);
    runCase(cx, mk(T::NT_DECLARATIVE_EXPR, { L("a"), G(set),
      mk(T::FORALL, { L("b"), G(set), mk(T::OR, { mk(T::EQUAL, { L("a"), L("b") }), mk(T::NOTEQUAL, { L("a"), L("b") }) }) }) }), "lazy.builder-forall", false);
    runCase(cx, mk(T::FORALL, { L("a"), G(set), same2(T::EXISTS, set) }), "lazy.forall-exists", false);
    runCase(cx, mk(T::CARD, { mk(T::NT_DECLARATIVE_EXPR, { L("a"), G(set), same2(T::EXISTS, set) }) }), "lazy.card-builder", false);
    // the set held by a bound variable: ∀s∈{S} (D{a∈s | ∃b∈s (a=b)} = s)
    runCase(cx, mk(T::FORALL, { L("s"), mk(T::NT_ENUMERATION, { G(set) }),
      mk(T::EQUAL, { mk(T::NT_DECLARATIVE_EXPR, { L("a"), L("s"), mk(T::EXISTS, { L("b"), L("s"), mk(T::EQUAL, { L("a"), L("b") }) }) }), L("s") }) }), "lazy.bound-variable", false);
    // imperative: I{a | a:∈S; b:∈S; a=b} = S  and the inner walk stopping early: I{b | a:∈S; b:∈S; b=a}
    runCase(cx, mk(T::NT_IMPERATIVE_EXPR, { L("a"), mk(T::ITERATE, { L("a"), G(set) }), mk(T::ITERATE, { L("b"), G(set) }), mk(T::EQUAL, { L("a"), L("b") }) }), "lazy.imperative", false);
    // set operations with the same lazy set on both sides
    runCase(cx, mk(T::SET_MINUS, { G(set), mk(T::NT_DECLARATIVE_EXPR, { L("a"), G(set), mk(T::NOT, { same2(T::EXISTS, set) }) }) }), "lazy.minus-builder", false);
  }
  // the diagonal and the transposition of the product: membership of a constructed pair walks the set again
  runCase(cx, mk(T::NT_DECLARATIVE_EXPR, { L("a"), G("D1"), mk(T::EXISTS, { L("b"), G("D1"),
    mk(T::AND, { mk(T::EQUAL, { pr(1, L("a")), pr(2, L("b")) }), mk(T::EQUAL, { pr(2, L("a")), pr(1, L("b")) }) }) }) }), "lazy.transpose", true);
  runCase(cx, mk(T::CARD, { mk(T::NT_DECLARATIVE_EXPR, { L("a"), G("D1"), mk(T::EXISTS, { L("b"), G("D1"),
    mk(T::AND, { mk(T::EQUAL, { L("a"), L("b") }), mk(T::EQUAL, { pr(1, L("b")), pr(2, L("b")) }) }) }) }) }), "lazy.diagonal", false);
  runCase(cx, mk(T::NT_DECLARATIVE_EXPR, { mk(T::NT_TUPLE_DECL, { L("x"), L("y") }), G("D1"),
    mk(T::IN, { mk(T::NT_TUPLE, { L("y"), L("x") }), mk(T::NT_DECLARATIVE_EXPR, { L("b"), G("D1"), mk(T::NOTEQUAL, { pr(1, L("b")), pr(2, L("b")) }) }) }) }), "lazy.pattern-member", false);
  // unnamed lazy operands written twice, and red over a lazy power set
  auto x1x1 = [&] { return mk(T::DECART, { G("X1"), G("X1") }); };
  runCase(cx, mk(T::NT_DECLARATIVE_EXPR, { L("a"), x1x1(), mk(T::EXISTS, { L("b"), x1x1(), mk(T::EQUAL, { L("a"), L("b") }) }) }), "lazy.unnamed", false);
  runCase(cx, mk(T::REDUCE, { mk(T::NT_DECLARATIVE_EXPR, { L("a"), G("D2"), mk(T::EXISTS, { L("b"), G("D2"), mk(T::SUBSET, { L("a"), L("b") }) }) }) }), "lazy.reduce", false);
}

// documented resource limits (not defects): every ValueEID the evaluator can raise is exercised
static void limitCases() {
  Ctx cx;
  emit("c01 reset", "ok");
  cx.n1 = 2; cx.n2 = 1;
  for (int i = 1; i <= 31; ++i) cx.ints.push_back(i);
  auto base = [&](const std::string& n, std::vector<int> v, TypeTraits tr) {
    cx.env.data[n].type = Typification(n).Bool(); cx.env.data[n].traits = tr; bindData(cx, n, setOfInts(v));
  };
  base("X1", { 1, 2 }, TraitsNominal); base("X2", { 1 }, TraitsNominal); base("C1", cx.ints, TraitsIntegral);
  cx.env.data["D5"].type = Typification("X1").Bool();      // a term without a value
  const auto c1 = [] { return G("C1"); };
  // iterateInfinity
  runCase(cx, mk(T::FORALL, { L("a"), mk(T::LIT_INTSET), mk(T::EQUAL, { L("a"), L("a") }) }), "limit.intset", true);
  runCase(cx, mk(T::IN, { mkInt(1), mk(T::LIT_INTSET) }), "limit.intset", false);
  // iterationsLimit
  runCase(cx, mk(T::NT_RECURSIVE_SHORT, { L("a"), mkInt(0), mk(T::PLUS, { L("a"), mkInt(1) }) }), "limit.iterations", false);
  runCase(cx, mk(T::NT_IMPERATIVE_EXPR, { L("a"), mk(T::ITERATE, { L("a"), c1() }), mk(T::ITERATE, { L("b"), mk(T::DECART, { c1(), c1(), c1() }) }), mk(T::ITERATE, { L("c"), c1() }) }), "limit.iterations", false);
  runCase(cx, mk(T::FORALL, { mk(T::NT_ENUM_DECL, { L("a"), L("b"), L("c") }), mk(T::DECART, { c1(), c1() }), mk(T::EQUAL, { L("a"), L("a") }) }), "limit.iterations", false);
  runCase(cx, mk(T::NT_DECLARATIVE_EXPR, { L("x"), mk(T::BOOLEAN, { c1() }), mk(T::LESSER, { mk(T::CARD, { L("x") }), mkInt(1) }) }), "limit.iterations", false);
  // booleanLimit and its exceptions (parent ∈ / declarative)
  runCase(cx, mk(T::BOOLEAN, { c1() }), "limit.boolean", false);
  runCase(cx, mk(T::CARD, { mk(T::BOOLEAN, { c1() }) }), "limit.boolean", false);
  runCase(cx, mk(T::IN, { mk(T::NT_ENUMERATION, { mkInt(1), mkInt(31) }), mk(T::BOOLEAN, { c1() }) }), "limit.boolean", true);
  runCase(cx, mk(T::NOTIN, { mk(T::NT_ENUMERATION, { mkInt(1), mkInt(32) }), mk(T::BOOLEAN, { c1() }) }), "limit.boolean", false);
  runCase(cx, mk(T::SUBSET_OR_EQ, { mk(T::NT_ENUMERATION, { c1() }), mk(T::BOOLEAN, { c1() }) }), "limit.boolean", false);
  runCase(cx, mk(T::IN, { mk(T::NT_ENUMERATION, { mk(T::NT_ENUMERATION, { mkInt(1) }) }), mk(T::BOOLEAN, { mk(T::BOOLEAN, { c1() }) }) }), "limit.boolean", false);
  // typedOverflow
  runCase(cx, mk(T::DECART, { c1(), c1(), c1(), c1(), c1(), c1() }), "limit.product", false);
  runCase(cx, mk(T::CARD, { mk(T::DECART, { c1(), c1(), c1(), c1(), c1(), c1() }) }), "limit.product", false);
  runCase(cx, mk(T::IN, { mk(T::NT_TUPLE, { mkInt(1), mkInt(2), mkInt(3), mkInt(4), mkInt(5), mkInt(6) }), mk(T::DECART, { c1(), c1(), c1(), c1(), c1(), c1() }) }), "limit.product", false);
  runCase(cx, mk(T::CARD, { mk(T::DECART, { c1(), c1(), c1(), c1(), c1() }) }), "limit.product", false);
  // globalMissingValue, invalidDebool, short-circuit past a failing operand
  runCase(cx, mk(T::UNION, { G("X1"), G("D5") }), "limit.missing-global", false);
  runCase(cx, mk(T::OR, { mk(T::EQUAL, { mkInt(1), mkInt(1) }), mk(T::EQUAL, { G("D5"), G("D5") }) }), "limit.missing-global", false);
  runCase(cx, mk(T::DEBOOL, { G("X1") }), "limit.debool", false);
  runCase(cx, mk(T::DEBOOL, { G("X2") }), "limit.debool", false);
  runCase(cx, mk(T::OR, { mk(T::EQUAL, { mkInt(1), mkInt(1) }), mk(T::EQUAL, { mk(T::DEBOOL, { G("X1") }), mk(T::DEBOOL, { G("X1") }) }) }), "limit.debool", true);
  runCase(cx, mk(T::OR, { mk(T::EQUAL, { mk(T::DEBOOL, { G("X1") }), mk(T::DEBOOL, { G("X1") }) }), mk(T::EQUAL, { mkInt(1), mkInt(1) }) }), "limit.debool", false);
  runCase(cx, mk(T::IMPLICATION, { mk(T::EQUAL, { mkInt(1), mkInt(2) }), mk(T::EQUAL, { mk(T::DEBOOL, { G("X1") }), mk(T::DEBOOL, { G("X1") }) }) }), "limit.debool", false);
  runCase(cx, mkIdx(T::FILTER, { 1 }, { mk(T::NT_ENUMERATION, { mk(T::DEBOOL, { G("X1") }) }), mk(T::SET_MINUS, { mk(T::DECART, { G("X1"), G("X1") }), mk(T::DECART, { G("X1"), G("X1") }) }) }), "limit.debool", false);
  // stage 8 of C01 / C02 (filters): order of parameter evaluation in EvaluateFilterTuple / EvaluateFilterComplex.
  // An empty parameter BEFORE an erroneous one: the value is the empty set; an erroneous one before an empty one: invalidDebool
  // (the reference semantics has the value {} in both cases - only the refinement direction is claimed: filter_error_before_empty_example)
  {
    const auto x1x1 = [] { return mk(T::DECART, { G("X1"), G("X1") }); };
    const auto bad = [] { return mk(T::NT_ENUMERATION, { mk(T::DEBOOL, { G("X1") }) }); };
    const auto none = [] { return mk(T::SET_MINUS, { G("X1"), G("X1") }); };
    runCase(cx, mkIdx(T::FILTER, { 1, 2 }, { none(), bad(), x1x1() }), "stage8.filter-empty-before-error", false);
    runCase(cx, mkIdx(T::FILTER, { 1, 2 }, { bad(), none(), x1x1() }), "stage8.filter-error-before-empty", false);
    runCase(cx, mkIdx(T::FILTER, { 2, 1 }, { G("X1"), none(), x1x1() }), "stage8.filter-empty-param", false);
    runCase(cx, mkIdx(T::FILTER, { 1, 2 }, { mk(T::SET_MINUS, { x1x1(), x1x1() }), x1x1() }), "stage8.filter-complex-empty-param", false);
    runCase(cx, mk(T::EQUAL, { mkIdx(T::FILTER, { 2, 1 }, { x1x1(), x1x1() }), x1x1() }), "stage8.filter-complex", false);
    runCase(cx, mk(T::EQUAL, { mk(T::CARD, { mkIdx(T::FILTER, { 2, 1 }, { mk(T::NT_DECLARATIVE_EXPR, { mk(T::NT_TUPLE_DECL, { L("p"), L("q") }), x1x1(), mk(T::NOTEQUAL, { L("p"), L("q") }) }), x1x1() }) }), mkInt(2) }), "stage8.filter-complex", false);
    runCase(cx, mk(T::FORALL, { mk(T::NT_TUPLE_DECL, { L("a"), L("b") }), mkIdx(T::FILTER, { 2 }, { G("X1"), x1x1() }), mk(T::IN, { L("b"), G("X1") }) }), "stage8.filter-under-pattern", true);
    // one parameter for a full-arity index list that PERMUTES or REPEATS components: the re-ordered tuple is tested, not
    // the member itself (seeded change C01-5: a fast path returned S ∩ P)
    {
      auto T2 = [](int a, int b) { return mk(T::NT_TUPLE, { mkInt(a), mkInt(b) }); };
      auto T3 = [](int a, int b, int c) { return mk(T::NT_TUPLE, { mkInt(a), mkInt(b), mkInt(c) }); };
      const auto S = [&] { return mk(T::NT_ENUMERATION, { T2(1, 2), T2(3, 3), T2(2, 2), T2(4, 1) }); };
      const auto P = [&] { return mk(T::NT_ENUMERATION, { T2(2, 1), T2(3, 3), T2(1, 4), T2(1, 2) }); };
      runCase(cx, mkIdx(T::FILTER, { 2, 1 }, { P(), S() }), "stage8.filter-permuted", false);
      runCase(cx, mkIdx(T::FILTER, { 1, 2 }, { P(), S() }), "stage8.filter-permuted", false);
      runCase(cx, mkIdx(T::FILTER, { 1, 1 }, { P(), S() }), "stage8.filter-permuted", false);
      runCase(cx, mkIdx(T::FILTER, { 2, 2 }, { P(), S() }), "stage8.filter-permuted", false);
      const auto S3 = [&] { return mk(T::NT_ENUMERATION, { T3(1, 2, 3), T3(3, 2, 1), T3(2, 2, 2), T3(1, 1, 2) }); };
      const auto P3 = [&] { return mk(T::NT_ENUMERATION, { T3(3, 2, 1), T3(2, 2, 2), T3(2, 1, 1) }); };
      runCase(cx, mkIdx(T::FILTER, { 3, 2, 1 }, { P3(), S3() }), "stage8.filter-permuted", false);
      runCase(cx, mkIdx(T::FILTER, { 2, 3, 1 }, { P3(), S3() }), "stage8.filter-permuted", false);
      runCase(cx, mkIdx(T::FILTER, { 3, 1 }, { P(), S3() }), "stage8.filter-permuted", false);
    }
  }
  // stage 10 (Properties/C01.lean eval_refines_denote_partial10): tuple patterns in the blocks of I{}, in the variable
  // position of R{}, inside enumerated declarations - the witnesses of the theorem and their neighbours
  {
    auto pat = [&] { return mk(T::NT_TUPLE_DECL, { L("a"), L("b") }); };
    auto x1x1 = [&] { return mk(T::DECART, { G("X1"), G("X1") }); };
    auto tup = [&](EP x, EP y) { return mk(T::NT_TUPLE, { std::move(x), std::move(y) }); };
    // I{(a,b) | (a,b):∈X1×X1; a=b}
    runCase(cx, mk(T::NT_IMPERATIVE_EXPR, { tup(L("a"), L("b")), mk(T::ITERATE, { pat(), x1x1() }), mk(T::EQUAL, { L("a"), L("b") }) }), "stage10.imp-pattern", true);
    // I{(b,a) | c:∈X1; (a,b):=(c,c); d:∈X1; a=d}: an assigned pattern between two iterated plain variables
    runCase(cx, mk(T::NT_IMPERATIVE_EXPR, { tup(L("b"), L("a")), mk(T::ITERATE, { L("c"), G("X1") }), mk(T::ASSIGN, { pat(), tup(L("c"), L("c")) }),
      mk(T::ITERATE, { L("d"), G("X1") }), mk(T::EQUAL, { L("a"), L("d") }) }), "stage10.imp-pattern", true);
    // R{(a,b):=(0,0) | a<3 | (a+1,b+a)}
    runCase(cx, mk(T::NT_RECURSIVE_FULL, { pat(), tup(mkInt(0), mkInt(0)), mk(T::LESSER, { L("a"), mkInt(3) }),
      tup(mk(T::PLUS, { L("a"), mkInt(1) }), mk(T::PLUS, { L("b"), L("a") })) }), "stage10.rec-pattern", false);
    // R{((a,b),c):=((0,1),0) | c<4 | ((b,a),c+1)}: a nested pattern in the variable position
    runCase(cx, mk(T::NT_RECURSIVE_FULL, { mk(T::NT_TUPLE_DECL, { pat(), L("c") }), tup(tup(mkInt(0), mkInt(1)), mkInt(0)),
      mk(T::LESSER, { L("c"), mkInt(4) }), tup(tup(L("b"), L("a")), mk(T::PLUS, { L("c"), mkInt(1) })) }), "stage10.rec-pattern", false);
    // ∀(a,b),c∈X1×X1 a=a ;  ∃c,(a,b)∈X1×X1 (c=(b,a) & a≠b)
    runCase(cx, mk(T::FORALL, { mk(T::NT_ENUM_DECL, { pat(), L("c") }), x1x1(), mk(T::EQUAL, { L("a"), L("a") }) }), "stage10.enum-pattern", false);
    runCase(cx, mk(T::EXISTS, { mk(T::NT_ENUM_DECL, { L("c"), pat() }), x1x1(),
      mk(T::AND, { mk(T::EQUAL, { L("c"), tup(L("b"), L("a")) }), mk(T::NOTEQUAL, { L("a"), L("b") }) }) }), "stage10.enum-pattern", false);
  }
}

int main(int argc, char** argv) {
  gC02 = argc > 1 && std::string(argv[1]) == "c02";
  vh::Rng rng(vh::seedFromEnv());
  const bool deep = vh::thorough();

  corpusCases(rng);
  limitCases();
  lazyCases(rng);
  definitionCases(rng);

  const int contexts = deep ? 160 : 45;
  const int perCtx = deep ? 60 : 40;
  for (int c = 0; c < contexts; ++c) {
    Ctx cx;
    makeContext(rng, cx, deep && c % 5 == 0);
    for (int i = 0; i < perCtx; ++i) {
      const bool wild = rng.chance(1, 8);
      Gen g(rng, cx, wild);
      Scope sc;
      const int d = rng.range(1, deep ? 4 : 3);
      EP e;
      std::string cls;
      const int r = rng.range(0, 99);
      if (r < 35) { e = g.genLogic(sc, d); cls = "logic"; }
      else if (r < 80) { e = g.genSet(g.randTy(2), sc, d, T::INTERRUPT); cls = "set"; }
      else if (r < 90) { e = g.genInt(sc, d, T::INTERRUPT); cls = "int"; }
      else { TyP t = g.randTy(2); if (!g.elemSource(t, sc)) t = tS(t); e = g.gen(t, sc, d, T::INTERRUPT); cls = "any"; }
      if (gC02 && rng.chance(1, 8)) { if (auto c = g.enumConfusion(sc, d)) { e = c; cls = "confusion"; } }
      else if (gC02 && rng.chance(1, 8)) { if (auto c = g.siblingConfusion(sc, d)) { e = c; cls = "confusion-sibling"; } }
      if (e->id == T::LIT_EMPTYSET) continue;           // a lone ∅ crashes the type checker (C03/C04 finding)
      if (rng.chance(gC02 ? 3 : 1, 10)) { e = mutate(rng, e); cls = "mutant"; }
      if (rng.chance(1, 10)) { e = mk(T::PUNC_DEFINE, { G("D9"), e }); cls += "+define"; }
      if (wild) cls += "+wild";
      runCase(cx, e, cls, rng.chance(1, 3));
    }
  }
  std::fprintf(stderr, "[c01 harness] coverage histogram (mode %s, seed %llu, tier %s)\n", pfx(),
    static_cast<unsigned long long>(vh::seedFromEnv()), deep ? "thorough" : "quick");
  for (auto& [k, v] : stats.h) std::fprintf(stderr, "  %-44s %ld\n", k.c_str(), v);
  static const char* kinds[] = { "ID_LOCAL", "ID_GLOBAL", "LIT_INTEGER", "LIT_EMPTYSET", "PLUS", "MINUS", "MULTIPLY", "GREATER", "LESSER",
    "GREATER_OR_EQ", "LESSER_OR_EQ", "EQUAL", "NOTEQUAL", "FORALL", "EXISTS", "NOT", "EQUIVALENT", "IMPLICATION", "OR", "AND", "IN", "NOTIN",
    "SUBSET", "SUBSET_OR_EQ", "NOTSUBSET", "DECART", "UNION", "INTERSECTION", "SET_MINUS", "SYMMINUS", "BOOLEAN", "BIGPR", "SMALLPR", "FILTER",
    "CARD", "BOOL", "DEBOOL", "REDUCE", "ITERATE", "ASSIGN", "NT_ENUM_DECL", "NT_TUPLE", "NT_ENUMERATION", "NT_TUPLE_DECL", "NT_FUNC_CALL",
    "NT_DECLARATIVE_EXPR", "NT_IMPERATIVE_EXPR", "NT_RECURSIVE_FULL", "NT_RECURSIVE_SHORT", "PUNC_DEFINE" };
  int zero = 0;
  for (auto k : kinds) if (!stats.h.count(std::string("node.") + k)) { std::fprintf(stderr, "  ZERO-ROW node.%s\n", k); ++zero; }
  std::fprintf(stderr, "[c01 harness] node kinds never generated: %d%s\n", zero, zero ? " (run incomplete)" : "");
  return 0;
}
