// Wire form of a syntax tree for the line protocol (no spaces): NAME:data:lo:hi[kid,kid,...]
// data: `_` none, `i<n>` int, `t<hex>` text, `x<i1>.<i2>...` index tuple. Mirrors Driver/AstWire.lean.
#pragma once
#include "common.hpp"
#include "ccl/rslang/SyntaxTree.h"
#include "ccl/rslang/RSToken.h"

namespace vh {

inline const char* tokName(ccl::rslang::TokenID id) {
  using T = ccl::rslang::TokenID;
  switch (id) {
#define VH_T(x) case T::x: return #x;
  VH_T(ID_LOCAL) VH_T(ID_GLOBAL) VH_T(ID_FUNCTION) VH_T(ID_PREDICATE) VH_T(ID_RADICAL)
  VH_T(LIT_INTEGER) VH_T(LIT_INTSET) VH_T(LIT_EMPTYSET)
  VH_T(PLUS) VH_T(MINUS) VH_T(MULTIPLY)
  VH_T(GREATER) VH_T(LESSER) VH_T(GREATER_OR_EQ) VH_T(LESSER_OR_EQ)
  VH_T(EQUAL) VH_T(NOTEQUAL)
  VH_T(FORALL) VH_T(EXISTS) VH_T(NOT) VH_T(EQUIVALENT) VH_T(IMPLICATION) VH_T(OR) VH_T(AND)
  VH_T(IN) VH_T(NOTIN) VH_T(SUBSET) VH_T(SUBSET_OR_EQ) VH_T(NOTSUBSET)
  VH_T(DECART) VH_T(UNION) VH_T(INTERSECTION) VH_T(SET_MINUS) VH_T(SYMMINUS) VH_T(BOOLEAN)
  VH_T(BIGPR) VH_T(SMALLPR) VH_T(FILTER) VH_T(CARD) VH_T(BOOL) VH_T(DEBOOL) VH_T(REDUCE)
  VH_T(DECLARATIVE) VH_T(RECURSIVE) VH_T(IMPERATIVE)
  VH_T(ITERATE) VH_T(ASSIGN)
  VH_T(PUNC_DEFINE) VH_T(PUNC_STRUCT) VH_T(PUNC_PL) VH_T(PUNC_PR) VH_T(PUNC_CL) VH_T(PUNC_CR) VH_T(PUNC_SL) VH_T(PUNC_SR)
  VH_T(PUNC_BAR) VH_T(PUNC_COMMA) VH_T(PUNC_SEMICOLON)
  VH_T(NT_ENUM_DECL) VH_T(NT_TUPLE) VH_T(NT_ENUMERATION) VH_T(NT_TUPLE_DECL) VH_T(NT_ARG_DECL)
  VH_T(NT_FUNC_DEFINITION) VH_T(NT_ARGUMENTS) VH_T(NT_FUNC_CALL)
  VH_T(NT_DECLARATIVE_EXPR) VH_T(NT_IMPERATIVE_EXPR) VH_T(NT_RECURSIVE_FULL) VH_T(NT_RECURSIVE_SHORT)
  VH_T(INTERRUPT) VH_T(END)
#undef VH_T
  }
  return "UNKNOWN";
}

inline std::string dataWire(const ccl::rslang::TokenData& d) {
  if (!d.HasValue()) return "_";
  if (d.IsInt()) return "i" + std::to_string(d.ToInt());
  if (d.IsText()) { const auto h = hex(d.ToText()); return "t" + (h == "-" ? std::string{} : h); }
  if (d.IsTuple()) {
    std::string out = "x"; bool first = true;
    for (auto i : d.ToTuple()) { if (!first) out += "."; first = false; out += std::to_string(i); }
    return out;
  }
  return "_";
}

inline std::string astWire(ccl::rslang::SyntaxTree::Cursor c) {
  std::string out = std::string(tokName(c->id)) + ":" + dataWire(c->data) + ":" +
    std::to_string(c->pos.start) + ":" + std::to_string(c->pos.finish) + "[";
  for (ccl::rslang::Index i = 0; i < c.ChildrenCount(); ++i) {
    if (i) out += ",";
    out += astWire(c.Child(i));
  }
  return out + "]";
}

} // namespace vh
