// C16 correspondence harness: the real Packer / Unpacker of SDataCompact.cpp (through
// SDCompact::FromSData / SDCompact::Unpack / SDCompact::CreateHeader) on generated typed
// values and on generated / mutated integer tables.  Prints "<op>\t<impl result>" lines; the
// same op lines are fed to the Lean driver (lean/Driver/C16.lean documents the encodings).
//
// Cases are evaluated in forked children, a chunk at a time; when a chunk dies (assert,
// sanitizer abort, signal) it is replayed case by case so that the one faulting case is
// reported as "fault:<kind>" and every other case keeps its result.
#include "common.hpp"
#include "ccl/rslang/SDataCompact.h"
#include "ccl/rslang/StructuredData.h"
#include "ccl/rslang/Typification.h"

#include <climits>
#include <memory>
#include <optional>
#include <stdexcept>

using namespace ccl;
using ccl::object::SDCompact;
using ccl::object::StructuredData;
using ccl::object::Factory;
using ccl::rslang::Typification;
using Table = SDCompact::Data;

// ---------------------------------------------------------------- types
struct Ty {
  int kind{ 0 };               // 0 base, 1 tuple, 2 collection
  std::string id{};
  std::vector<Ty> kids{};
};

static std::string tyStr(const Ty& t) {
  if (t.kind == 0) return t.id;
  if (t.kind == 2) return "B(" + tyStr(t.kids[0]) + ")";
  std::string s = "T(";
  for (size_t i = 0; i < t.kids.size(); ++i) { if (i) s += ","; s += tyStr(t.kids[i]); }
  return s + ")";
}

// the raw constructor is used so that arity 0 / 1 (degenerate) can be expressed too;
// for arity >= 2 it is what Typification::Tuple does.
static Typification toTypif(const Ty& t) {
  if (t.kind == 0) return Typification(t.id);
  if (t.kind == 2) return toTypif(t.kids[0]).Bool();
  std::vector<Typification> f;
  for (const auto& k : t.kids) f.push_back(toTypif(k));
  return Typification(std::move(f));
}

static Ty base(const std::string& id) { return Ty{ 0, id, {} }; }
static Ty coll(Ty b) { return Ty{ 2, "", { std::move(b) } }; }
static Ty tup(std::vector<Ty> k) { return Ty{ 1, "", std::move(k) }; }

static Ty genTy(vh::Rng& rng, int depth, int maxArity) {
  static const std::vector<std::string> ids = { "X1", "X2", "C1", "Z" };
  if (depth == 0 || rng.chance(1, 5)) return base(rng.pick(ids));
  if (rng.chance(3, 5)) return coll(genTy(rng, depth - 1, maxArity));
  const int n = rng.range(2, maxArity);
  std::vector<Ty> k;
  for (int i = 0; i < n; ++i) k.push_back(genTy(rng, depth - 1, maxArity));
  return tup(std::move(k));
}

// ---------------------------------------------------------------- values
static std::string valStr(const StructuredData& v) {
  if (v.IsElement()) return std::to_string(v.E().Value());
  if (v.IsTuple()) {
    std::string s = "(";
    for (rslang::Index i = 0; i < v.T().Arity(); ++i) {
      if (i) s += ",";
      s += valStr(v.T().Component(static_cast<rslang::Index>(Typification::PR_START + i)));
    }
    return s + ")";
  }
  std::string s = "{"; bool first = true;
  for (const auto& el : v.B()) { if (!first) s += ","; first = false; s += valStr(el); }
  return s + "}";
}

static int32_t genInt(vh::Rng& rng) {
  static const std::vector<int32_t> odd = { 0, -1, -7, SDCompact::unknownCount, INT32_MAX, INT32_MIN, 1000 };
  if (rng.chance(1, 8)) return rng.pick(odd);
  return rng.range(1, 6);
}

static StructuredData genVal(vh::Rng& rng, const Ty& t, int maxCard) {
  if (t.kind == 0) return Factory::Val(genInt(rng));
  if (t.kind == 1) {
    std::vector<StructuredData> c;
    for (const auto& k : t.kids) c.push_back(genVal(rng, k, maxCard));
    return Factory::Tuple(c);
  }
  auto res = Factory::EmptySet();
  if (rng.chance(1, 5)) return res;                       // nested empty sets forced
  const int n = rng.range(0, maxCard);
  for (int i = 0; i < n; ++i) res.ModifyB().AddElement(genVal(rng, t.kids[0], maxCard));
  return res;
}

// ---------------------------------------------------------------- tables
static std::string tblStr(const Table& t) {
  if (t.empty()) return "#";
  std::string s;
  for (size_t i = 0; i < t.size(); ++i) {
    if (i) s += ";";
    if (t[i].empty()) { s += "-"; continue; }
    for (size_t j = 0; j < t[i].size(); ++j) { if (j) s += ","; s += std::to_string(t[i][j]); }
  }
  return s;
}

static const std::vector<int32_t>& cellPool() {
  static const std::vector<int32_t> p = { -2, -1, 0, 0, 1, 1, 2, 2, 3, 4, 5, SDCompact::unknownCount,
                                          SDCompact::unknownCount, INT32_MIN, INT32_MAX };
  return p;
}

static Table mutate(vh::Rng& rng, Table t) {
  const int k = rng.range(0, 9);
  auto pickRow = [&]() { return static_cast<size_t>(rng.below(static_cast<uint32_t>(t.size()))); };
  if (t.empty()) { t.push_back({ rng.pick(cellPool()) }); return t; }
  switch (k) {
  case 0: case 1: {                                        // one cell replaced
    auto& r = t[pickRow()];
    if (r.empty()) r.push_back(rng.pick(cellPool()));
    else r[rng.below(static_cast<uint32_t>(r.size()))] = rng.pick(cellPool());
    break; }
  case 2: {                                                // one cell +-1
    auto& r = t[pickRow()];
    if (!r.empty()) { auto& c = r[rng.below(static_cast<uint32_t>(r.size()))]; if (c > INT32_MIN + 1 && c < INT32_MAX - 1) c = rng.chance(1, 2) ? c + 1 : c - 1; }
    break; }
  case 3: t.erase(t.begin() + static_cast<long>(pickRow())); break;            // row deleted
  case 4: { const auto i = pickRow(); t.insert(t.begin() + static_cast<long>(i), t[i]); break; } // row duplicated
  case 5: { auto& r = t[pickRow()]; if (!r.empty()) r.resize(rng.below(static_cast<uint32_t>(r.size()))); break; } // row truncated
  case 6: t[pickRow()].push_back(rng.pick(cellPool())); break;                 // extra cell
  case 7: t.push_back(rng.chance(1, 2) ? t.back() : std::vector<int32_t>{});   // extra row
    break;
  case 8: { const auto i = pickRow(), j = pickRow(); std::swap(t[i], t[j]); break; } // rows swapped
  default: {                                               // a cell of column 0 / 1 becomes the marker
    auto& r = t[pickRow()];
    if (!r.empty()) r[rng.below(static_cast<uint32_t>(std::min<size_t>(r.size(), 2)))] = SDCompact::unknownCount;
    break; }
  }
  return t;
}

static Table randomTable(vh::Rng& rng) {
  Table t;
  const int rows = rng.range(0, 5);
  for (int i = 0; i < rows; ++i) {
    std::vector<int32_t> r;
    const int n = rng.range(0, 6);
    for (int j = 0; j < n; ++j) r.push_back(rng.pick(cellPool()));
    t.push_back(std::move(r));
  }
  return t;
}

// ---------------------------------------------------------------- cases
struct Case {
  std::string op;                          // primary op line
  std::function<std::string()> run;        // result of the primary op (+ "\n<op>\t<result>" follow-ups)
};

static std::vector<Case> cases;

static std::string guarded(const std::function<std::string()>& f) {
  try { return f(); }
  catch (const std::out_of_range&) { return "fault:oob"; }
  catch (const std::exception& e) { return std::string("fault:exception:") + typeid(e).name(); }
  catch (...) { return "fault:exception:unknown"; }
}

static void flush(bool alwaysSingle = false) {
  const size_t CH = 250;
  for (size_t from = 0; from < cases.size(); from += CH) {
    const size_t to = std::min(cases.size(), from + CH);
    std::string text;
    bool ok = !alwaysSingle;
    if (ok) {
      text = vh::forked([&]() {
        std::string out;
        for (size_t i = from; i < to; ++i) out += cases[i].op + "\t" + guarded(cases[i].run) + "\n";
        return out;
      }, 120);
      ok = text.rfind("fault:", 0) != 0;
    }
    if (!ok) {
      text.clear();
      for (size_t i = from; i < to; ++i) {
        auto r = vh::forked([&]() { return guarded(cases[i].run); }, 20);
        if (r == "fault:signal:abort") r = "fault:abort";
        text += cases[i].op + "\t" + r + "\n";
      }
    }
    std::fputs(text.c_str(), stdout);
  }
  cases.clear();
}

static void addUnpack(const Ty& ty, const Table& tbl, bool withCompat = true) {
  const std::string tys = tyStr(ty);
  cases.push_back({ "c16 unpack " + tys + " " + tblStr(tbl), [ty, tbl, tys, withCompat]() {
    const auto typif = toTypif(ty);
    const auto res = SDCompact::Unpack(tbl, typif);
    if (!res.has_value()) return std::string("none");
    std::string out = valStr(res.value());
    if (withCompat)
      out += "\nc16 compat " + tys + " " + out + "\t" + (object::CheckCompatible(res.value(), typif) ? "1" : "0");
    return out;
  } });
}

static void addValueOps(vh::Rng& rng, const Ty& ty, const StructuredData& val, int mutants) {
  const std::string tys = tyStr(ty), vs = valStr(val);
  const auto typif = toTypif(ty);
  cases.push_back({ "c16 pack " + tys + " " + vs, [typif, val]() { return tblStr(SDCompact::FromSData(val, typif).data); } });
  cases.push_back({ "c16 rt " + tys + " " + vs, [typif, val]() {
    const auto compact = SDCompact::FromSData(val, typif);
    const auto back = compact.Unpack(typif);
    if (!back.has_value()) return std::string("none 0");
    return valStr(back.value()) + " " + (back.value() == val ? "1" : "0");
  } });
  cases.push_back({ "c16 compat " + tys + " " + vs, [typif, val]() { return std::string(object::CheckCompatible(val, typif) ? "1" : "0"); } });
  // tables derived from the packed one (computed here, in the parent: packing is exercised above in a child)
  Table packed;
  const auto r = vh::forked([&]() { return tblStr(SDCompact::FromSData(val, typif).data); }, 20);
  if (r.rfind("fault:", 0) == 0) return;
  packed = SDCompact::FromSData(val, typif).data;
  addUnpack(ty, packed);
  if (ty.kind == 2 && !packed.empty() && !packed[0].empty() && packed[0][0] != 0) {
    Table m = packed; m[0][0] = SDCompact::unknownCount;   // top-level count unknown: same value expected
    addUnpack(ty, m);
  }
  for (int i = 0; i < mutants; ++i) {
    Table m = mutate(rng, packed);
    if (rng.chance(1, 4)) m = mutate(rng, m);
    addUnpack(ty, m);
  }
}

int main() {
  vh::Rng rng(vh::seedFromEnv());
  const bool deep = vh::thorough();

  // (0) fixed examples: upstream-style tables, nested empty sets, tuples containing sets
  {
    const Ty X1 = base("X1"), C1 = base("C1");
    const std::vector<Ty> fixed = {
      X1, coll(X1), coll(coll(X1)), coll(coll(coll(X1))), tup({ X1, C1 }), tup({ coll(X1), C1 }), tup({ C1, coll(X1) }),
      tup({ coll(X1), coll(X1) }), coll(tup({ coll(X1), C1 })), coll(tup({ X1, coll(coll(C1)) })),
      coll(tup({ coll(X1), coll(tup({ X1, X1 })) })), tup({ coll(coll(X1)), tup({ X1, coll(X1) }), C1 }),
      coll(coll(tup({ X1, coll(X1) }))) };
    for (const auto& ty : fixed) {
      cases.push_back({ "c16 header " + tyStr(ty), [ty]() {
        std::string s; bool first = true;
        for (const auto& h : SDCompact::CreateHeader(toTypif(ty))) { if (!first) s += ","; first = false; s += h; }
        return s; } });
      for (int i = 0; i < (deep ? 60 : 12); ++i) addValueOps(rng, ty, genVal(rng, ty, 3), 4);
    }
    // the value of the non-vacuity example: {({},1),({2,3},1)} : B(B(X1) x C1)
    {
      const Ty ty = coll(tup({ coll(X1), C1 }));
      const auto v = Factory::Set({ Factory::Tuple({ Factory::EmptySet(), Factory::Val(1) }),
                                    Factory::Tuple({ Factory::SetV({ 2, 3 }), Factory::Val(1) }) });
      addValueOps(rng, ty, v, 6);
    }
    // lazily enumerated values (power set, cartesian product) handed to the packer
    {
      const auto b = Factory::SetV({ 1, 2, 3 });
      addValueOps(rng, coll(coll(X1)), Factory::Boolean(b), 2);
      addValueOps(rng, coll(coll(coll(X1))), Factory::Boolean(Factory::Boolean(Factory::SetV({ 4, 5 }))), 2);
      addValueOps(rng, coll(tup({ X1, C1 })), Factory::Decartian({ b, Factory::SetV({ 7, 8 }) }), 2);
      addValueOps(rng, coll(tup({ coll(X1), C1 })), Factory::Decartian({ Factory::Boolean(Factory::SetV({ 1, 2 })), Factory::SetV({ 7 }) }), 2);
    }
    flush();
  }

  // (1) typed values: pack, round trip, compatibility, mutated tables
  const int nVals = deep ? 12000 : 3000;
  for (int i = 0; i < nVals; ++i) {
    const Ty ty = genTy(rng, rng.range(1, deep ? 4 : 3), 3);
    if (i % 40 == 0) {
      cases.push_back({ "c16 header " + tyStr(ty), [ty]() {
        std::string s; bool first = true;
        for (const auto& h : SDCompact::CreateHeader(toTypif(ty))) { if (!first) s += ","; first = false; s += h; }
        return s; } });
    }
    addValueOps(rng, ty, genVal(rng, ty, rng.range(1, 4)), deep ? 6 : 4);
    if (cases.size() > 5000) flush();
  }
  flush();

  // (1b) ONE Typification object assigned in place with a sequence of different types, values packed and unpacked one
  // after the other in the same process (seeded change C16-4: a memo keyed by the address of a type object is stale
  // once the object at that address has another shape)
  for (int i = 0; i < (deep ? 400 : 80); ++i) {
    std::vector<std::pair<Ty, StructuredData>> seq;
    const int n = rng.range(6, 14);
    for (int k = 0; k < n; ++k) {
      // element types with tuples and nested collections, values with (nested) empty sets followed by more data
      Ty ty = rng.chance(1, 2) ? coll(tup({ coll(genTy(rng, rng.range(0, 2), 3)), base("C1") })) : genTy(rng, rng.range(1, 3), 3);
      seq.emplace_back(ty, genVal(rng, ty, rng.range(1, 4)));
    }
    // the same with a COMPONENT of one tuple type assigned in place (its address is stable, its shape changes)
    {
      std::vector<std::pair<Ty, StructuredData>> comp;
      const int m = rng.range(4, 10);
      for (int k = 0; k < m; ++k) {
        std::vector<Ty> parts;
        const int w = rng.range(1, 4);
        for (int q = 0; q < w; ++q) parts.push_back(rng.chance(1, 4) ? coll(base("X1")) : base("X1"));
        const Ty elem = parts.size() == 1 ? coll(parts[0]) : tup(parts);     // a structured element type
        const Ty setTy = coll(elem);
        const Ty whole = tup({ setTy, base("C1") });
        comp.emplace_back(setTy, rng.chance(2, 3) ? Factory::Tuple({ Factory::EmptySet(), Factory::Val(rng.range(1, 9)) }) : genVal(rng, whole, 3));
      }
      cases.push_back({ "c16 rtseq c" + std::to_string(i), [comp]() {
        rslang::Typification slot = toTypif(tup({ comp.front().first, base("C1") }));
        int idx = 0;
        for (const auto& [setTy, val] : comp) {
          slot.T().Component(rslang::Typification::PR_START) = toTypif(setTy);
          const auto compact = SDCompact::FromSData(val, slot);
          const auto back = compact.Unpack(slot);
          if (!back.has_value() || !(back.value() == val)) return "0:" + std::to_string(idx) + ":" + slot.ToString() + ":" + valStr(val);
          ++idx;
        }
        return std::string("1"); } });
    }
    cases.push_back({ "c16 rtseq " + std::to_string(i), [seq]() {
      rslang::Typification slot = toTypif(seq.front().first);
      int idx = 0;
      for (const auto& [ty, val] : seq) {
        slot = toTypif(ty);                       // assigned in place: same object, possibly re-used heap blocks inside
        const auto compact = SDCompact::FromSData(val, slot);
        const auto back = compact.Unpack(slot);
        if (!back.has_value() || !(back.value() == val)) return "0:" + std::to_string(idx) + ":" + tyStr(ty) + ":" + valStr(val);
        ++idx;
      }
      return std::string("1"); } });
  }
  flush();

  // (2) arbitrary ragged tables against arbitrary types; packed tables against a different type
  const int nTabs = deep ? 40000 : 12000;
  for (int i = 0; i < nTabs; ++i) {
    const Ty ty = genTy(rng, rng.range(0, 3), 3);
    if (rng.chance(1, 6)) {
      const Ty other = genTy(rng, rng.range(1, 3), 3);
      const auto v = genVal(rng, other, 3);
      addUnpack(ty, SDCompact::FromSData(v, toTypif(other)).data);
    } else {
      addUnpack(ty, randomTable(rng));
    }
    if (cases.size() > 5000) flush();
  }
  flush();

  // (3) exhaustive small tables over {-1,0,1,2,unknownCount}
  {
    const Ty X1 = base("X1"), C1 = base("C1");
    const std::vector<Ty> tys = { X1, coll(X1), coll(coll(X1)), tup({ X1, C1 }), coll(tup({ X1, C1 })), tup({ coll(X1), C1 }),
                                  coll(tup({ coll(X1), C1 })), tup({ coll(X1), coll(X1) }) };
    const std::vector<int32_t> alpha = { -1, 0, 1, 2, SDCompact::unknownCount };
    // all rows of at most k cells
    auto rowsUpTo = [&](int k) {
      std::vector<std::vector<int32_t>> rows = { {} }, layer = { {} };
      for (int len = 1; len <= k; ++len) {
        std::vector<std::vector<int32_t>> next;
        for (const auto& r : layer) for (auto a : alpha) { auto q = r; q.push_back(a); next.push_back(q); }
        rows.insert(rows.end(), next.begin(), next.end());
        layer.swap(next);
      }
      return rows;
    };
    // all tables of at most n rows taken from `rows`
    auto tablesUpTo = [&](int n, const std::vector<std::vector<int32_t>>& rows) {
      std::vector<Table> tabs = { {} }, layer = { {} };
      for (int k = 1; k <= n; ++k) {
        std::vector<Table> next;
        for (const auto& t : layer) for (const auto& r : rows) { auto q = t; q.push_back(r); next.push_back(q); }
        tabs.insert(tabs.end(), next.begin(), next.end());
        layer.swap(next);
      }
      return tabs;
    };
    // quick: <= 2 rows x <= 2 cells (993 tables); thorough: <= 2 rows x <= 3 cells and 3 rows x <= 2 cells
    std::vector<Table> tabs = tablesUpTo(2, rowsUpTo(deep ? 3 : 2));
    if (deep) {
      for (auto& t : tablesUpTo(3, rowsUpTo(2))) if (t.size() == 3) tabs.push_back(std::move(t));
    }
    for (const auto& ty : tys) {
      for (const auto& t : tabs) {
        addUnpack(ty, t);
        if (cases.size() > 5000) flush();
      }
    }
    flush();
  }

  // (4) degenerate arities (only the raw constructor of Typification builds them; outside the
  // property's domain, compared with the model only): arity 1 collapses, arity 0 asserts.
  {
    const Ty X1 = base("X1");
    const std::vector<Ty> degenerate = { tup({ X1 }), coll(tup({ X1 })), tup({ coll(X1) }), tup({}), coll(tup({})), tup({ X1, tup({}) }) };
    const std::vector<Table> tabs = { {}, { {} }, { { 1 } }, { { 1, 2 } }, { { 2, 1 }, { 2, 2 } }, { { 0 } }, { { 1, 5 } }, { { 0, 0 } } };
    for (const auto& ty : degenerate) for (const auto& t : tabs) addUnpack(ty, t, false);
    flush(true);
  }
  return 0;
}
