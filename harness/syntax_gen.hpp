// Shared generators for the C05 / C06 correspondence harnesses (concrete syntax of RS expressions).
//  * GAst      : abstract tree, serialised in the same wire form as ast_wire.hpp, buildable into a SyntaxTree
//  * Renderer  : hand-written specification of the concrete syntax (both syntaxes) that also records the
//                range every node must get from the parser ("renderer's own bookkeeping")
//  * Gen       : exhaustive operator triples, constructor forms, random well-formed trees, malformed texts
//  * Runner    : batch-forked execution so that a crash of the implementation is an observation
#pragma once
#include "common.hpp"
#include "ast_wire.hpp"
#include "ccl/rslang/Parser.h"
#include "ccl/rslang/RSGenerator.h"
#include "ccl/rslang/SyntaxTree.h"
#include <map>
#include <set>
#include <memory>
#include <algorithm>
#include <utility>

namespace sg {

using T = ccl::rslang::TokenID;
using ccl::rslang::Syntax;
using ccl::rslang::SyntaxTree;
using ccl::rslang::Token;
using ccl::rslang::TokenData;
using ccl::StrRange;

inline const char* synName(Syntax s) { return s == Syntax::MATH ? "math" : "ascii"; }

inline std::string u8(uint32_t cp) {
  std::string o;
  if (cp < 0x80) o.push_back(static_cast<char>(cp));
  else if (cp < 0x800) { o.push_back(static_cast<char>(0xC0 | (cp >> 6))); o.push_back(static_cast<char>(0x80 | (cp & 0x3F))); }
  else if (cp < 0x10000) {
    o.push_back(static_cast<char>(0xE0 | (cp >> 12))); o.push_back(static_cast<char>(0x80 | ((cp >> 6) & 0x3F)));
    o.push_back(static_cast<char>(0x80 | (cp & 0x3F)));
  } else {
    o.push_back(static_cast<char>(0xF0 | (cp >> 18))); o.push_back(static_cast<char>(0x80 | ((cp >> 12) & 0x3F)));
    o.push_back(static_cast<char>(0x80 | ((cp >> 6) & 0x3F))); o.push_back(static_cast<char>(0x80 | (cp & 0x3F)));
  }
  return o;
}
// decode a valid UTF-8 string into code points
inline std::vector<uint32_t> cps(const std::string& s) {
  std::vector<uint32_t> out;
  for (size_t i = 0; i < s.size();) {
    const unsigned char c = static_cast<unsigned char>(s[i]);
    int n = c < 0x80 ? 1 : c < 0xE0 ? 2 : c < 0xF0 ? 3 : 4;
    uint32_t cp = n == 1 ? c : n == 2 ? (c & 0x1F) : n == 3 ? (c & 0x0F) : (c & 0x07);
    for (int k = 1; k < n && i + static_cast<size_t>(k) < s.size(); ++k) cp = (cp << 6) | (static_cast<unsigned char>(s[i + static_cast<size_t>(k)]) & 0x3F);
    out.push_back(cp); i += static_cast<size_t>(n);
  }
  return out;
}

// ---------------------------------------------------------------------------------------------
// abstract tree
// ---------------------------------------------------------------------------------------------
struct GAst {
  T id{ T::INTERRUPT };
  char dk{ '_' };                 // '_' none, 'i' int, 't' text, 'x' index tuple
  int32_t iv{ 0 };
  std::string tv;
  std::vector<int> xv;
  int lo{ 0 }, hi{ 0 };
  std::vector<GAst> kids;
};

inline GAst mk(T id, std::vector<GAst> kids = {}) { GAst g; g.id = id; g.kids = std::move(kids); return g; }
inline GAst mkText(T id, std::string s) { GAst g; g.id = id; g.dk = 't'; g.tv = std::move(s); return g; }
inline GAst mkInt(int32_t n) { GAst g; g.id = T::LIT_INTEGER; g.dk = 'i'; g.iv = n; return g; }
inline GAst mkIdx(T id, std::vector<int> x, std::vector<GAst> kids) {
  GAst g; g.id = id; g.dk = 'x'; g.xv = std::move(x); g.kids = std::move(kids); return g;
}
inline GAst Lc(const std::string& s) { return mkText(T::ID_LOCAL, s); }
inline GAst Gl(const std::string& s) { return mkText(T::ID_GLOBAL, s); }
inline GAst Fn(const std::string& s) { return mkText(T::ID_FUNCTION, s); }
inline GAst Pd(const std::string& s) { return mkText(T::ID_PREDICATE, s); }
inline GAst Rd(const std::string& s) { return mkText(T::ID_RADICAL, s); }
inline GAst B2(T id, GAst l, GAst r) { return mk(id, { std::move(l), std::move(r) }); }
inline GAst U1(T id, GAst k) { return mk(id, { std::move(k) }); }

inline void wireTo(const GAst& g, bool zero, std::string& out) {
  out += vh::tokName(g.id); out += ':';
  switch (g.dk) {
  case 'i': out += 'i'; out += std::to_string(g.iv); break;
  case 't': { out += 't'; const auto h = vh::hex(g.tv); if (h != "-") out += h; break; }
  case 'x': { out += 'x'; bool f = true; for (int i : g.xv) { if (!f) out += '.'; f = false; out += std::to_string(i); } break; }
  default: out += '_';
  }
  out += ':'; out += std::to_string(zero ? 0 : g.lo); out += ':'; out += std::to_string(zero ? 0 : g.hi); out += '[';
  bool first = true;
  for (const auto& k : g.kids) { if (!first) out += ','; first = false; wireTo(k, zero, out); }
  out += ']';
}
inline std::string wire(const GAst& g, bool zeroRanges = false) { std::string o; wireTo(g, zeroRanges, o); return o; }

inline TokenData gdata(const GAst& g) {
  switch (g.dk) {
  case 'i': return TokenData{ g.iv };
  case 't': return TokenData{ g.tv };
  case 'x': { std::vector<ccl::rslang::Index> v; for (int i : g.xv) v.push_back(static_cast<ccl::rslang::Index>(i)); return TokenData{ std::move(v) }; }
  default: return TokenData{};
  }
}
inline std::unique_ptr<SyntaxTree::Node> buildNode(const GAst& g) {
  auto n = std::make_unique<SyntaxTree::Node>(Token{ g.id, StrRange{ g.lo, g.hi }, gdata(g) });
  for (const auto& k : g.kids) n->AdoptChild(buildNode(k));
  return n;
}
inline SyntaxTree buildTree(const GAst& g) { return SyntaxTree{ SyntaxTree::RawNode{ buildNode(g) } }; }

// copy of a real tree with every ID_LOCAL text replaced by the library's transliteration for `syn`
inline std::unique_ptr<SyntaxTree::Node> copyTranslit(SyntaxTree::Cursor c, Syntax syn) {
  Token t = *c;
  if (t.id == T::ID_LOCAL && t.data.IsText()) t.data = TokenData{ t.ToString(syn) };
  auto n = std::make_unique<SyntaxTree::Node>(std::move(t));
  for (ccl::rslang::Index i = 0; i < c.ChildrenCount(); ++i) n->AdoptChild(copyTranslit(c.Child(i), syn));
  return n;
}
inline SyntaxTree translitTree(const SyntaxTree& t, Syntax syn) {
  return SyntaxTree{ SyntaxTree::RawNode{ copyTranslit(t.Root(), syn) } };
}

// ---------------------------------------------------------------------------------------------
// classification of token ids (hand-written from the documented grammar)
// ---------------------------------------------------------------------------------------------
inline bool isArith(T id) { return id == T::PLUS || id == T::MINUS || id == T::MULTIPLY; }
inline bool isSetOp(T id) { return id == T::UNION || id == T::INTERSECTION || id == T::SET_MINUS || id == T::SYMMINUS; }
inline int lvlS(T id) {
  if (id == T::PLUS || id == T::MINUS) return 1;
  if (id == T::MULTIPLY) return 2;
  if (id == T::DECART || isSetOp(id)) return 3;
  return 0;
}
inline bool isBinS(T id) { return lvlS(id) != 0; }
inline int lvlL(T id) {
  switch (id) {
  case T::EQUIVALENT: return 1; case T::IMPLICATION: return 2; case T::OR: return 3; case T::AND: return 4;
  default: return 0;
  }
}
inline bool isBinL(T id) { return lvlL(id) != 0; }
inline bool isPred(T id) {
  switch (id) {
  case T::IN: case T::NOTIN: case T::SUBSET: case T::SUBSET_OR_EQ: case T::NOTSUBSET: case T::EQUAL: case T::NOTEQUAL:
  case T::GREATER: case T::LESSER: case T::GREATER_OR_EQ: case T::LESSER_OR_EQ: return true;
  default: return false;
  }
}
inline bool isLogic(const GAst& g) {
  if (isPred(g.id) || isBinL(g.id) || g.id == T::NOT || g.id == T::FORALL || g.id == T::EXISTS) return true;
  return g.id == T::NT_FUNC_CALL && !g.kids.empty() && g.kids[0].id == T::ID_PREDICATE;
}
// parentheses REQUIRED around kid `k` at operand position `pos` of a binary set/arithmetic parent `p`
inline bool needS(T p, T k, int pos) {
  const int lk = lvlS(k), lp = lvlS(p);
  if (lk == 0) return false;
  if (lk < lp) return true;
  if (lk > lp) return false;
  if (pos > 0) return true;
  return p == T::DECART && k == T::DECART;
}
inline bool needL(T p, T k, int pos) {
  const int lk = lvlL(k), lp = lvlL(p);
  if (lk == 0) return false;
  if (lk < lp) return true;
  if (lk > lp) return false;
  return pos > 0;
}

// ---------------------------------------------------------------------------------------------
// spellings
// ---------------------------------------------------------------------------------------------
inline std::string spell(T id, Syntax s) {
  const bool m = s == Syntax::MATH;
  switch (id) {
  case T::PLUS: return m ? "+" : "\\plus";
  case T::MINUS: return m ? "-" : "\\minus";
  case T::MULTIPLY: return m ? "*" : "\\multiply";
  case T::GREATER: return m ? ">" : "\\gr";
  case T::LESSER: return m ? "<" : "\\ls";
  case T::GREATER_OR_EQ: return m ? u8(0x2265) : "\\ge";
  case T::LESSER_OR_EQ: return m ? u8(0x2264) : "\\le";
  case T::EQUAL: return m ? "=" : "\\eq";
  case T::NOTEQUAL: return m ? u8(0x2260) : "\\noteq";
  case T::FORALL: return m ? u8(0x2200) : "\\A";
  case T::EXISTS: return m ? u8(0x2203) : "\\E";
  case T::NOT: return m ? u8(0x00AC) : "\\neg";
  case T::AND: return m ? "&" : "\\and";
  case T::OR: return m ? u8(0x2228) : "\\or";
  case T::IMPLICATION: return m ? u8(0x21D2) : "\\impl";
  case T::EQUIVALENT: return m ? u8(0x21D4) : "\\equiv";
  case T::ITERATE: return m ? ":" + u8(0x2208) : "\\from";
  case T::ASSIGN: return m ? ":=" : "\\assign";
  case T::IN: return m ? u8(0x2208) : "\\in";
  case T::NOTIN: return m ? u8(0x2209) : "\\notin";
  case T::SUBSET_OR_EQ: return m ? u8(0x2286) : "\\subseteq";
  case T::SUBSET: return m ? u8(0x2282) : "\\subset";
  case T::NOTSUBSET: return m ? u8(0x2284) : "\\notsubset";
  case T::DECART: return m ? u8(0x00D7) : "*";
  case T::UNION: return m ? u8(0x222A) : "\\union";
  case T::INTERSECTION: return m ? u8(0x2229) : "\\intersect";
  case T::SET_MINUS: return m ? "\\" : "\\setminus";
  case T::SYMMINUS: return m ? u8(0x2206) : "\\symmdiff";
  case T::BOOLEAN: return m ? u8(0x212C) : "B";
  case T::LIT_EMPTYSET: return m ? u8(0x2205) : "{}";
  case T::LIT_INTSET: return "Z";
  case T::PUNC_DEFINE: return m ? ":==" : "\\defexpr";
  case T::PUNC_STRUCT: return m ? "::=" : "\\deftype";
  case T::BIGPR: return "Pr";
  case T::SMALLPR: return "pr";
  case T::FILTER: return "Fi";
  case T::CARD: return "card";
  case T::BOOL: return "bool";
  case T::DEBOOL: return "debool";
  case T::REDUCE: return "red";
  case T::DECLARATIVE: return "D";
  case T::RECURSIVE: return "R";
  case T::IMPERATIVE: return "I";
  case T::PUNC_PL: return "(";
  case T::PUNC_PR: return ")";
  case T::PUNC_CL: return "{";
  case T::PUNC_CR: return "}";
  case T::PUNC_SL: return "[";
  case T::PUNC_SR: return "]";
  case T::PUNC_BAR: return "|";
  case T::PUNC_COMMA: return ",";
  case T::PUNC_SEMICOLON: return ";";
  default: return "?";
  }
}
inline const std::vector<T>& allSpelled() {
  static const std::vector<T> v = {
    T::PLUS, T::MINUS, T::MULTIPLY, T::GREATER, T::LESSER, T::GREATER_OR_EQ, T::LESSER_OR_EQ, T::EQUAL, T::NOTEQUAL,
    T::FORALL, T::EXISTS, T::NOT, T::AND, T::OR, T::IMPLICATION, T::EQUIVALENT, T::ITERATE, T::ASSIGN, T::IN, T::NOTIN,
    T::SUBSET_OR_EQ, T::SUBSET, T::NOTSUBSET, T::DECART, T::UNION, T::INTERSECTION, T::SET_MINUS, T::SYMMINUS, T::BOOLEAN,
    T::LIT_EMPTYSET, T::LIT_INTSET, T::PUNC_DEFINE, T::PUNC_STRUCT, T::CARD, T::BOOL, T::DEBOOL, T::REDUCE,
    T::DECLARATIVE, T::RECURSIVE, T::IMPERATIVE, T::PUNC_PL, T::PUNC_PR, T::PUNC_CL, T::PUNC_CR, T::PUNC_SL, T::PUNC_SR,
    T::PUNC_BAR, T::PUNC_COMMA, T::PUNC_SEMICOLON };
  return v;
}
inline std::string idxText(const std::vector<int>& x) {
  std::string o; bool f = true;
  for (int i : x) { if (!f) o += ','; f = false; o += std::to_string(i); }
  return o;
}

// ---------------------------------------------------------------------------------------------
// tokens of a rendered text and their layout
// ---------------------------------------------------------------------------------------------
struct RTok {
  std::string s;
  bool wordL{ false }, wordR{ false };  // first / last character can merge with an adjacent identifier character
  bool bs{ false };                     // ASCII backslash word: whitespace on both sides
};
inline bool isWordCp(uint32_t c) {
  return c == '_' || (c >= '0' && c <= '9') || (c >= 'a' && c <= 'z') || (c >= 'A' && c <= 'Z') || (c >= 0x3B1 && c <= 0x3C9);
}
inline RTok mkTok(const std::string& s, Syntax syn) {
  RTok t; t.s = s;
  const auto c = cps(s);
  if (!c.empty()) { t.wordL = isWordCp(c.front()); t.wordR = isWordCp(c.back()); }
  t.bs = syn == Syntax::ASCII && s.size() > 1 && s[0] == '\\';
  return t;
}

struct Layout { std::string text; std::vector<int> st, en; };

// wsMode: 0 minimal, 1 light random (spaces), 2 heavy random (tabs, newlines, leading/trailing)
inline Layout layoutToks(const std::vector<RTok>& toks, Syntax syn, int wsMode, vh::Rng& rng) {
  Layout L;
  static const std::vector<std::string> wsMath = { " ", "\t", "\n" };
  static const std::vector<std::string> wsAscii = { " ", "\t", "\r", "\n" };
  const auto& alpha = syn == Syntax::MATH ? wsMath : wsAscii;
  int pos = 0;
  auto addWs = [&](const std::string& w) { L.text += w; pos += static_cast<int>(w.size()); };
  auto randomWs = [&](bool required) {
    std::string w;
    if (wsMode == 1) { if (rng.chance(1, 3)) w = " "; if (rng.chance(1, 12)) w += " "; }
    else if (wsMode == 2) {
      if (rng.chance(1, 2)) { const int n = rng.range(1, 3); for (int i = 0; i < n; ++i) w += rng.chance(1, 2) ? std::string(" ") : rng.pick(alpha); }
    }
    if (required && w.empty()) w = wsMode == 2 ? rng.pick(alpha) : std::string(" ");
    return w;
  };
  if (wsMode == 2 && rng.chance(1, 4)) addWs(randomWs(true));
  for (size_t i = 0; i < toks.size(); ++i) {
    if (i > 0) {
      const bool required = (toks[i - 1].wordR && toks[i].wordL) || toks[i - 1].bs || toks[i].bs;
      addWs(randomWs(required));
    }
    L.st.push_back(pos);
    L.text += toks[i].s;
    pos += syn == Syntax::MATH ? static_cast<int>(cps(toks[i].s).size()) : static_cast<int>(toks[i].s.size());
    L.en.push_back(pos);
  }
  if (wsMode == 2 && rng.chance(1, 4)) addWs(randomWs(true));
  return L;
}

// ---------------------------------------------------------------------------------------------
// renderer: abstract tree -> tokens; node ranges are first recorded as token indices
// ---------------------------------------------------------------------------------------------
struct Renderer {
  Syntax syn;
  int parenMode;   // 0 only required parentheses, 1 random redundant ones
  int declShort;   // 0 always D{..}, 1 `{v in S | L}` whenever admissible, 2 random
  vh::Rng& rng;
  std::vector<RTok> toks;
  using Ext = std::pair<int, int>;

  Renderer(Syntax s, int pm, int ds, vh::Rng& r) : syn(s), parenMode(pm), declShort(ds), rng(r) {}

  int push(const std::string& s) { toks.push_back(mkTok(s, syn)); return static_cast<int>(toks.size()) - 1; }
  int pushOp(T id) {
    int i = push(spell(id, syn));
    if (syn == Syntax::ASCII && id == T::BOOLEAN) toks.back().wordR = false;  // `BB(` and `Ba` are two tokens
    return i;
  }
  Ext leaf(GAst& n, const std::string& s) { const int i = push(s); n.lo = n.hi = i; return { i, i }; }
  int last() const { return static_cast<int>(toks.size()) - 1; }

  std::string leafText(const GAst& n) const {
    switch (n.id) {
    case T::LIT_INTEGER: return std::to_string(n.iv);
    case T::LIT_INTSET: case T::LIT_EMPTYSET: return spell(n.id, syn);
    default: return n.tv;
    }
  }

  Ext emitS(GAst& n, bool need = false) {
    const bool bin = isBinS(n.id);
    int p = (need && bin) ? 1 : 0;
    if (bin && parenMode == 1) { const auto r = rng.below(20); if (r < 3) p += 1; else if (r < 5) p += 2; }
    const int first = static_cast<int>(toks.size());
    for (int i = 0; i < p; ++i) pushOp(T::PUNC_PL);
    const Ext own = bareS(n);
    for (int i = 0; i < p; ++i) pushOp(T::PUNC_PR);
    if (p > 0) { n.lo = first + p - 1; n.hi = last() - (p - 1); return { first, last() }; }
    n.lo = own.first; n.hi = own.second;
    return own;
  }
  Ext emitList(std::vector<GAst>& ks, size_t from, size_t to) {
    Ext e{ -1, -1 };
    for (size_t i = from; i < to; ++i) {
      if (i > from) pushOp(T::PUNC_COMMA);
      const Ext k = emitS(ks[i]);
      if (i == from) e.first = k.first;
      e.second = k.second;
    }
    return e;
  }
  Ext emitVar(GAst& n) {
    if (n.id == T::NT_TUPLE_DECL) {
      const int f = pushOp(T::PUNC_PL);
      for (size_t i = 0; i < n.kids.size(); ++i) { if (i) pushOp(T::PUNC_COMMA); emitVar(n.kids[i]); }
      const int l = pushOp(T::PUNC_PR);
      n.lo = f; n.hi = l; return { f, l };
    }
    return leaf(n, n.tv);
  }
  Ext emitVarPack(GAst& n) {
    if (n.id != T::NT_ENUM_DECL) return emitVar(n);
    Ext e{ -1, -1 };
    for (size_t i = 0; i < n.kids.size(); ++i) {
      if (i) pushOp(T::PUNC_COMMA);
      const Ext k = emitVar(n.kids[i]);
      if (i == 0) e.first = k.first;
      e.second = k.second;
    }
    n.lo = e.first; n.hi = e.second; return e;
  }
  Ext emitBlock(GAst& n) {
    if (n.id == T::ITERATE || n.id == T::ASSIGN) {
      const Ext v = emitVar(n.kids[0]); pushOp(n.id); const Ext s = emitS(n.kids[1]);
      n.lo = v.first; n.hi = s.second; return { v.first, s.second };
    }
    return emitL(n, false, false);
  }

  Ext bareS(GAst& n) {
    switch (n.id) {
    case T::PLUS: case T::MINUS: case T::MULTIPLY: case T::UNION: case T::INTERSECTION: case T::SET_MINUS: case T::SYMMINUS: {
      const Ext l = emitS(n.kids[0], needS(n.id, n.kids[0].id, 0));
      pushOp(n.id);
      const Ext r = emitS(n.kids[1], needS(n.id, n.kids[1].id, 1));
      return { l.first, r.second };
    }
    case T::DECART: {
      Ext e{ -1, -1 };
      for (size_t i = 0; i < n.kids.size(); ++i) {
        if (i) pushOp(T::DECART);
        const Ext k = emitS(n.kids[i], needS(T::DECART, n.kids[i].id, static_cast<int>(i)));
        if (i == 0) e.first = k.first;
        e.second = k.second;
      }
      return e;
    }
    case T::NT_FUNC_CALL: {
      const Ext f = leaf(n.kids[0], n.kids[0].tv);
      pushOp(T::PUNC_SL); emitList(n.kids, 1, n.kids.size());
      return { f.first, pushOp(T::PUNC_SR) };
    }
    case T::BOOL: case T::DEBOOL: case T::REDUCE: case T::CARD: case T::BIGPR: case T::SMALLPR: {
      const int f = push(spell(n.id, syn) + (n.dk == 'x' ? idxText(n.xv) : std::string{}));
      pushOp(T::PUNC_PL); emitS(n.kids[0]);
      return { f, pushOp(T::PUNC_PR) };
    }
    case T::BOOLEAN: {
      const int f = pushOp(T::BOOLEAN);
      if (n.kids[0].id == T::BOOLEAN && !(parenMode == 1 && rng.chance(1, 4))) { const Ext k = emitS(n.kids[0]); return { f, k.second }; }
      pushOp(T::PUNC_PL); emitS(n.kids[0]);
      return { f, pushOp(T::PUNC_PR) };
    }
    case T::NT_ENUMERATION: { const int f = pushOp(T::PUNC_CL); emitList(n.kids, 0, n.kids.size()); return { f, pushOp(T::PUNC_CR) }; }
    case T::NT_TUPLE: { const int f = pushOp(T::PUNC_PL); emitList(n.kids, 0, n.kids.size()); return { f, pushOp(T::PUNC_PR) }; }
    case T::FILTER: {
      const int f = push(spell(T::FILTER, syn) + idxText(n.xv));
      pushOp(T::PUNC_SL); emitList(n.kids, 0, n.kids.size() - 1); pushOp(T::PUNC_SR);
      pushOp(T::PUNC_PL); emitS(n.kids.back());
      return { f, pushOp(T::PUNC_PR) };
    }
    case T::NT_DECLARATIVE_EXPR: {
      const bool canShort = n.kids[0].id == T::ID_LOCAL;
      const bool shortForm = canShort && (declShort == 1 || (declShort == 2 && rng.chance(1, 2)));
      int f;
      if (shortForm) f = pushOp(T::PUNC_CL); else { f = pushOp(T::DECLARATIVE); pushOp(T::PUNC_CL); }
      emitVar(n.kids[0]); pushOp(T::IN); emitS(n.kids[1]); pushOp(T::PUNC_BAR); emitL(n.kids[2], false, false);
      return { f, pushOp(T::PUNC_CR) };
    }
    case T::NT_IMPERATIVE_EXPR: {
      const int f = pushOp(T::IMPERATIVE); pushOp(T::PUNC_CL);
      emitS(n.kids[0]); pushOp(T::PUNC_BAR);
      for (size_t i = 1; i < n.kids.size(); ++i) { if (i > 1) pushOp(T::PUNC_SEMICOLON); emitBlock(n.kids[i]); }
      return { f, pushOp(T::PUNC_CR) };
    }
    case T::NT_RECURSIVE_FULL: case T::NT_RECURSIVE_SHORT: {
      const int f = pushOp(T::RECURSIVE); pushOp(T::PUNC_CL);
      emitVar(n.kids[0]); pushOp(T::ASSIGN); emitS(n.kids[1]); pushOp(T::PUNC_BAR);
      if (n.id == T::NT_RECURSIVE_FULL) { emitL(n.kids[2], false, false); pushOp(T::PUNC_BAR); emitS(n.kids[3]); }
      else emitS(n.kids[2]);
      return { f, pushOp(T::PUNC_CR) };
    }
    default: {
      const int i = push(leafText(n));
      return { i, i };
    }
    }
  }

  // need: parentheses required; allow: this position admits `( logic_binary | predicate )`
  Ext emitL(GAst& n, bool need, bool allow) {
    const bool parenthesable = isBinL(n.id) || isPred(n.id);
    int p = (need && parenthesable) ? 1 : 0;
    if (allow && p == 0 && parenthesable && parenMode == 1 && rng.chance(1, 5)) p = 1;
    const int first = static_cast<int>(toks.size());
    if (p) pushOp(T::PUNC_PL);
    const Ext own = bareL(n);
    if (p) { pushOp(T::PUNC_PR); n.lo = first; n.hi = last(); return { first, last() }; }
    n.lo = own.first; n.hi = own.second;
    return own;
  }
  Ext bareL(GAst& n) {
    if (isPred(n.id)) {
      const Ext l = emitS(n.kids[0]); pushOp(n.id); const Ext r = emitS(n.kids[1]);
      return { l.first, r.second };
    }
    if (isBinL(n.id)) {
      const Ext l = emitL(n.kids[0], needL(n.id, n.kids[0].id, 0), true);
      pushOp(n.id);
      const Ext r = emitL(n.kids[1], needL(n.id, n.kids[1].id, 1), true);
      return { l.first, r.second };
    }
    if (n.id == T::NOT) {
      const int f = pushOp(T::NOT);
      const Ext b = emitL(n.kids[0], isBinL(n.kids[0].id), true);
      return { f, b.second };
    }
    if (n.id == T::FORALL || n.id == T::EXISTS) {
      const int f = pushOp(n.id);
      emitVarPack(n.kids[0]); pushOp(T::IN); emitS(n.kids[1]);
      const Ext b = emitL(n.kids[2], isBinL(n.kids[2].id), true);
      return { f, b.second };
    }
    // predicate call
    const Ext f = leaf(n.kids[0], n.kids[0].tv);
    pushOp(T::PUNC_SL); emitList(n.kids, 1, n.kids.size());
    return { f.first, pushOp(T::PUNC_SR) };
  }

  Ext emitBody(GAst& n) {  // L | S | FD at a position of `no_declaration`
    if (n.id == T::NT_FUNC_DEFINITION) {
      const int f = pushOp(T::PUNC_SL);
      GAst& args = n.kids[0];
      Ext ae{ -1, -1 };
      for (size_t i = 0; i < args.kids.size(); ++i) {
        if (i) pushOp(T::PUNC_COMMA);
        GAst& d = args.kids[i];
        const Ext nm = leaf(d.kids[0], d.kids[0].tv); pushOp(T::IN); const Ext dom = emitS(d.kids[1]);
        d.lo = nm.first; d.hi = dom.second;
        if (i == 0) ae.first = nm.first;
        ae.second = dom.second;
      }
      args.lo = ae.first; args.hi = ae.second;
      pushOp(T::PUNC_SR);
      const Ext b = isLogic(n.kids[1]) ? emitL(n.kids[1], false, false) : emitS(n.kids[1]);
      n.lo = f; n.hi = b.second; return { f, b.second };
    }
    return isLogic(n) ? emitL(n, false, false) : emitS(n);
  }
  void emitTop(GAst& n) {
    if (n.id == T::PUNC_DEFINE || n.id == T::PUNC_STRUCT) {
      const Ext g = leaf(n.kids[0], n.kids[0].tv);
      int l = pushOp(n.id);
      if (n.kids.size() > 1) l = emitBody(n.kids[1]).second;
      n.lo = g.first; n.hi = l;
      return;
    }
    emitBody(n);
  }
};

inline void fixRanges(GAst& g, const Layout& L) {
  g.lo = L.st[static_cast<size_t>(g.lo)]; g.hi = L.en[static_cast<size_t>(g.hi)];
  for (auto& k : g.kids) fixRanges(k, L);
}

struct Rendered { std::string text; std::vector<RTok> toks; };

// Renders g (as a Top tree) and fills lo/hi of every node with the range the parser must assign.
inline Rendered render(GAst& g, Syntax syn, int parenMode, int wsMode, vh::Rng& rng, int declShort = 2) {
  Renderer r(syn, parenMode, declShort, rng);
  r.emitTop(g);
  const Layout L = layoutToks(r.toks, syn, wsMode, rng);
  fixRanges(g, L);
  return { L.text, std::move(r.toks) };
}
inline std::string renderMin(const GAst& g, Syntax syn, vh::Rng& rng) { GAst c = g; return render(c, syn, 0, 0, rng, 0).text; }

// ---------------------------------------------------------------------------------------------
// names, transliteration (own table, for classification only), known-defect classes
// ---------------------------------------------------------------------------------------------
inline std::string translit(const std::string& name) {
  static const std::string sub = "abgdezhviklmnxoprsstqfcjw";
  std::string o;
  for (uint32_t c : cps(name)) {
    if (c < 0x80) o.push_back(static_cast<char>(c));
    else if (c >= 0x3B1 && c <= 0x3C9) o.push_back(sub[c - 0x3B1]);
    else o += "?";
  }
  return o;
}
inline bool isKeywordName(const std::string& s) {
  if (s == "card" || s == "bool" || s == "red" || s == "debool") return true;
  if (s.size() > 2 && s[0] == 'p' && s[1] == 'r') {
    // pr<index> : digits (, digits)*
    size_t i = 2; bool ok = true, wantDigit = true;
    for (; i < s.size(); ++i) {
      if (s[i] >= '0' && s[i] <= '9') wantDigit = false;
      else if (s[i] == ',' && !wantDigit) wantDigit = true;
      else { ok = false; break; }
    }
    return ok && !wantDigit;
  }
  return false;
}

// Classes of RECORDED findings (known_findings.json): K5 = numeric overflow of an integer literal / index,
// K7 = a Greek local name whose ASCII transliteration is a keyword. (Former classes 1-4 and 6 were repaired in
// /repo; their old failing inputs live in the always-run corpus of c05_main.cpp.) Cases of K5/K7 are produced
// only by the dedicated generators, under their own op names; the general generators drop such cases.
enum Known : unsigned { K5 = 16, K7 = 64 };
inline unsigned knownMask(const GAst& g, bool dstAscii) {
  unsigned m = 0;
  if (g.id == T::LIT_INTEGER && g.iv < 0) m |= K5;
  if (g.id == T::BIGPR || g.id == T::SMALLPR || g.id == T::FILTER)
    for (int i : g.xv) if (i < 0 || i > 32767) m |= K5;
  if (dstAscii && g.id == T::ID_LOCAL && isKeywordName(translit(g.tv))) m |= K7;
  for (const auto& k : g.kids) m |= knownMask(k, dstAscii);
  return m;
}
inline std::string knownName(unsigned m) {
  std::string o;
  for (int i = 0; i < 7; ++i) if (m & (1u << i)) { if (!o.empty()) o += "+"; o += "k" + std::to_string(i + 1); }
  return o;
}
inline bool hasGreek(const GAst& g) {
  if (g.id == T::ID_LOCAL) for (unsigned char c : g.tv) if (c >= 0x80) return true;
  for (const auto& k : g.kids) if (hasGreek(k)) return true;
  return false;
}
inline int nodeCount(const GAst& g) { int n = 1; for (const auto& k : g.kids) n += nodeCount(k); return n; }

inline const std::vector<std::string>& localsAscii() {
  static const std::vector<std::string> v = { "a", "b", "c", "x", "y", "z", "a", "b", "t", "n", "cards", "reda", "pr1a", "_", "_1",
    "x_1", "aB", "k1", "boolx", "debool1", "pr", "prx", "re", "d1", "carD", "xZ" };
  return v;
}
inline const std::vector<std::string>& localsGreek() {
  static const std::vector<std::string> v = { u8(0x3B1), u8(0x3BE), u8(0x3B1) + u8(0x3B2) + "1", "a" + u8(0x3C9), u8(0x3C2),
    u8(0x3C3) + "1", u8(0x3BB) + "_x", u8(0x3C0) + u8(0x3C1), u8(0x3B4), u8(0x3C9) + "B", "_" + u8(0x3B8) };
  return v;
}
inline const std::vector<std::string>& localsKeywordGreek() {   // class k7
  static const std::vector<std::string> v = {
    u8(0x3C1) + u8(0x3B5) + u8(0x3B4),                               // red
    u8(0x3C7) + u8(0x3B1) + u8(0x3C1) + u8(0x3B4),                   // card
    u8(0x3B2) + u8(0x3BF) + u8(0x3BF) + u8(0x3BB),                   // bool
    u8(0x3B4) + u8(0x3B5) + u8(0x3B2) + u8(0x3BF) + u8(0x3BF) + u8(0x3BB),  // debool
    u8(0x3C0) + u8(0x3C1) + "1" };                                   // pr1
  return v;
}
inline const std::vector<std::string>& globals() {
  static const std::vector<std::string> v = { "X1", "X2", "X11", "S1", "C1", "D1", "A1", "T1", "Zx", "Dx", "Ix", "Rx", "Fx", "Pr", "Fi", "Fa", "X1", "X2", "S1" };
  return v;
}
inline const std::vector<std::string>& functions() { static const std::vector<std::string> v = { "F1", "F2", "F10" }; return v; }
inline const std::vector<std::string>& predicates() { static const std::vector<std::string> v = { "P1", "P2", "P10" }; return v; }
inline const std::vector<std::string>& radicals() { static const std::vector<std::string> v = { "R1", "R2", "R10" }; return v; }

inline const std::vector<T>& binSOps() {
  static const std::vector<T> v = { T::PLUS, T::MINUS, T::MULTIPLY, T::UNION, T::INTERSECTION, T::SET_MINUS, T::SYMMINUS, T::DECART };
  return v;
}
inline const std::vector<T>& binLOps() { static const std::vector<T> v = { T::AND, T::OR, T::IMPLICATION, T::EQUIVALENT }; return v; }
inline const std::vector<T>& predOps() {
  static const std::vector<T> v = { T::IN, T::NOTIN, T::SUBSET, T::SUBSET_OR_EQ, T::NOTSUBSET, T::EQUAL, T::NOTEQUAL,
    T::GREATER, T::LESSER, T::GREATER_OR_EQ, T::LESSER_OR_EQ };
  return v;
}

// ---------------------------------------------------------------------------------------------
// random well-formed trees (type-directed by the grammar only)
// ---------------------------------------------------------------------------------------------
struct GenOpt {
  bool greek{ false };      // Greek local names allowed
  bool noLesser{ false };   // k1
  bool noRec{ false };      // k2
  bool noK34{ false };      // k3, k4
};

struct TreeGen {
  vh::Rng& rng;
  GenOpt opt;
  TreeGen(vh::Rng& r, GenOpt o) : rng(r), opt(o) {}

  std::string localName() {
    if (opt.greek && rng.chance(1, 3)) return rng.pick(localsGreek());
    return rng.pick(localsAscii());
  }
  GAst local() { return Lc(localName()); }
  std::vector<int> indices() {
    std::vector<int> x; const int n = rng.chance(2, 3) ? 1 : rng.range(2, 3);
    for (int i = 0; i < n; ++i) x.push_back(rng.chance(9, 10) ? rng.range(1, 3) : rng.chance(1, 2) ? 32767 : rng.range(4, 32767));
    return x;
  }
  GAst leafS() {
    switch (rng.below(17)) {
    case 0: case 1: case 2: case 3: case 4: case 5: return local();
    case 6: case 7: case 8: case 9: return Gl(rng.pick(globals()));
    case 10: return Rd(rng.pick(radicals()));
    case 11: return mkInt(rng.chance(1, 2) ? rng.range(0, 12) : rng.chance(1, 3) ? 2147483647 : static_cast<int32_t>(rng.below(2147483647u)));
    case 12: return mkInt(rng.range(0, 3));
    case 13: return mk(T::LIT_INTSET);
    case 14: return mk(T::LIT_EMPTYSET);
    case 15: return Fn(rng.pick(functions()));
    default: return Pd(rng.pick(predicates()));
    }
  }
  int sub(int d) { return d <= 1 ? 0 : rng.range(0, d - 1); }

  GAst var(int d) {
    if (d <= 0 || rng.chance(3, 4)) return local();
    const int n = rng.range(2, 3);
    std::vector<GAst> ks; for (int i = 0; i < n; ++i) ks.push_back(var(d - 1));
    return mk(T::NT_TUPLE_DECL, std::move(ks));
  }
  GAst varPack(int d) {
    if (rng.chance(2, 3)) return var(d);
    const int n = rng.range(2, 3);
    std::vector<GAst> ks; for (int i = 0; i < n; ++i) ks.push_back(var(d - 1));
    return mk(T::NT_ENUM_DECL, std::move(ks));
  }
  bool badDecartKid(T k, int pos) const { return isArith(k) || (pos > 0 && isSetOp(k)); }

  GAst genS(int d) {
    if (d <= 0) return leafS();
    const auto r = rng.below(30);
    if (r < 4) return leafS();
    if (r < 12) {
      const T op = binSOps()[rng.below(7)];
      GAst l = genS(sub(d)), rr = genS(sub(d));
      if (opt.noK34 && isSetOp(op)) for (int g = 0; isArith(l.id); ++g) l = g < 8 ? genS(sub(d)) : leafS();
      return B2(op, std::move(l), std::move(rr));
    }
    if (r < 15) {
      const int n = rng.chance(2, 3) ? 2 : 3;
      std::vector<GAst> ks;
      for (int i = 0; i < n; ++i) {
        GAst k = genS(sub(d));
        if (opt.noK34) for (int g = 0; badDecartKid(k.id, i); ++g) k = g < 8 ? genS(sub(d)) : leafS();
        ks.push_back(std::move(k));
      }
      return mk(T::DECART, std::move(ks));
    }
    if (r < 17) {
      std::vector<GAst> ks{ Fn(rng.pick(functions())) };
      const int n = rng.range(1, 3); for (int i = 0; i < n; ++i) ks.push_back(genS(sub(d)));
      return mk(T::NT_FUNC_CALL, std::move(ks));
    }
    if (r < 19) { static const std::vector<T> ops = { T::BOOL, T::DEBOOL, T::REDUCE, T::CARD }; return U1(rng.pick(ops), genS(d - 1)); }
    if (r < 21) return mkIdx(rng.chance(1, 2) ? T::BIGPR : T::SMALLPR, indices(), { genS(d - 1) });
    if (r < 23) return U1(T::BOOLEAN, rng.chance(1, 3) ? U1(T::BOOLEAN, genS(sub(d))) : genS(d - 1));
    if (r < 24) { std::vector<GAst> ks; const int n = rng.range(1, 3); for (int i = 0; i < n; ++i) ks.push_back(genS(sub(d))); return mk(T::NT_ENUMERATION, std::move(ks)); }
    if (r < 25) { std::vector<GAst> ks; const int n = rng.range(2, 3); for (int i = 0; i < n; ++i) ks.push_back(genS(sub(d))); return mk(T::NT_TUPLE, std::move(ks)); }
    if (r < 26) {
      std::vector<GAst> ks; const int n = rng.range(1, 2); for (int i = 0; i < n; ++i) ks.push_back(genS(sub(d)));
      ks.push_back(genS(sub(d)));
      return mkIdx(T::FILTER, indices(), std::move(ks));
    }
    if (r < 27) return mk(T::NT_DECLARATIVE_EXPR, { var(1), genS(sub(d)), genL(sub(d)) });
    if (r < 28) {
      std::vector<GAst> ks{ genS(sub(d)) };
      const int n = rng.range(1, 3);
      for (int i = 0; i < n; ++i) {
        const auto b = rng.below(3);
        if (b == 0) ks.push_back(genL(sub(d)));
        else ks.push_back(mk(b == 1 ? T::ITERATE : T::ASSIGN, { var(1), genS(sub(d)) }));
      }
      return mk(T::NT_IMPERATIVE_EXPR, std::move(ks));
    }
    if (opt.noRec) return U1(T::CARD, genS(d - 1));
    if (r < 29) return mk(T::NT_RECURSIVE_FULL, { var(1), genS(sub(d)), genL(sub(d)), genS(sub(d)) });
    return mk(T::NT_RECURSIVE_SHORT, { var(1), genS(sub(d)), genS(sub(d)) });
  }
  T predOp() {
    for (;;) { const T p = rng.pick(predOps()); if (!(opt.noLesser && p == T::LESSER)) return p; }
  }
  GAst genL(int d) {
    if (d <= 0) {
      if (rng.chance(1, 6)) return mk(T::NT_FUNC_CALL, { Pd(rng.pick(predicates())), leafS() });
      return B2(predOp(), leafS(), leafS());
    }
    const auto r = rng.below(16);
    if (r < 6) return B2(predOp(), genS(sub(d)), genS(sub(d)));
    if (r < 8) return U1(T::NOT, genL(d - 1));
    if (r < 10) return mk(rng.chance(1, 2) ? T::FORALL : T::EXISTS, { varPack(2), genS(sub(d)), genL(d - 1) });
    if (r < 11) {
      std::vector<GAst> ks{ Pd(rng.pick(predicates())) };
      const int n = rng.range(1, 3); for (int i = 0; i < n; ++i) ks.push_back(genS(sub(d)));
      return mk(T::NT_FUNC_CALL, std::move(ks));
    }
    return B2(rng.pick(binLOps()), genL(d - 1), genL(sub(d)));
  }
  GAst genFD(int d) {
    std::vector<GAst> args; const int n = rng.range(1, 3);
    for (int i = 0; i < n; ++i) args.push_back(mk(T::NT_ARG_DECL, { local(), genS(sub(d)) }));
    return mk(T::NT_FUNC_DEFINITION, { mk(T::NT_ARGUMENTS, std::move(args)), rng.chance(1, 2) ? genL(sub(d)) : genS(sub(d)) });
  }
  GAst genG() {
    const auto r = rng.below(3);
    return r == 0 ? Gl(rng.pick(globals())) : r == 1 ? Fn(rng.pick(functions())) : Pd(rng.pick(predicates()));
  }
  GAst genTop(int d) {
    const auto r = rng.below(10);
    if (r < 4) return genL(d);
    if (r < 7) return genS(d);
    if (r < 8) return genFD(d);
    const T def = rng.chance(1, 2) ? T::PUNC_DEFINE : T::PUNC_STRUCT;
    const auto b = rng.below(7);
    if (b == 0) return mk(T::PUNC_DEFINE, { genG() });
    return mk(def, { genG(), b < 3 ? genL(d - 1) : b < 5 ? genS(d - 1) : genFD(d - 1) });
  }
};

// ---------------------------------------------------------------------------------------------
// A. exhaustive operator triples   B. constructor forms
// ---------------------------------------------------------------------------------------------
struct Labeled { GAst tree; std::string label; };

struct Names { std::string a, b, c, d; };
inline Names namesAscii() { return { "a", "b", "c", "d" }; }
inline Names namesGreek() { return { u8(0x3B1), "b", "a" + u8(0x3C9), u8(0x3C2) }; }

inline GAst binS(T op, GAst l, GAst r) { return op == T::DECART ? mk(T::DECART, { std::move(l), std::move(r) }) : B2(op, std::move(l), std::move(r)); }

inline const std::vector<std::string>& logicKinds() {
  static const std::vector<std::string> v = { "AND", "OR", "IMPLICATION", "EQUIVALENT", "NOT", "FORALL", "EXISTS", "pred", "predcall" };
  return v;
}
inline GAst logicOfKind(const std::string& k, const Names& n, int variant) {
  const GAst p1 = B2(T::EQUAL, Lc(n.a), Lc(n.b));
  const GAst p2 = B2(variant ? T::IN : T::NOTEQUAL, Lc(n.c), Gl("X1"));
  if (k == "AND") return B2(T::AND, p1, p2);
  if (k == "OR") return B2(T::OR, p1, p2);
  if (k == "IMPLICATION") return B2(T::IMPLICATION, p1, p2);
  if (k == "EQUIVALENT") return B2(T::EQUIVALENT, p1, p2);
  if (k == "NOT") return U1(T::NOT, p1);
  if (k == "FORALL") return mk(T::FORALL, { Lc(n.d), Gl("X1"), p2 });
  if (k == "EXISTS") return mk(T::EXISTS, { Lc(n.d), Gl("X2"), p1 });
  if (k == "pred") return B2(T::SUBSET_OR_EQ, Lc(n.a), Gl("X2"));
  return mk(T::NT_FUNC_CALL, { Pd("P1"), Lc(n.a), Lc(n.b) });
}

inline std::vector<Labeled> exhaustiveTrees(const Names& n) {
  std::vector<Labeled> out;
  const GAst a = Lc(n.a), b = Lc(n.b), c = Lc(n.c), d = Lc(n.d), X = Gl("X1");
  // set / arithmetic parents x children x side
  for (T p : binSOps())
    for (T k : binSOps()) {
      const std::string pn = vh::tokName(p), kn = vh::tokName(k);
      out.push_back({ binS(p, binS(k, a, X), c), "S:" + pn + ":" + kn + ":left" });
      out.push_back({ binS(p, a, binS(k, X, c)), "S:" + pn + ":" + kn + ":right" });
      if (p == T::DECART) out.push_back({ mk(T::DECART, { a, binS(k, X, c), d }), "S:" + pn + ":" + kn + ":middle" });
    }
  out.push_back({ mk(T::DECART, { a, X, c }), "S:DECART:3ary" });
  out.push_back({ mk(T::DECART, { mk(T::DECART, { a, X, c }), d }), "S:DECART:DECART3:left" });
  out.push_back({ mk(T::DECART, { a, mk(T::DECART, { X, c, d }) }), "S:DECART:DECART3:right" });
  // logic parents x child kinds x side
  for (T p : binLOps())
    for (const auto& k : logicKinds()) {
      const std::string pn = vh::tokName(p);
      out.push_back({ B2(p, logicOfKind(k, n, 0), B2(T::EQUAL, d, X)), "L:" + pn + ":" + k + ":left" });
      out.push_back({ B2(p, B2(T::EQUAL, d, X), logicOfKind(k, n, 1)), "L:" + pn + ":" + k + ":right" });
    }
  // NOT / quantifier bodies
  for (const auto& k : logicKinds()) {
    out.push_back({ U1(T::NOT, logicOfKind(k, n, 0)), "L:NOT:" + k + ":body" });
    out.push_back({ mk(T::FORALL, { d, X, logicOfKind(k, n, 1) }), "L:FORALL:" + k + ":body" });
    out.push_back({ mk(T::EXISTS, { mk(T::NT_ENUM_DECL, { d, c }), X, logicOfKind(k, n, 0) }), "L:EXISTS:" + k + ":body" });
  }
  // predicates over binary operands on both sides
  for (T p : predOps())
    for (T k : binSOps())
      out.push_back({ B2(p, binS(k, a, b), binS(k, c, X)), std::string("P:") + vh::tokName(p) + ":" + vh::tokName(k) + ":both" });
  // BOOLEAN
  out.push_back({ U1(T::BOOLEAN, a), "B:BOOLEAN:leaf" });
  out.push_back({ U1(T::BOOLEAN, U1(T::BOOLEAN, X)), "B:BOOLEAN:BOOLEAN" });
  out.push_back({ U1(T::BOOLEAN, U1(T::BOOLEAN, U1(T::BOOLEAN, X))), "B:BOOLEAN:BOOLEAN:BOOLEAN" });
  out.push_back({ U1(T::BOOLEAN, B2(T::UNION, a, X)), "B:BOOLEAN:UNION" });
  out.push_back({ U1(T::BOOLEAN, mk(T::DECART, { X, U1(T::BOOLEAN, X) })), "B:BOOLEAN:DECART" });
  out.push_back({ U1(T::BOOLEAN, U1(T::BOOLEAN, mk(T::DECART, { X, X }))), "B:BOOLEAN:BOOLEAN:DECART" });
  out.push_back({ U1(T::BOOLEAN, mk(T::NT_FUNC_CALL, { Fn("F1"), a })), "B:BOOLEAN:call" });
  out.push_back({ U1(T::BOOLEAN, mk(T::NT_ENUMERATION, { a, b })), "B:BOOLEAN:enum" });
  out.push_back({ mk(T::DECART, { U1(T::BOOLEAN, X), U1(T::BOOLEAN, U1(T::BOOLEAN, X)) }), "B:DECART:BOOLEAN" });
  out.push_back({ U1(T::CARD, U1(T::BOOLEAN, U1(T::BOOLEAN, a))), "B:CARD:BOOLEAN:BOOLEAN" });
  return out;
}

inline std::vector<Labeled> formTrees(const Names& n) {
  std::vector<Labeled> out;
  const GAst a = Lc(n.a), b = Lc(n.b), c = Lc(n.c), d = Lc(n.d), X1 = Gl("X1"), X2 = Gl("X2"), S1 = Gl("S1");
  const GAst eqab = B2(T::EQUAL, a, b), ainX = B2(T::IN, a, X1);
  auto tupd = [](std::vector<GAst> k) { return mk(T::NT_TUPLE_DECL, std::move(k)); };
  auto tup = [](std::vector<GAst> k) { return mk(T::NT_TUPLE, std::move(k)); };
  auto en = [](std::vector<GAst> k) { return mk(T::NT_ENUMERATION, std::move(k)); };
  auto call = [](GAst f, std::vector<GAst> k) { k.insert(k.begin(), std::move(f)); return mk(T::NT_FUNC_CALL, std::move(k)); };
  auto add = [&](const std::string& l, GAst t) { out.push_back({ std::move(t), "F:" + l }); };

  // declarative
  add("decl", mk(T::NT_DECLARATIVE_EXPR, { a, X1, B2(T::IN, a, X2) }));
  add("decl-tuple", mk(T::NT_DECLARATIVE_EXPR, { tupd({ a, b }), mk(T::DECART, { X1, X2 }), eqab }));
  add("decl-binlogic", mk(T::NT_DECLARATIVE_EXPR, { a, U1(T::BOOLEAN, X1), B2(T::AND, mk(T::FORALL, { b, a, B2(T::IN, b, X2) }), B2(T::NOTEQUAL, a, mk(T::LIT_EMPTYSET))) }));
  add("decl-nested", mk(T::NT_DECLARATIVE_EXPR, { a, X1, B2(T::NOTEQUAL, mk(T::NT_DECLARATIVE_EXPR, { b, X2, eqab }), mk(T::LIT_EMPTYSET)) }));
  add("decl-in-union", B2(T::UNION, mk(T::NT_DECLARATIVE_EXPR, { a, X1, ainX }), mk(T::NT_DECLARATIVE_EXPR, { tupd({ a, tupd({ b, c }) }), S1, eqab })));
  // recursion
  add("rec-full", mk(T::NT_RECURSIVE_FULL, { a, X1, B2(T::NOTEQUAL, U1(T::CARD, a), mkInt(10)), B2(T::UNION, a, X2) }));
  add("rec-full-tuple", mk(T::NT_RECURSIVE_FULL, { tupd({ a, b }), tup({ X1, X2 }), B2(T::OR, B2(T::SUBSET, a, b), U1(T::NOT, eqab)), tup({ b, a }) }));
  add("rec-short", mk(T::NT_RECURSIVE_SHORT, { a, X1, B2(T::UNION, a, X2) }));
  add("rec-short-tuple", mk(T::NT_RECURSIVE_SHORT, { tupd({ a, b }), tup({ X1, mkInt(0) }), tup({ U1(T::BOOLEAN, a), B2(T::PLUS, b, mkInt(1)) }) }));
  add("rec-nested", U1(T::CARD, mk(T::NT_RECURSIVE_SHORT, { a, mk(T::NT_RECURSIVE_SHORT, { b, X1, b }), a })));
  // imperative
  add("imp-iterate", mk(T::NT_IMPERATIVE_EXPR, { a, B2(T::ITERATE, a, X1) }));
  add("imp-all", mk(T::NT_IMPERATIVE_EXPR, { tup({ a, b }), B2(T::ITERATE, a, X1), B2(T::ASSIGN, b, a), B2(T::IN, tup({ a, b }), S1) }));
  add("imp-tuplevar", mk(T::NT_IMPERATIVE_EXPR, { a, B2(T::ITERATE, tupd({ a, b }), X1), U1(T::NOT, eqab), B2(T::ASSIGN, c, mkIdx(T::SMALLPR, { 1 }, { b })) }));
  add("imp-guards", mk(T::NT_IMPERATIVE_EXPR, { a, B2(T::ITERATE, a, X1), B2(T::AND, ainX, eqab), mk(T::FORALL, { c, X2, B2(T::NOTEQUAL, c, a) }), B2(T::ASSIGN, tupd({ b, d }), a) }));
  add("imp-nested", mk(T::NT_IMPERATIVE_EXPR, { a, B2(T::ITERATE, a, mk(T::NT_IMPERATIVE_EXPR, { b, B2(T::ITERATE, b, X1) })), B2(T::IN, tup({ a, a }), S1) }));
  // quantifiers
  add("quant-enum", mk(T::FORALL, { mk(T::NT_ENUM_DECL, { a, b }), X1, eqab }));
  add("quant-tuple", mk(T::EXISTS, { tupd({ a, b }), X1, eqab }));
  add("quant-mixed", mk(T::EXISTS, { mk(T::NT_ENUM_DECL, { tupd({ a, b }), c, tupd({ d, tupd({ a, b }) }) }), S1, U1(T::NOT, eqab) }));
  add("quant-nested", mk(T::FORALL, { a, X1, mk(T::EXISTS, { b, X2, mk(T::FORALL, { c, a, B2(T::AND, eqab, B2(T::IN, c, b)) }) }) }));
  add("quant-domain-binary", mk(T::FORALL, { a, B2(T::UNION, X1, X2), B2(T::IN, tup({ a, a }), S1) }));
  add("quant-body-tuple", mk(T::FORALL, { a, X1, B2(T::IN, tup({ a, b }), S1) }));
  add("quant-body-boolean", mk(T::FORALL, { a, X1, B2(T::IN, a, U1(T::BOOLEAN, X1)) }));
  // calls / definitions
  add("call1", call(Fn("F1"), { a }));
  add("call3", call(Fn("F2"), { a, B2(T::UNION, X1, X2), mkInt(5) }));
  add("call-nested", call(Fn("F1"), { call(Fn("F2"), { a }), b }));
  add("predcall", call(Pd("P1"), { a, tup({ b, c }) }));
  add("predcall-in-logic", B2(T::IMPLICATION, call(Pd("P2"), { a }), U1(T::NOT, call(Pd("P10"), { a, b }))));
  auto arg = [](GAst nm, GAst dom) { return mk(T::NT_ARG_DECL, { std::move(nm), std::move(dom) }); };
  auto fd = [](std::vector<GAst> args, GAst body) { return mk(T::NT_FUNC_DEFINITION, { mk(T::NT_ARGUMENTS, std::move(args)), std::move(body) }); };
  add("fd-1-S", fd({ arg(a, X1) }, B2(T::UNION, a, a)));
  add("fd-2-L", fd({ arg(a, X1), arg(b, U1(T::BOOLEAN, mk(T::DECART, { X1, X2 }))) }, B2(T::IN, a, b)));
  add("fd-radical", fd({ arg(a, Rd("R1")), arg(b, U1(T::BOOLEAN, Rd("R2"))) }, B2(T::AND, ainX, eqab)));
  add("fd-domain-binary", fd({ arg(a, B2(T::UNION, X1, X2)), arg(b, mk(T::DECART, { X1, X2 })) }, tup({ a, b })));
  add("fd-3", fd({ arg(a, X1), arg(b, X2), arg(c, S1) }, call(Fn("F1"), { a, b, c })));
  // filter / projections
  add("filter1", mkIdx(T::FILTER, { 1 }, { a, b }));
  add("filter2", mkIdx(T::FILTER, { 1, 2 }, { a, b, c }));
  add("filter-complex", mkIdx(T::FILTER, { 2, 1 }, { B2(T::INTERSECTION, X1, X2), en({ a }), S1 }));
  add("filter-arg-binary", mkIdx(T::FILTER, { 3 }, { X1, mk(T::DECART, { X1, X2, X1 }) }));
  add("smallpr", mkIdx(T::SMALLPR, { 1 }, { a }));
  add("smallpr-multi", mkIdx(T::SMALLPR, { 1, 2 }, { a }));
  add("bigpr-multi", mkIdx(T::BIGPR, { 3, 2, 1 }, { S1 }));
  add("bigpr-max", mkIdx(T::BIGPR, { 32767 }, { S1 }));
  add("pr-nested", mkIdx(T::SMALLPR, { 2 }, { mkIdx(T::BIGPR, { 1, 3 }, { U1(T::REDUCE, S1) }) }));
  // enumerations / tuples / text operators / literals
  add("enum1", en({ a }));
  add("enum3", en({ a, b, c }));
  add("tuple2", tup({ a, b }));
  add("tuple3", tup({ a, b, c }));
  add("tuple-nested", tup({ tup({ a, b }), en({ c }), B2(T::PLUS, a, mkInt(1)) }));
  add("enum-of-empty", en({ mk(T::LIT_EMPTYSET), en({ mk(T::LIT_EMPTYSET) }) }));
  add("card", B2(T::EQUAL, U1(T::CARD, X1), mkInt(0)));
  add("bool-debool", U1(T::DEBOOL, U1(T::BOOL, a)));
  add("red", U1(T::REDUCE, U1(T::BOOLEAN, U1(T::BOOLEAN, X1))));
  add("textop-binary", U1(T::CARD, B2(T::SET_MINUS, X1, X2)));
  add("literals", B2(T::IN, mkInt(2147483647), mk(T::LIT_INTSET)));
  add("literal-zero", B2(T::GREATER_OR_EQ, B2(T::MULTIPLY, mkInt(0), mkInt(7)), B2(T::MINUS, mkInt(12), mkInt(100))));
  add("emptyset", B2(T::EQUAL, X1, mk(T::LIT_EMPTYSET)));
  add("radical", B2(T::IN, a, mk(T::DECART, { Rd("R1"), Rd("R2") })));
  add("bare-function-id", B2(T::EQUAL, Fn("F1"), Pd("P1")));
  add("odd-names", B2(T::EQUAL, Lc("cards"), tup({ Lc("reda"), Lc("pr1a"), Lc("_"), Lc("_1"), Lc("x_1"), Lc("aB"), Gl("Zx"), Gl("Pr"), Gl("Fi"), Gl("Rx"), Gl("Dx"), Gl("Ix") })));
  // global declarations: every form with G of each kind
  const std::vector<GAst> gs = { Gl("X1"), Fn("F1"), Pd("P1"), Gl("D1") };
  for (const auto& g : gs) {
    const std::string gn = g.tv;
    add("def-empty-" + gn, mk(T::PUNC_DEFINE, { g }));
    add("def-L-" + gn, mk(T::PUNC_DEFINE, { g, B2(T::OR, ainX, eqab) }));
    add("def-S-" + gn, mk(T::PUNC_DEFINE, { g, B2(T::UNION, X1, X2) }));
    add("def-FD-" + gn, mk(T::PUNC_DEFINE, { g, fd({ arg(a, X1) }, B2(T::IN, a, X2)) }));
    add("struct-S-" + gn, mk(T::PUNC_STRUCT, { g, U1(T::BOOLEAN, mk(T::DECART, { X1, X2 })) }));
    add("struct-L-" + gn, mk(T::PUNC_STRUCT, { g, eqab }));
    add("struct-FD-" + gn, mk(T::PUNC_STRUCT, { g, fd({ arg(a, X1), arg(b, X2) }, tup({ a, b })) }));
  }
  // nested 2-3 deep
  add("nest1", B2(T::IN, a, U1(T::BOOLEAN, mk(T::NT_DECLARATIVE_EXPR, { b, mkIdx(T::BIGPR, { 1 }, { S1 }), mk(T::EXISTS, { c, mkIdx(T::FILTER, { 1 }, { en({ b }), S1 }), B2(T::EQUAL, c, tup({ b, a })) }) }))));
  add("nest2", mk(T::PUNC_DEFINE, { Fn("F2"), fd({ arg(a, U1(T::BOOLEAN, Rd("R1"))) }, mk(T::NT_IMPERATIVE_EXPR, { b, B2(T::ITERATE, b, a), B2(T::ASSIGN, c, U1(T::CARD, en({ b }))), B2(T::GREATER, c, mkInt(0)) })) }));
  add("nest3", B2(T::EQUIVALENT, B2(T::IMPLICATION, ainX, mk(T::FORALL, { b, a, B2(T::OR, eqab, U1(T::NOT, B2(T::AND, eqab, ainX))) })), U1(T::NOT, U1(T::NOT, eqab))));
  add("nest4", B2(T::MINUS, B2(T::MULTIPLY, B2(T::PLUS, a, b), U1(T::CARD, B2(T::SYMMINUS, mk(T::DECART, { X1, mk(T::DECART, { X1, X2 }) }), S1))), B2(T::MINUS, c, d)));
  return out;
}

// ---------------------------------------------------------------------------------------------
// D. malformed stream (valid UTF-8 only)
// ---------------------------------------------------------------------------------------------
inline const std::vector<std::string>& soupAlphabet() {
  static const std::vector<std::string> v = [] {
    std::vector<std::string> a;
    for (T id : allSpelled()) { a.push_back(spell(id, Syntax::MATH)); a.push_back(spell(id, Syntax::ASCII)); }
    for (const auto& s : localsAscii()) a.push_back(s);
    for (const auto& s : localsGreek()) a.push_back(s);
    for (const auto& s : localsKeywordGreek()) a.push_back(s);
    for (const auto& s : globals()) a.push_back(s);
    const std::vector<std::string> extra = {
      "F1", "P2", "R3", "F", "P", "R1a", "F1x", "P01", "0", "1", "7", "42", "007", "2147483647", "2147483648", "99999999999999999999",
      ":", "=", "::", ":=", ":==", "::=", "B", "Ba", "BB", "|a", "||", "\\lessa", "\\inn", "\\less", "\\lt", "\\", "\\ ", "\\a", "\\A1", "\\Ea",
      "\\subseteqq", "\\notsubseteq", "\\un", "\\defexp", "\\IN", u8(0x2639), "@", "#", "?", "!", "$", "%", "^", "~", "'", "\"", ".", "`",
      "\r", "\x01", "\x0b", "\x0c", "\x7f", u8(0x3A9), u8(0x3CA), u8(0x3B0), u8(0xE9), u8(0x1F600), u8(0x2124), u8(0x2192), u8(0xA0), u8(0x2028),
      "pr1", "pr1,2", "Pr1", "Fi1", "Fi1,2", "pr1,", "pr1,,2", "pr01", "Pr1,2,3", "pr0", "Pr0", "Fi0", "pr1,0", "pr", "Pr", "Fi", "pr,1", "pr 1",
      "Pr1 ,2", "pr40000", "pr70000", "pr65536", "pr32768", "card", "cardx", "Card", "bool", "debool", "deboo", "red", "Red",
      "D", "R", "I", "Z", "D1", "Z1", "I2", "Dd", "{}", "{ }", "_", "__", "_A", "a_", "aZ", "Aa", "a1B", "X", "XB", "Bx1" };
    a.insert(a.end(), extra.begin(), extra.end());
    return a;
  }();
  return v;
}
inline std::string soupText(vh::Rng& rng, int maxToks) {
  static const std::vector<std::string> seps = { "", "", "", " ", " ", "\t", "\n", "  ", "\n\n", " \t" };
  std::string s;
  const int n = rng.range(1, maxToks);
  for (int i = 0; i < n; ++i) { if (i) s += rng.pick(seps); s += rng.pick(soupAlphabet()); }
  if (rng.chance(1, 8)) s = rng.pick(seps) + s;
  if (rng.chance(1, 8)) s += rng.pick(seps);
  return s;
}
// mutation of a valid token sequence
inline std::string mutateToks(std::vector<RTok> toks, Syntax syn, vh::Rng& rng) {
  const int rounds = rng.chance(3, 4) ? 1 : 2;
  for (int r = 0; r < rounds && !toks.empty(); ++r) {
    const size_t i = rng.below(static_cast<uint32_t>(toks.size()));
    switch (rng.below(7)) {
    case 0: toks.erase(toks.begin() + static_cast<ptrdiff_t>(i)); break;
    case 1: toks.insert(toks.begin() + static_cast<ptrdiff_t>(i), mkTok(rng.pick(soupAlphabet()), syn)); break;
    case 2: toks.insert(toks.begin() + static_cast<ptrdiff_t>(i), toks[i]); break;
    case 3: if (i + 1 < toks.size()) std::swap(toks[i], toks[i + 1]); break;
    case 4: {  // drop a parenthesis / bracket
      std::vector<size_t> ps;
      for (size_t k = 0; k < toks.size(); ++k) if (toks[k].s == "(" || toks[k].s == ")" || toks[k].s == "{" || toks[k].s == "}" || toks[k].s == "[" || toks[k].s == "]") ps.push_back(k);
      if (!ps.empty()) toks.erase(toks.begin() + static_cast<ptrdiff_t>(rng.pick(ps)));
      break;
    }
    case 5: toks.push_back(mkTok(rng.pick(soupAlphabet()), syn)); break;   // trailing garbage
    default: {  // replace by the spelling of another operator of the same syntax
      toks[i] = mkTok(spell(rng.pick(allSpelled()), syn), syn);
    }
    }
  }
  return layoutToks(toks, syn, rng.chance(1, 2) ? 0 : 1, rng).text;
}
inline std::vector<std::string> fixedMalformed(Syntax syn) {
  const bool m = syn == Syntax::MATH;
  auto S = [&](T id) { return m ? spell(id, syn) : " " + spell(id, syn) + " "; };
  const std::string in = S(T::IN), eq = S(T::EQUAL), neg = S(T::NOT), it = S(T::ITERATE), as = S(T::ASSIGN), all = S(T::FORALL),
    an = S(T::AND), bo = spell(T::BOOLEAN, syn), lt = S(T::LESSER), un = S(T::UNION), pl = S(T::PLUS), de = S(T::PUNC_DEFINE);
  std::vector<std::string> v = {
    "", " ", "\n", "(X1)", "((X1))", "(a)", "((a" + eq + "b))", "(a" + eq + "b)", "(" + neg + "a" + eq + "b)", "a" + it + "X1", "a" + as + "X1",
    "I{a | (a" + it + "X1)}", "I{a | a" + it + "X1" + an + "a" + eq + "a}", "I{a | a" + it + "X1; (a" + as + "b)}", "I{a | " + neg + "a" + it + "X1}",
    "D{(a,1)" + in + "X1 | a" + eq + "a}", "D{(a,X1)" + in + "X1 | a" + eq + "a}", "{(a,b)" + in + "X1 | a" + eq + "b}", "D{a" + in + "X1 | (a" + eq + "a)}",
    "a" + eq + "b" + eq + "c", all + "a" + in + "X1", all + "a" + in + "X1 " + all + "b" + in + "X1", all + "(a,1)" + in + "X1 a" + eq + "a", all + "a,,b" + in + "X1 a" + eq + "b",
    all + "a" + in + "X1 a" + eq + "b" + an, all + "a" + in + "X1 (" + all + "b" + in + "X1 a" + eq + "b)", neg + "(" + neg + "a" + eq + "b)",
    "a" + eq + "b )", "( a" + eq + "b", "a" + un + "", un + "a", "a" + un + un + "b", "a b", "X1 X2", "F1[]", "F1[a,]", "F1[a", "F1 a]", "P1[a] b", "P1[a][b]",
    "{}", "{a,}", "{,a}", "(a,)", "()", "(a,b", "card()", "card(a,b)", "card a", "pr1()", "pr1[a](b)", "Fi1(a)", "Fi1[](a)", "Fi1[a]", "Fi1[a]()",
    bo + "a", bo + bo + "a", bo + "()", bo + "(a,b)", bo, "[a" + in + "X1]", "[a" + in + "X1,] a", "[a] a", "[] a", "[a" + in + "X1] [b" + in + "X1] a", "[a" + in + "X1 a",
    "[(a,b)" + in + "X1] a", "X1" + de + de, de, de + "a", "a" + de + "X1", "X1" + de + "X2" + de + "a", "R{a" + as + "X1}", "R{a" + as + "X1 | }", "R{a" + as + "X1 | a" + eq + "a}",
    "R{a" + as + "X1 | a | a | a}", "R{a" + in + "X1 | a}", "I{a}", "I{a | }", "I{a | a" + eq + "a;}", "I{ | a" + eq + "a}", "D{a | a" + eq + "a}", "D{a" + in + "X1}", "D{a" + in + "X1 | a}",
    "D{a" + in + "X1 | a" + eq + "a", "{a" + in + "X1 | a" + eq + "a", "a" + eq + "b trailing", "a" + eq + "b ;", "a" + eq + "b,", "a" + pl + pl + "b", pl + "a", "a" + pl,
    "2147483648" + eq + "a", "4294967297", "99999999999999999999", "00000000000000000000000000000000000001", "pr40000(a)", "pr70000(a)", "pr65536(a)", "pr32768(a)", "pr32767(a)",
    "pr0(a)", "Pr0(S1)", "Fi0[X1](S1)", "pr1,0(a)", "pr1,(a)", "pr1,,2(a)", "pr01(a)", "Pr1,2,3(S1)", "pr1 ,2(a)", "pr 1(a)", "Pr(a)", "Fi[a](b)",
    "a" + lt + "b", "(a" + lt + "b)" + an + "c" + eq + "d" };
  if (m) {
    const std::vector<std::string> mm = { "a\r=b", "a=\rb", "a\x01=b", "a\x0b=b", "a\x0c=b", "a=b\r\n", "a" + u8(0x2639) + "=b", "a@b", "a#b",
      u8(0x3A9) + "=a", u8(0x3CA) + "=a", u8(0x3B0) + "=a", u8(0x1F600), "a" + u8(0xA0) + "=b", "a:" + u8(0x2208) + u8(0x2208) + "X1", "a: =b", "a:=:=b", "X1: ==", "X1:= =", "X1:::=a",
      "\\in", "a \\in X1", "a \\eq b", "{}", "B(X1)", "BX1", "a" + u8(0x2208) + "\\X1" };
    v.insert(v.end(), mm.begin(), mm.end());
  } else {
    const std::vector<std::string> aa = { "a \\less b", "a \\lessa b", "a \\inn X1", "a \\in", "a\\in X1", "a \\inX1", "a \\eq\\eq b", "a \\le b", "a \\les b", "a \\ls b", "a \\lsb",
      "a \\ b", "\\", "a = b", "a & b", "a + b", "a < b", "a \\eq b \x01", "a \\eq b \x0b", "a \\eq b \x0c", "a \\eq " + u8(0x3B1), u8(0x3B1) + " \\eq a", "a " + u8(0x2208) + " X1",
      "{ }", "{} {}", "{{}}", "{{}", "{}}", "B B(X1)", "BB(X1)", "BBB(X1)", "Ba", "aB", "B1", "XB", "B(B)", "a \\subseteqq b", "a \\notsubseteq b", "a \\subsetb", "a \\notinn b",
      "\\A a \\in X1 a\\eq b", "\\Aa \\in X1 a \\eq a", "\\A1 \\in X1", "a \\EQ b", "a \\Eq b", "X1 \\defexpr\\deftype", "a \\from X1", "a \\assign X1", "a \\union\tb", "a\r\\union\nb" };
    v.insert(v.end(), aa.begin(), aa.end());
  }
  // deep nesting
  auto rep = [](const std::string& s, int n) { std::string o; for (int i = 0; i < n; ++i) o += s; return o; };
  v.push_back(rep("(", 50) + "a" + pl + "b" + rep(")", 50));
  v.push_back(rep("(", 50) + "a" + pl + "b" + rep(")", 49));
  v.push_back(rep("(", 50) + "a" + rep(")", 50));
  v.push_back(rep(bo, 50) + "(a)");
  v.push_back(rep(bo + "(", m ? 40 : 50) + "a" + rep(")", m ? 40 : 50));
  v.push_back(rep(bo + "(", 30) + "a" + rep(")", 29));
  v.push_back(rep("{", 50) + "a" + rep("}", 50));
  v.push_back(rep(neg, m ? 50 : 30) + "a" + eq + "b");
  v.push_back(rep("card(", 30) + "a" + rep(")", 30));
  v.push_back("a" + eq + rep("9", 150));
  v.push_back(rep("1", 19) + eq + rep("0", 60) + "1");
  v.push_back("pr" + rep("1,", 60) + "1(a)");
  v.push_back("pr" + rep("9", 40) + "(a)");
  return v;
}

// ---------------------------------------------------------------------------------------------
// implementation observations shared by both mains
// ---------------------------------------------------------------------------------------------
inline Syntax synOf(bool math) { return math ? Syntax::MATH : Syntax::ASCII; }

inline std::string lexResult(const std::string& text, Syntax syn) {
  ccl::rslang::Parser p;
  auto ts = p.Lex(text, syn);
  std::string out;
  for (int i = 0; i < 2000; ++i) {
    const Token t = ts();
    if (i) out += ',';
    out += vh::tokName(t.id); out += ':'; out += vh::dataWire(t.data); out += ':';
    out += std::to_string(t.pos.start); out += ':'; out += std::to_string(t.pos.finish);
    if (t.id == T::END) break;
  }
  return out;
}
inline std::string parseResult(const std::string& text, Syntax syn) {
  ccl::rslang::Parser p;
  if (!p.Parse(text, syn)) return "fail";
  return vh::astWire(p.AST().Root());
}

// the same Parser object parses `prelude` (in the same syntax) first
inline std::string parseResultAfter(const std::string& prelude, const std::string& text, Syntax syn) {
  ccl::rslang::Parser p;
  (void)p.Parse(prelude, syn);
  if (!p.Parse(text, syn)) return "fail";
  return vh::astWire(p.AST().Root());
}

// ---------------------------------------------------------------------------------------------
// cases, coverage, batch-forked execution
// ---------------------------------------------------------------------------------------------
struct Case { std::string op; std::function<std::string()> run; std::string cls; };

struct Suite {
  std::vector<Case> cases;
  std::map<std::string, int> perOp, perClass;
  std::set<std::string> triples;
  int skipped{ 0 };


  static std::string opKey(const std::string& op) {
    size_t p = op.find(' '); if (p == std::string::npos) return op;
    size_t q = op.find(' ', p + 1); return op.substr(0, q);
  }
  void add(const std::string& cls, std::string op, std::function<std::string()> f) {
    ++perOp[opKey(op)]; ++perClass[cls];
    cases.push_back({ std::move(op), std::move(f), cls });
  }
  // a case of a recorded-finding class that a GENERAL generator happened to produce: not emitted
  void dropKnown() { ++skipped; }
  void summary(const char* name) const {
    std::fprintf(stderr, "[%s] cases=%zu dropped-known-class=%d seed=%llu tier=%s\n", name, cases.size(), skipped,
                 static_cast<unsigned long long>(vh::seedFromEnv()), vh::thorough() ? "thorough" : "quick");
    for (const auto& [k, v] : perOp) std::fprintf(stderr, "[%s] op %-18s %d\n", name, k.c_str(), v);
    for (const auto& [k, v] : perClass) std::fprintf(stderr, "[%s] class %-28s %d\n", name, k.c_str(), v);
    std::string t; for (const auto& s : triples) { t += s; t += ' '; }
    std::fprintf(stderr, "[%s] triples(%zu): %s\n", name, triples.size(), t.c_str());
    if (std::getenv("VERIF_DUMP_CLASSES") != nullptr)   // debugging aid: class of every case, on stderr
      for (const auto& c : cases) std::fprintf(stderr, "CLS\t%s\t%s\n", c.cls.c_str(), c.op.c_str());
  }

  // child handles cases [from,to) and writes one result line per case; returns the complete lines received
  std::vector<std::string> runBatch(size_t from, size_t to) {
    std::vector<std::string> got;
    int fd[2];
    if (pipe(fd) != 0) return got;
    fflush(stdout); fflush(stderr);
    const pid_t pid = fork();
    if (pid == 0) {
      close(fd[0]);
      alarm(120);
      FILE* w = fdopen(fd[1], "w");
      for (size_t i = from; i < to; ++i) {
        std::string r;
        try { r = cases[i].run(); }
        catch (const std::exception& e) { r = std::string("fault:exception:") + typeid(e).name(); }
        catch (...) { r = "fault:exception:unknown"; }
        std::fputs(r.c_str(), w); std::fputc('\n', w); std::fflush(w);
      }
      std::fclose(w);
      _exit(0);
    }
    close(fd[1]);
    std::string buf; char tmp[65536]; ssize_t n;
    while ((n = read(fd[0], tmp, sizeof tmp)) > 0) buf.append(tmp, static_cast<size_t>(n));
    close(fd[0]);
    int st = 0; waitpid(pid, &st, 0);
    size_t pos = 0;
    for (;;) {
      const size_t e = buf.find('\n', pos);
      if (e == std::string::npos) break;
      got.push_back(buf.substr(pos, e - pos)); pos = e + 1;
    }
    if (got.size() > to - from) got.resize(to - from);
    return got;
  }
  void runAll(size_t chunk = 200) {
    int faults = 0;
    for (size_t base = 0; base < cases.size(); base += chunk) {
      const size_t end = std::min(cases.size(), base + chunk);
      size_t pos = base;
      while (pos < end) {
        const auto got = runBatch(pos, end);
        for (size_t k = 0; k < got.size(); ++k) vh::emit(cases[pos + k].op, got[k]);
        pos += got.size();
        if (pos < end) {  // the child died on case `pos`: observe it alone
          const std::string r = vh::forked(cases[pos].run);
          if (r.rfind("fault:", 0) == 0) ++faults;
          vh::emit(cases[pos].op, r);
          ++pos;
        }
      }
    }
    fflush(stdout);
    std::fprintf(stderr, "[runner] faults observed: %d\n", faults);
  }
};

} // namespace sg
