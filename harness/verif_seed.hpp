// Guarded hook of /repo (-DCONCEPTCORE_VERIF): seedable identifier generator.
#pragma once
#include <cstdint>
namespace ccl::verif { void Seed(uint32_t seed); }
