// C17 correspondence harness: text references (Reference / RefsManager / ManagedText of cclLang).
// Prints "<op>\t<impl result>" lines; the same op lines are fed to the Lean driver (Driver/C17.lean).
// Every call into the library runs in a forked child (vh::forked): an escaped exception,
// std::terminate or a sanitizer abort is the observation "fault:<kind>" of that op.
#include "common.hpp"
#include "ccl/lang/Reference.h"
#include "ccl/lang/RefsManager.h"
#include "ccl/lang/ManagedText.h"
#include "ccl/lang/LexicalTerm.h"
#include "ccl/lang/EntityTermContext.hpp"
#include "ccl/lang/TextEnvironment.h"

#include <map>
#include <set>
#include <algorithm>

using namespace ccl;
using namespace ccl::lang;
using vh::emit; using vh::hex;

namespace {

// ---- term context (same shape as the upstream FakeContext, ordered for a canonical op line)
struct TermSpec {
  std::string str;
  std::vector<std::pair<std::vector<Grammem>, std::string>> manual;
};

struct Context : EntityTermContext {
  std::map<std::string, LexicalTerm> terms;
  std::map<std::string, TermSpec> specs;

  void Add(const std::string& name, const TermSpec& spec) {
    LexicalTerm term{ spec.str };
    for (const auto& [form, text] : spec.manual) {
      Morphology m{};
      for (const auto g : form) m.tags.insert(g);
      term.SetForm(m, text);
    }
    terms.insert_or_assign(name, term);
    specs.insert_or_assign(name, spec);
  }
  bool Contains(const std::string& entity) const override { return terms.count(entity) != 0; }
  const LexicalTerm* At(const std::string& entity) const override {
    const auto it = terms.find(entity);
    return it == terms.end() ? nullptr : &it->second;
  }
  std::string Line() const {
    if (specs.empty()) return "-";
    std::string out;
    for (const auto& [name, spec] : specs) {
      if (!out.empty()) out += ";";
      out += hex(name) + "=" + hex(spec.str);
      for (const auto& [form, text] : spec.manual) {
        std::set<int> ids;
        for (const auto g : form) ids.insert(static_cast<int>(g));
        out += "/";
        bool first = true;
        for (const int id : ids) { if (!first) out += "."; first = false; out += std::to_string(id); }
        out += ":" + hex(text);
      }
    }
    return out;
  }
};

std::string dumpRef(const Reference& r) {
  return std::to_string(r.position.start) + ":" + std::to_string(r.position.finish) + ":" +
    (r.IsEntity() ? "E" : "C") + ":" + hex(r.ToString()) + ":" + hex(r.resolvedText);
}
std::string dumpRefs(const std::vector<Reference>& refs) {
  if (refs.empty()) return "-";
  std::string out;
  for (const auto& r : refs) { if (!out.empty()) out += ","; out += dumpRef(r); }
  return out;
}

// ---- text edits of the caller, by code-point positions (same rule as Driver.C17.cpOffset)
size_t cpOffset(const std::string& text, StrPos pos) {
  if (pos <= 0) return 0;
  const auto it = UTF8Iterator(text, pos);
  return std::min(it.BytePosition(), text.size());
}
std::string insertText(const std::string& text, StrPos where, const std::string& ins) {
  const auto o = cpOffset(text, where);
  return text.substr(0, o) + ins + text.substr(o);
}
std::string eraseText(const std::string& text, StrPos a, StrPos b) {
  const auto oa = cpOffset(text, a);
  const auto ob = std::max(oa, cpOffset(text, b));
  return text.substr(0, oa) + text.substr(ob);
}

// the property's alignment predicate evaluated on the implementation's state
bool aligned(const std::string& text, const std::vector<Reference>& refs) {
  StrPos lo = 0;
  for (const auto& r : refs) {
    if (r.position.start < lo || r.position.finish < r.position.start) return false;
    lo = r.position.finish;
  }
  for (const auto& r : refs) {
    if (std::string{ Substr(text, r.position) } != r.resolvedText) return false;
  }
  return true;
}
std::string stateStr(const std::string& text, const std::vector<Reference>& refs) {
  return std::string(aligned(text, refs) ? "A1" : "A0") + " " + hex(text) + " " + dumpRefs(refs);
}

// ---- single stateless ops (each returns the impl result string)
std::string opParse(const std::string& s) {
  const auto ref = Reference::Parse(s);
  if (!ref.IsValid()) return "inv";
  return std::string(ref.IsEntity() ? "E:" : "C:") + hex(ref.ToString());
}
std::string opExtract(const std::string& s) { return dumpRefs(Reference::ExtractAll(s)); }
std::string opResolve(const Context& ctx, const std::string& s) {
  RefsManager mgr{ ctx };
  const auto out = mgr.Resolve(s);
  return hex(out) + " " + dumpRefs(mgr.get());
}
std::string opOutput(const Context& ctx, const std::string& s) {
  RefsManager mgr{ ctx };
  const auto out = mgr.Resolve(s);
  return hex(mgr.OutputRefs(out));
}
// one ManagedText object used twice: initialised from `prev`, then re-initialised from `cur` (InitFrom, or SetRaw +
// UpdateFrom, or assignment of the raw text through TranslateRefs with an empty map): what it shows afterwards must be
// the resolution of `cur` alone (seeded change C17-3: a stale cache survives a text without markers)
std::string opReinit(const Context& ctx, const std::string& prev, const std::string& cur, int how) {
  ManagedText text{ prev };
  text.InitFrom(prev, ctx);
  if (how == 0) text.InitFrom(cur, ctx);
  else if (how == 1) { text.SetRaw(cur); text.UpdateFrom(ctx); }
  else { text.InitFrom(cur, ctx); text.UpdateFrom(ctx); }
  return hex(text.Str()) + " " + hex(text.Raw());
}
// terms that refer to terms: X2's wording mentions X1; a text mentioning X2 is resolved (which asks X2 for a word form),
// X1 is re-worded, X2 refreshed as Thesaurus::OnTermChange does, and the text resolved again: it must read as with a
// context built from scratch with the new wording (seeded change C17-4: cached word forms survive the refresh)
std::string opTermChain(const std::string& w1, const std::string& w1new, const std::string& tags, int rounds) {
  const std::string t2 = "big @{X1|nomn,sing}";
  const std::string text = "see @{X2|" + tags + "} and @{X1|" + tags + "}";
  Context ctx;
  ctx.Add("X1", TermSpec{ w1, {} });
  ctx.Add("X2", TermSpec{ t2, {} });
  ctx.terms.at("X2").UpdateFrom(ctx);
  std::string out;
  std::string cur = w1;
  for (int r = 0; r < rounds; ++r) {
    { RefsManager mgr{ ctx }; (void)mgr.Resolve(text); }                 // fills the word-form caches
    cur = (r % 2 == 0) ? w1new : w1;
    ctx.terms.at("X1").SetText(cur, ctx);
    ctx.terms.at("X2").UpdateFrom(ctx);
    RefsManager mgr{ ctx };
    const auto got = mgr.Resolve(text);
    Context fresh;
    fresh.Add("X1", TermSpec{ cur, {} });
    fresh.Add("X2", TermSpec{ t2, {} });
    fresh.terms.at("X2").UpdateFrom(fresh);
    RefsManager mgr2{ fresh };
    const auto want = mgr2.Resolve(text);
    if (got != want) return "0:round" + std::to_string(r) + ":reused[" + hex(got) + "]fresh[" + hex(want) + "]";
  }
  return "1";
}
using Subst = std::map<std::string, std::string>;
std::string substLine(const Subst& m) {
  if (m.empty()) return "-";
  std::string out;
  for (const auto& [a, b] : m) { if (!out.empty()) out += ";"; out += hex(a) + "=" + hex(b); }
  return out;
}
std::string opTranslate(const Subst& m, const std::string& s) {
  ManagedText text{ s };
  StrSubstitutes subst{ m.begin(), m.end() };
  text.TranslateRaw(CreateTranslator(subst));
  return hex(text.Raw());
}
std::string opReferals(const std::string& s) {
  const ManagedText text{ s };
  const auto refs = text.Referals();
  std::vector<std::string> v(refs.begin(), refs.end());
  std::sort(v.begin(), v.end(), [](const std::string& a, const std::string& b) {
    return std::lexicographical_compare(a.begin(), a.end(), b.begin(), b.end(),
      [](char x, char y) { return static_cast<unsigned char>(x) < static_cast<unsigned char>(y); });
  });
  if (v.empty()) return "-";
  std::string out;
  for (const auto& n : v) { if (!out.empty()) out += ","; out += hex(n); }
  return out;
}

using Op = std::pair<std::string, std::function<std::string()>>;

// Run a group of independent ops in ONE child; if the child faults, run each op in its own child
// so that the fault is attributed to the op that caused it.
void runGroup(const std::vector<Op>& ops) {
  const auto all = vh::forked([&]() {
    std::string out;
    for (const auto& op : ops) { out += op.second(); out += "\n"; }
    return out;
  }, 60);
  if (all.rfind("fault:", 0) != 0) {
    size_t pos = 0;
    for (const auto& op : ops) {
      const auto nl = all.find('\n', pos);
      emit(op.first, all.substr(pos, nl - pos));
      pos = nl + 1;
    }
    return;
  }
  if (ops.size() == 1) { emit(ops[0].first, all); return; }
  if (ops.size() <= 8) {
    for (const auto& op : ops) emit(op.first, vh::forked(op.second));
    return;
  }
  const auto mid = ops.begin() + static_cast<std::ptrdiff_t>(ops.size() / 2);
  runGroup(std::vector<Op>(ops.begin(), mid));
  runGroup(std::vector<Op>(mid, ops.end()));
}

// ---- generators
const std::vector<std::string> kNames = { "X1", "X2", "X3", "D11", "abc" };
const std::vector<std::string> kTermTexts = { "Test", "", "\xD1\x82\xD0\xB5\xD1\x81\xD1\x82", "a b", "T@{x}",
                                              "\xF0\x9D\x94\xB8", "term of X" };
const std::vector<std::string> kTags = { "NOUN", "NPRO", "INFN", "VERB", "ADJF", "ADJS", "PRTF", "PRTS", "ADVB",
  "GRND", "COMP", "PRED", "NUMR", "CONJ", "INTJ", "PRCL", "PREP", "PNCT", "pres", "past", "futr", "1per", "2per",
  "3per", "sing", "plur", "masc", "femn", "neut", "nomn", "gent", "datv", "ablt", "accs", "loct" };
const std::vector<std::string> kCommonTags = { "nomn", "sing", "plur", "datv", "gent", "NOUN", "masc" };
const std::vector<std::string> kBadTags = { "UNKN", "nom", "nomnn", "Nomn", "", " ", "x", "1", "\xD0\xB6", "sing plur" };

Context genContext(vh::Rng& rng, bool clean) {
  Context ctx;
  for (const auto& name : kNames) {
    if (name == "X3") continue;                 // X3 is always missing
    if (!rng.chance(2, 3)) continue;
    TermSpec spec;
    spec.str = rng.pick(kTermTexts);
    if (!clean && rng.chance(1, 25)) spec.str = "\xC3";     // malformed term text (spec: positions unspecified)
    if (rng.chance(1, 4)) {
      const int n = rng.range(1, 2);
      for (int i = 0; i < n; ++i) {
        std::vector<Grammem> form;
        const int k = rng.range(1, 2);
        for (int j = 0; j < k; ++j) form.push_back(static_cast<Grammem>(rng.pick(std::vector<int>{ 25, 26, 30, 31, 32 })));
        bool dup = false;
        std::set<Grammem> key(form.begin(), form.end());
        for (const auto& [f, t] : spec.manual) if (std::set<Grammem>(f.begin(), f.end()) == key) dup = true;
        if (!dup) spec.manual.emplace_back(form, rng.pick(std::vector<std::string>{ "Manual", "", "\xC3\xA9m" }));
      }
    }
    ctx.Add(name, spec);
  }
  return ctx;
}

std::string genTagField(vh::Rng& rng, bool clean) {
  std::string tag = rng.chance(3, 4) ? rng.pick(kCommonTags) : rng.pick(kTags);
  if (!clean && rng.chance(1, 6)) tag = rng.pick(kBadTags);
  if (rng.chance(1, 8)) tag = " " + tag;
  if (rng.chance(1, 8)) tag += " ";
  return tag;
}

// `clean`: none of the spellings on which the code left the property before the fixes of Reference.cpp
// (kept as a generator mode: plain, unsurprising references)
std::string genReference(vh::Rng& rng, bool clean) {
  std::string out = "@{";
  if (rng.chance(3, 5)) {                       // entity
    // blanks around the name (hand-typed references): `@{ X1|…}` is NOT an entity reference for the current code - the
    // reading of such texts must not change silently (seeded change C08-4: the first field trimmed in one place only)
    out += rng.chance(9, 10) ? rng.pick(kNames) : rng.pick(std::vector<std::string>{ "x", "Z\xC3\xA9", "a1|b", " X1", "X1 ", " X1 ", "\tD1", " ", "X 1" });
    const int style = rng.range(0, 9);
    const int n = rng.range(1, 3);
    if (style < 6) {                            // name|t1,t2
      out += "|";
      for (int i = 0; i < n; ++i) { if (i) out += ","; out += genTagField(rng, clean); }
    } else {                                    // legacy name|t1|t2[|0]
      const int m = std::min(n, 2);
      for (int i = 0; i < m + 1; ++i) { out += "|"; out += genTagField(rng, true); }
      if (rng.chance(1, 3)) out += "|0";
      else if (!clean && rng.chance(1, 4)) out += "|";   // empty last field
      else if (rng.chance(1, 6)) out += "|7x";
    }
  } else {                                      // collaboration
    static const std::vector<std::string> small = { "-3", "-2", "-1", "0", "1", "2", "3", "-0", "01", "-002" };
    static const std::vector<std::string> big = { "70000", "32768", "-32769", "65537", "-65535", "99999999999",
      "2147483648", "-2147483649", "2147483647", "-2147483648", "32767", "-32768", "123456789012345678901234567890" };
    std::string off = rng.pick(small);
    if (rng.chance(1, 8)) off = clean ? rng.pick(std::vector<std::string>{ "32767", "-32768", "100" }) : rng.pick(big);
    out += off + "|";
    out += rng.pick(std::vector<std::string>{ "basic", "x", "", "\xD1\x82\xD0\xB5\xD1\x81\xD1\x82", "a b", "n,m" });
    if (rng.chance(1, 12)) out += "|extra";
  }
  out += "}";
  return out;
}

std::string genText(vh::Rng& rng, bool clean, int maxPieces) {
  static const std::vector<std::string> plain = { "a", "bc ", " ", "42", "x1", ", ", "\xC3\xA9", "\xE2\x88\x80",
    "\xF0\x9D\x94\xB8", "\xD1\x82\xD0\xB5\xD1\x81\xD1\x82 " };
  static const std::vector<std::string> marks = { "@", "{", "}", "|", "@{", "}}", "{{", "@}" };
  std::string out;
  const int n = rng.range(0, maxPieces);
  for (int i = 0; i < n; ++i) {
    const int k = rng.range(0, 99);
    if (k < 35) out += rng.pick(plain);
    else if (k < 50) out += rng.pick(marks);
    else if (k < 85) out += genReference(rng, clean);
    else if (k < 90) {                          // truncated reference
      auto r = genReference(rng, clean);
      out += r.substr(0, static_cast<size_t>(rng.range(1, static_cast<int>(r.size()) - 1)));
    } else if (k < 95) {                        // nested
      auto inner = genReference(rng, clean);
      switch (rng.range(0, 3)) {
      case 0: out += "@{X1|" + inner + "}"; break;
      case 1: out += "@{" + inner + "|nomn}"; break;
      case 2: out += "@{X1|{nomn}}"; break;
      default: out += "@{{X1|nomn}" + inner; break;
      }
    } else {                                    // adjacent
      out += genReference(rng, clean) + genReference(rng, clean);
    }
  }
  if (clean) {
    // an `@` directly in front of `@{` was the scanner defect: kept out of clean texts
    for (size_t p; (p = out.find("@@{")) != std::string::npos; ) out.replace(p, 3, "@ @{");
  }
  return out;
}

Subst genSubst(vh::Rng& rng) {
  Subst m;
  static const std::vector<std::pair<std::string, std::vector<std::string>>> choices = {
    { "X1", { "X11", "X1", "Y" } }, { "X2", { "X1", "X2" } }, { "D11", { "", "D1" } },
    { "abc", { "\xC3\xA9", "abcdefgh" } }, { "X3", { "X33" } } };
  for (const auto& [k, vs] : choices) if (rng.chance(1, 2)) m[k] = rng.pick(vs);
  return m;
}

void textOps(vh::Rng& rng, const std::string& text, bool clean) {
  const auto ctx = std::make_shared<Context>(genContext(rng, clean));
  const auto subst = genSubst(rng);
  const auto h = hex(text);
  std::vector<Op> ops;
  ops.emplace_back("c17 extract " + h, [=]() { return opExtract(text); });
  ops.emplace_back("c17 resolve " + ctx->Line() + " " + h, [=]() { return opResolve(*ctx, text); });
  ops.emplace_back("c17 output " + ctx->Line() + " " + h, [=]() { return opOutput(*ctx, text); });
  ops.emplace_back("c17 translate " + substLine(subst) + " " + h, [=]() { return opTranslate(subst, text); });
  ops.emplace_back("c17 referals " + h, [=]() { return opReferals(text); });
  {
    // previous content of the object: a text with references (or this text itself), then this text / a plain one
    const std::string prev = rng.chance(2, 3) ? genText(rng, true, 4) : text;
    const std::string cur = rng.chance(1, 2) ? text : rng.pick(std::vector<std::string>{ "", "plain", "a @ b { c }", "\xD0\x96 x", "@", "{X1}" });
    const int how = rng.range(0, 2);
    {
      const std::string w1 = rng.pick(std::vector<std::string>{ "base", "\xD0\xB1\xD0\xB0\xD0\xB7\xD0\xB0", "a b" });
      const std::string w2 = rng.pick(std::vector<std::string>{ "core", "\xD1\x8F\xD0\xB4\xD1\x80\xD0\xBE", "" });
      const std::string tg = rng.pick(std::vector<std::string>{ "nomn,sing", "datv,plur", "gent" });
      const int rounds = rng.range(1, 3);
      ops.emplace_back("c17 termchain " + hex(w1) + " " + hex(w2) + " " + hex(tg) + " " + std::to_string(rounds), [=]() { return opTermChain(w1, w2, tg, rounds); });
    }
    ops.emplace_back("c17 mtstr " + ctx->Line() + " " + std::to_string(how) + " " + hex(prev) + " " + hex(cur), [=]() { return opReinit(*ctx, prev, cur, how); });
  }
  runGroup(ops);
}

// One history, generated and executed inside the child from `seed`. It executes at most `limit`
// ops and then reports the op it would run next as "PENDING\t<op>", so that a fault can be
// attributed to exactly that op by the parent.
std::string historyChild(uint64_t seed, int limit, int maxOps) {
  vh::Rng rng(seed);
  std::string out;
  int done = 0;
  const auto ctx = genContext(rng, true);
  const auto text0 = genText(rng, rng.chance(1, 2), 6);
  auto pending = [&](const std::string& op) {
    if (done == limit) { out += "PENDING\t" + op + "\n"; return true; }
    return false;
  };
  const std::string resetOp = "c17 reset " + ctx.Line() + " " + hex(text0);
  if (pending(resetOp)) return out;
  RefsManager mgr{ ctx };
  std::string text = mgr.Resolve(text0);
  out += resetOp + "\t" + stateStr(text, mgr.get()) + "\n"; ++done;
  const int nOps = rng.range(1, maxOps);
  for (int i = 0; i < nOps; ++i) {
    const int len = SizeInCodePoints(text);
    const int kind = rng.range(0, 9);
    if (kind < 3) {
      std::string refStr;
      Reference ref;
      for (int t = 0; t < 20 && !ref.IsValid(); ++t) { refStr = genReference(rng, rng.chance(1, 2)); ref = Reference::Parse(refStr); }
      if (!ref.IsValid()) continue;
      int where = rng.range(0, len + 1);
      if (rng.chance(1, 3) && !mgr.get().empty()) {   // aim at the borders of an existing reference
        const auto& r = rng.pick(mgr.get());
        where = rng.pick(std::vector<int>{ r.position.start - 1, r.position.start, r.position.start + 1,
                                           r.position.finish - 1, r.position.finish, r.position.finish + 1 });
        where = std::max(0, where);
      }
      const std::string op = "c17 ins " + hex(refStr) + " " + std::to_string(where);
      if (pending(op)) return out;
      const auto* res = mgr.Insert(ref, where);
      std::string r = "null";
      if (res != nullptr) {
        r = "ok:" + std::to_string(res - mgr.get().data());
        text = insertText(text, where, res->resolvedText);
      }
      out += op + "\t" + r + " " + stateStr(text, mgr.get()) + "\n"; ++done;
    } else if (kind < 7) {
      int a = rng.range(0, len + 1), b = rng.range(0, len + 1);
      if (a > b) std::swap(a, b);
      if (rng.chance(1, 2) && !mgr.get().empty()) {
        const auto& r = rng.pick(mgr.get());
        const std::vector<int> pts = { r.position.start - 1, r.position.start, r.position.start + 1,
                                       r.position.finish - 1, r.position.finish, r.position.finish + 1 };
        a = std::max(0, rng.pick(pts)); b = std::max(0, rng.pick(pts));
        if (rng.chance(1, 3)) b = std::max(0, rng.pick(mgr.get()).position.finish + rng.range(-1, 1));
        if (a > b) std::swap(a, b);
      }
      const bool expand = rng.chance(1, 3);
      const std::string op = "c17 erase " + std::to_string(a) + " " + std::to_string(b) + " " + (expand ? "1" : "0");
      if (pending(op)) return out;
      const auto res = mgr.EraseIn(StrRange{ a, b }, expand);
      std::string r = "none";
      if (res.has_value()) {
        r = std::to_string(res->start) + ":" + std::to_string(res->finish);
        text = eraseText(text, res->start, res->finish);
      }
      out += op + "\t" + r + " " + stateStr(text, mgr.get()) + "\n"; ++done;
    } else if (kind < 8) {
      int a = rng.range(0, len + 1), b = rng.range(0, len + 1);
      if (a > b) std::swap(a, b);
      const std::string op = "c17 first " + std::to_string(a) + " " + std::to_string(b);
      if (pending(op)) return out;
      const auto* res = mgr.FirstIn(StrRange{ a, b });
      out += op + "\t" + (res == nullptr ? std::string("null") : std::to_string(res - mgr.get().data())) + "\n"; ++done;
    } else {
      int a = rng.range(0, len), b = rng.range(0, len);
      if (a > b) std::swap(a, b);
      if (rng.chance(1, 3)) { a = 0; b = len; }
      const std::string op = "c17 out " + std::to_string(a) + " " + std::to_string(b);
      if (pending(op)) return out;
      out += op + "\t" + hex(mgr.OutputRefs(text, StrRange{ a, b })) + "\n"; ++done;
    }
  }
  return out;
}

void emitLines(const std::string& lines, bool withPending, const std::string& pendingResult) {
  size_t pos = 0;
  while (pos < lines.size()) {
    const auto nl = lines.find('\n', pos);
    const auto line = lines.substr(pos, nl - pos);
    pos = nl + 1;
    if (line.rfind("PENDING\t", 0) == 0) {
      if (withPending) emit(line.substr(8), pendingResult);
    } else {
      std::fputs(line.c_str(), stdout); std::fputc('\n', stdout);
    }
  }
}

void runHistory(uint64_t seed, int maxOps) {
  const auto all = vh::forked([&]() { return historyChild(seed, 1 << 20, maxOps); }, 60);
  if (all.rfind("fault:", 0) != 0) { emitLines(all, false, ""); return; }
  // find the first op that faults: largest limit that still succeeds
  std::string good;
  for (int limit = 0; limit <= maxOps + 1; ++limit) {
    const auto r = vh::forked([&]() { return historyChild(seed, limit, maxOps); }, 60);
    if (r.rfind("fault:", 0) == 0) { emitLines(good, true, r); return; }
    good = r;
  }
  emitLines(good, false, "");
}

} // namespace

int main() {
  vh::Rng rng(vh::seedFromEnv());
  const bool deep = vh::thorough();

  // (0) regression corpus, run first in every tier and for every seed: the inputs on which the
  //     code failed the property before the three `fix:` commits to Reference.cpp
  //     (scanner stepping over `@@{`, empty last field => std::terminate, std::stoi out_of_range,
  //     offset narrowed to int16_t), with neighbours; fixed context and substitution.
  {
    const std::vector<std::string> corpus = {
      "x@@{X1|nomn,sing}", "@@{X1|nomn}", "@@@{X1|nomn}", "a@@{-1|b}@@{X1|sing}", "@{X1|nomn}@@{X2|sing}", "@\xC3\xA9@{X1|nomn}",
      "a @{X1|nomn|} b", "@{X1|nomn|sing|}", "@{X1||}", "@{a||}", "@{X1|nomn|} @{X2|sing|0}",
      "a @{99999999999|x} b", "@{2147483648|x}", "@{-2147483649|x}", "@{123456789012345678901234567890|x}",
      "@{70000|x}", "@{65537|x} @{X1|nomn}", "@{-65535|x} @{X1|nomn}", "@{32768|x}", "@{-32769|x} @{X1|nomn}",
      "@{32767|x} @{X1|nomn}", "@{-32768|x}", "@{X1|nomn} @{-65537|x}" };
    Context ctx;
    ctx.Add("X1", TermSpec{ "Test", {} });
    ctx.Add("X2", TermSpec{ "", {} });
    const auto shared = std::make_shared<Context>(ctx);
    const Subst subst = { { "X1", "X11" }, { "X2", "X2" } };
    for (const auto& raw : corpus) {
      const std::string text = raw;
      const auto h = hex(text);
      std::vector<Op> ops;
      ops.emplace_back("c17 parse " + h, [=]() { return opParse(text); });
      ops.emplace_back("c17 extract " + h, [=]() { return opExtract(text); });
      ops.emplace_back("c17 resolve " + shared->Line() + " " + h, [=]() { return opResolve(*shared, text); });
      ops.emplace_back("c17 output " + shared->Line() + " " + h, [=]() { return opOutput(*shared, text); });
      ops.emplace_back("c17 translate " + substLine(subst) + " " + h, [=]() { return opTranslate(subst, text); });
      ops.emplace_back("c17 referals " + h, [=]() { return opReferals(text); });
      runGroup(ops);
    }
  }

  // (1) the tag table: every grammeme name, alone and in pairs, in both spellings
  {
    std::vector<Op> ops;
    std::vector<std::string> all = kTags;
    all.insert(all.end(), kBadTags.begin(), kBadTags.end());
    for (const auto& t : all) {
      for (const std::string s : { "@{X1|" + t + "}", "@{X1|" + t + "|sing}", "@{X1|sing|" + t + "|0}", "@{X1|plur, " + t + " ,sing}" }) {
        if (s.find("||") != std::string::npos || s.find("|}") != std::string::npos) continue;   // empty last field: see (3)
        ops.emplace_back("c17 parse " + hex(s), [s]() { return opParse(s); });
      }
    }
    runGroup(ops);
  }

  // (2) the scanner, exhaustively: every string of <= L symbols over {@ { } a | é}
  {
    const std::vector<std::string> alpha = { "@", "{", "}", "a", "|", "\xC3\xA9" };
    const int L = deep ? 7 : 6;
    std::vector<std::string> layer = { "" };
    std::vector<Op> ops;
    for (int len = 0; len <= L; ++len) {
      for (const auto& s : layer) ops.emplace_back("c17 extract " + hex(s), [s]() { return opExtract(s); });
      if (len == L) break;
      std::vector<std::string> next;
      for (const auto& s : layer) for (const auto& c : alpha) next.push_back(s + c);
      layer.swap(next);
    }
    for (size_t i = 0; i < ops.size(); i += 4096)
      runGroup(std::vector<Op>(ops.begin() + static_cast<std::ptrdiff_t>(i),
                               ops.begin() + static_cast<std::ptrdiff_t>(std::min(ops.size(), i + 4096))));
  }

  // (3) fixed corner cases of the reference grammar (Parse on one candidate)
  {
    const std::vector<std::string> fixed = {
      "", "@{}", "@{ }", "@{|}", "@{ | }", "@{ || }", "@{-1a|text}", "invalid", "@{X1}", "@{X1|}", "@{X1|nomn}",
      "@{X1|nomn,sing}", "@{X1|nomn|sing}", "@{X1|nomn|sing|0}", "@{X1|nomn|sing|plur}", "@{X1|nomn|sing|plur|0}",
      "@{X1|nomn|}", "@{X1|nomn|sing|}", "@{X1||}", "@{X1|||}", "@{X1|nomn||sing}", "@{X1|0}", "@{X1|0|nomn}",
      "@{X1|nomn|1per}", "@{X1|1per}", "@{1per|nomn}", "@{-|x}", "@{--1|x}", "@{+1|x}", "@{1|}", "@{1|x|y}", "@{0|x}",
      "@{-0|x}", "@{007|x}", "@{32767|x}", "@{32768|x}", "@{-32768|x}", "@{-32769|x}", "@{65536|x}", "@{65537|x}",
      "@{70000|x}", "@{2147483647|x}", "@{2147483648|x}", "@{-2147483648|x}", "@{-2147483649|x}", "@{99999999999|x}",
      "@{\xC3\xA9|nomn}", "@{X\xC3\xA9|nomn}", "@{X1|\xD0\xB6,nomn}", "@{X1| nomn , sing }", "@{X1|nomn,nomn,nomn}",
      "@{X1|UNKN}", "@{X1|UNKN,sing}", "@{X1|sing,UNKN}", "@{ X1|nomn}", "@{X1 |nomn}", "@{_|nomn}", "@{x|NOUN,nomn,sing,masc}" };
    std::vector<Op> ops;
    for (const auto& s : fixed) ops.emplace_back("c17 parse " + hex(s), [s]() { return opParse(s); });
    runGroup(ops);
  }

  // (4) generated texts (all kinds of pieces), every text with its own context / substitution
  {
    const std::vector<std::string> seeds = { "x@@{X1|nomn,sing}", "a @{X1|nomn|} b", "a @{99999999999|x} b", "@{70000|x}",
      "@{65537|x} @{X1|nomn}", "42 @{X1|sing,nomn} 43 @{-1|basic} 44 @{X1|sing,nomn} 45", "@{X1|nomn}@{X2|sing}",
      "@{2|a}@{1|b}@{X1|nomn}@{-1|c}@{-2|d}@{X2|datv}@{-2|e}", "@{X1|nomn", "@", "a@", "@{X1|@{X2|nomn}}",
      "a @{X{|nomn,}} b", "a @{X{|nomn} b", "@{X1|nomn,}} b" };
    for (const auto& s : seeds) textOps(rng, s, false);
    const int n = deep ? 14000 : 2400;
    for (int i = 0; i < n; ++i) textOps(rng, genText(rng, false, deep ? 10 : 7), false);
    const int m = deep ? 7000 : 1200;
    for (int i = 0; i < m; ++i) textOps(rng, genText(rng, true, deep ? 10 : 7), true);
  }

  // (5) malformed UTF-8 around reference markers: model is a byte-level transcription, must agree
  {
    static const std::vector<std::string> bytes = { "\x80", "\xBF", "\xC3", "\xE2", "\xF0", "\xFF", "a", "@", "{", "}",
                                                    "|", "@{X1|nomn}", "@{-1|x}" };
    const int n = deep ? 6000 : 1000;
    for (int i = 0; i < n; ++i) {
      std::string s; const int k = rng.range(1, 6);
      for (int j = 0; j < k; ++j) s += rng.pick(bytes);
      textOps(rng, s, true);
    }
  }

  // (6) insert / erase histories over resolved texts
  {
    const int n = deep ? 8000 : 1500;
    for (int i = 0; i < n; ++i) runHistory(rng.next(), deep ? 12 : 10);
  }
  return 0;
}
