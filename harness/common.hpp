// Shared helpers for the correspondence harnesses: one PRNG, hex, line emission, forked runs.
#pragma once
#include <cstdint>
#include <cstdio>
#include <cstdlib>
#include <cstring>
#include <string>
#include <string_view>
#include <vector>
#include <functional>
#include <sstream>
#include <unistd.h>
#include <sys/wait.h>
#include <csignal>

namespace vh {

struct Rng {
  uint64_t s;
  // the seed is hashed first: consecutive seeds must not give shifted copies of one stream
  explicit Rng(uint64_t seed) : s(mix(mix(seed ^ 0xD1B54A32D192ED03ULL) + 0x9E3779B97F4A7C15ULL)) {}
  static uint64_t mix(uint64_t z) {
    z = (z ^ (z >> 30)) * 0xBF58476D1CE4E5B9ULL;
    z = (z ^ (z >> 27)) * 0x94D049BB133111EBULL;
    return z ^ (z >> 31);
  }
  uint64_t next() {
    uint64_t z = (s += 0x9E3779B97F4A7C15ULL);
    z = (z ^ (z >> 30)) * 0xBF58476D1CE4E5B9ULL;
    z = (z ^ (z >> 27)) * 0x94D049BB133111EBULL;
    return z ^ (z >> 31);
  }
  uint32_t below(uint32_t n) { return n == 0 ? 0 : static_cast<uint32_t>(next() % n); }
  int range(int lo, int hi) { return lo + static_cast<int>(below(static_cast<uint32_t>(hi - lo + 1))); }
  bool chance(int num, int den) { return below(static_cast<uint32_t>(den)) < static_cast<uint32_t>(num); }
  template<class T> const T& pick(const std::vector<T>& v) { return v[below(static_cast<uint32_t>(v.size()))]; }
};

inline uint64_t seedFromEnv() {
  const char* s = std::getenv("VERIF_SEED");
  return s ? std::strtoull(s, nullptr, 10) : 1;
}
inline bool thorough() {
  const char* s = std::getenv("VERIF_TIER");
  return s && std::string(s) == "thorough";
}

inline std::string hex(std::string_view s) {
  if (s.empty()) return "-";
  static const char* d = "0123456789abcdef";
  std::string out;
  for (unsigned char c : s) { out.push_back(d[c >> 4]); out.push_back(d[c & 15]); }
  return out;
}
inline std::string unhex(const std::string& h) {
  if (h == "-") return {};
  std::string out;
  auto v = [](char c) { return c <= '9' ? c - '0' : (c | 32) - 'a' + 10; };
  for (size_t i = 0; i + 1 < h.size(); i += 2) out.push_back(static_cast<char>(v(h[i]) * 16 + v(h[i + 1])));
  return out;
}

// one case: "<op line>\t<impl result>"
inline void emit(const std::string& op, const std::string& res) {
  std::fputs(op.c_str(), stdout); std::fputc('\t', stdout); std::fputs(res.c_str(), stdout); std::fputc('\n', stdout);
}

// Run f in a forked child; its stdout text is returned. A signal, sanitizer abort, escaped
// exception or timeout is reported as "fault:<kind>" (an observation, not a harness crash).
inline std::string forked(const std::function<std::string()>& f, int timeoutSec = 10) {
  int fd[2];
  if (pipe(fd) != 0) return "fault:pipe";
  fflush(stdout);
  pid_t pid = fork();
  if (pid == 0) {
    close(fd[0]);
    alarm(static_cast<unsigned>(timeoutSec));
    std::string r;
    try { r = f(); }
    catch (const std::exception& e) { r = std::string("fault:exception:") + typeid(e).name(); }
    catch (...) { r = "fault:exception:unknown"; }
    (void)!write(fd[1], r.data(), r.size());
    close(fd[1]);
    _exit(0);
  }
  close(fd[1]);
  std::string out; char buf[4096]; ssize_t n;
  while ((n = read(fd[0], buf, sizeof buf)) > 0) out.append(buf, static_cast<size_t>(n));
  close(fd[0]);
  int st = 0; waitpid(pid, &st, 0);
  if (WIFSIGNALED(st)) {
    int sig = WTERMSIG(st);
    return std::string("fault:signal:") + (sig == SIGALRM ? "timeout" : sig == SIGSEGV ? "segv" : sig == SIGABRT ? "abort" : std::to_string(sig));
  }
  if (WIFEXITED(st) && WEXITSTATUS(st) != 0) return "fault:exit:" + std::to_string(WEXITSTATUS(st));
  return out;
}

// Run a whole history in a forked child whose stdout (the emitted case lines) is relayed; if the
// child dies, the complete lines it produced are kept and one extra line
// "<crashOp>\tfault:<kind>" records the crash as an observation.
inline void forkedEmit(const std::function<void()>& f, const std::string& crashOp, int timeoutSec = 120) {
  int fd[2];
  if (pipe(fd) != 0) { emit(crashOp, "fault:pipe"); return; }
  fflush(stdout);
  pid_t pid = fork();
  if (pid == 0) {
    close(fd[0]);
    dup2(fd[1], 1);
    close(fd[1]);
    alarm(static_cast<unsigned>(timeoutSec));
    int rc = 0;
    try { f(); }
    catch (const std::exception& e) { fflush(stdout); printf("%s\tfault:exception:%s\n", crashOp.c_str(), typeid(e).name()); }
    catch (...) { fflush(stdout); printf("%s\tfault:exception:unknown\n", crashOp.c_str()); }
    fflush(stdout);
    _exit(rc);
  }
  close(fd[1]);
  std::string out; char buf[65536]; ssize_t n;
  while ((n = read(fd[0], buf, sizeof buf)) > 0) out.append(buf, static_cast<size_t>(n));
  close(fd[0]);
  int st = 0; waitpid(pid, &st, 0);
  const auto lastNl = out.rfind('\n');
  if (lastNl == std::string::npos) out.clear(); else out.resize(lastNl + 1);
  fputs(out.c_str(), stdout);
  if (WIFSIGNALED(st)) {
    const int sig = WTERMSIG(st);
    emit(crashOp, std::string("fault:signal:") + (sig == SIGALRM ? "timeout" : sig == SIGSEGV ? "segv" : sig == SIGABRT ? "abort" : std::to_string(sig)));
  } else if (WIFEXITED(st) && WEXITSTATUS(st) != 0) {
    emit(crashOp, "fault:exit:" + std::to_string(WEXITSTATUS(st)));
  }
}

} // namespace vh
