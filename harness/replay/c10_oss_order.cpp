// Replay (not part of a check run) of Properties/C10.lean `oss_connection_order_counterexample`:
// a schema reached by save -> load with rearranged connections (each child's two parents in order; an admissible
// C19 history), saved and loaded again: the `connections` array / ExecuteOrder of the second schema differ in order.
#include <iostream>
#include <string>
#include "ccl/tools/JSON.h"
#include "ccl/oss/OSSchema.h"
using JSON = nlohmann::ordered_json;
using ccl::oss::OSSchema;

static std::string order(const OSSchema& o) {
  std::string out;
  for (const auto c : o.Graph().ExecuteOrder()) { out += std::to_string(c); for (const auto p : o.Graph().ParentsOf(c)) out += ">" + std::to_string(p); out += ";"; }
  return out;
}
int main() {
  JSON items = JSON::array();
  const int pos[8][2] = { {0,0},{0,1},{0,2},{0,3},{0,4},{1,3},{1,1},{2,1} };
  for (int u = 1; u <= 8; ++u) {
    JSON it = { {"pictUID", u}, {"dataType", "schema"}, {"title", ""}, {"alias", ""}, {"comment", ""},
                {"position", { {"row", pos[u-1][0]}, {"column", pos[u-1][1]} }} };
    if (u >= 6) it["attachedOperation"] = { {"operationType", "rsSynt"}, {"isBroken", false}, {"isOutdated", false} };
    items += it;
  }
  // the document of the schema 6 = 4+5, 7 = 2+3, 8 = 1+6 with its connections rearranged
  JSON doc0 = { {"type", "oss"}, {"title", "t"}, {"comment", ""}, {"sourceDomain", ""}, {"items", items}, {"layout", JSON::array()},
                {"connections", JSON::array({ JSON::array({8,1}), JSON::array({7,2}), JSON::array({8,6}), JSON::array({7,3}), JSON::array({6,4}), JSON::array({6,5}) })} };
  OSSchema o1; doc0.get_to(o1);
  const JSON j1 = o1;
  OSSchema o2; JSON::parse(j1.dump()).get_to(o2);
  const JSON j2 = o2;
  OSSchema o3; JSON::parse(j2.dump()).get_to(o3);
  const JSON j3 = o3;
  std::cout << "o1 order " << order(o1) << "\nj1 connections " << j1["connections"].dump() << "\n";
  std::cout << "o2 order " << order(o2) << "\nj2 connections " << j2["connections"].dump() << "\n";
  std::cout << "o3 order " << order(o3) << "\nj3 connections " << j3["connections"].dump() << "\n";
  std::cout << "connections equal (save, load, save): " << (j1["connections"] == j2["connections"] ? "yes" : "NO") << "\n";
  return 0;
}
