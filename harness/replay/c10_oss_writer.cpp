// Replay (not part of a check run) of Properties/C10.lean `oss_stable_reachable` on the real code, history `histErase`:
// insert, insert, operation, insert, operation, erase, save -> load (document as written), operation over the
// loaded schema, ExecuteAll, save -> load, save: the `connections` arrays of consecutive documents are identical,
// in order (the class `writerReloads`: every reload loads what the writer emitted).
#include <iostream>
#include <string>
#include "ccl/tools/JSON.h"
#include "ccl/oss/OSSchema.h"
using JSON = nlohmann::ordered_json;
using ccl::oss::OSSchema;

static std::string order(const OSSchema& o) {
  std::string out;
  for (const auto c : o.Graph().ExecuteOrder()) { out += std::to_string(c); for (const auto p : o.Graph().ParentsOf(c)) out += ">" + std::to_string(p); out += ";"; }
  return out;
}
int main() {
  bool all = true;
  OSSchema o0;
  const auto a = o0.InsertBase()->uid, b = o0.InsertBase()->uid;
  const auto p = o0.InsertOperation(a, b)->uid;
  const auto d = o0.InsertBase()->uid;
  const auto c = o0.InsertOperation(p, d)->uid;
  std::cout << "erase top: " << o0.Erase(c) << "\n";
  const JSON j0 = o0;
  OSSchema o1; JSON::parse(j0.dump()).get_to(o1);
  const JSON j1 = o1;
  std::cout << "j0 connections " << j0["connections"].dump() << "\nj1 connections " << j1["connections"].dump() << "\n";
  all = all && j0["connections"] == j1["connections"];
  const auto* q = o1.InsertOperation(p, d);
  std::cout << "operation over the loaded schema: " << (q != nullptr) << "\n";
  o1.Ops().ExecuteAll();
  const JSON j2 = o1;
  OSSchema o2; JSON::parse(j2.dump()).get_to(o2);
  const JSON j3 = o2;
  OSSchema o3; JSON::parse(j3.dump()).get_to(o3);
  const JSON j4 = o3;
  std::cout << "o1 order " << order(o1) << "\nj2 connections " << j2["connections"].dump() << "\n";
  std::cout << "o2 order " << order(o2) << "\nj3 connections " << j3["connections"].dump() << "\n";
  std::cout << "o3 order " << order(o3) << "\nj4 connections " << j4["connections"].dump() << "\n";
  all = all && j2["connections"] == j3["connections"] && j3["connections"] == j4["connections"];
  std::cout << "connections equal along save, load, save: " << (all ? "yes" : "NO") << "\n";
  return all ? 0 : 1;
}
